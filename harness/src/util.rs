use std::panic::{catch_unwind, AssertUnwindSafe};

/// Runs `f`, turning a panic into `Err(message)`.
pub fn guarded<T>(f: impl FnOnce() -> T) -> Result<T, String> {
    catch_unwind(AssertUnwindSafe(f)).map_err(|e| {
        if let Some(s) = e.downcast_ref::<&str>() {
            (*s).to_string()
        } else if let Some(s) = e.downcast_ref::<String>() {
            s.clone()
        } else {
            "panic".to_string()
        }
    })
}

pub fn coq_bytes(bs: &[u8]) -> String {
    let v: Vec<String> = bs.iter().map(|b| b.to_string()).collect();
    format!("[{}]", v.join(";"))
}

pub fn coq_string(s: &str) -> String {
    format!("\"{}\"", s.replace('"', "\"\""))
}

// ---------------------------------------------------------------------------------------------
// symbolic values: canonical ids, text format `(Tag [attr ...] child ...)`

use std::collections::HashMap;

use ethnum::U256;
use storage_layout_extractor::vm::value::{Provenance, RuntimeBoxedVal, RSV, RSVD};

/// Renames uuids by first occurrence. Uuids that were built from a small integer -- by the parser
/// (`Uuid::from_u128(n)`) or by the deterministic identity hook H2 -- keep that integer; random
/// uuids are numbered from 2^63 + 1_000_000 upwards in order of first occurrence.
#[derive(Default)]
pub struct Ids {
    map:  HashMap<uuid::Uuid, u64>,
    next: u64,
}

impl Ids {
    pub fn get(&mut self, id: &uuid::Uuid) -> u64 {
        let n = id.as_u128();
        if n < (1u128 << 63) {
            return n as u64;
        }
        if let Some(k) = self.map.get(id) {
            return *k;
        }
        let k = (1u64 << 63) + 1_000_000 + self.next;
        self.next += 1;
        self.map.insert(*id, k);
        k
    }
}

pub fn parse_u256(s: &str) -> Result<U256, String> {
    if let Some(h) = s.strip_prefix("0x") {
        U256::from_str_radix(h, 16).map_err(|e| format!("{e:?}"))
    } else {
        U256::from_str_radix(s, 10).map_err(|e| format!("{e:?}"))
    }
}

pub struct SexpParser<'a> {
    toks: Vec<&'a str>,
    pos:  usize,
}

impl<'a> SexpParser<'a> {
    pub fn new(s: &'a str) -> Self {
        let mut toks = vec![];
        let mut i = 0;
        let b = s.as_bytes();
        while i < b.len() {
            let c = b[i] as char;
            if c.is_whitespace() {
                i += 1;
            } else if "()[]".contains(c) {
                toks.push(&s[i..=i]);
                i += 1;
            } else {
                let st = i;
                while i < b.len() && !(b[i] as char).is_whitespace() && !"()[]".contains(b[i] as char) {
                    i += 1;
                }
                toks.push(&s[st..i]);
            }
        }
        Self { toks, pos: 0 }
    }

    fn next(&mut self) -> Result<&'a str, String> {
        let t = self.toks.get(self.pos).copied().ok_or("unexpected end")?;
        self.pos += 1;
        Ok(t)
    }

    fn peek(&self) -> Option<&'a str> {
        self.toks.get(self.pos).copied()
    }

    pub fn at_end(&self) -> bool {
        self.pos >= self.toks.len()
    }

    /// `(Tag [attrs] kids...)` -> value; sizes are computed by the library's own constructor
    pub fn value(&mut self, limit: Option<usize>) -> Result<RuntimeBoxedVal, String> {
        if self.next()? != "(" {
            return Err("expected (".into());
        }
        let tag = self.next()?;
        if self.next()? != "[" {
            return Err("expected [".into());
        }
        let mut attrs = vec![];
        loop {
            let t = self.next()?;
            if t == "]" {
                break;
            }
            attrs.push(parse_u256(t)?);
        }
        let mut kids = vec![];
        while self.peek() == Some("(") {
            kids.push(self.value(limit)?);
        }
        if self.next()? != ")" {
            return Err("expected )".into());
        }
        let data: RSVD = crate::gen_sv::build_svd(tag, &attrs, kids)?;
        Ok(RSV::new(0, data, Provenance::Synthetic, limit))
    }
}

pub fn parse_value(s: &str) -> Result<RuntimeBoxedVal, String> {
    let mut p = SexpParser::new(s);
    let v = p.value(None)?;
    if !p.at_end() {
        return Err("trailing tokens".into());
    }
    Ok(v)
}

// ---------------------------------------------------------------------------------------------
// a counting watchdog answering "stop" from the k-th poll on, with a hard budget so that a
// non-terminating analysis is observed as "budget exceeded" instead of a hang

use std::cell::Cell;

use storage_layout_extractor::watchdog::Watchdog;

#[derive(Debug)]
pub struct CountingWatchdog {
    pub polls:      Cell<u64>,
    pub stop_at:    Option<u64>,
    pub budget:     u64,
    pub every:      usize,
    pub over_budget: Cell<bool>,
    pub deadline:   std::time::Instant,
}

/// wall-clock allowance for one input (seconds); a run that is still polling after that is reported as
/// "budget exceeded" (treated as non-termination by the checks)
pub const INPUT_SECONDS: u64 = 25;

impl CountingWatchdog {
    pub fn new(every: usize, stop_at: Option<u64>, budget: u64) -> Self {
        Self {
            polls: Cell::new(0),
            stop_at,
            budget,
            every,
            over_budget: Cell::new(false),
            deadline: std::time::Instant::now() + std::time::Duration::from_secs(INPUT_SECONDS),
        }
    }
}

impl Watchdog for CountingWatchdog {
    fn should_stop(&self) -> bool {
        let k = self.polls.get();
        self.polls.set(k + 1);
        if k >= self.budget || (k % 256 == 0 && std::time::Instant::now() > self.deadline) || self.over_budget.get() {
            self.over_budget.set(true);
            return true;
        }
        matches!(self.stop_at, Some(s) if k >= s)
    }

    fn poll_every(&self) -> usize {
        self.every
    }
}

pub fn exec_err_idx(e: &storage_layout_extractor::error::execution::Error) -> u32 {
    use storage_layout_extractor::error::execution::Error as E;
    match e {
        E::InstructionPointerOutOfBounds { .. } => 0,
        E::StackDepthExceeded { .. } => 1,
        E::NoSuchStackFrame { .. } => 2,
        E::NoSuchThread => 3,
        E::InvalidStep => 4,
        E::InvalidOffsetForJump { .. } => 5,
        E::InvalidJumpTarget { .. } => 6,
        E::NonExistentJumpTarget { .. } => 7,
        E::NoConcreteJumpDestination => 8,
        E::GasLimitExceeded => 9,
        E::NotJumpTarget { .. } => 10,
        E::NotJumpSource { .. } => 11,
        E::StoppedByWatchdog => 12,
    }
}
