use std::panic::{catch_unwind, AssertUnwindSafe};

/// Runs `f`, turning a panic into `Err(message)`.
pub fn guarded<T>(f: impl FnOnce() -> T) -> Result<T, String> {
    catch_unwind(AssertUnwindSafe(f)).map_err(|e| {
        if let Some(s) = e.downcast_ref::<&str>() {
            (*s).to_string()
        } else if let Some(s) = e.downcast_ref::<String>() {
            s.clone()
        } else {
            "panic".to_string()
        }
    })
}

pub fn coq_bytes(bs: &[u8]) -> String {
    let v: Vec<String> = bs.iter().map(|b| b.to_string()).collect();
    format!("[{}]", v.join(";"))
}

pub fn coq_string(s: &str) -> String {
    format!("\"{}\"", s.replace('"', "\"\""))
}
