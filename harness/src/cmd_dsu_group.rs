//! `dsu-group <probe ops>`: the exhaustive part of the C19 check in a compact form.  One input line is a
//! history prefix and a list of alternative next operations; every alternative is run on a clone of the
//! state after the prefix and followed by the probe operations given as the argument.
//!
//! input line:  `<set|multi> <prefix ops>|<alt op>|<alt op>|...`      (the prefix may be empty)
//! output line: `mk_gcase <insert_guarded> <MSet|MMulti> [prefix] [prefix outs] [(alt, [alt out; probe outs...]); ...]`
//! (DsuCases.check_gcase evaluates `prefix ++ [alt] ++ probe` with check_case for every alternative.)

use std::{collections::HashSet, io::Write};

use storage_layout_extractor::data::disjoint_set::DisjointSet;

use crate::{
    cmd_dsu::{apply, op_term, parse_op, parse_ops, probe_insert_guarded, HData, Multi, Op},
    util::guarded,
};

fn run_group<D: HData>(prefix: &[Op], alts: &[Op], probe: &[Op]) -> (Vec<String>, Vec<(String, Vec<String>)>) {
    let mut ds: DisjointSet<usize, D> = DisjointSet::new();
    let mut pouts = vec![];
    for op in prefix {
        match guarded(|| apply(&mut ds, op)) {
            Ok(o) => pouts.push(o),
            Err(_) => {
                pouts.push("XPanic".to_string());
                return (pouts, vec![]);
            }
        }
    }
    let mut res = vec![];
    for alt in alts {
        let mut c = ds.clone();
        let mut outs = vec![];
        for op in std::iter::once(alt).chain(probe.iter()) {
            match guarded(|| apply(&mut c, op)) {
                Ok(o) => outs.push(o),
                Err(_) => {
                    outs.push("XPanic".to_string());
                    break;
                }
            }
        }
        res.push((op_term(alt), outs));
    }
    (pouts, res)
}

pub fn run(args: &[String], lines: &mut dyn Iterator<Item = String>, out: &mut dyn Write) {
    let probe = parse_ops(args.first().map(String::as_str).unwrap_or("")).expect("probe operations");
    let guard = matches!(probe_insert_guarded(), Some(true));
    for line in lines {
        let line = line.trim();
        let (monoid, rest) = line.split_once(' ').unwrap_or((line, ""));
        let mut parts = rest.split('|');
        let prefix = parse_ops(parts.next().unwrap_or(""));
        let alts: Result<Vec<Op>, String> = parts.map(parse_op).collect();
        let (Ok(prefix), Ok(alts)) = (prefix, alts) else {
            writeln!(out, "BADINPUT").unwrap();
            continue;
        };
        let (name, (pouts, res)) = match monoid {
            "set" => ("MSet", run_group::<HashSet<u32>>(&prefix, &alts, &probe)),
            "multi" => ("MMulti", run_group::<Multi>(&prefix, &alts, &probe)),
            _ => {
                writeln!(out, "BADINPUT").unwrap();
                continue;
            }
        };
        let pre: Vec<String> = prefix.iter().map(op_term).collect();
        let alts_t: Vec<String> = res.iter().map(|(a, o)| format!("({a},[{}])", o.join(";"))).collect();
        writeln!(out, "mk_gcase {guard} {name} [{}] [{}] [{}]", pre.join(";"), pouts.join(";"), alts_t.join(";")).unwrap();
    }
}
