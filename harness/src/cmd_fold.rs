//! `fold`: one value tree per line in the `(Tag [attrs] kids...)` syntax -> what the REAL
//! `SymbolicValue::constant_fold()` returns, as a Coq term
//! `(mk_fcase <input as parsed> (FOk <folded> <recorded size> <folded twice>))`, or `FPanic`.
use std::io::Write;

use crate::{
    gen_sv::sv_term,
    util::{guarded, parse_value, Ids},
};

pub fn run(_args: &[String], lines: &mut dyn Iterator<Item = String>, out: &mut dyn Write) {
    for line in lines {
        let Ok(Ok(v)) = guarded(|| parse_value(&line)) else {
            writeln!(out, "BADINPUT").unwrap();
            continue;
        };
        let mut ids = Ids::default();
        let input = sv_term(&v, &mut ids);
        let r = guarded(|| {
            let once = v.constant_fold();
            let twice = once.constant_fold();
            (once, twice)
        });
        match r {
            Ok((once, twice)) => {
                let t1 = sv_term(&once, &mut ids);
                let t2 = sv_term(&twice, &mut ids);
                writeln!(out, "(mk_fcase {input} (FOk {t1} {} {t2}))", once.size()).unwrap();
            }
            Err(_) => writeln!(out, "(mk_fcase {input} FPanic)").unwrap(),
        }
    }
}
