//! `judgements`: runs the real pipeline up to and including inference (disassemble, execute, lift, assign,
//! infer) and prints the typing judgements that reach unification, as a Coq term
//! `[(var, [te; ...]); ...]` (TypeExpr.te), or `XJ <class>` when an earlier stage failed.
//! input: same line format as `analyze` (order argument honoured).
use std::{io::Write, rc::Rc};

use storage_layout_extractor::{
    data::vector_map::ToUniqueIndex,
    extractor::{
        chain::{
            version::{ChainVersion, EthereumVersion},
            Chain,
        },
        contract::Contract,
    },
    watchdog::DynWatchdog,
};

use crate::{
    cmd_merge::te_term,
    cmd_vm::parse_input,
    util::{guarded, CountingWatchdog},
};

pub fn run(_args: &[String], lines: &mut dyn Iterator<Item = String>, out: &mut dyn Write) {
    for line in lines {
        let Ok(inp) = parse_input(&line.split_whitespace().take(9).collect::<Vec<_>>().join(" ")) else {
            writeln!(out, "XJ bad-input").unwrap();
            continue;
        };
        let wd: DynWatchdog = Rc::new(CountingWatchdog::new(inp.every, None, 20_000_000));
        let r = guarded(|| -> Result<String, String> {
            storage_layout_extractor::verif::reset_ids();
            let contract = Contract::new(inp.bytes.clone(), Chain::Ethereum { version: EthereumVersion::latest() });
            let ex = storage_layout_extractor::new(contract, inp.config.clone(), crate::cmd_analyze::tc_config(), wd);
            let ex = ex.disassemble().map_err(|_| "disasm".to_string())?;
            let ex = ex.prepare_vm().map_err(|_| "vm".to_string())?;
            let ex = ex.execute().map_err(|_| "vm".to_string())?;
            let mut ex = ex.prepare_unifier();
            let st = unsafe { ex.state_mut() };
            let result = st.execution_result.clone();
            let values = st.engine.lift(result).map_err(|_| "lift".to_string())?;
            st.engine.assign_vars(values).map_err(|_| "assign".to_string())?;
            st.engine.infer().map_err(|_| "infer".to_string())?;
            let state = st.engine.state();
            let mut vars = state.variables();
            vars.sort();
            let mut rows = vec![];
            for v in vars {
                let mut es: Vec<String> = state.inferences(v).iter().map(te_term).collect();
                es.sort();
                if !es.is_empty() {
                    rows.push(format!("({},[{}])", v.index(), es.join(";")));
                }
            }
            Ok(format!("[{}]", rows.join(";")))
        });
        storage_layout_extractor::verif::random_ids();
        match r {
            Ok(Ok(t)) => writeln!(out, "{t}").unwrap(),
            Ok(Err(stage)) => writeln!(out, "XJ {stage}").unwrap(),
            Err(_) => writeln!(out, "XJ panic").unwrap(),
        }
    }
}
