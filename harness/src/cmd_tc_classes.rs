//! `tc-classes`: for a program line (same format as `analyze`) runs the real pipeline to the end through the
//! staged public API (lift, assign_vars, infer, unify) and dumps, for every constant storage slot, the classes
//! that `abi_type_for` can reach from the slot's type variable with their resolved type expression (the real
//! `TypeChecker::type_of`), as Coq terms of `TypeExpr.te`.
//!
//! Output: a Coq term of type `kcase` (coq/TcCases.v):
//!   `KC class layout [(slot index, slot variable, [(variable, Some te | None)...])...]`
//!   class: 0 = layout returned, 1 = structured error, 2 = panic, 3 = poll budget exceeded.
//! `None` = `type_of` returned an error for that variable.
use std::{collections::BTreeSet, io::Write, rc::Rc};

use storage_layout_extractor::{
    data::vector_map::ToUniqueIndex,
    error,
    extractor::{
        chain::{version::{ChainVersion, EthereumVersion}, Chain},
        contract::Contract,
    },
    tc::expression::TE,
    verif::{set_order_mode, OrderMode},
    vm::value::TCSVD,
    watchdog::DynWatchdog,
    StorageLayout,
};

use crate::{
    cmd_analyze::{layout_term, parse_order, tc_config},
    cmd_register::te_term,
    cmd_vm::parse_input,
    util::{guarded, CountingWatchdog},
};

pub fn run(_args: &[String], lines: &mut dyn Iterator<Item = String>, out: &mut dyn Write) {
    for line in lines {
        let inp = match parse_input(&line.split_whitespace().take(9).collect::<Vec<_>>().join(" ")) {
            Ok(i) => i,
            Err(e) => {
                writeln!(out, "BADINPUT {e}").unwrap();
                continue;
            }
        };
        let order = line.split_whitespace().nth(10).unwrap_or("sorted").to_string();
        let wd = Rc::new(CountingWatchdog::new(inp.every, inp.stop_at, 20_000_000));
        let dynwd: DynWatchdog = wd.clone();
        let contract = Contract::new(inp.bytes.clone(), Chain::Ethereum { version: EthereumVersion::latest() });
        set_order_mode(parse_order(&order));
        storage_layout_extractor::verif::reset_ids();
        let r = guarded(|| -> Result<(StorageLayout, String), error::Errors> {
            let ex = storage_layout_extractor::new(contract, inp.config.clone(), tc_config(), dynwd);
            let ex = ex.disassemble()?;
            let ex = ex.prepare_vm()?;
            let ex = ex.execute()?;
            let mut ex = ex.prepare_unifier();
            let st = unsafe { ex.state_mut() };
            let result = st.execution_result.clone();
            let values = st.engine.lift(result)?;
            st.engine.assign_vars(values)?;
            st.engine.infer()?;
            let layout = st.engine.unify()?;
            // the constant storage slots, as `unify` selects them
            let mut slots: Vec<(String, usize)> = st
                .engine
                .state()
                .values()
                .into_iter()
                .filter_map(|v| match v.data() {
                    TCSVD::StorageSlot { key } => match key.data() {
                        TCSVD::KnownData { value } => Some((value.value_le().to_string(), v.aux_data().index())),
                        _ => None,
                    },
                    _ => None,
                })
                .collect();
            slots.sort_by_key(|(_, v)| *v);
            let mut rows = vec![];
            for (index, var) in slots {
                let mut seen: BTreeSet<usize> = BTreeSet::new();
                let mut todo = vec![var];
                let mut classes = vec![];
                while let Some(v) = todo.pop() {
                    if !seen.insert(v) {
                        continue;
                    }
                    let tv = crate::cmd_abi::tv(v);
                    match st.engine.type_of(tv) {
                        Ok(e) => {
                            // everything abi_type_for may visit from here
                            match &e {
                                TE::Packed { types, .. } => {
                                    for s in types.iter().rev() {
                                        todo.push(s.typ.index());
                                    }
                                }
                                TE::Mapping { key, value } => {
                                    todo.push(value.index());
                                    todo.push(key.index());
                                }
                                TE::FixedArray { element, .. } | TE::DynamicArray { element } => todo.push(element.index()),
                                TE::Equal { id } => todo.push(id.index()),
                                TE::Any | TE::Word { .. } | TE::Bytes | TE::Conflict { .. } => (),
                            }
                            classes.push(format!("({},Some {})", v, te_term(&e)));
                        }
                        Err(_) => classes.push(format!("({v},None)")),
                    }
                }
                rows.push(format!("({},{},[{}])", index, var, classes.join(";")));
            }
            Ok((layout, format!("[{}]", rows.join(";"))))
        });
        storage_layout_extractor::verif::random_ids();
        set_order_mode(OrderMode::Natural);
        match r {
            Err(_) => writeln!(out, "KC 2 [] []").unwrap(),
            Ok(_) if wd.over_budget.get() => writeln!(out, "KC 3 [] []").unwrap(),
            Ok(Ok((l, rows))) => writeln!(out, "KC 0 {} {}", layout_term(&l), rows).unwrap(),
            Ok(Err(_)) => writeln!(out, "KC 1 [] []").unwrap(),
        }
    }
}
