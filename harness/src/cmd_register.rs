//! `register`: value trees -> the REAL `TypeCheckerState::register`, in the given order -> typed trees.
//!
//! One case per line:
//!
//! ```text
//!   vals <value> ;; <value> ;; ...        values in the text form `(Tag [attrs] kids...)` (util::parse_value)
//!   prog <analyze line>                   the values the real pipeline produces up to and including lifting
//! ```
//!
//! Output: one Coq term of type `rcase` (coq/TcCases.v):
//! `RC [input values] (RR tyvar_count [root var trees] [(var, tag index, [child vars])...])`, or `RC [..] RPanic`.
//! Var trees list the children in `children()` order.  Also home of the helpers shared by the other
//! type-checker stage commands (`rules`, `abi`, `tc-classes`).
use std::{collections::VecDeque, io::Write, rc::Rc};

use storage_layout_extractor::{
    data::vector_map::ToUniqueIndex,
    error,
    extractor::{
        chain::{version::{ChainVersion, EthereumVersion}, Chain},
        contract::Contract,
    },
    tc::{
        expression::{Span, TE},
        state::TypeCheckerState,
    },
    vm::value::{RuntimeBoxedVal, TCBoxedVal, SVD},
    watchdog::DynWatchdog,
};

use crate::{
    cmd_vm::parse_input,
    gen_sv::sv_term,
    util::{guarded, parse_value, CountingWatchdog, Ids},
};

/// `VT var [kids]`, children in `children()` order
pub fn vt_term(v: &TCBoxedVal) -> String {
    let kids: Vec<String> = v.children().iter().map(vt_term).collect();
    format!("(VT {} [{}])", v.aux_data().index(), kids.join(";"))
}

/// position of the variant in `enum SymbolicValueData` = `tag_idx` of gen/ValueSig.v (read from the Debug name
/// through the generated printer, so that no second table is needed)
pub fn tag_name<A: Clone + PartialEq>(d: &SVD<A>) -> String {
    let mut ids = Ids::default();
    let t = crate::gen_sv::svd_term(d, &mut ids);
    // "(Node T_Name [..] [..])"
    t.split_whitespace().nth(1).unwrap_or("T_Value").to_string()
}

pub fn spans_term(ts: &[Span]) -> String {
    let v: Vec<String> = ts.iter().map(|s| format!("mk_span {} {} {}", s.typ.index(), s.offset, s.size)).collect();
    format!("[{}]", v.join("; "))
}

const REASONS: [(&str, &str); 11] = [
    ("Conflicts always conflict", "RConflictsAlways"),
    ("Disagreeing numeric widths", "RWidths"),
    ("Conflicting word usages", "RUsages"),
    ("Incompatible packed encoding and dynamic array", "RPackedDyn"),
    ("Incompatible packed encoding and bytes", "RPackedBytes"),
    ("Dynamic arrays cannot have signed length", "RDynSigned"),
    ("Fixed arrays have different lengths", "RFixedLen"),
    ("Span in packed encoding did not match size of word", "RSpanSize"),
    ("Packed encoding without span at start could not be merged with word", "RNoStartSpan"),
    ("Packed encoding could not be merged with word", "RPackedWord"),
    ("Incompatible inferences", "RIncompatible"),
];

/// a type expression as a Coq term of `TypeExpr.te`
pub fn te_term(e: &TE) -> String {
    match e {
        TE::Any => "Any".into(),
        TE::Bytes => "Bytes".into(),
        TE::Equal { id } => format!("(Equal {})", id.index()),
        TE::Word { width, usage } => format!(
            "(Word {} U{:?})",
            match width {
                Some(w) => format!("(Some {w})"),
                None => "None".into(),
            },
            usage
        ),
        TE::FixedArray { element, length } => format!("(FixedArray {} {})", element.index(), length),
        TE::Mapping { key, value } => format!("(Mapping {} {})", key.index(), value.index()),
        TE::DynamicArray { element } => format!("(DynamicArray {})", element.index()),
        TE::Packed { types, is_struct } => format!("(Packed {} {})", spans_term(types), is_struct),
        TE::Conflict { conflicts, reasons } => {
            let cs: Vec<String> = conflicts.iter().map(|c| te_term(c)).collect();
            let rs: Vec<String> = reasons
                .iter()
                .map(|r| {
                    REASONS
                        .iter()
                        .find(|(t, _)| t == r)
                        .map_or_else(|| "(RInput 0)".to_string(), |(_, c)| (*c).to_string())
                })
                .collect();
            format!("(Conflict [{}] [{}])", cs.join("; "), rs.join("; "))
        }
    }
}

/// The values the real pipeline hands to `assign_vars` for the program of an `analyze` input line
/// (disassemble, execute, lift with the default passes), in the order `lift` returns them.
pub fn pipeline_values(line: &str) -> Result<Vec<RuntimeBoxedVal>, String> {
    let inp = parse_input(&line.split_whitespace().take(9).collect::<Vec<_>>().join(" "))?;
    let wd = Rc::new(CountingWatchdog::new(inp.every, inp.stop_at, 20_000_000));
    let dynwd: DynWatchdog = wd.clone();
    let contract = Contract::new(inp.bytes.clone(), Chain::Ethereum { version: EthereumVersion::latest() });
    storage_layout_extractor::verif::set_order_mode(storage_layout_extractor::verif::OrderMode::Sorted);
    storage_layout_extractor::verif::reset_ids();
    let r = (|| -> Result<VecDeque<RuntimeBoxedVal>, error::Errors> {
        let ex = storage_layout_extractor::new(contract, inp.config.clone(), crate::cmd_analyze::tc_config(), dynwd);
        let ex = ex.disassemble()?;
        let ex = ex.prepare_vm()?;
        let ex = ex.execute()?;
        let mut ex = ex.prepare_unifier();
        let st = unsafe { ex.state_mut() };
        let result = st.execution_result.clone();
        Ok(st.engine.lift(result)?)
    })();
    storage_layout_extractor::verif::random_ids();
    storage_layout_extractor::verif::set_order_mode(storage_layout_extractor::verif::OrderMode::Natural);
    r.map(|v| v.into_iter().collect()).map_err(|e| format!("pipeline error: {e:?}").chars().take(200).collect())
}

/// parses the input line of the stage commands into values
pub fn input_values(line: &str) -> Result<Vec<RuntimeBoxedVal>, String> {
    let line = line.trim();
    if let Some(rest) = line.strip_prefix("prog ") {
        return pipeline_values(rest);
    }
    let rest = line.strip_prefix("vals").ok_or("expected `vals` or `prog`")?;
    rest.split(";;").map(str::trim).filter(|s| !s.is_empty()).map(parse_value).collect()
}

pub fn values_term(vs: &[RuntimeBoxedVal], ids: &mut Ids) -> String {
    format!("[{}]", vs.iter().map(|v| sv_term(v, ids)).collect::<Vec<_>>().join(";"))
}

/// registers the values in order in a fresh state; returns the state and the top-level variables
pub fn register_all(vs: &[RuntimeBoxedVal]) -> (TypeCheckerState, Vec<usize>) {
    let mut state = TypeCheckerState::empty();
    let mut roots = vec![];
    for v in vs {
        roots.push(state.register(v.clone()).index());
    }
    (state, roots)
}

pub fn sorted_values(state: &TypeCheckerState) -> Vec<TCBoxedVal> {
    let mut vals: Vec<TCBoxedVal> = state.values().into_iter().cloned().collect();
    vals.sort_by_key(|v| v.aux_data().index());
    vals
}

pub fn run(_args: &[String], lines: &mut dyn Iterator<Item = String>, out: &mut dyn Write) {
    for line in lines {
        let vs = match guarded(|| input_values(&line)) {
            Ok(Ok(v)) => v,
            Ok(Err(e)) => {
                writeln!(out, "BADINPUT {e}").unwrap();
                continue;
            }
            Err(p) => {
                writeln!(out, "BADINPUT panic while building the input: {p}").unwrap();
                continue;
            }
        };
        let mut ids = Ids::default();
        let inputs = values_term(&vs, &mut ids);
        let r = guarded(|| {
            let (state, roots) = register_all(&vs);
            let root_terms: Vec<String> = roots
                .iter()
                .map(|r| {
                    let tv = storage_layout_extractor::data::vector_map::FromUniqueIndex::from_index(*r);
                    let tv: storage_layout_extractor::tc::state::type_variable::TypeVariable = tv;
                    vt_term(state.value_unchecked(tv))
                })
                .collect();
            let table: Vec<String> = sorted_values(&state)
                .iter()
                .map(|v| {
                    let kids: Vec<String> = v.children().iter().map(|c| c.aux_data().index().to_string()).collect();
                    format!("({},{},[{}])", v.aux_data().index(), tag_name(v.data()), kids.join(";"))
                })
                .collect();
            // every variable must have an inference set (infer panics otherwise)
            let vars = state.variables().len();
            format!("(RR {} {} [{}] [{}])", state.tyvar_count(), vars, root_terms.join(";"), table.join(";"))
        });
        match r {
            Ok(t) => writeln!(out, "RC {inputs} {t}").unwrap(),
            Err(_) => writeln!(out, "RC {inputs} RPanic").unwrap(),
        }
    }
}
