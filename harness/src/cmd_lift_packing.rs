//! `lift-packing`: the REAL packing lifting passes on value trees.
//!
//! Input, one per line, one of
//!   `<pass> <expect> <tree>`   pass   = sub_word | mul_shifted | packed_encoding | packing3
//!                              expect = `-` | `P:o1,n1,o2,n2,...` | `S:o,n`   (ground truth, echoed only)
//!                              tree   = `(Tag [attrs] kids...)`
//!   `prog <hex>`               runs the real VM (default configuration) on the bytecode and prints every distinct
//!                              value it collected (`ExecutionResult::all_values`) as Coq terms, TAB separated
//! Output for a tree: `(mk_pcase P_<pass> <input as parsed> <POk <result> | PPanic> <expect>)` (PassesPackingCases.v).
use std::{io::Write, rc::Rc};

use itertools::Itertools;
use storage_layout_extractor::{
    disassembly::InstructionStream,
    tc::{
        lift::{
            mul_shifted::MulShiftedValue,
            packed_encoding::PackedEncoding,
            sub_word::SubWordValue,
            Lift,
        },
        state::TypeCheckerState,
    },
    vm::{value::RuntimeBoxedVal, Config, VM},
    watchdog::DynWatchdog,
};

use crate::{
    gen_sv::sv_term,
    util::{guarded, parse_value, CountingWatchdog, Ids},
};

fn run_pass(pass: &str, v: RuntimeBoxedVal) -> Result<RuntimeBoxedVal, String> {
    let state = TypeCheckerState::empty();
    let e = |_| "Err".to_string();
    match pass {
        "sub_word" => SubWordValue::new().run(v, &state).map_err(e),
        "mul_shifted" => MulShiftedValue::new().run(v, &state).map_err(e),
        "packed_encoding" => PackedEncoding::new().run(v, &state).map_err(e),
        "packing3" => {
            let v = SubWordValue::new().run(v, &state).map_err(e)?;
            let v = MulShiftedValue::new().run(v, &state).map_err(e)?;
            PackedEncoding::new().run(v, &state).map_err(e)
        }
        _ => Err("pass".into()),
    }
}

fn expect_term(s: &str) -> Option<String> {
    if s == "-" {
        return Some("ENone".into());
    }
    let nums = |t: &str| -> Option<Vec<u64>> { t.split(',').map(|x| x.parse::<u64>().ok()).collect() };
    if let Some(t) = s.strip_prefix("P:") {
        let v = nums(t)?;
        return Some(format!("(EPacked [{}])", v.iter().map(|x| x.to_string()).join(";")));
    }
    if let Some(t) = s.strip_prefix("S:") {
        let v = nums(t)?;
        if v.len() == 2 {
            return Some(format!("(ESubWord {} {})", v[0], v[1]));
        }
    }
    None
}

fn prog(hexs: &str) -> Result<String, String> {
    let bytes = hex::decode(hexs).map_err(|e| format!("{e:?}"))?;
    let wd = Rc::new(CountingWatchdog::new(100, None, 5_000_000));
    let r = guarded(|| {
        storage_layout_extractor::verif::reset_ids();
        let stream = InstructionStream::try_from(bytes.as_slice()).map_err(|_| "disasm".to_string())?;
        let dynwd: DynWatchdog = wd.clone();
        let mut vm = VM::new(stream, Config::default(), dynwd).map_err(|_| "new".to_string())?;
        let _ = vm.execute();
        let values: Vec<RuntimeBoxedVal> = vm.consume().all_values().into_iter().unique().collect();
        let mut ids = Ids::default();
        Ok::<String, String>(values.iter().map(|v| sv_term(v, &mut ids)).join("\t"))
    });
    storage_layout_extractor::verif::random_ids();
    match r {
        Ok(x) => x,
        Err(p) => Err(format!("panic {p}")),
    }
}

pub fn run(_args: &[String], lines: &mut dyn Iterator<Item = String>, out: &mut dyn Write) {
    for line in lines {
        let line = line.trim();
        if let Some(h) = line.strip_prefix("prog ") {
            match prog(h.trim()) {
                Ok(t) => writeln!(out, "VALUES\t{t}").unwrap(),
                Err(e) => writeln!(out, "BADINPUT {e}").unwrap(),
            }
            continue;
        }
        let mut it = line.splitn(3, ' ');
        let (Some(pass), Some(exp), Some(tree)) = (it.next(), it.next(), it.next()) else {
            writeln!(out, "BADINPUT fields").unwrap();
            continue;
        };
        let Some(exp) = expect_term(exp) else {
            writeln!(out, "BADINPUT expect").unwrap();
            continue;
        };
        if !["sub_word", "mul_shifted", "packed_encoding", "packing3"].contains(&pass) {
            writeln!(out, "BADINPUT pass").unwrap();
            continue;
        }
        let Ok(Ok(v)) = guarded(|| parse_value(tree)) else {
            writeln!(out, "BADINPUT tree").unwrap();
            continue;
        };
        let mut ids = Ids::default();
        let input = sv_term(&v, &mut ids);
        let res = match guarded(|| run_pass(pass, v)) {
            Ok(Ok(r)) => format!("(POk {})", sv_term(&r, &mut ids)),
            Ok(Err(_)) => "PErr".to_string(),
            Err(_) => "PPanic".to_string(),
        };
        writeln!(out, "(mk_pcase P_{pass} {input} {res} {exp})").unwrap();
    }
}
