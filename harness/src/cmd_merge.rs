//! `merge`: runs the real `tc::unification::merge` on two or three type expressions.
//!
//! One case per line, whitespace-separated tokens:
//!
//! ```text
//!   pair   <parent> <nv> <te> <te>          merge(a,b) and merge(b,a), each on a fresh state
//!   triple <parent> <nv> <te> <te> <te>     merge(merge(a,b),c) and merge(a,merge(b,c)), fresh state each
//!   fold   <parent> <nv> <te> <te>+         the left fold of `unify`: merge(..merge(merge(x1,x2),x3)..), one state
//! ```
//!
//! `<nv>` type variables are allocated in the fresh `TypeCheckerState` before the call, so the first
//! variable `merge` allocates itself is `<nv>`.  Type variables in expressions are plain indices.
//!
//! ```text
//!   <te> ::= Any | Bytes | Eq:<v> | W:<width or ->:<Usage> | F:<v>:<len> | M:<v>:<v> | D:<v>
//!          | P:<0|1>:<v>,<off>,<size>/<v>,<off>,<size>/...      (possibly no spans: `P:0:`)
//!          | C[ <te>* ] R[ i<n>* ]                               (a conflict with explanations "input:<n>")
//! ```
//!
//! Output: one Coq term of type `mcase` (coq/MergeCases.v) per line; a panic is `IPanic`.
use std::io::Write;

use ethnum::U256;
use storage_layout_extractor::{
    data::vector_map::{FromUniqueIndex, ToUniqueIndex},
    tc::{
        expression::{Span, WordUse, TE},
        state::{type_variable::TypeVariable, TypeCheckerState},
        unification::{merge, Merge},
    },
};

use crate::util::{coq_string, guarded};

fn tv(i: usize) -> TypeVariable {
    TypeVariable::from_index(i)
}

fn usage_of(s: &str) -> Result<WordUse, String> {
    Ok(match s {
        "Bytes" => WordUse::Bytes,
        "Numeric" => WordUse::Numeric,
        "UnsignedNumeric" => WordUse::UnsignedNumeric,
        "SignedNumeric" => WordUse::SignedNumeric,
        "Bool" => WordUse::Bool,
        "Address" => WordUse::Address,
        "Selector" => WordUse::Selector,
        "Function" => WordUse::Function,
        _ => return Err(format!("unknown usage {s}")),
    })
}

fn num(s: &str) -> Result<usize, String> {
    s.parse::<usize>().map_err(|e| format!("{s}: {e}"))
}

struct P<'a> {
    toks: Vec<&'a str>,
    pos:  usize,
}

impl<'a> P<'a> {
    fn next(&mut self) -> Result<&'a str, String> {
        let t = self.toks.get(self.pos).copied().ok_or("unexpected end of line")?;
        self.pos += 1;
        Ok(t)
    }

    fn te(&mut self) -> Result<TE, String> {
        let t = self.next()?;
        if t == "C[" {
            let mut conflicts = vec![];
            while self.toks.get(self.pos).copied() != Some("]") {
                conflicts.push(Box::new(self.te()?));
            }
            self.next()?;
            if self.next()? != "R[" {
                return Err("expected R[".into());
            }
            let mut reasons = vec![];
            loop {
                let r = self.next()?;
                if r == "]" {
                    break;
                }
                let n = num(r.strip_prefix('i').ok_or("reason must be i<n>")?)?;
                reasons.push(format!("input:{n}"));
            }
            return Ok(TE::Conflict { conflicts, reasons });
        }
        let f: Vec<&str> = t.split(':').collect();
        Ok(match (f[0], f.len()) {
            ("Any", 1) => TE::Any,
            ("Bytes", 1) => TE::Bytes,
            ("Eq", 2) => TE::eq(tv(num(f[1])?)),
            ("W", 3) => {
                let w = if f[1] == "-" { None } else { Some(num(f[1])?) };
                TE::word(w, usage_of(f[2])?)
            }
            ("F", 3) => TE::FixedArray {
                element: tv(num(f[1])?),
                length:  U256::from_str_radix(f[2], 10).map_err(|e| format!("{e:?}"))?,
            },
            ("M", 3) => TE::mapping(tv(num(f[1])?), tv(num(f[2])?)),
            ("D", 2) => TE::dyn_array(tv(num(f[1])?)),
            ("P", 3) => {
                let mut types = vec![];
                for s in f[2].split('/').filter(|s| !s.is_empty()) {
                    let c: Vec<&str> = s.split(',').collect();
                    if c.len() != 3 {
                        return Err(format!("bad span {s}"));
                    }
                    types.push(Span::new(tv(num(c[0])?), num(c[1])?, num(c[2])?));
                }
                TE::Packed {
                    types,
                    is_struct: f[1] == "1",
                }
            }
            _ => return Err(format!("bad type expression {t}")),
        })
    }
}

fn spans_term(ts: &[Span]) -> String {
    let v: Vec<String> = ts
        .iter()
        .map(|s| format!("mk_span {} {} {}", s.typ.index(), s.offset, s.size))
        .collect();
    format!("[{}]", v.join("; "))
}

pub fn te_term(e: &TE) -> String {
    match e {
        TE::Any => "XAny".into(),
        TE::Bytes => "XBytes".into(),
        TE::Equal { id } => format!("(XEqual {})", id.index()),
        TE::Word { width, usage } => format!(
            "(XWord {} U{:?})",
            match width {
                Some(w) => format!("(Some {w})"),
                None => "None".into(),
            },
            usage
        ),
        TE::FixedArray { element, length } => format!("(XFixed {} {})", element.index(), length),
        TE::Mapping { key, value } => format!("(XMapping {} {})", key.index(), value.index()),
        TE::DynamicArray { element } => format!("(XDyn {})", element.index()),
        TE::Packed { types, is_struct } => format!("(XPacked {} {})", spans_term(types), is_struct),
        TE::Conflict { conflicts, reasons } => {
            let cs: Vec<String> = conflicts.iter().map(|c| te_term(c)).collect();
            let rs: Vec<String> = reasons
                .iter()
                .map(|r| match r.strip_prefix("input:").and_then(|n| n.parse::<u64>().ok()) {
                    Some(n) => format!("XRInput {n}"),
                    None => format!("XRText {}", coq_string(r)),
                })
                .collect();
            format!("(XConflict [{}] [{}])", cs.join("; "), rs.join("; "))
        }
    }
}

fn res_term(m: &Merge) -> String {
    let q: Vec<String> = m
        .equalities
        .iter()
        .map(|e| format!("({}, {})", e.left.index(), e.right.index()))
        .collect();
    let j: Vec<String> = m
        .judgements
        .iter()
        .map(|j| format!("({}, {})", j.tv.index(), te_term(&j.expr)))
        .collect();
    let v: Vec<String> = m.ty_vars.iter().map(|t| t.index().to_string()).collect();
    format!(
        "IOk (mk_xres {} [{}] [{}] [{}])",
        te_term(&m.expression),
        q.join("; "),
        j.join("; "),
        v.join("; ")
    )
}

fn fresh_state(nv: usize) -> TypeCheckerState {
    let mut st = TypeCheckerState::empty();
    for _ in 0..nv {
        let _ = unsafe { st.allocate_ty_var() };
    }
    st
}

/// Runs `first`, then (if it did not panic) `second` on its expression; prints the chain.
fn chain(
    nv: usize,
    first: impl FnOnce(&mut TypeCheckerState) -> Merge,
    second: Option<&dyn Fn(TE, &mut TypeCheckerState) -> Merge>,
) -> String {
    let mut st = fresh_state(nv);
    let mut steps = vec![];
    match guarded(|| first(&mut st)) {
        Err(_) => steps.push("IPanic".to_string()),
        Ok(r1) => {
            steps.push(res_term(&r1));
            if let Some(second) = second {
                match guarded(|| second(r1.expression.clone(), &mut st)) {
                    Err(_) => steps.push("IPanic".to_string()),
                    Ok(r2) => steps.push(res_term(&r2)),
                }
            }
        }
    }
    let next = guarded(|| unsafe { st.allocate_ty_var() }.index()).unwrap_or(usize::MAX);
    format!("(mk_chain [{}] {})", steps.join("; "), next)
}

fn one(line: &str) -> Result<String, String> {
    let toks: Vec<&str> = line.split_whitespace().collect();
    let mut p = P { toks, pos: 0 };
    let mode = p.next()?;
    let parent = num(p.next()?)?;
    let nv = num(p.next()?)?;
    let ptv = tv(parent);
    match mode {
        "pair" => {
            let a = p.te()?;
            let b = p.te()?;
            let ab = chain(nv, |st| merge(a.clone(), b.clone(), ptv, st), None);
            let ba = chain(nv, |st| merge(b.clone(), a.clone(), ptv, st), None);
            Ok(format!("CPair {parent} {nv} {} {} {ab} {ba}", te_term(&a), te_term(&b)))
        }
        "triple" => {
            let a = p.te()?;
            let b = p.te()?;
            let c = p.te()?;
            let l = chain(
                nv,
                |st| merge(a.clone(), b.clone(), ptv, st),
                Some(&|ab, st| merge(ab, c.clone(), ptv, st)),
            );
            let r = chain(
                nv,
                |st| merge(b.clone(), c.clone(), ptv, st),
                Some(&|bc, st| merge(a.clone(), bc, ptv, st)),
            );
            Ok(format!(
                "CTriple {parent} {nv} {} {} {} {l} {r}",
                te_term(&a),
                te_term(&b),
                te_term(&c)
            ))
        }
        "fold" => {
            let mut xs = vec![];
            while p.pos < p.toks.len() {
                xs.push(p.te()?);
            }
            if xs.is_empty() {
                return Err("fold needs at least one expression".into());
            }
            let mut st = fresh_state(nv);
            let mut steps = vec![];
            let mut acc = xs[0].clone();
            for x in &xs[1..] {
                match guarded(|| merge(acc.clone(), x.clone(), ptv, &mut st)) {
                    Err(_) => {
                        steps.push("IPanic".to_string());
                        break;
                    }
                    Ok(r) => {
                        steps.push(res_term(&r));
                        acc = r.expression;
                    }
                }
            }
            let next = guarded(|| unsafe { st.allocate_ty_var() }.index()).unwrap_or(usize::MAX);
            let terms: Vec<String> = xs.iter().map(te_term).collect();
            Ok(format!(
                "CFold {parent} {nv} [{}] (mk_chain [{}] {next})",
                terms.join("; "),
                steps.join("; ")
            ))
        }
        _ => Err(format!("unknown mode {mode}")),
    }
}

pub fn run(_args: &[String], lines: &mut dyn Iterator<Item = String>, out: &mut dyn Write) {
    for line in lines {
        match one(line.trim()) {
            Ok(t) => writeln!(out, "{t}").unwrap(),
            Err(e) => writeln!(out, "BADINPUT {e}").unwrap(),
        }
    }
}
