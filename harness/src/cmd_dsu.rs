//! `dsu`: runs operation sequences against the real `DisjointSet<usize, D>` for two data monoids and
//! prints what every operation returned, as a Coq term of type `DsuCases.dcase`.
//!
//! input line:  `<set|multi> <op>;<op>;...`
//!   i3        insert(3)            f3      find(&3)            u1,2    union(&1, &2)
//!   a3:7,8    add_data(&3, {7,8})  g3      get_data(&3)        s3:7    set_data(&3, {7})   (`a3:` = empty data)
//!   S         sets()               V       values()
//! output line: `mk_dcase <insert_guarded> <MSet|MMulti> [ops] [outs]`; a panic ends the outputs with `XPanic`, an absurdly large result with `XHuge`.
//! `insert_guarded` is found by a probe on the real code: does re-inserting a joined member detach it?

use std::{collections::HashSet, fmt::Debug, io::Write};

use storage_layout_extractor::data::{combine::Combine, disjoint_set::DisjointSet};

use crate::util::guarded;

/// A multiset of u32 as a sorted vector: a commutative, NON-idempotent monoid, so that data that is
/// combined twice (or lost) is visible.
#[derive(Clone, Debug, Default, PartialEq, Eq)]
pub struct Multi(pub Vec<u32>);

impl Combine for Multi {
    fn combine(self, other: Self) -> Self {
        let mut v = self.0;
        v.extend(other.0);
        v.sort_unstable();
        Multi(v)
    }

    fn identity() -> Self {
        Multi(Vec::new())
    }
}

/// The two data types the sequences are run with.
pub trait HData: Combine + Debug + Default + Eq + PartialEq + Clone {
    fn from_items(items: &[u32]) -> Self;
    fn items(&self) -> Vec<u32>;
    const COQ: &'static str;
}

impl HData for HashSet<u32> {
    const COQ: &'static str = "MSet";

    fn from_items(items: &[u32]) -> Self {
        items.iter().copied().collect()
    }

    fn items(&self) -> Vec<u32> {
        let mut v: Vec<u32> = self.iter().copied().collect();
        v.sort_unstable();
        v
    }
}

impl HData for Multi {
    const COQ: &'static str = "MMulti";

    fn from_items(items: &[u32]) -> Self {
        let mut v = items.to_vec();
        v.sort_unstable();
        Multi(v)
    }

    fn items(&self) -> Vec<u32> {
        self.0.clone()
    }
}

#[derive(Clone, Debug, PartialEq, Eq)]
pub enum Op {
    Insert(usize),
    Find(usize),
    Union(usize, usize),
    Add(usize, Vec<u32>),
    Get(usize),
    Set(usize, Vec<u32>),
    Sets,
    Values,
}

fn items(s: &str) -> Result<Vec<u32>, String> {
    if s.is_empty() {
        return Ok(vec![]);
    }
    s.split(',').map(|x| x.parse::<u32>().map_err(|e| format!("{e:?}"))).collect()
}

fn us(s: &str) -> Result<usize, String> {
    s.parse::<usize>().map_err(|e| format!("{e:?}"))
}

pub fn parse_op(t: &str) -> Result<Op, String> {
    let t = t.trim();
    let (c, rest) = t.split_at(t.len().min(1));
    match c {
        "i" => Ok(Op::Insert(us(rest)?)),
        "f" => Ok(Op::Find(us(rest)?)),
        "g" => Ok(Op::Get(us(rest)?)),
        "u" => {
            let (a, b) = rest.split_once(',').ok_or("union needs two values")?;
            Ok(Op::Union(us(a)?, us(b)?))
        }
        "a" | "s" => {
            let (v, d) = rest.split_once(':').ok_or("data op needs `:`")?;
            if c == "a" {
                Ok(Op::Add(us(v)?, items(d)?))
            } else {
                Ok(Op::Set(us(v)?, items(d)?))
            }
        }
        "S" if rest.is_empty() => Ok(Op::Sets),
        "V" if rest.is_empty() => Ok(Op::Values),
        _ => Err(format!("bad op {t:?}")),
    }
}

pub fn parse_ops(s: &str) -> Result<Vec<Op>, String> {
    s.split(';').filter(|t| !t.trim().is_empty()).map(parse_op).collect()
}

/// Numbers below 128 are written as the constants `n0`..`n127` of DsuCases.v: Coq elaborates an identifier
/// about twice as fast as a numeral, and elaborating the cases is what the check spends its time on.
pub fn num<T: ToString>(x: &T) -> String {
    let s = x.to_string();
    if s.len() <= 3 && s.parse::<u32>().map_or(false, |n| n < 128) {
        format!("n{s}")
    } else {
        s
    }
}

pub fn coq_nums<T: ToString>(v: &[T]) -> String {
    let v: Vec<String> = v.iter().map(num).collect();
    format!("[{}]", v.join(";"))
}

pub fn op_term(op: &Op) -> String {
    match op {
        Op::Insert(v) => format!("DInsert {}", num(v)),
        Op::Find(v) => format!("DFind {}", num(v)),
        Op::Union(a, b) => format!("DUnion {} {}", num(a), num(b)),
        Op::Add(v, d) => format!("DAdd {} {}", num(v), coq_nums(d)),
        Op::Get(v) => format!("DGet {}", num(v)),
        Op::Set(v, d) => format!("DSet {} {}", num(v), coq_nums(d)),
        Op::Sets => "DSets".to_string(),
        Op::Values => "DValues".to_string(),
    }
}

/// Applies one operation to the real structure and renders what it returned.
pub fn apply<D: HData>(ds: &mut DisjointSet<usize, D>, op: &Op) -> String {
    match op {
        Op::Insert(v) => {
            ds.insert(*v);
            "XUnit".to_string()
        }
        Op::Find(v) => format!("XFind {}", num(&ds.find(v))),
        Op::Union(a, b) => {
            ds.union(a, b);
            "XUnit".to_string()
        }
        Op::Add(v, d) => {
            ds.add_data(v, D::from_items(d));
            "XUnit".to_string()
        }
        Op::Get(v) => match ds.get_data(v) {
            Some(d) => format!("XData (Some {})", coq_nums(&d.items())),
            None => "XData None".to_string(),
        },
        Op::Set(v, d) => {
            ds.set_data(v, D::from_items(d));
            "XUnit".to_string()
        }
        Op::Sets => {
            // the order of sets() is unspecified ("arbitrary order"): canonical = sorted by representative
            let mut sets: Vec<(usize, Vec<u32>)> = ds.sets().into_iter().map(|(k, d)| (k, d.items())).collect();
            sets.sort();
            let v: Vec<String> = sets.iter().map(|(k, d)| format!("({},{})", num(k), coq_nums(d))).collect();
            format!("XSets [{}]", v.join(";"))
        }
        Op::Values => {
            let mut vals = ds.values();
            vals.sort_unstable();
            format!("XValues {}", coq_nums(&vals))
        }
    }
}

/// Does `insert` leave an existing member alone?  (pinned code: no -- it re-roots the member)
pub fn probe_insert_guarded() -> Option<bool> {
    guarded(|| {
        let mut ds: DisjointSet<usize, Multi> = DisjointSet::new();
        ds.insert(0);
        ds.insert(1);
        ds.union(&0, &1);
        ds.insert(1);
        ds.find(&1) == 0
    })
    .ok()
}

/// No history of the generators can legitimately accumulate this many data items in one set (at most 3 per
/// operation, 400 operations).  An implementation that combines a set's data with itself doubles it every
/// time; such a run is cut here (`XHuge` never equals a specification output) instead of exhausting memory.
pub const HUGE: usize = 24_000;

fn run_line<D: HData>(ops: &[Op]) -> Vec<String> {
    let mut outs = vec![];
    let mut ds: DisjointSet<usize, D> = DisjointSet::new();
    // SLXH_NO_CUT=1: experiments with very large forests (never set by the check)
    let no_cut = std::env::var_os("SLXH_NO_CUT").is_some();
    for op in ops {
        match guarded(|| apply(&mut ds, op)) {
            Ok(o) if !no_cut && o.len() > HUGE => {
                outs.push("XHuge".to_string());
                break;
            }
            Ok(o) => outs.push(o),
            Err(_) => {
                outs.push("XPanic".to_string());
                break;
            }
        }
        // the same cut for data that is not being looked at (read-only: the derived Debug rendering)
        if !no_cut && matches!(op, Op::Union(..)) && format!("{ds:?}").len() > 20 * HUGE {
            outs.pop();
            outs.push("XHuge".to_string());
            break;
        }
    }
    outs
}

pub fn run(_args: &[String], lines: &mut dyn Iterator<Item = String>, out: &mut dyn Write) {
    let guard = match probe_insert_guarded() {
        Some(true) => "true",
        Some(false) => "false",
        None => "false",
    };
    for line in lines {
        let line = line.trim();
        let Some((monoid, rest)) = line.split_once(' ').or(Some((line, ""))) else { unreachable!() };
        let ops = match parse_ops(rest) {
            Ok(o) => o,
            Err(_) => {
                writeln!(out, "BADINPUT").unwrap();
                continue;
            }
        };
        let (name, outs) = match monoid {
            "set" => (<HashSet<u32> as HData>::COQ, run_line::<HashSet<u32>>(&ops)),
            "multi" => (<Multi as HData>::COQ, run_line::<Multi>(&ops)),
            _ => {
                writeln!(out, "BADINPUT").unwrap();
                continue;
            }
        };
        let ops_t: Vec<String> = ops.iter().map(op_term).collect();
        writeln!(out, "mk_dcase {guard} {name} [{}] [{}]", ops_t.join(";"), outs.join(";")).unwrap();
    }
}
