//! `key-hashes`: runs the VM and prints, for every Sha3 node inside a storage KEY tree of any retired state
//! whose hashed data is constant (a constant word, or a Concat of constant words after folding), the keccak256
//! of those words (big-endian), computed with the sha3 crate directly.  Output: `[h1;h2;...]`.
//! input: same line format as `vm`.
use std::{collections::BTreeSet, io::Write, rc::Rc};

use ethnum::U256;
use sha3::{Digest, Keccak256};
use storage_layout_extractor::{
    disassembly::InstructionStream,
    vm::{
        value::{RuntimeBoxedVal, RSVD},
        VM,
    },
    watchdog::DynWatchdog,
};

use crate::{
    cmd_vm::parse_input,
    util::{guarded, CountingWatchdog},
};

fn keccak_words(ws: &[U256]) -> U256 {
    let mut h = Keccak256::new();
    for w in ws {
        h.update(w.to_be_bytes());
    }
    U256::from_be_bytes(h.finalize().as_slice().try_into().unwrap())
}

fn walk(v: &RuntimeBoxedVal, out: &mut BTreeSet<U256>) {
    if let RSVD::Sha3 { data } = v.data() {
        match data.constant_fold().data() {
            RSVD::KnownData { value } => {
                out.insert(keccak_words(&[value.value_le()]));
            }
            RSVD::Concat { values } => {
                let ws: Vec<U256> = values
                    .iter()
                    .filter_map(|x| match x.constant_fold().data() {
                        RSVD::KnownData { value } => Some(value.value_le()),
                        _ => None,
                    })
                    .collect();
                if ws.len() == values.len() && !ws.is_empty() {
                    out.insert(keccak_words(&ws));
                }
            }
            _ => {}
        }
    }
    for c in v.children() {
        walk(&c, out);
    }
}

pub fn run(_args: &[String], lines: &mut dyn Iterator<Item = String>, out: &mut dyn Write) {
    for line in lines {
        let Ok(inp) = parse_input(&line) else {
            writeln!(out, "[]").unwrap();
            continue;
        };
        let r = guarded(|| {
            let mut set = BTreeSet::new();
            let Ok(stream) = InstructionStream::try_from(inp.bytes.as_slice()) else { return set };
            let wd: DynWatchdog = Rc::new(CountingWatchdog::new(inp.every, None, 50_000_000));
            let Ok(mut vm) = VM::new(stream, inp.config.clone(), wd) else { return set };
            let _ = vm.execute();
            for st in vm.stored_states() {
                for key in st.storage().keys() {
                    walk(key, &mut set);
                }
            }
            set
        });
        let v: Vec<String> = r.unwrap_or_default().iter().map(|x| x.to_string()).collect();
        writeln!(out, "[{}]", v.join(";")).unwrap();
    }
}
