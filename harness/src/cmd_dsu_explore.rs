//! `dsu-explore <set|multi> <depth> <op> <op> ...`: enumerates operation sequences over the given alphabet
//! up to `depth` operations against the real `DisjointSet`, merging sequences that lead to the SAME
//! implementation state (the derived Debug rendering of the whole structure: both backing vectors, both
//! size counters).  Prints one input line for the `dsu` command per (distinct state reached in < depth
//! operations, operation) pair: the first sequence found that reaches the state, followed by the operation.
//!
//! Why that is exhaustive for all sequences of length <= depth (argument used by tools/p_c19.py): the check
//! appends a probe suffix (values, get_data and find of every element, sets) to every printed line, which
//! observes the complete state of the partition model.  If sequences P and Q reach the same implementation
//! state and both pass the check (all outputs, probe included, equal the specification's), the
//! specification states after P and Q are equal as well, so `P;op` and `Q;op` behave identically on both
//! sides: checking `Q;op` for the representative Q covers `P;op`.  Induction on the length.
//! With `depth` <= `full` (second number) nothing is merged: every sequence is printed literally.

use std::{
    collections::{HashSet, VecDeque},
    io::Write,
};

use storage_layout_extractor::data::disjoint_set::DisjointSet;

use crate::{
    cmd_dsu::{apply, parse_op, HData, Multi, Op},
    util::guarded,
};

/// Debug rendering with the elements of every `{1, 2, 3}` group sorted (HashSet prints in hash order).
fn canonical(dbg: &str) -> String {
    let b = dbg.as_bytes();
    let mut out = String::with_capacity(dbg.len());
    let mut i = 0;
    while i < b.len() {
        if b[i] == b'{' {
            if let Some(len) = dbg[i + 1..].find(|c: char| !(c.is_ascii_digit() || c == ',' || c == ' ')) {
                if b[i + 1 + len] == b'}' {
                    let mut nums: Vec<u64> =
                        dbg[i + 1..i + 1 + len].split(',').filter_map(|x| x.trim().parse().ok()).collect();
                    nums.sort_unstable();
                    out.push_str(&format!("{nums:?}").replace('[', "{").replace(']', "}"));
                    i += len + 2;
                    continue;
                }
            }
        }
        out.push(b[i] as char);
        i += 1;
    }
    out
}

fn explore<D: HData>(depth: usize, full: usize, alphabet: &[(String, Op)], monoid: &str, out: &mut dyn Write) {
    let mut seen: HashSet<String> = HashSet::new();
    let mut queue: VecDeque<(DisjointSet<usize, D>, Vec<usize>)> = VecDeque::new();
    let start: DisjointSet<usize, D> = DisjointSet::new();
    seen.insert(canonical(&format!("{start:?}")));
    queue.push_back((start, vec![]));
    let mut states = 1usize;
    let mut edges = 0usize;
    while let Some((state, path)) = queue.pop_front() {
        if path.len() >= depth {
            continue;
        }
        for (k, (text, op)) in alphabet.iter().enumerate() {
            let mut seq: Vec<&str> = path.iter().map(|i| alphabet[*i].0.as_str()).collect();
            seq.push(text);
            writeln!(out, "{monoid} {}", seq.join(";")).unwrap();
            edges += 1;
            let mut next = state.clone();
            if guarded(|| apply(&mut next, op)).is_err() {
                continue; // a panicking operation: the line is printed (and will be reported), not extended
            }
            let mut p = path.clone();
            p.push(k);
            let fresh = seen.insert(canonical(&format!("{next:?}")));
            if p.len() <= full || fresh {
                states += 1;
                queue.push_back((next, p));
            }
        }
    }
    eprintln!("explored states={states} lines={edges}");
}

pub fn run(args: &[String], _lines: &mut dyn Iterator<Item = String>, out: &mut dyn Write) {
    if args.len() < 4 {
        eprintln!("usage: dsu-explore <set|multi> <depth> <full-depth> <op>...");
        std::process::exit(2);
    }
    let depth: usize = args[1].parse().expect("depth");
    let full: usize = args[2].parse().expect("full depth");
    let alphabet: Vec<(String, Op)> =
        args[3..].iter().map(|t| (t.clone(), parse_op(t).expect("operation"))).collect();
    match args[0].as_str() {
        "set" => explore::<HashSet<u32>>(depth, full, &alphabet, "set", out),
        "multi" => explore::<Multi>(depth, full, &alphabet, "multi", out),
        _ => {
            eprintln!("unknown monoid");
            std::process::exit(2);
        }
    }
}
