//! `vm`: runs the real symbolic VM on `hex gas iter fork size mem permissive poll_every stop_at`
//! (stop_at = -1: never) and prints everything observable as a Coq term of type `VmCases.xrun`.
use std::{io::Write, rc::Rc};

use storage_layout_extractor::{
    disassembly::InstructionStream,
    opcode::control::JumpDest,
    vm::{state::VMState, value::RuntimeBoxedVal, Config, VM},
    watchdog::DynWatchdog,
};

use crate::{
    gen_sv::sv_term,
    util::{exec_err_idx, guarded, CountingWatchdog, Ids},
};

fn vals(vs: &[RuntimeBoxedVal], ids: &mut Ids) -> String {
    format!("[{}]", vs.iter().map(|v| sv_term(v, ids)).collect::<Vec<_>>().join(";"))
}

fn gens(g: &[(RuntimeBoxedVal, bool)], ids: &mut Ids) -> String {
    format!(
        "[{}]",
        g.iter()
            .map(|(v, b)| format!("({},{})", sv_term(v, ids), if *b { "true" } else { "false" }))
            .collect::<Vec<_>>()
            .join(";")
    )
}

pub fn state_term(st: &VMState, code_len: u32, ids: &mut Ids) -> String {
    // stack, top first
    let depth = st.stack().depth();
    let mut stack = vec![];
    for d in 0..depth {
        stack.push(st.stack().read(d as u32).expect("frame").clone());
    }
    let mut mc = st.memory().verif_constant_offsets();
    mc.sort_by_key(|(k, _)| *k);
    let mc: Vec<String> = mc.iter().map(|(k, g)| format!("({},{})", k, gens(g, ids))).collect();
    let ms: Vec<String> = st
        .memory()
        .verif_symbolic_offsets()
        .iter()
        .map(|(k, g)| format!("({},{})", sv_term(k, ids), gens(g, ids)))
        .collect();
    let mut sk = vec![];
    let mut ss = vec![];
    for key in st.storage().keys() {
        let g: Vec<RuntimeBoxedVal> =
            st.storage().generations(key).unwrap_or_default().into_iter().cloned().collect();
        let t = format!("({},{})", sv_term(key, ids), vals(&g, ids));
        if key.is_known_data() {
            sk.push(t);
        } else {
            ss.push(t);
        }
    }
    let mut visited = vec![];
    for ip in 0..code_len {
        let c = st.visited_instructions().visit_count(ip).unwrap_or(0);
        if c > 0 {
            visited.push(format!("({ip},{c})"));
        }
    }
    format!(
        "(mk_vstate {} {} [{}] [{}] [{}] [{}] {} {}, [{}])",
        st.fork_point(),
        vals(&stack, ids),
        mc.join(";"),
        ms.join(";"),
        sk.join(";"),
        ss.join(";"),
        vals(st.recorded_values(), ids),
        vals(st.logged_values(), ids),
        visited.join(";")
    )
}

pub struct VmInput {
    pub bytes:   Vec<u8>,
    pub config:  Config,
    pub every:   usize,
    pub stop_at: Option<u64>,
}

pub fn parse_input(line: &str) -> Result<VmInput, String> {
    let f: Vec<&str> = line.split_whitespace().collect();
    if f.len() != 9 {
        return Err("expected 9 fields".into());
    }
    let n = |i: usize| f[i].parse::<i128>().map_err(|e| format!("{e:?}"));
    let bytes = hex::decode(f[0]).map_err(|e| format!("{e:?}"))?;
    let config = Config::default()
        .with_gas_limit(n(1)? as usize)
        .with_max_iterations_per_opcode(n(2)? as usize)
        .with_max_forks_per_fork_target(n(3)? as usize)
        .with_value_size_limit(n(4)? as usize)
        .with_memory_max_bytes(n(5)? as usize)
        .with_permissive_errors(n(6)? != 0);
    let stop = n(8)?;
    Ok(VmInput { bytes, config, every: n(7)? as usize, stop_at: if stop < 0 { None } else { Some(stop as u64) } })
}

pub fn run(_args: &[String], lines: &mut dyn Iterator<Item = String>, out: &mut dyn Write) {
    for line in lines {
        let inp = match parse_input(&line) {
            Ok(i) => i,
            Err(e) => {
                writeln!(out, "BADINPUT {e}").unwrap();
                continue;
            }
        };
        let wd = Rc::new(CountingWatchdog::new(inp.every, inp.stop_at, 50_000_000));
        let res = guarded(|| {
            storage_layout_extractor::verif::reset_ids();
            let _ = storage_layout_extractor::verif::take_retired();
            let stream = match InstructionStream::try_from(inp.bytes.as_slice()) {
                Ok(s) => s,
                Err(_) => return "XDisasmErr".to_string(),
            };
            let code_len = stream.len() as u32;
            let dynwd: DynWatchdog = wd.clone();
            let mut vm = match VM::new(stream.clone(), inp.config.clone(), dynwd) {
                Ok(v) => v,
                Err(_) => return "XNewErr".to_string(),
            };
            let r = vm.execute();
            let mut ids = Ids::default();
            let errs: Vec<String> = match &r {
                Ok(()) => vec![],
                Err(es) => es
                    .payloads()
                    .iter()
                    .map(|e| format!("({},{})", e.location, exec_err_idx(&e.payload)))
                    .collect(),
            };
            let states: Vec<String> =
                vm.stored_states().iter().map(|s| state_term(s, code_len, &mut ids)).collect();
            // threads still queued (non-empty only when execution was stopped)
            let queued = vm.remaining_thread_count();
            let mut jt = vec![];
            let thread = stream.new_thread(0).expect("thread");
            for ip in 0..code_len {
                if thread.instruction(ip).is_some_and(|op| op.as_ref().as_any().is::<JumpDest>()) {
                    let c = vm.jump_targets().cond_jump_count(ip).unwrap_or(0);
                    if c > 0 {
                        jt.push(format!("({ip},{c})"));
                    }
                }
            }
            let retired: Vec<String> = storage_layout_extractor::verif::take_retired()
                .iter()
                .map(|(ip, g)| format!("({ip},{g})"))
                .collect();
            format!(
                "XRun {} [{}] [{}] [{}] [{}] {} {}",
                if r.is_ok() { "true" } else { "false" },
                errs.join(";"),
                states.join(";"),
                jt.join(";"),
                retired.join(";"),
                queued,
                wd.polls.get()
            )
        });
        storage_layout_extractor::verif::random_ids();
        match res {
            Ok(t) => {
                if wd.over_budget.get() {
                    writeln!(out, "XBudget").unwrap();
                } else {
                    writeln!(out, "{t}").unwrap();
                }
            }
            Err(p) => writeln!(out, "XPanic {}", crate::util::coq_string(&p)).unwrap(),
        }
    }
}
