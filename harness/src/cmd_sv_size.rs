//! `sv-size`: builds values bottom-up through the REAL `RSV::new` (with a per-step size limit), applies
//! `constant_fold()` / `transform_data(..)` / a rebuild through `TCSV::new`, and prints, for every
//! register, the value with the size RECORDED at every node (children in declaration order) together
//! with the number of nodes found by walking `children()`.
//!
//! Input, one script per line, steps separated by `;`:
//!   `N <limit|-> <Tag> [attr ...] kid ...`   RSV::new(0, <Tag>{..}, Synthetic, limit); kids are register indices
//!   `F i`                                    regs[i].constant_fold()
//!   `I i`                                    regs[i].transform_data(|_| None)
//!   `R i <Tag> j`                            regs[i].transform_data(|d| if d is a <Tag> { Some(regs[j].data().clone()) } else { None })
//!   `X i`                                    the tree of regs[i] rebuilt node by node through TCSV::new
//! Output: one `scase` Coq term per line (see coq/SizeCases.v).
use std::io::Write;

use ethnum::U256;
use storage_layout_extractor::{
    tc::state::type_variable::{TypeVariable, TypeVariableSource},
    vm::value::{Provenance, RuntimeBoxedVal, SymbolicValue, TCBoxedVal, RSV, RSVD, TCSV},
};

#[path = "gen_ssv.rs"]
pub mod gen_ssv;

use crate::{
    gen_sv::build_svd,
    util::{guarded, parse_u256, Ids},
};

enum Reg {
    R(RuntimeBoxedVal),
    T(TCBoxedVal),
}

/// number of nodes found by recursively walking `children()`
pub fn walk_count<A: Clone + PartialEq>(v: &SymbolicValue<A>) -> u128 {
    let mut n: u128 = 1;
    for c in v.children() {
        n = n.saturating_add(walk_count(&c));
    }
    n
}

fn to_tc(v: &RuntimeBoxedVal, src: &mut TypeVariableSource, ids: &mut Ids) -> Result<TCBoxedVal, String> {
    let (attrs, ch) = gen_ssv::parts(v.data(), ids);
    let mut kids = vec![];
    for c in ch {
        kids.push(to_tc(c, src, ids)?);
    }
    let attrs: Vec<U256> = attrs.iter().map(|a| parse_u256(a)).collect::<Result<_, _>>()?;
    let data = build_svd::<TypeVariable>(gen_ssv::tag_name(v.data()), &attrs, kids)?;
    Ok(TCSV::new(0, data, Provenance::Synthetic, src.fresh()))
}

fn parse_idx(t: Option<&&str>, n: usize) -> Result<usize, String> {
    let i: usize = t.ok_or("missing index")?.parse().map_err(|_| "bad index".to_string())?;
    if i >= n {
        return Err(format!("register {i} not defined yet"));
    }
    Ok(i)
}

fn rsv(regs: &[Reg], i: usize) -> Result<&RuntimeBoxedVal, String> {
    match &regs[i] {
        Reg::R(v) => Ok(v),
        Reg::T(_) => Err(format!("register {i} is a TC value")),
    }
}

/// runs one script; returns (steps as Coq terms, registers) or an input error
fn run_script(line: &str) -> Result<(Vec<String>, Vec<Reg>), String> {
    let mut regs: Vec<Reg> = vec![];
    let mut steps: Vec<String> = vec![];
    let mut src = TypeVariableSource::new();
    let mut tc_ids = Ids::default();
    for st in line.split(';') {
        let toks: Vec<&str> = st.split_whitespace().collect();
        if toks.is_empty() {
            continue;
        }
        match toks[0] {
            "N" => {
                let lim = toks.get(1).ok_or("missing limit")?;
                let limit: Option<usize> =
                    if *lim == "-" { None } else { Some(lim.parse().map_err(|_| "bad limit".to_string())?) };
                let tag = *toks.get(2).ok_or("missing tag")?;
                if toks.get(3) != Some(&"[") {
                    return Err("expected [".into());
                }
                let mut p = 4;
                let mut attrs = vec![];
                while p < toks.len() && toks[p] != "]" {
                    attrs.push(parse_u256(toks[p])?);
                    p += 1;
                }
                if p >= toks.len() {
                    return Err("expected ]".into());
                }
                p += 1;
                let mut kid_ix = vec![];
                let mut kids = vec![];
                while p < toks.len() {
                    let i = parse_idx(toks.get(p), regs.len())?;
                    kids.push(rsv(&regs, i)?.clone());
                    kid_ix.push(i);
                    p += 1;
                }
                let data: RSVD = build_svd(tag, &attrs, kids)?;
                regs.push(Reg::R(RSV::new(0, data, Provenance::Synthetic, limit)));
                steps.push(format!(
                    "SNew {} T_{} [{}] [{}]",
                    match limit {
                        None => "None".to_string(),
                        Some(l) => format!("(Some {l})"),
                    },
                    tag,
                    attrs.iter().map(|a| a.to_string()).collect::<Vec<_>>().join(";"),
                    kid_ix.iter().map(|i| format!("{i}%nat")).collect::<Vec<_>>().join(";")
                ));
            }
            "F" => {
                let i = parse_idx(toks.get(1), regs.len())?;
                let r = match &regs[i] {
                    Reg::R(v) => Reg::R(v.constant_fold()),
                    Reg::T(v) => Reg::T(v.constant_fold()),
                };
                regs.push(r);
                steps.push(format!("SFold {i}%nat"));
            }
            "I" => {
                let i = parse_idx(toks.get(1), regs.len())?;
                let r = match &regs[i] {
                    Reg::R(v) => Reg::R(v.transform_data(|_| None)),
                    Reg::T(v) => Reg::T(v.transform_data(|_| None)),
                };
                regs.push(r);
                steps.push(format!("STrans {i}%nat TId"));
            }
            "R" => {
                let i = parse_idx(toks.get(1), regs.len())?;
                let tag = *toks.get(2).ok_or("missing tag")?;
                let j = parse_idx(toks.get(3), regs.len())?;
                let repl: &RSVD = rsv(&regs, j)?.data();
                let v = rsv(&regs, i)?;
                let out =
                    v.transform_data(|d| if gen_ssv::tag_name(d) == tag { Some(repl.clone()) } else { None });
                regs.push(Reg::R(out));
                steps.push(format!("STrans {i}%nat (TRepl T_{tag} {j}%nat)"));
            }
            "X" => {
                let i = parse_idx(toks.get(1), regs.len())?;
                let t = to_tc(rsv(&regs, i)?, &mut src, &mut tc_ids)?;
                regs.push(Reg::T(t));
                steps.push(format!("STc {i}%nat"));
            }
            other => return Err(format!("unknown step {other}")),
        }
    }
    Ok((steps, regs))
}

pub fn run(_args: &[String], lines: &mut dyn Iterator<Item = String>, out: &mut dyn Write) {
    for line in lines {
        let r = guarded(|| {
            run_script(&line).map(|(steps, regs)| {
                let mut ids = Ids::default();
                let terms: Vec<String> = regs
                    .iter()
                    .map(|r| match r {
                        Reg::R(v) => format!("({}, {})", gen_ssv::ssv_term(v, &mut ids), walk_count(v)),
                        Reg::T(v) => format!("({}, {})", gen_ssv::ssv_term(v, &mut ids), walk_count(v)),
                    })
                    .collect();
                format!("mk_scase [{}] (SRes [{}])", steps.join("; "), terms.join("; "))
            })
        });
        match r {
            Ok(Ok(t)) => writeln!(out, "{t}").unwrap(),
            Ok(Err(e)) => writeln!(out, "BADINPUT {e}").unwrap(),
            Err(p) => writeln!(out, "PANIC {}", p.replace('\n', " ")).unwrap(),
        }
    }
}
