use std::io::Write;

use storage_layout_extractor::{
    disassembly::InstructionStream,
    opcode::{control, environment, memory, DynOpcode},
};

use crate::util::{coq_bytes, coq_string, guarded};

pub fn instr_term(op: &DynOpcode) -> String {
    let any = op.as_any();
    if let Some(p) = any.downcast_ref::<memory::PushN>() {
        let data: Vec<u8> = op.encode()[1..].to_vec();
        return format!("XPush {} {}", p.byte_size(), coq_bytes(&data));
    }
    if let Some(d) = any.downcast_ref::<memory::DupN>() {
        return format!("XDup {}", d.n());
    }
    if let Some(d) = any.downcast_ref::<memory::SwapN>() {
        return format!("XSwap {}", d.n());
    }
    if let Some(d) = any.downcast_ref::<environment::LogN>() {
        return format!("XLog {}", d.n());
    }
    if any.downcast_ref::<control::Nop>().is_some() {
        return "XNop".to_string();
    }
    if let Some(i) = any.downcast_ref::<control::Invalid>() {
        return format!("XInvalid {}", i.byte);
    }
    let dbg = format!("{op:?}");
    let name = dbg.split(|c: char| !c.is_alphanumeric() && c != '_').next().unwrap_or("");
    format!("XOp {}", coq_string(name))
}

/// input: one hex string per line; output: one `dcase` term per line
pub fn run(_args: &[String], lines: &mut dyn Iterator<Item = String>, out: &mut dyn Write) {
    for line in lines {
        let line = line.trim().to_string();
        let Ok(bytes) = hex::decode(&line) else {
            writeln!(out, "BADINPUT").unwrap();
            continue;
        };
        let res = guarded(|| {
            InstructionStream::try_from(bytes.as_slice()).map(|stream| {
                let reenc = stream.as_bytecode();
                let ops: std::rc::Rc<Vec<DynOpcode>> = stream.into();
                let terms: Vec<String> = ops.iter().map(instr_term).collect();
                // per-instruction encoding as the library reports it
                let encs: Vec<String> = ops.iter().map(|o| coq_bytes(&o.encode())).collect();
                (terms, encs, reenc)
            })
        });
        let r = match res {
            Err(_) => "RPanic".to_string(),
            Ok(Err(e)) => {
                let dbg = format!("{:?}", e.payload);
                let kind = dbg.split(|c: char| !c.is_alphanumeric()).next().unwrap_or("").to_string();
                format!("RErr {} {}", coq_string(&kind), e.location)
            }
            Ok(Ok((terms, encs, reenc))) => format!(
                "ROk [{}] [{}] {}",
                terms.join(";"),
                encs.join(";"),
                coq_bytes(&reenc)
            ),
        };
        writeln!(out, "mk_dcase {} ({})", coq_bytes(&bytes), r).unwrap();
    }
}
