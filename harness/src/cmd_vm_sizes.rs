//! `vm-sizes`: runs the REAL virtual machine on a program with a given `value_size_limit` and
//! `maximum_iterations_per_opcode`, then inspects every value reachable from every final state (stack,
//! memory, storage keys/generations, storage-write wrappers, recorded and logged values) and every
//! sub-node of those values.
//!
//! Input, one per line: `<hex bytecode> <value_size_limit> <iterations_limit> [family]`
//! Output: one `vcase` Coq term per line (see coq/SizeCases.v):
//!   mk_vcase limit family status distinct_nodes max_recorded [nodes whose recorded size differs from the
//!   number of nodes found by walking children()] [TOP-LEVEL values with more than `limit` nodes, one per
//!   constructor and origin] [the final stack of the last state, bottom first, when family <> 0] [the
//!   top-level values produced by instructions, when small] [the StorageWrite wrappers that
//!   stores_as_values() builds at collection time, when small]
//! origins: 0 stack, 1 memory offsets and generations, 2 storage keys and generations, 3 stores_as_values()
//! wrappers, 4 recorded values, 5 logged values, 6 ExecutionResult::all_values()
use std::{collections::HashMap, io::Write, sync::Arc};

use storage_layout_extractor::{
    disassembly::InstructionStream,
    vm::{value::RuntimeBoxedVal, Config, VM},
    watchdog::LazyWatchdog,
};

use crate::{
    cmd_sv_size::gen_ssv,
    util::{guarded, Ids},
};

/// true node count by walking `children()`, memoised per allocation
fn count(v: &RuntimeBoxedVal, memo: &mut HashMap<usize, u128>) -> u128 {
    let key = Arc::as_ptr(v) as usize;
    if let Some(n) = memo.get(&key) {
        return *n;
    }
    let mut n: u128 = 1;
    for c in v.children() {
        n = n.saturating_add(count(&c, memo));
    }
    memo.insert(key, n);
    n
}

struct Scan {
    memo:     HashMap<usize, u128>,
    seen:     HashMap<usize, ()>,
    limit:    u128,
    max_rec:  u128,
    bad:      Vec<String>,
    over:     HashMap<(u8, &'static str), String>,
}

impl Scan {
    fn row(origin: u8, v: &RuntimeBoxedVal, n: u128) -> String {
        format!("mk_vrow {} T_{} {} {}", origin, gen_ssv::tag_name(v.data()), v.size(), n)
    }

    fn top(&mut self, origin: u8, v: &RuntimeBoxedVal) {
        let n = count(v, &mut self.memo);
        if n > self.limit.max(1) {
            self.over.entry((origin, gen_ssv::tag_name(v.data()))).or_insert_with(|| Self::row(origin, v, n));
        }
        self.visit(origin, v);
    }

    fn visit(&mut self, origin: u8, v: &RuntimeBoxedVal) {
        let key = Arc::as_ptr(v) as usize;
        if self.seen.insert(key, ()).is_some() {
            return;
        }
        let n = count(v, &mut self.memo);
        let rec = v.size() as u128;
        self.max_rec = self.max_rec.max(rec);
        if rec != n && self.bad.len() < 6 {
            self.bad.push(Self::row(origin, v, n));
        }
        for c in v.children() {
            self.visit(origin, &c);
        }
    }
}

fn run_one(line: &str) -> Result<String, String> {
    let toks: Vec<&str> = line.split_whitespace().collect();
    if toks.len() < 3 {
        return Err("expected: hex limit iterations [family]".into());
    }
    let bytes = hex::decode(toks[0]).map_err(|e| format!("{e}"))?;
    let limit: usize = toks[1].parse().map_err(|_| "bad limit".to_string())?;
    let iters: usize = toks[2].parse().map_err(|_| "bad iterations".to_string())?;
    let family: u32 = toks.get(3).map_or(Ok(0), |t| t.parse()).map_err(|_| "bad family".to_string())?;
    let stream = InstructionStream::try_from(bytes.as_slice()).map_err(|e| format!("disassembly: {e:?}"))?;
    let config = Config::default().with_value_size_limit(limit).with_max_iterations_per_opcode(iters);

    let res = guarded(|| {
        let mut vm = VM::new(stream, config, LazyWatchdog.in_rc()).map_err(|e| format!("{e:?}"))?;
        let status = match vm.execute() {
            Ok(()) => "VOk".to_string(),
            Err(errs) => format!("(VErrs {})", errs.len()),
        };
        let result = vm.consume();
        let mut scan = Scan {
            memo:    HashMap::new(),
            seen:    HashMap::new(),
            limit:   limit as u128,
            max_rec: 0,
            bad:     vec![],
            over:    HashMap::new(),
        };
        let mut tops: Vec<RuntimeBoxedVal> = vec![];
        let mut wrappers: Vec<RuntimeBoxedVal> = vec![];
        let mut last_stack: Vec<RuntimeBoxedVal> = vec![];
        for state in &result.states {
            let stack = state.stack().clone().all_values();
            let groups: Vec<(u8, Vec<RuntimeBoxedVal>)> = vec![
                (0, stack.clone()),
                (1, state.memory().clone().all_values()),
                (2, state.storage().all_values()),
                (3, state.storage().clone().stores_as_values()),
                (4, state.recorded_values().to_vec()),
                (5, state.logged_values().to_vec()),
            ];
            last_stack = stack;
            for (origin, vals) in groups {
                for v in vals {
                    scan.top(origin, &v);
                    if origin == 3 {
                        wrappers.push(v);
                    } else {
                        tops.push(v);
                    }
                }
            }
        }
        // whatever ExecutionResult::all_values() hands to the type checker is covered as well
        for v in result.all_values() {
            scan.top(6, &v);
        }
        let mut ids = Ids::default();
        let stack_terms: Vec<String> = if family != 0
            && last_stack.iter().map(|v| count(v, &mut scan.memo)).sum::<u128>() <= 400_000
        {
            last_stack.iter().map(|v| gen_ssv::ssv_term(v, &mut ids)).collect()
        } else {
            vec![]
        };
        let total: u128 = tops.iter().chain(wrappers.iter()).map(|v| count(v, &mut scan.memo)).sum();
        let (tree_terms, wrapper_terms): (Vec<String>, Vec<String>) = if total <= 4000 {
            (
                tops.iter().map(|v| gen_ssv::ssv_term(v, &mut ids)).collect(),
                wrappers.iter().map(|v| gen_ssv::ssv_term(v, &mut ids)).collect(),
            )
        } else {
            (vec![], vec![])
        };
        let mut over: Vec<String> = scan.over.values().cloned().collect();
        over.sort();
        Ok::<String, String>(format!(
            "mk_vcase {} {} {} {} {} [{}] [{}] [{}] [{}] [{}]",
            limit,
            family,
            status,
            scan.seen.len(),
            scan.max_rec,
            scan.bad.join("; "),
            over.join("; "),
            stack_terms.join("; "),
            tree_terms.join("; "),
            wrapper_terms.join("; ")
        ))
    });
    match res {
        Ok(Ok(t)) => Ok(t),
        Ok(Err(e)) => Err(format!("vm: {e}")),
        Err(p) => Ok(format!("mk_vcase {limit} {family} (VPanic {}) 0 0 [] [] [] [] []", crate::util::coq_string(&p.replace('\n', " ")))),
    }
}

pub fn run(_args: &[String], lines: &mut dyn Iterator<Item = String>, out: &mut dyn Write) {
    for line in lines {
        match run_one(&line) {
            Ok(t) => writeln!(out, "{t}").unwrap(),
            Err(e) => writeln!(out, "BADINPUT {}", e.replace('\n', " ")).unwrap(),
        }
        // one line per input, flushed: the driver detects an input that never finishes
        out.flush().unwrap();
    }
}
