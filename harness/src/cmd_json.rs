//! C20: JSON round trip of layout entries.
//!
//! `slxh json valid`      one slot description per line:  `<index> <offset> <type>` where
//!     index  = 0x-hex or decimal 256-bit number, offset = decimal usize,
//!     type   = any | address | selector | function | bool | dynbytes | infinite
//!            | (number N|-) | (uint N|-) | (int N|-) | (bytes N|-) | (bits N|-)
//!            | (array <u256> T) | (dynarray T) | (mapping K V) | (struct (OFF T) ...)
//!            | (conflict [hex,...] [hex,...])       strings are hex-encoded UTF-8
//!   output: one `mk_vcase` term per line (see coq/JsonCases.v)
//! `slxh json malformed`  one line `<kind> <json text>` with kind = slot | abi | u256
//!   output: one `mk_mcase` term per line
//!
//! The JSON text serde_json produced is parsed into the generic AST by a small parser of our own
//! (serde_json's `Value` sorts and de-duplicates keys, and its parser has the 128 recursion limit
//! that is itself under test); for shallow texts the two parsers are cross-checked.

use std::io::Write;

use ethnum::U256;
use storage_layout_extractor::{
    layout::StorageSlot,
    tc::abi::{AbiType, StructElement},
    utility::U256Wrapper,
};

use crate::util::guarded;

// ------------------------------------------------------------------------------------------------
// generic JSON value, ordered, duplicates kept

#[derive(Clone, Debug)]
pub enum J {
    Null,
    Bool(bool),
    Num(u64),
    /// any number token serde_json does not hand to `visit_u64`
    NumX(String),
    Str(Vec<u8>),
    Arr(Vec<J>),
    Obj(Vec<(Vec<u8>, J)>),
}

struct P<'a> {
    b: &'a [u8],
    i: usize,
}

impl<'a> P<'a> {
    fn ws(&mut self) {
        while self.i < self.b.len() && matches!(self.b[self.i], b' ' | b'\t' | b'\n' | b'\r') {
            self.i += 1;
        }
    }
    fn peek(&self) -> Option<u8> {
        self.b.get(self.i).copied()
    }
    fn lit(&mut self, s: &[u8]) -> Result<(), String> {
        if self.b[self.i..].starts_with(s) {
            self.i += s.len();
            Ok(())
        } else {
            Err(format!("expected literal at {}", self.i))
        }
    }
    fn hex4(&mut self) -> Result<u32, String> {
        if self.i + 4 > self.b.len() {
            return Err("short \\u".into());
        }
        let s = std::str::from_utf8(&self.b[self.i..self.i + 4]).map_err(|e| e.to_string())?;
        let v = u32::from_str_radix(s, 16).map_err(|e| e.to_string())?;
        self.i += 4;
        Ok(v)
    }
    fn string(&mut self) -> Result<Vec<u8>, String> {
        // at opening quote
        self.i += 1;
        let mut out = vec![];
        loop {
            let c = self.peek().ok_or("eof in string")?;
            self.i += 1;
            match c {
                b'"' => return Ok(out),
                b'\\' => {
                    let e = self.peek().ok_or("eof in escape")?;
                    self.i += 1;
                    match e {
                        b'"' => out.push(b'"'),
                        b'\\' => out.push(b'\\'),
                        b'/' => out.push(b'/'),
                        b'b' => out.push(8),
                        b'f' => out.push(12),
                        b'n' => out.push(10),
                        b'r' => out.push(13),
                        b't' => out.push(9),
                        b'u' => {
                            let mut cp = self.hex4()?;
                            if (0xD800..0xDC00).contains(&cp) {
                                self.lit(b"\\u")?;
                                let lo = self.hex4()?;
                                if !(0xDC00..0xE000).contains(&lo) {
                                    return Err("bad surrogate".into());
                                }
                                cp = 0x10000 + ((cp - 0xD800) << 10) + (lo - 0xDC00);
                            }
                            let ch = char::from_u32(cp).ok_or("bad code point")?;
                            let mut buf = [0u8; 4];
                            out.extend_from_slice(ch.encode_utf8(&mut buf).as_bytes());
                        }
                        _ => return Err("bad escape".into()),
                    }
                }
                c if c < 0x20 => return Err("control character in string".into()),
                c => out.push(c),
            }
        }
    }
    fn number(&mut self) -> Result<J, String> {
        let st = self.i;
        let mut plain = true;
        if self.peek() == Some(b'-') {
            plain = false;
            self.i += 1;
        }
        let d0 = self.i;
        while matches!(self.peek(), Some(b'0'..=b'9')) {
            self.i += 1;
        }
        if self.i == d0 {
            return Err("no digits".into());
        }
        if self.b[d0] == b'0' && self.i - d0 > 1 {
            return Err("leading zero".into());
        }
        if self.peek() == Some(b'.') {
            plain = false;
            self.i += 1;
            let f0 = self.i;
            while matches!(self.peek(), Some(b'0'..=b'9')) {
                self.i += 1;
            }
            if self.i == f0 {
                return Err("no fraction digits".into());
            }
        }
        if matches!(self.peek(), Some(b'e' | b'E')) {
            plain = false;
            self.i += 1;
            if matches!(self.peek(), Some(b'+' | b'-')) {
                self.i += 1;
            }
            let e0 = self.i;
            while matches!(self.peek(), Some(b'0'..=b'9')) {
                self.i += 1;
            }
            if self.i == e0 {
                return Err("no exponent digits".into());
            }
        }
        let tok = std::str::from_utf8(&self.b[st..self.i]).unwrap().to_string();
        if plain {
            if let Ok(v) = tok.parse::<u64>() {
                return Ok(J::Num(v));
            }
        }
        Ok(J::NumX(tok))
    }
    fn value(&mut self) -> Result<J, String> {
        self.ws();
        match self.peek().ok_or("eof")? {
            b'n' => self.lit(b"null").map(|_| J::Null),
            b't' => self.lit(b"true").map(|_| J::Bool(true)),
            b'f' => self.lit(b"false").map(|_| J::Bool(false)),
            b'"' => self.string().map(J::Str),
            b'[' => {
                self.i += 1;
                let mut v = vec![];
                self.ws();
                if self.peek() == Some(b']') {
                    self.i += 1;
                    return Ok(J::Arr(v));
                }
                loop {
                    v.push(self.value()?);
                    self.ws();
                    match self.peek() {
                        Some(b',') => self.i += 1,
                        Some(b']') => {
                            self.i += 1;
                            return Ok(J::Arr(v));
                        }
                        _ => return Err(format!("expected , or ] at {}", self.i)),
                    }
                }
            }
            b'{' => {
                self.i += 1;
                let mut v = vec![];
                self.ws();
                if self.peek() == Some(b'}') {
                    self.i += 1;
                    return Ok(J::Obj(v));
                }
                loop {
                    self.ws();
                    if self.peek() != Some(b'"') {
                        return Err(format!("expected key at {}", self.i));
                    }
                    let k = self.string()?;
                    self.ws();
                    if self.peek() != Some(b':') {
                        return Err(format!("expected : at {}", self.i));
                    }
                    self.i += 1;
                    let x = self.value()?;
                    v.push((k, x));
                    self.ws();
                    match self.peek() {
                        Some(b',') => self.i += 1,
                        Some(b'}') => {
                            self.i += 1;
                            return Ok(J::Obj(v));
                        }
                        _ => return Err(format!("expected , or }} at {}", self.i)),
                    }
                }
            }
            b'-' | b'0'..=b'9' => self.number(),
            c => Err(format!("unexpected byte {c} at {}", self.i)),
        }
    }
}

pub fn parse_json(text: &str) -> Result<J, String> {
    let mut p = P { b: text.as_bytes(), i: 0 };
    let v = p.value()?;
    p.ws();
    if p.i != text.len() {
        return Err(format!("trailing characters at {}", p.i));
    }
    Ok(v)
}

fn depth(j: &J) -> usize {
    match j {
        J::Arr(v) => 1 + v.iter().map(depth).max().unwrap_or(0),
        J::Obj(v) => 1 + v.iter().map(|(_, x)| depth(x)).max().unwrap_or(0),
        _ => 0,
    }
}

/// our AST -> serde_json::Value (keys: last one wins, as in serde_json)
fn to_value(j: &J) -> Option<serde_json::Value> {
    use serde_json::Value as V;
    Some(match j {
        J::Null => V::Null,
        J::Bool(b) => V::Bool(*b),
        J::Num(n) => V::from(*n),
        J::NumX(t) => serde_json::from_str::<V>(t).ok()?,
        J::Str(s) => V::String(String::from_utf8(s.clone()).ok()?),
        J::Arr(v) => V::Array(v.iter().map(to_value).collect::<Option<Vec<_>>>()?),
        J::Obj(v) => {
            let mut m = serde_json::Map::new();
            for (k, x) in v {
                m.insert(String::from_utf8(k.clone()).ok()?, to_value(x)?);
            }
            V::Object(m)
        }
    })
}

/// cross-check of the two JSON text parsers (only where serde_json's recursion limit allows)
fn parsers_agree(text: &str, j: &J) -> bool {
    if depth(j) > 100 {
        return true;
    }
    match (serde_json::from_str::<serde_json::Value>(text), to_value(j)) {
        (Ok(a), Some(b)) => a == b,
        _ => false,
    }
}

// ------------------------------------------------------------------------------------------------
// Coq terms

pub fn coq_str(s: &[u8]) -> String {
    if s.iter().all(|&c| (0x20..0x7f).contains(&c)) {
        let t = std::str::from_utf8(s).unwrap();
        format!("\"{}\"", t.replace('"', "\"\""))
    } else {
        let v: Vec<String> = s.iter().map(|b| b.to_string()).collect();
        format!("(bstr [{}])", v.join(";"))
    }
}

pub fn j_term(j: &J) -> String {
    match j {
        J::Null => "JNull".into(),
        J::Bool(b) => format!("(JBool {b})"),
        J::Num(n) => format!("(JNum {n})"),
        J::NumX(_) => "JNumX".into(),
        J::Str(s) => format!("(JStr {})", coq_str(s)),
        J::Arr(v) => format!("(JArr [{}])", v.iter().map(j_term).collect::<Vec<_>>().join("; ")),
        J::Obj(v) => format!(
            "(JObj [{}])",
            v.iter().map(|(k, x)| format!("({}, {})", coq_str(k), j_term(x))).collect::<Vec<_>>().join("; ")
        ),
    }
}

/// big numbers as hexadecimal numerals (Coq reads those in linear time)
fn u256_term(v: &U256) -> String {
    if *v < U256::from(1u128 << 64) {
        format!("{v}")
    } else {
        format!("{v:#x}")
    }
}

fn opt_term(o: &Option<usize>) -> String {
    match o {
        None => "None".into(),
        Some(n) => format!("(Some {n})"),
    }
}

fn strs_term(v: &[String]) -> String {
    format!("[{}]", v.iter().map(|s| coq_str(s.as_bytes())).collect::<Vec<_>>().join("; "))
}

pub fn abi_term(t: &AbiType) -> String {
    match t {
        AbiType::Any => "TAny".into(),
        AbiType::Number { size } => format!("(TNumber {})", opt_term(size)),
        AbiType::UInt { size } => format!("(TUInt {})", opt_term(size)),
        AbiType::Int { size } => format!("(TInt {})", opt_term(size)),
        AbiType::Address => "TAddress".into(),
        AbiType::Selector => "TSelector".into(),
        AbiType::Function => "TFunction".into(),
        AbiType::Bool => "TBool".into(),
        AbiType::Array { size, tp } => format!("(TArray {} {})", u256_term(&size.0), abi_term(tp)),
        AbiType::Bytes { length } => format!("(TBytes {})", opt_term(length)),
        AbiType::Bits { length } => format!("(TBits {})", opt_term(length)),
        AbiType::DynArray { tp } => format!("(TDynArray {})", abi_term(tp)),
        AbiType::DynBytes => "TDynBytes".into(),
        AbiType::Mapping { key_type, value_type } => {
            format!("(TMapping {} {})", abi_term(key_type), abi_term(value_type))
        }
        AbiType::Struct { elements } => format!(
            "(TStruct [{}])",
            elements.iter().map(|e| format!("({}, {})", e.offset, abi_term(&e.typ))).collect::<Vec<_>>().join("; ")
        ),
        AbiType::InfiniteType => "TInfiniteType".into(),
        AbiType::ConflictedType { conflicts, reasons } => {
            format!("(TConflictedType {} {})", strs_term(conflicts), strs_term(reasons))
        }
    }
}

pub fn slot_term(s: &StorageSlot) -> String {
    format!("(mk_slot {} {} {})", u256_term(&s.index.0), s.offset, abi_term(&s.typ))
}

// ------------------------------------------------------------------------------------------------
// slot descriptions

struct Toks {
    t: Vec<String>,
    i: usize,
}

fn tokenize(s: &str) -> Vec<String> {
    let mut out = vec![];
    let mut cur = String::new();
    for c in s.chars() {
        if c.is_whitespace() || c == '(' || c == ')' {
            if !cur.is_empty() {
                out.push(std::mem::take(&mut cur));
            }
            if c == '(' || c == ')' {
                out.push(c.to_string());
            }
        } else {
            cur.push(c);
        }
    }
    if !cur.is_empty() {
        out.push(cur);
    }
    out
}

fn p_u256(s: &str) -> Result<U256, String> {
    crate::util::parse_u256(s)
}

fn p_opt(s: &str) -> Result<Option<usize>, String> {
    if s == "-" {
        Ok(None)
    } else {
        s.parse::<usize>().map(Some).map_err(|e| e.to_string())
    }
}

fn p_strs(s: &str) -> Result<Vec<String>, String> {
    let inner = s.strip_prefix('[').and_then(|x| x.strip_suffix(']')).ok_or("expected [..]")?;
    if inner.is_empty() {
        return Ok(vec![]);
    }
    inner
        .split(',')
        .map(|h| {
            let b = hex::decode(h).map_err(|e| e.to_string())?;
            String::from_utf8(b).map_err(|e| e.to_string())
        })
        .collect()
}

impl Toks {
    fn next(&mut self) -> Result<String, String> {
        let t = self.t.get(self.i).cloned().ok_or("unexpected end")?;
        self.i += 1;
        Ok(t)
    }
    fn expect(&mut self, s: &str) -> Result<(), String> {
        let t = self.next()?;
        if t == s {
            Ok(())
        } else {
            Err(format!("expected {s} got {t}"))
        }
    }
    fn ty(&mut self) -> Result<AbiType, String> {
        let t = self.next()?;
        Ok(match t.as_str() {
            "any" => AbiType::Any,
            "address" => AbiType::Address,
            "selector" => AbiType::Selector,
            "function" => AbiType::Function,
            "bool" => AbiType::Bool,
            "dynbytes" => AbiType::DynBytes,
            "infinite" => AbiType::InfiniteType,
            "(" => {
                let h = self.next()?;
                let r = match h.as_str() {
                    "number" => AbiType::Number { size: p_opt(&self.next()?)? },
                    "uint" => AbiType::UInt { size: p_opt(&self.next()?)? },
                    "int" => AbiType::Int { size: p_opt(&self.next()?)? },
                    "bytes" => AbiType::Bytes { length: p_opt(&self.next()?)? },
                    "bits" => AbiType::Bits { length: p_opt(&self.next()?)? },
                    "array" => {
                        let size = U256Wrapper(p_u256(&self.next()?)?);
                        let tp = Box::new(self.ty()?);
                        AbiType::Array { size, tp }
                    }
                    "dynarray" => AbiType::DynArray { tp: Box::new(self.ty()?) },
                    "mapping" => {
                        let key_type = Box::new(self.ty()?);
                        let value_type = Box::new(self.ty()?);
                        AbiType::Mapping { key_type, value_type }
                    }
                    "struct" => {
                        let mut elements = vec![];
                        while self.t.get(self.i).map(|s| s.as_str()) == Some("(") {
                            self.i += 1;
                            let off = self.next()?.parse::<usize>().map_err(|e| e.to_string())?;
                            let ty = self.ty()?;
                            self.expect(")")?;
                            elements.push(StructElement::new(off, ty));
                        }
                        AbiType::Struct { elements }
                    }
                    "conflict" => {
                        let conflicts = p_strs(&self.next()?)?;
                        let reasons = p_strs(&self.next()?)?;
                        AbiType::ConflictedType { conflicts, reasons }
                    }
                    o => return Err(format!("unknown type head {o}")),
                };
                self.expect(")")?;
                r
            }
            o => return Err(format!("unknown type {o}")),
        })
    }
}

pub fn parse_slot(line: &str) -> Result<StorageSlot, String> {
    let mut tk = Toks { t: tokenize(line), i: 0 };
    let index = U256Wrapper(p_u256(&tk.next()?)?);
    let offset = tk.next()?.parse::<usize>().map_err(|e| e.to_string())?;
    let typ = tk.ty()?;
    if tk.i != tk.t.len() {
        return Err("trailing tokens".into());
    }
    Ok(StorageSlot { index, offset, typ })
}

// ------------------------------------------------------------------------------------------------

fn bres<T>(r: Result<Result<T, serde_json::Error>, String>, show: impl Fn(&T) -> String, ctor: &str) -> String {
    match r {
        Err(_) => "BPanic".into(),
        Ok(Err(_)) => "BErr".into(),
        Ok(Ok(v)) => format!("({ctor} {})", show(&v)),
    }
}

fn valid_line(line: &str) -> String {
    let slot = match parse_slot(line) {
        Ok(s) => s,
        Err(e) => return format!("BADINPUT {e}"),
    };
    let st = slot_term(&slot);
    // the slot index on its own: the 256-bit hex word
    let hex = match guarded(|| serde_json::to_string(&slot.index)) {
        Ok(Ok(t)) => t,
        _ => return format!("(mk_vcase {st} VSerFail)"),
    };
    let hexj = match parse_json(&hex) {
        Ok(J::Str(s)) => coq_str(&s),
        _ => return format!("(mk_vcase {st} VSerFail)"),
    };
    let hex_back = match guarded(|| serde_json::from_str::<U256Wrapper>(&hex)) {
        Ok(Ok(v))
            if matches!(guarded(|| serde_json::from_reader::<_, U256Wrapper>(std::io::Cursor::new(hex.as_bytes()))), Ok(Ok(w)) if w.0 == v.0)
                && matches!(guarded(|| serde_json::from_value::<U256Wrapper>(serde_json::Value::String(hex.trim_matches('"').to_string()))), Ok(Ok(w)) if w.0 == v.0) =>
        {
            format!("(Some {})", u256_term(&v.0))
        }
        _ => "None".to_string(),
    };
    let text = match guarded(|| serde_json::to_string(&slot)) {
        Ok(Ok(t)) => t,
        _ => return format!("(mk_vcase {st} VSerFail)"),
    };
    let j = match parse_json(&text) {
        Ok(j) if parsers_agree(&text, &j) => j,
        Ok(_) => return "BADJSON parsers disagree".to_string(),
        Err(e) => return format!("BADJSON {e}"),
    };
    let back = guarded(|| serde_json::from_str::<StorageSlot>(&text));
    let (eq, same_text) = match &back {
        Ok(Ok(b)) => {
            let eq = *b == slot;
            // a second serialisation must give the same text (covers the payloads PartialEq ignores)
            let again = guarded(|| serde_json::to_string(b));
            // the same text through serde_json's other entry points (a layout file is read with `from_reader`, an embedded
            // layout with `from_value`; both hand the visitor transient rather than borrowed strings)
            let others = matches!(guarded(|| serde_json::from_slice::<StorageSlot>(text.as_bytes())), Ok(Ok(x)) if x == slot)
                && matches!(guarded(|| serde_json::from_reader::<_, StorageSlot>(std::io::Cursor::new(text.as_bytes()))), Ok(Ok(x)) if x == slot)
                && matches!(guarded(|| serde_json::from_str::<serde_json::Value>(&text).and_then(serde_json::from_value::<StorageSlot>)), Ok(Ok(x)) if x == slot);
            (eq && others, matches!(again, Ok(Ok(t2)) if t2 == text))
        }
        _ => (false, false),
    };
    let b = bres(back, slot_term, "BSlot");
    format!("(mk_vcase {st} (VOk {hexj} {hex_back} {} {b} {eq} {same_text}))", j_term(&j))
}

fn malformed_line(line: &str) -> String {
    let Some((kind, text)) = line.split_once(' ') else {
        return "BADINPUT no kind".into();
    };
    let j = match parse_json(text) {
        Ok(j) if parsers_agree(text, &j) => j,
        Ok(_) => return "BADJSON parsers disagree".to_string(),
        Err(e) => return format!("BADJSON {e}"),
    };
    let (k, r) = match kind {
        "slot" => ("KSlot", bres(guarded(|| serde_json::from_str::<StorageSlot>(text)), slot_term, "BSlot")),
        "abi" => ("KAbi", bres(guarded(|| serde_json::from_str::<AbiType>(text)), abi_term, "BAbi")),
        "u256" => (
            "KU256",
            bres(guarded(|| serde_json::from_str::<U256Wrapper>(text)), |v| u256_term(&v.0), "BU256"),
        ),
        o => return format!("BADINPUT kind {o}"),
    };
    format!("(mk_mcase {k} {} {r})", j_term(&j))
}

pub fn run(args: &[String], lines: &mut dyn Iterator<Item = String>, out: &mut dyn Write) {
    let mode = args.first().map(|s| s.as_str()).unwrap_or("valid");
    for line in lines {
        let line = line.trim().to_string();
        let r = match mode {
            "valid" => valid_line(&line),
            "malformed" => malformed_line(&line),
            "text" => match parse_slot(&line) {
                // debugging aid: the JSON text itself
                Ok(s) => serde_json::to_string(&s).unwrap_or_else(|e| format!("ERR {e}")),
                Err(e) => format!("BADINPUT {e}"),
            },
            _ => "BADMODE".to_string(),
        };
        writeln!(out, "{r}").unwrap();
    }
}
