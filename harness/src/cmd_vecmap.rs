//! `vecmap`: runs operation sequences against the real `VectorMap<usize, u64>` and prints, after every
//! operation, what it returned plus len(), is_empty() and max_key_index(), as a Coq term of type
//! `DsuCases.vcase`.
//!
//! input line: `<op>;<op>;...`
//!   i3:7  insert(&3, 7)     g3  get(&3)     m3  get_mut(&3)     r3  remove(&3)
//!   I     iter() / indices() / values()     J   iter_mut() / into_indices() / into_values() (on a clone)
//! output line: `mk_vcase [ops] [observations]`; a panic ends the observations with `XVPanic`.

use std::io::Write;

use storage_layout_extractor::data::vector_map::VectorMap;

use crate::{
    cmd_dsu::{coq_nums, num},
    util::guarded,
};

#[derive(Clone, Debug)]
enum VOp {
    Insert(usize, u64),
    Get(usize),
    GetMut(usize),
    Remove(usize),
    Iter,
    IterInto,
}

fn parse_op(t: &str) -> Result<VOp, String> {
    let t = t.trim();
    let (c, rest) = t.split_at(t.len().min(1));
    let us = |s: &str| s.parse::<usize>().map_err(|e| format!("{e:?}"));
    match c {
        "i" => {
            let (k, v) = rest.split_once(':').ok_or("insert needs `:`")?;
            Ok(VOp::Insert(us(k)?, v.parse::<u64>().map_err(|e| format!("{e:?}"))?))
        }
        "g" => Ok(VOp::Get(us(rest)?)),
        "m" => Ok(VOp::GetMut(us(rest)?)),
        "r" => Ok(VOp::Remove(us(rest)?)),
        "I" if rest.is_empty() => Ok(VOp::Iter),
        "J" if rest.is_empty() => Ok(VOp::IterInto),
        _ => Err(format!("bad op {t:?}")),
    }
}

fn op_term(op: &VOp) -> String {
    match op {
        VOp::Insert(k, v) => format!("VInsert {} {}", num(k), num(v)),
        VOp::Get(k) | VOp::GetMut(k) => format!("VGet {}", num(k)),
        VOp::Remove(k) => format!("VRemove {}", num(k)),
        VOp::Iter | VOp::IterInto => "VIter".to_string(),
    }
}

fn opt(o: Option<u64>) -> String {
    match o {
        Some(v) => format!("VoOpt (Some {})", num(&v)),
        None => "VoOpt None".to_string(),
    }
}

fn iter_term(pairs: &[(usize, u64)], idx: &[usize], vals: &[u64]) -> String {
    let ps: Vec<String> = pairs.iter().map(|(k, v)| format!("({},{})", num(k), num(v))).collect();
    format!("VoIter [{}] {} {}", ps.join(";"), coq_nums(idx), coq_nums(vals))
}

fn apply(m: &mut VectorMap<usize, u64>, op: &VOp) -> String {
    let out = match op {
        VOp::Insert(k, v) => {
            m.insert(k, *v);
            "VoUnit".to_string()
        }
        VOp::Get(k) => opt(m.get(k).copied()),
        VOp::GetMut(k) => opt(m.get_mut(k).map(|v| *v)),
        VOp::Remove(k) => opt(m.remove(k)),
        VOp::Iter => {
            let pairs: Vec<(usize, u64)> = m.iter().map(|(k, v)| (k, *v)).collect();
            let idx: Vec<usize> = m.indices().collect();
            let vals: Vec<u64> = m.values().copied().collect();
            iter_term(&pairs, &idx, &vals)
        }
        VOp::IterInto => {
            let mut c = m.clone();
            let pairs: Vec<(usize, u64)> = c.iter_mut().map(|(k, v)| (k, *v)).collect();
            let idx: Vec<usize> = c.clone().into_indices().collect();
            let vals: Vec<u64> = c.into_values().collect();
            iter_term(&pairs, &idx, &vals)
        }
    };
    let maxk = match m.max_key_index() {
        Some(k) => format!("(Some {})", num(&k)),
        None => "None".to_string(),
    };
    format!("XV ({out}) {} {} {maxk}", num(&m.len()), m.is_empty())
}

pub fn run(_args: &[String], lines: &mut dyn Iterator<Item = String>, out: &mut dyn Write) {
    for line in lines {
        let ops: Result<Vec<VOp>, String> =
            line.trim().split(';').filter(|t| !t.trim().is_empty()).map(parse_op).collect();
        let Ok(ops) = ops else {
            writeln!(out, "BADINPUT").unwrap();
            continue;
        };
        let mut m: VectorMap<usize, u64> = VectorMap::new();
        let mut obs = vec![];
        for op in &ops {
            match guarded(|| apply(&mut m, op)) {
                Ok(o) => obs.push(o),
                Err(_) => {
                    obs.push("XVPanic".to_string());
                    break;
                }
            }
        }
        let ops_t: Vec<String> = ops.iter().map(op_term).collect();
        writeln!(out, "mk_vcase [{}] [{}]", ops_t.join(";"), obs.join(";")).unwrap();
    }
}
