//! `lift`: one input per line, `<pass> <value tree>`, the tree in the `(Tag [attrs] kids...)` syntax.
//! <pass> is one of
//!   StorageSlotHashes ProxySlots MappingIndex DynamicArrayIndex StorageSlots MappingOffset
//!   SubWordValue MulShiftedValue PackedEncoding      (the REAL pass struct, through `Lift::run`)
//!   all6      the six slot-related passes in the order they have in `LiftingPasses::default()`
//!   default   the real `LiftingPasses::default()` (nine passes); the line also carries the `all6` result
//! Output: a Coq term of type `PassesSlotsCases.lcase`:
//!   (mk_lcase <mode> <input as parsed> <keccak oracle> <result>)
//! The keccak oracle lists (bytes, keccak256(bytes)) for every byte string the proxy-slot pass could hash
//! on this input (every `Sha3` node over a constant or over a Concat whose operands all fold to constants,
//! in the input and in the tree the pass actually sees); it is computed by the harness with the `sha3`
//! crate, not by the library, so the model's reading of `sha3_known_words` is compared as well.
//!
//! `lift table`      (argument instead of stdin): prints `StorageSlotHashes::make_hashes(SLOT_COUNT)` as lines
//!                   `<slot> <hash>` sorted by slot, then `count <n>`.
//! `lift vm`         input lines are `vm` inputs (`hex gas iter fork size mem permissive poll_every stop_at`);
//!                   prints the de-duplicated `ExecutionResult::all_values()` of the real VM as a Coq list.
use std::{io::Write, rc::Rc};

use itertools::Itertools;
use sha3::{Digest, Keccak256};
use storage_layout_extractor::{
    disassembly::InstructionStream,
    tc::{
        lift::{
            dynamic_array_access::DynamicArrayIndex,
            mapping_index::MappingIndex,
            mapping_offset::MappingOffset,
            mul_shifted::MulShiftedValue,
            packed_encoding::PackedEncoding,
            proxy_slots::ProxySlots,
            recognise_hashed_slots::{StorageSlotHashes, SLOT_COUNT},
            storage_slots::StorageSlots,
            sub_word::SubWordValue,
            Lift,
            LiftingPasses,
        },
        state::TypeCheckerState,
    },
    vm::{
        value::{RuntimeBoxedVal, RSVD},
        VM,
    },
    watchdog::DynWatchdog,
};

use crate::{
    cmd_vm::parse_input,
    gen_sv::sv_term,
    util::{guarded, parse_value, CountingWatchdog, Ids},
};

const SIX: [&str; 6] =
    ["StorageSlotHashes", "ProxySlots", "MappingIndex", "DynamicArrayIndex", "StorageSlots", "MappingOffset"];

struct Passes {
    hashes:  Box<StorageSlotHashes>,
    default: LiftingPasses,
}

fn run_named(p: &mut Passes, name: &str, v: RuntimeBoxedVal, st: &TypeCheckerState) -> Result<RuntimeBoxedVal, String> {
    let r = match name {
        "StorageSlotHashes" => p.hashes.run(v, st),
        "ProxySlots" => ProxySlots::new().run(v, st),
        "MappingIndex" => MappingIndex::new().run(v, st),
        "DynamicArrayIndex" => DynamicArrayIndex::new().run(v, st),
        "StorageSlots" => StorageSlots::new().run(v, st),
        "MappingOffset" => MappingOffset::new().run(v, st),
        "SubWordValue" => SubWordValue::new().run(v, st),
        "MulShiftedValue" => MulShiftedValue::new().run(v, st),
        "PackedEncoding" => PackedEncoding::new().run(v, st),
        _ => return Err(format!("unknown pass {name}")),
    };
    r.map_err(|_| "err".to_string())
}

fn keccak(bytes: &[u8]) -> ethnum::U256 {
    let mut h = Keccak256::new();
    h.update(bytes);
    let out = h.finalize().to_vec();
    ethnum::U256::from_be_bytes(out.as_slice().try_into().expect("32 bytes"))
}

/// every byte string the proxy pass could hash below `v`
fn preimages(v: &RuntimeBoxedVal, acc: &mut Vec<Vec<u8>>) {
    if let RSVD::Sha3 { data } = v.data() {
        match data.data() {
            RSVD::KnownData { value } => acc.push(value.bytes_be().to_vec()),
            RSVD::Concat { values } => {
                let mut bytes = vec![];
                let mut all = true;
                for x in values {
                    match x.constant_fold().data() {
                        RSVD::KnownData { value } => bytes.extend(value.bytes_be()),
                        _ => all = false,
                    }
                }
                if all {
                    acc.push(bytes);
                }
            }
            _ => {}
        }
    }
    for c in v.children() {
        preimages(&c, acc);
    }
}

fn oracle_term(pre: Vec<Vec<u8>>) -> String {
    let items: Vec<String> = pre
        .into_iter()
        .unique()
        .map(|b| format!("({},{})", crate::util::coq_bytes(&b), keccak(&b)))
        .collect();
    format!("[{}]", items.join(";"))
}

fn mode_term(name: &str) -> String {
    match name {
        "all6" => "LAll6".to_string(),
        "default" => "LDefault".to_string(),
        n => format!("(LP P_{n})"),
    }
}

fn table(out: &mut dyn Write) {
    let t = StorageSlotHashes::make_hashes(SLOT_COUNT);
    let mut rows: Vec<(usize, ethnum::U256)> = t.iter().map(|(h, s)| (*s, *h)).collect();
    rows.sort();
    for (s, h) in &rows {
        writeln!(out, "{s} {h}").unwrap();
    }
    writeln!(out, "count {}", rows.len()).unwrap();
}

fn vm_values(lines: &mut dyn Iterator<Item = String>, out: &mut dyn Write) {
    for line in lines {
        let inp = match parse_input(&line) {
            Ok(i) => i,
            Err(e) => {
                writeln!(out, "BADINPUT {e}").unwrap();
                continue;
            }
        };
        let wd = Rc::new(CountingWatchdog::new(inp.every, inp.stop_at, 20_000_000));
        let r = guarded(|| {
            storage_layout_extractor::verif::reset_ids();
            let _ = storage_layout_extractor::verif::take_retired();
            let stream = InstructionStream::try_from(inp.bytes.as_slice()).map_err(|_| "disasm")?;
            let dynwd: DynWatchdog = wd.clone();
            let mut vm = VM::new(stream, inp.config.clone(), dynwd).map_err(|_| "new")?;
            let _ = vm.execute();
            let values: Vec<RuntimeBoxedVal> = vm.consume().all_values().into_iter().unique().collect();
            let mut ids = Ids::default();
            let ts: Vec<String> = values.iter().map(|v| sv_term(v, &mut ids)).collect();
            Ok::<String, &'static str>(format!("[{}]", ts.join(";")))
        });
        storage_layout_extractor::verif::random_ids();
        let _ = storage_layout_extractor::verif::take_retired();
        match r {
            Ok(Ok(t)) if !wd.over_budget.get() => writeln!(out, "{t}").unwrap(),
            Ok(Ok(_)) => writeln!(out, "BUDGET").unwrap(),
            Ok(Err(e)) => writeln!(out, "NOVALUES {e}").unwrap(),
            Err(_) => writeln!(out, "PANIC").unwrap(),
        }
    }
}

pub fn run(args: &[String], lines: &mut dyn Iterator<Item = String>, out: &mut dyn Write) {
    match args.first().map(String::as_str) {
        Some("table") => return table(out),
        Some("vm") => return vm_values(lines, out),
        _ => {}
    }
    let mut passes = Passes { hashes: StorageSlotHashes::new(), default: LiftingPasses::default() };
    let st = TypeCheckerState::empty();
    for line in lines {
        let line = line.trim();
        let Some((name, tree)) = line.split_once(char::is_whitespace) else {
            writeln!(out, "BADINPUT no pass name").unwrap();
            continue;
        };
        let Ok(Ok(v)) = guarded(|| parse_value(tree)) else {
            writeln!(out, "BADINPUT tree").unwrap();
            continue;
        };
        let mut ids = Ids::default();
        let input = sv_term(&v, &mut ids);
        let mut pre = vec![];
        preimages(&v, &mut pre);
        // the six passes one after the other (also gives the tree the proxy pass really sees)
        let six = |p: &mut Passes, pre: &mut Vec<Vec<u8>>| -> Result<RuntimeBoxedVal, String> {
            let mut cur = v.clone();
            for n in SIX {
                if n == "ProxySlots" {
                    preimages(&cur, pre);
                }
                cur = run_named(p, n, cur, &st)?;
            }
            Ok(cur)
        };
        let res = match name {
            "all6" => guarded(|| six(&mut passes, &mut pre)).map(|r| r.map(|o| format!("(LOk {})", sv_term(&o, &mut ids)))),
            "default" => guarded(|| {
                let o6 = six(&mut passes, &mut pre)?;
                let o9 = passes.default.run(v.clone(), &st).map_err(|_| "err".to_string())?;
                Ok(format!("(LOk2 {} {})", sv_term(&o9, &mut ids), sv_term(&o6, &mut ids)))
            }),
            n => guarded(|| run_named(&mut passes, n, v.clone(), &st))
                .map(|r| r.map(|o| format!("(LOk {})", sv_term(&o, &mut ids)))),
        };
        let res = match res {
            Ok(Ok(t)) => t,
            Ok(Err(e)) if e.starts_with("unknown pass") => {
                writeln!(out, "BADINPUT {e}").unwrap();
                continue;
            }
            Ok(Err(_)) => "LErr".to_string(),
            Err(_) => "LPanic".to_string(),
        };
        writeln!(out, "(mk_lcase {} {input} {} {res})", mode_term(name), oracle_term(pre)).unwrap();
    }
}
