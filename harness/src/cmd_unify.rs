//! `unify`: runs the REAL `tc::unification::unify` on a judgement set, under a poll budget.
//!
//! One case per line, whitespace-separated tokens:
//!
//! ```text
//!   J <order> <budget> <api> <n> | <v> <te>* | <v> <te>* ...
//!   P <order> <budget> <hex> [<gas> <iter> <fork> <size> <mem> <permissive>]
//! ```
//!
//! `J`: a judgement set over the type variables `0..n`.  `n` variables are allocated in a fresh
//! `TypeCheckerState` (`allocate_ty_var`), then every listed expression is added to its variable, in the
//! order written: with `<api>` = `infer` through `TypeCheckerState::infer` (the public way: equalities are
//! made symmetric, `v = v` is dropped), with `<api>` = `raw` by inserting into `inferences_mut(v)`.
//! `P`: a program; disassemble -> VM -> lift -> assign -> infer through the staged public API (default VM
//! configuration unless the six limits are given, as in `analyze`); the judgement set that reaches `unify` is
//! whatever the rules produced.  It is echoed both as a Coq term and in the `J .. raw ..` syntax, so that a
//! program on which the analysis does not halt can be attributed to the known class K2 (UnifyCases.check_case
//! answers 50) or reported as new (40).
//!
//!   <order> = natural | reversed | sorted | sortedrev | seed:<k>   (hook H1: every order-sensitive
//!             iteration inside `unify`)
//!   <budget> = number of watchdog polls (one per class per round) after which the run is abandoned (it is
//!              also abandoned after SLXH_UNIFY_DEADLINE_MS of wall-clock time, default 4000)
//!   <te> as in cmd_merge.rs:
//!     Any | Bytes | Eq:<v> | W:<width or ->:<Usage> | F:<v>:<len> | M:<v>:<v> | D:<v>
//!     | P:<0|1>:<v>,<off>,<size>/...  | C[ <te>* ] R[ i<k>* ]
//!
//! Output: one Coq term of type `ucase` (coq/UnifyCases.v) per line:
//!   `UCase <mode> <n0> [(v, [xte..]); ..] <outcome> "<text>"`
//!     mode     `OSorted | OSortedRev | (OSeeded k) | OOther`
//!     n0       the fresh-variable counter when `unify` starts
//!     the list the inference sets `unify` starts from (every registered variable, ascending; each set
//!              sorted by its Debug text), i.e. after `infer`'s symmetrisation
//!     outcome  `UOk next polls [(v, root, [xte..]); ..]` the fresh-variable counter, the number of watchdog polls
//!              (= class visits), and every member of the resulting forest with its root; the class's inference
//!              set is printed in the row of the root only | `UBudget polls` | `UPanic "msg"` | `UStageErr "stage"`
//!     text     the same judgement set in the `J .. raw ..` input syntax (replayable)
use std::{io::Write, rc::Rc};

use ethnum::U256;
use storage_layout_extractor::{
    data::vector_map::{FromUniqueIndex, ToUniqueIndex},
    extractor::{
        chain::{version::{ChainVersion, EthereumVersion}, Chain},
        contract::Contract,
    },
    tc::{
        expression::{Span, WordUse, TE},
        state::{type_variable::TypeVariable, TypeCheckerState},
        unification::unify,
    },
    verif::OrderMode,
    watchdog::DynWatchdog,
};

use crate::{
    cmd_analyze::{parse_order, tc_config},
    cmd_merge::te_term,
    util::{coq_string, guarded, CountingWatchdog},
};

/// Says stop after `budget` polls (one poll per class per round) or after `deadline` of wall-clock time,
/// whichever comes first, so that a run that never stops -- or whose forest explodes -- is observed as
/// "abandoned" instead of a hang.
#[derive(Debug)]
struct BudgetWatchdog {
    polls:    std::cell::Cell<u64>,
    budget:   u64,
    start:    std::time::Instant,
    deadline: std::time::Duration,
    over:     std::cell::Cell<bool>,
}

impl BudgetWatchdog {
    fn new(budget: u64) -> Self {
        let ms = std::env::var("SLXH_UNIFY_DEADLINE_MS").ok().and_then(|s| s.parse().ok()).unwrap_or(4000);
        Self {
            polls: std::cell::Cell::new(0),
            budget,
            start: std::time::Instant::now(),
            deadline: std::time::Duration::from_millis(ms),
            over: std::cell::Cell::new(false),
        }
    }
}

impl storage_layout_extractor::watchdog::Watchdog for BudgetWatchdog {
    fn should_stop(&self) -> bool {
        let k = self.polls.get();
        self.polls.set(k + 1);
        if k >= self.budget || (k % 64 == 0 && self.start.elapsed() > self.deadline) {
            self.over.set(true);
            return true;
        }
        false
    }

    fn poll_every(&self) -> usize {
        1
    }
}

fn tv(i: usize) -> TypeVariable {
    TypeVariable::from_index(i)
}

fn usage_of(s: &str) -> Result<WordUse, String> {
    Ok(match s {
        "Bytes" => WordUse::Bytes,
        "Numeric" => WordUse::Numeric,
        "UnsignedNumeric" => WordUse::UnsignedNumeric,
        "SignedNumeric" => WordUse::SignedNumeric,
        "Bool" => WordUse::Bool,
        "Address" => WordUse::Address,
        "Selector" => WordUse::Selector,
        "Function" => WordUse::Function,
        _ => return Err(format!("unknown usage {s}")),
    })
}

fn num(s: &str) -> Result<usize, String> {
    s.parse::<usize>().map_err(|e| format!("{s}: {e}"))
}

struct P<'a> {
    toks: Vec<&'a str>,
    pos:  usize,
}

impl<'a> P<'a> {
    fn peek(&self) -> Option<&'a str> {
        self.toks.get(self.pos).copied()
    }

    fn next(&mut self) -> Result<&'a str, String> {
        let t = self.toks.get(self.pos).copied().ok_or("unexpected end of line")?;
        self.pos += 1;
        Ok(t)
    }

    fn te(&mut self) -> Result<TE, String> {
        let t = self.next()?;
        if t == "C[" {
            let mut conflicts = vec![];
            while self.peek() != Some("]") {
                conflicts.push(Box::new(self.te()?));
            }
            self.next()?;
            if self.next()? != "R[" {
                return Err("expected R[".into());
            }
            let mut reasons = vec![];
            loop {
                let r = self.next()?;
                if r == "]" {
                    break;
                }
                let n = num(r.strip_prefix('i').ok_or("reason must be i<n>")?)?;
                reasons.push(format!("input:{n}"));
            }
            return Ok(TE::Conflict { conflicts, reasons });
        }
        let f: Vec<&str> = t.split(':').collect();
        Ok(match (f[0], f.len()) {
            ("Any", 1) => TE::Any,
            ("Bytes", 1) => TE::Bytes,
            ("Eq", 2) => TE::eq(tv(num(f[1])?)),
            ("W", 3) => {
                let w = if f[1] == "-" { None } else { Some(num(f[1])?) };
                TE::word(w, usage_of(f[2])?)
            }
            ("F", 3) => TE::FixedArray {
                element: tv(num(f[1])?),
                length:  U256::from_str_radix(f[2], 10).map_err(|e| format!("{e:?}"))?,
            },
            ("M", 3) => TE::mapping(tv(num(f[1])?), tv(num(f[2])?)),
            ("D", 2) => TE::dyn_array(tv(num(f[1])?)),
            ("P", 3) => {
                let mut types = vec![];
                for s in f[2].split('/').filter(|s| !s.is_empty()) {
                    let c: Vec<&str> = s.split(',').collect();
                    if c.len() != 3 {
                        return Err(format!("bad span {s}"));
                    }
                    types.push(Span::new(tv(num(c[0])?), num(c[1])?, num(c[2])?));
                }
                TE::Packed {
                    types,
                    is_struct: f[1] == "1",
                }
            }
            _ => return Err(format!("bad type expression {t}")),
        })
    }
}

/// The input syntax of an expression (inverse of `P::te`; explanations that are not `input:<k>` become i0).
pub fn te_text(e: &TE) -> String {
    match e {
        TE::Any => "Any".into(),
        TE::Bytes => "Bytes".into(),
        TE::Equal { id } => format!("Eq:{}", id.index()),
        TE::Word { width, usage } => format!(
            "W:{}:{:?}",
            match width {
                Some(w) => w.to_string(),
                None => "-".into(),
            },
            usage
        ),
        TE::FixedArray { element, length } => format!("F:{}:{}", element.index(), length),
        TE::Mapping { key, value } => format!("M:{}:{}", key.index(), value.index()),
        TE::DynamicArray { element } => format!("D:{}", element.index()),
        TE::Packed { types, is_struct } => {
            let v: Vec<String> = types
                .iter()
                .map(|s| format!("{},{},{}", s.typ.index(), s.offset, s.size))
                .collect();
            format!("P:{}:{}", u8::from(*is_struct), v.join("/"))
        }
        TE::Conflict { conflicts, reasons } => {
            let cs: Vec<String> = conflicts.iter().map(|c| te_text(c)).collect();
            let rs: Vec<String> = reasons
                .iter()
                .map(|r| match r.strip_prefix("input:").and_then(|n| n.parse::<u64>().ok()) {
                    Some(n) => format!("i{n}"),
                    None => "i0".into(),
                })
                .collect();
            format!("C[ {} ] R[ {} ]", cs.join(" "), rs.join(" "))
        }
    }
}

fn sorted_set<'a>(it: impl Iterator<Item = &'a TE>) -> Vec<TE> {
    let mut v: Vec<TE> = it.cloned().collect();
    v.sort_by_key(|e| format!("{e:?}"));
    v
}

fn set_term(v: &[TE]) -> String {
    let t: Vec<String> = v.iter().map(te_term).collect();
    format!("[{}]", t.join("; "))
}

fn mode_term(m: OrderMode) -> String {
    match m {
        OrderMode::Sorted => "OSorted".into(),
        OrderMode::SortedReversed => "OSortedRev".into(),
        OrderMode::Seeded(n) => format!("(OSeeded {n})"),
        _ => "OOther".into(),
    }
}

/// Everything `unify` starts from, echoed: (n0, the inference sets as a Coq list, the `J .. raw` text).
fn dump_state(st: &TypeCheckerState, order: &str, budget: u64) -> (usize, String, String) {
    let mut vars = st.variables();
    vars.sort();
    let n0 = st.tyvar_count();
    let mut terms = vec![];
    let mut text = format!("J {order} {budget} raw {n0}");
    for v in vars {
        let set = sorted_set(st.inferences(v).iter());
        terms.push(format!("({}, {})", v.index(), set_term(&set)));
        text += &format!(" | {}", v.index());
        for e in &set {
            text += " ";
            text += &te_text(e);
        }
    }
    (n0, format!("[{}]", terms.join("; ")), text)
}

/// Runs the real `unify` on `st` under the budget; the outcome as a Coq term.
fn run_unify(st: &mut TypeCheckerState, budget: u64) -> String {
    let wd = Rc::new(BudgetWatchdog::new(budget));
    let dynwd: DynWatchdog = wd.clone();
    let r = guarded(|| unify(st, &dynwd));
    if wd.over.get() {
        return format!("(UBudget {})", wd.polls.get());
    }
    match r {
        Err(p) => format!("(UPanic {})", coq_string(&p.chars().take(120).collect::<String>())),
        Ok(Err(_)) => format!("(UBudget {})", wd.polls.get()),
        Ok(Ok(())) => {
            let next = st.tyvar_count();
            let forest = st.result();
            let mut members = forest.values();
            members.sort();
            let mut rows = vec![];
            for v in members {
                let root = forest.find(&v);
                // the class's inference set is printed once, in the row of the root
                let data = if root != v {
                    "[]".to_string()
                } else {
                    match forest.get_data(&v) {
                        Some(d) => set_term(&sorted_set(d.iter())),
                        None => "[]".to_string(),
                    }
                };
                rows.push(format!("({}, {}, {})", v.index(), root.index(), data));
            }
            format!("(UOk {} {} [{}])", next, wd.polls.get(), rows.join("; "))
        }
    }
}

fn judgement_case(p: &mut P, order: &str, budget: u64) -> Result<String, String> {
    let api = p.next()?;
    let n = num(p.next()?)?;
    if n > 100_000 {
        return Err("too many variables".into());
    }
    let mut st = TypeCheckerState::empty();
    for _ in 0..n {
        let _ = unsafe { st.allocate_ty_var() };
    }
    while p.peek().is_some() {
        if p.next()? != "|" {
            return Err("expected |".into());
        }
        let v = num(p.next()?)?;
        if v >= n {
            return Err(format!("variable {v} is not registered"));
        }
        while p.peek().is_some() && p.peek() != Some("|") {
            let e = p.te()?;
            match api {
                "infer" => {
                    if let TE::Equal { id } = &e {
                        if id.index() >= n {
                            return Err(format!("equality with unregistered variable {}", id.index()));
                        }
                    }
                    st.infer(tv(v), e);
                }
                "raw" => {
                    st.inferences_mut(tv(v)).insert(e);
                }
                _ => return Err(format!("unknown api {api}")),
            }
        }
    }
    let mode = parse_order(order);
    let (n0, sets, text) = dump_state(&st, order, budget);
    storage_layout_extractor::verif::set_order_mode(mode);
    let outcome = run_unify(&mut st, budget);
    storage_layout_extractor::verif::set_order_mode(OrderMode::Natural);
    Ok(format!("UCase {} {} {} {} {}", mode_term(mode), n0, sets, outcome, coq_string(&text)))
}

fn program_case(p: &mut P, order: &str, budget: u64) -> Result<String, String> {
    let hex_text = p.next()?;
    let bytes = hex::decode(hex_text).map_err(|e| format!("{e:?}"))?;
    // optional VM limits, in the field order of `analyze`
    let mut limits = vec![];
    while p.peek().is_some() {
        limits.push(p.next()?.to_string());
    }
    let vm_config = if limits.is_empty() {
        storage_layout_extractor::vm::Config::default()
    } else if limits.len() == 6 {
        crate::cmd_vm::parse_input(&format!("{hex_text} {} 1 -1", limits.join(" ")))?.config
    } else {
        return Err("expected 6 VM limits: gas iter fork size mem permissive".into());
    };
    let mode = parse_order(order);
    storage_layout_extractor::verif::set_order_mode(mode);
    let stage = std::cell::Cell::new("disasm");
    // the stages before unification get a generous budget of their own
    let wd = Rc::new(CountingWatchdog::new(1, None, 50_000_000));
    let dynwd: DynWatchdog = wd.clone();
    let r = guarded(|| -> Result<(usize, String, String, String), String> {
        storage_layout_extractor::verif::reset_ids();
        let contract = Contract::new(bytes.clone(), Chain::Ethereum { version: EthereumVersion::latest() });
        let ex = storage_layout_extractor::new(contract, vm_config.clone(), tc_config(), dynwd);
        let ex = ex.disassemble().map_err(|_| "disasm".to_string())?;
        stage.set("vm");
        let ex = ex.prepare_vm().map_err(|_| "vm".to_string())?;
        let ex = ex.execute().map_err(|_| "vm".to_string())?;
        stage.set("lift");
        let mut ex = ex.prepare_unifier();
        let st = unsafe { ex.state_mut() };
        let result = st.execution_result.clone();
        let values = st.engine.lift(result).map_err(|_| "lift".to_string())?;
        stage.set("assign");
        st.engine.assign_vars(values).map_err(|_| "assign".to_string())?;
        stage.set("infer");
        st.engine.infer().map_err(|_| "infer".to_string())?;
        stage.set("unify");
        let tcs = unsafe { st.engine.state_mut() };
        let (n0, sets, text) = dump_state(tcs, order, budget);
        let outcome = run_unify(tcs, budget);
        Ok((n0, sets, text, outcome))
    });
    storage_layout_extractor::verif::random_ids();
    storage_layout_extractor::verif::set_order_mode(OrderMode::Natural);
    let (n0, sets, text, outcome) = match r {
        Ok(Ok(x)) => x,
        Ok(Err(s)) => (0, "[]".into(), String::new(), format!("(UStageErr {})", coq_string(&s))),
        Err(pn) => (
            0,
            "[]".into(),
            String::new(),
            format!(
                "(UStageErr {})",
                coq_string(&format!("panic in {}: {}", stage.get(), pn.chars().take(80).collect::<String>()))
            ),
        ),
    };
    Ok(format!("UCase {} {} {} {} {}", mode_term(mode), n0, sets, outcome, coq_string(&text)))
}

fn one(line: &str) -> Result<String, String> {
    let toks: Vec<&str> = line.split_whitespace().collect();
    let mut p = P { toks, pos: 0 };
    let kind = p.next()?;
    let order = p.next()?.to_string();
    let budget = p.next()?.parse::<u64>().map_err(|e| format!("{e:?}"))?;
    match kind {
        "J" => judgement_case(&mut p, &order, budget),
        "P" => program_case(&mut p, &order, budget),
        // `D <order> <budget> <te>*`: the Debug text of expressions (the key the order hook sorts by)
        "D" => {
            let mut out = vec![];
            while p.peek().is_some() {
                let e = p.te()?;
                out.push(format!("({}, {})", te_term(&e), coq_string(&format!("{e:?}"))));
            }
            Ok(format!("UDebug [{}]", out.join("; ")))
        }
        _ => Err(format!("unknown kind {kind}")),
    }
}

pub fn run(_args: &[String], lines: &mut dyn Iterator<Item = String>, out: &mut dyn Write) {
    for line in lines {
        match one(line.trim()) {
            Ok(t) => writeln!(out, "{t}").unwrap(),
            Err(e) => writeln!(out, "BADINPUT {e}").unwrap(),
        }
    }
}
