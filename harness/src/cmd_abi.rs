//! `abi`: a prepared type-checker state -> the REAL `TypeChecker::unify`, i.e. (trivial) unification followed by
//! the layout-building loop that calls the private `abi_type_for` for every constant storage slot.
//!
//! One case per line: `<key>* | (<var>=<te>)*`
//!   * every `<key>` (decimal or 0x-hex 256-bit word) registers the value `StorageSlot(KnownData key)` through
//!     the real `register`: the i-th DISTINCT key gets the variables 2i (the constant) and 2i+1 (the slot);
//!   * every `<var>=<te>` adds one judgement through the real `state.infer`; with at most one judgement per
//!     variable and no equalities, unification leaves every class as it is;
//!   * `<te>` in the syntax of the `merge` command:
//!       Any | Bytes | Eq:<v> | W:<width or ->:<Usage> | F:<v>:<len> | M:<v>:<v> | D:<v>
//!       | P:<0|1>:<v>,<off>,<size>/<v>,<off>,<size>/...
//! Output: a Coq term of type `acase` (coq/TcCases.v):
//!   `AC [keys] [(var, te)...] (AOk layout | AErr "Kind" | APanic "message" | ABudget)`.
use std::{io::Write, rc::Rc};

use ethnum::U256;
use storage_layout_extractor::{
    data::vector_map::FromUniqueIndex,
    tc::{
        self,
        expression::{Span, WordUse, TE},
        lift::LiftingPasses,
        rule::InferenceRules,
        state::type_variable::TypeVariable,
        TypeChecker,
    },
    verif::{set_order_mode, OrderMode},
    vm::value::{known::KnownWord, Provenance, RSV, RSVD},
    watchdog::DynWatchdog,
};

use crate::{
    cmd_analyze::layout_term,
    cmd_register::te_term,
    util::{coq_string, guarded, parse_u256, CountingWatchdog},
};

pub fn tv(i: usize) -> TypeVariable {
    TypeVariable::from_index(i)
}

fn usage_of(s: &str) -> Result<WordUse, String> {
    Ok(match s {
        "Bytes" => WordUse::Bytes,
        "Numeric" => WordUse::Numeric,
        "UnsignedNumeric" => WordUse::UnsignedNumeric,
        "SignedNumeric" => WordUse::SignedNumeric,
        "Bool" => WordUse::Bool,
        "Address" => WordUse::Address,
        "Selector" => WordUse::Selector,
        "Function" => WordUse::Function,
        _ => return Err(format!("unknown usage {s}")),
    })
}

fn num(s: &str) -> Result<usize, String> {
    s.parse::<usize>().map_err(|e| format!("{s}: {e}"))
}

pub fn parse_te(t: &str) -> Result<TE, String> {
    let f: Vec<&str> = t.split(':').collect();
    Ok(match (f[0], f.len()) {
        ("Any", 1) => TE::Any,
        ("Bytes", 1) => TE::Bytes,
        ("Eq", 2) => TE::eq(tv(num(f[1])?)),
        ("W", 3) => {
            let w = if f[1] == "-" { None } else { Some(num(f[1])?) };
            TE::word(w, usage_of(f[2])?)
        }
        ("F", 3) => TE::FixedArray { element: tv(num(f[1])?), length: parse_u256(f[2])? },
        ("M", 3) => TE::mapping(tv(num(f[1])?), tv(num(f[2])?)),
        ("D", 2) => TE::dyn_array(tv(num(f[1])?)),
        ("P", 3) => {
            let mut types = vec![];
            for s in f[2].split('/').filter(|s| !s.is_empty()) {
                let c: Vec<&str> = s.split(',').collect();
                if c.len() != 3 {
                    return Err(format!("bad span {s}"));
                }
                types.push(Span::new(tv(num(c[0])?), num(c[1])?, num(c[2])?));
            }
            TE::Packed { types, is_struct: f[1] == "1" }
        }
        _ => return Err(format!("bad type expression {t}")),
    })
}

pub fn slot_value(key: U256) -> storage_layout_extractor::vm::value::RuntimeBoxedVal {
    let k = RSV::new_known_value(0, KnownWord::from_le(key), Provenance::Synthetic, None);
    RSV::new(0, RSVD::StorageSlot { key: k }, Provenance::Synthetic, None)
}

/// a type checker without lifting passes and rules (building the default configuration hashes 10 000 slots)
pub fn bare_checker(wd: DynWatchdog) -> TypeChecker {
    let passes: Vec<Box<dyn tc::lift::Lift>> = vec![];
    let config = tc::Config { lifting_passes: LiftingPasses::new(passes), inference_rules: InferenceRules::new() };
    TypeChecker::new(config, wd)
}

pub fn run(_args: &[String], lines: &mut dyn Iterator<Item = String>, out: &mut dyn Write) {
    for line in lines {
        let mut halves = line.splitn(2, '|');
        let keys_txt = halves.next().unwrap_or("");
        let js_txt = halves.next().unwrap_or("");
        let keys: Result<Vec<U256>, String> = keys_txt.split_whitespace().map(parse_u256).collect();
        let js: Result<Vec<(usize, TE)>, String> = js_txt
            .split_whitespace()
            .map(|t| {
                let (v, e) = t.split_once('=').ok_or_else(|| format!("bad judgement {t}"))?;
                Ok((num(v)?, parse_te(e)?))
            })
            .collect();
        let (keys, js) = match (keys, js) {
            (Ok(k), Ok(j)) => (k, j),
            (Err(e), _) | (_, Err(e)) => {
                writeln!(out, "BADINPUT {e}").unwrap();
                continue;
            }
        };
        let keys_term: Vec<String> = keys.iter().map(ToString::to_string).collect();
        let js_term: Vec<String> = js.iter().map(|(v, e)| format!("({},{})", v, te_term(e))).collect();
        let wd = Rc::new(CountingWatchdog::new(1, None, 200_000));
        let dynwd: DynWatchdog = wd.clone();
        let r = guarded(|| {
            let mut checker = bare_checker(dynwd);
            {
                let state = unsafe { checker.state_mut() };
                for k in &keys {
                    let _ = state.register(slot_value(*k));
                }
                for (v, e) in &js {
                    state.infer(tv(*v), e.clone());
                }
            }
            set_order_mode(OrderMode::Sorted);
            let l = checker.unify();
            set_order_mode(OrderMode::Natural);
            l
        });
        set_order_mode(OrderMode::Natural);
        let res = match r {
            Err(p) => format!("(APanic {})", coq_string(&p.chars().take(120).collect::<String>())),
            Ok(_) if wd.over_budget.get() => "ABudget".to_string(),
            Ok(Ok(l)) => format!("(AOk {})", layout_term(&l)),
            Ok(Err(es)) => {
                let kind = es.payloads().first().map_or("?".to_string(), |e| {
                    format!("{:?}", e.payload).chars().take_while(|c| c.is_alphanumeric()).collect()
                });
                format!("(AErr {})", coq_string(&kind))
            }
        };
        writeln!(out, "AC [{}] [{}] {res}", keys_term.join(";"), js_term.join(";")).unwrap();
    }
}
