//! `sv-echo`: parses a value tree, prints it back as a Coq term together with the recorded size.
use std::io::Write;

use crate::util::{guarded, parse_value, Ids};

pub fn run(_args: &[String], lines: &mut dyn Iterator<Item = String>, out: &mut dyn Write) {
    for line in lines {
        let r = guarded(|| {
            parse_value(&line).map(|v| {
                let mut ids = Ids::default();
                format!("({}, {})", crate::gen_sv::sv_term(&v, &mut ids), v.size())
            })
        });
        match r {
            Ok(Ok(t)) => writeln!(out, "{t}").unwrap(),
            Ok(Err(e)) => writeln!(out, "BADINPUT {e}").unwrap(),
            Err(p) => writeln!(out, "PANIC {p}").unwrap(),
        }
    }
}
