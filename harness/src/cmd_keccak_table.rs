//! `keccak-table <count>`: keccak256 of the 32-byte big-endian encoding of 0..count, one decimal per line,
//! computed with the sha3 crate directly (independently of the library's lifting pass); and, for lines on
//! stdin of the form `s <utf8 string>`, keccak256 of the string.
use std::io::Write;

use ethnum::U256;
use sha3::{Digest, Keccak256};

pub fn run(args: &[String], lines: &mut dyn Iterator<Item = String>, out: &mut dyn Write) {
    let count: u64 = args.first().and_then(|a| a.parse().ok()).unwrap_or(0);
    for i in 0..count {
        let mut h = Keccak256::new();
        h.update(U256::from(i).to_be_bytes());
        let d = h.finalize();
        writeln!(out, "{}", U256::from_be_bytes(d.as_slice().try_into().unwrap())).unwrap();
    }
    for line in lines {
        if let Some(s) = line.strip_prefix("s ") {
            let mut h = Keccak256::new();
            h.update(s.as_bytes());
            let d = h.finalize();
            writeln!(out, "{}", U256::from_be_bytes(d.as_slice().try_into().unwrap())).unwrap();
        }
    }
}
