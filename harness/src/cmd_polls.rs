//! `polls`: runs the stages one by one with a counting watchdog and prints, per stage, the polls made and
//! an independent measure of the work that stage's polled loop did:
//! `XP [vm_polls;vm_iterations;lift_polls;lift_values;assign_polls;assign_values;infer_polls;infer_values;unify_polls] class`
//! input: `hex gas iter fork size mem permissive poll_every stop_at`
use std::{io::Write, rc::Rc};

use itertools::Itertools;
use storage_layout_extractor::{
    extractor::{
        chain::{
            version::{ChainVersion, EthereumVersion},
            Chain,
        },
        contract::Contract,
    },
    watchdog::DynWatchdog,
};

use crate::{
    cmd_vm::parse_input,
    util::{guarded, CountingWatchdog},
};

pub fn run(_args: &[String], lines: &mut dyn Iterator<Item = String>, out: &mut dyn Write) {
    for line in lines {
        let inp = match parse_input(&line) {
            Ok(i) => i,
            Err(e) => {
                writeln!(out, "BADINPUT {e}").unwrap();
                continue;
            }
        };
        let wd = Rc::new(CountingWatchdog::new(inp.every, inp.stop_at, 20_000_000));
        let dynwd: DynWatchdog = wd.clone();
        let r = guarded(|| -> Result<Vec<u64>, String> {
            let contract = Contract::new(inp.bytes.clone(), Chain::Ethereum { version: EthereumVersion::latest() });
            let ex = storage_layout_extractor::new(contract, inp.config.clone(), crate::cmd_analyze::tc_config(), dynwd);
            let ex = ex.disassemble().map_err(|_| "disasm".to_string())?;
            let ex = ex.prepare_vm().map_err(|_| "vm".to_string())?;
            let ex = ex.execute().map_err(|_| "vm".to_string())?;
            let vm_polls = wd.polls.get();
            let mut ex = ex.prepare_unifier();
            let st = unsafe { ex.state_mut() };
            let result = st.execution_result.clone();
            // main-loop iterations = sum of all visit counters of all retired states ... but forked threads
            // inherit counters, so count per state only what it executed after its fork point is not
            // available: use the number of retired states + distinct visited offsets as a lower bound
            let code_len = result.instructions.len() as u32;
            let mut iters: u64 = 0;
            for (si, s) in result.states.iter().enumerate() {
                let mut mine = 0u64;
                for ip in 0..code_len {
                    mine += s.visited_instructions().visit_count(ip).unwrap_or(0) as u64;
                }
                // the first state ran from the start; later states inherited at least something
                if si == 0 {
                    iters += mine;
                } else {
                    iters += 1;
                }
            }
            let lift_values = result.clone().all_values().into_iter().unique().count() as u64;
            let values = st.engine.lift(result).map_err(|_| "lift".to_string())?;
            let lift_polls = wd.polls.get() - vm_polls;
            let assign_values = values.len() as u64;
            st.engine.assign_vars(values).map_err(|_| "assign".to_string())?;
            let assign_polls = wd.polls.get() - vm_polls - lift_polls;
            let infer_values = st.engine.values_under_analysis().len() as u64;
            st.engine.infer().map_err(|_| "infer".to_string())?;
            let infer_polls = wd.polls.get() - vm_polls - lift_polls - assign_polls;
            let before = wd.polls.get();
            let _ = st.engine.unify().map_err(|_| "unify".to_string())?;
            let unify_polls = wd.polls.get() - before;
            Ok(vec![vm_polls, iters, lift_polls, lift_values, assign_polls, assign_values, infer_polls, infer_values, unify_polls])
        });
        match r {
            Ok(Ok(v)) if !wd.over_budget.get() => {
                writeln!(out, "XP [{}] 0", v.iter().map(|x| x.to_string()).collect::<Vec<_>>().join(";")).unwrap()
            }
            Ok(Ok(_)) => writeln!(out, "XP [] 3").unwrap(),
            Ok(Err(stage)) => writeln!(out, "XP [] 1 {stage}").unwrap(),
            Err(_) => writeln!(out, "XP [] 2").unwrap(),
        }
    }
}
