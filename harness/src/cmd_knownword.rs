//! `knownword`: one line `op a b` (decimal or 0x words; unary operators ignore `b`) -> the result of the REAL
//! KnownWord operator as a Coq term `(mk_kcase K_op a b (Some r))`, or `... None` when it panicked.
//! `a` is the receiver (`self`), `b` the argument (`rhs`), exactly as a constant_folder arm would call it.
use std::io::Write;

use storage_layout_extractor::vm::value::known::KnownWord;

use crate::util::{guarded, parse_u256};

#[allow(clippy::many_single_char_names)]
fn apply(op: &str, a: KnownWord, b: KnownWord) -> Option<KnownWord> {
    Some(match op {
        "add" => a + b,
        "mul" => a * b,
        "sub" => a - b,
        "div" => a / b,
        "rem" => a % b,
        "signed_div" => a.signed_div(b),
        "signed_rem" => a.signed_rem(b),
        "exp" => a.exp(b),
        "lt" => a.lt(b),
        "gt" => a.gt(b),
        "signed_lt" => a.signed_lt(b),
        "signed_gt" => a.signed_gt(b),
        "eq" => KnownWord::eq(a, b),
        "from_eq" => KnownWord::from(a == b),
        "is_zero" => a.is_zero(),
        "bitand" => a & b,
        "bitor" => a | b,
        "bitxor" => a ^ b,
        "not" => !a,
        "shl" => a << b,
        "shr" => a >> b,
        "sar" => a.sar(b),
        _ => return None,
    })
}

pub fn run(_args: &[String], lines: &mut dyn Iterator<Item = String>, out: &mut dyn Write) {
    for line in lines {
        let toks: Vec<&str> = line.split_whitespace().collect();
        if toks.len() != 3 {
            writeln!(out, "BADINPUT").unwrap();
            continue;
        }
        let (Ok(a), Ok(b)) = (parse_u256(toks[1]), parse_u256(toks[2])) else {
            writeln!(out, "BADINPUT").unwrap();
            continue;
        };
        let op = toks[0];
        let r = guarded(|| apply(op, KnownWord::from_le(a), KnownWord::from_le(b)));
        match r {
            Ok(None) => writeln!(out, "BADINPUT").unwrap(),
            Ok(Some(w)) => writeln!(out, "(mk_kcase K_{op} {a} {b} (Some {}))", w.value_le()).unwrap(),
            Err(_) => writeln!(out, "(mk_kcase K_{op} {a} {b} None)").unwrap(),
        }
    }
}
