//! `rules [RuleName] [sorted|sortedrev|reversed|seed:<n>]`: registered values -> the REAL
//! `InferenceRules::default().infer` (or the single rule named on the command line) on every registered value, in
//! type-variable order -> the judgement set of every type variable.  The second argument is the order mode of hook
//! H1 while the rules run: it decides the order in which `InferenceRules::infer` walks its rule set (hook point
//! `tc.rules`, key = the rule's Debug name); default `sorted`.  Several comma-separated modes type the same values
//! under each mode (output joined by ` ||| `).  The values are always visited in type-variable order.
//!
//! Input lines as for `register` (`vals ...` / `prog ...`).  Output: a Coq term of type `ucase` (coq/TcCases.v):
//! `UC "rule or *" [input values] (UR tyvar_count [(var, [type expressions])...])` | `UC .. (UErr "...")` | `UC .. UPanic`.
use std::io::Write;

use storage_layout_extractor::{
    data::vector_map::ToUniqueIndex,
    tc::rule::{
        arithmetic_operations::ArithmeticOperationRule, bit_shifts::BitShiftRule, boolean_operations::BooleanOpsRule,
        call_data::CallDataRule, create::CreateContractRule, dynamic_array_write::DynamicArrayWriteRule,
        environment_opcodes::EnvironmentCodesRule, ext_code::ExtCodeRule, external_calls::ExternalCallRule,
        mapping_access::MappingAccessRule, masked_word::MaskedWordRule, offset_size::OffsetSizeRule,
        packed_encoding::PackedEncodingRule, s_load_is_inner_types::SLoadIsInnerTypesRule, sha3::HashRule,
        storage_key::StorageKeyRule, storage_write::StorageWriteRule, InferenceRules,
    },
    tc::state::TypeCheckerState,
    verif::{set_order_mode, OrderMode},
};

use crate::{
    cmd_register::{input_values, register_all, sorted_values, te_term, values_term},
    util::{coq_string, guarded, Ids},
};

pub fn rules_named(name: &str) -> Option<InferenceRules> {
    if name == "*" {
        return Some(InferenceRules::default());
    }
    let mut r = InferenceRules::new();
    match name {
        "ArithmeticOperationRule" => r.add(ArithmeticOperationRule),
        "BitShiftRule" => r.add(BitShiftRule),
        "BooleanOpsRule" => r.add(BooleanOpsRule),
        "CallDataRule" => r.add(CallDataRule),
        "CreateContractRule" => r.add(CreateContractRule),
        "DynamicArrayWriteRule" => r.add(DynamicArrayWriteRule),
        "EnvironmentCodesRule" => r.add(EnvironmentCodesRule),
        "ExtCodeRule" => r.add(ExtCodeRule),
        "ExternalCallRule" => r.add(ExternalCallRule),
        "HashRule" => r.add(HashRule),
        "MappingAccessRule" => r.add(MappingAccessRule),
        "MaskedWordRule" => r.add(MaskedWordRule),
        "OffsetSizeRule" => r.add(OffsetSizeRule),
        "PackedEncodingRule" => r.add(PackedEncodingRule),
        "SLoadIsInnerTypesRule" => r.add(SLoadIsInnerTypesRule),
        "StorageKeyRule" => r.add(StorageKeyRule),
        "StorageWriteRule" => r.add(StorageWriteRule),
        _ => return None,
    }
    Some(r)
}

/// every variable's inference set, sorted by variable; the sets themselves sorted by their printed form
pub fn inference_table(state: &TypeCheckerState) -> String {
    let mut vars = state.variables();
    vars.sort();
    let rows: Vec<String> = vars
        .iter()
        .map(|v| {
            let mut es: Vec<String> = state.inferences(*v).iter().map(te_term).collect();
            es.sort();
            format!("({},[{}])", v.index(), es.join(";"))
        })
        .collect();
    format!("[{}]", rows.join(";"))
}

/// runs the rules over the registered values the way `TypeChecker::infer` does (values cloned first)
pub fn run_rules(rules: &mut InferenceRules, state: &mut TypeCheckerState) -> Result<(), String> {
    run_rules_in(rules, state, OrderMode::Sorted)
}

pub fn run_rules_in(rules: &mut InferenceRules, state: &mut TypeCheckerState, mode: OrderMode) -> Result<(), String> {
    set_order_mode(mode);
    let values = sorted_values(state);
    let mut res = Ok(());
    for v in values {
        if let Err(e) = rules.infer(&v, state) {
            res = Err(format!("{e:?}").chars().take(120).collect());
            break;
        }
    }
    set_order_mode(OrderMode::Natural);
    res
}

pub fn run(args: &[String], lines: &mut dyn Iterator<Item = String>, out: &mut dyn Write) {
    let name = args.first().map_or("*", String::as_str).to_string();
    let mode_arg = args.get(1).map_or("sorted", String::as_str).to_string();
    // several comma-separated modes: the SAME values are registered afresh and typed under each mode; the output line
    // is the `UC ..` terms of all modes joined by " ||| " (input of TcCases.check_rule_order)
    let modes: Vec<OrderMode> = mode_arg.split(',').map(crate::cmd_analyze::parse_order).collect();
    for line in lines {
        let vs = match guarded(|| input_values(&line)) {
            Ok(Ok(v)) => v,
            Ok(Err(e)) => {
                writeln!(out, "BADINPUT {e}").unwrap();
                continue;
            }
            Err(p) => {
                writeln!(out, "BADINPUT panic while building the input: {p}").unwrap();
                continue;
            }
        };
        let mut ids = Ids::default();
        let inputs = values_term(&vs, &mut ids);
        let Some(mut rules) = rules_named(&name) else {
            writeln!(out, "BADINPUT unknown rule {name}").unwrap();
            continue;
        };
        let mut outs = vec![];
        for mode in &modes {
            let r = guarded(|| {
                let (mut state, _) = register_all(&vs);
                match run_rules_in(&mut rules, &mut state, *mode) {
                    Ok(()) => format!("(UR {} {})", state.tyvar_count(), inference_table(&state)),
                    Err(e) => format!("(UErr {})", coq_string(&e)),
                }
            });
            set_order_mode(OrderMode::Natural);
            outs.push(match r {
                Ok(t) => format!("UC {} {inputs} {t}", coq_string(&name)),
                Err(_) => format!("UC {} {inputs} UPanic", coq_string(&name)),
            });
        }
        writeln!(out, "{}", outs.join(" ||| ")).unwrap();
    }
}
