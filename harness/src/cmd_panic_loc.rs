//! `panic-loc`: runs `analyze` on each input line (same format) and prints the source location of the
//! panic, if any (`file:line:col message`), or `no-panic`.  Diagnostic only; used to attribute panics found
//! by the stage suites to a source line.
use std::{io::Write, sync::Mutex};

static LOC: Mutex<String> = Mutex::new(String::new());

pub fn with_location<T>(f: impl FnOnce() -> T) -> (T, String) {
    LOC.lock().unwrap().clear();
    let prev = std::panic::take_hook();
    std::panic::set_hook(Box::new(|info| {
        let loc = info.location().map_or("?".to_string(), |l| format!("{}:{}:{}", l.file(), l.line(), l.column()));
        let msg = if let Some(s) = info.payload().downcast_ref::<&str>() {
            (*s).to_string()
        } else if let Some(s) = info.payload().downcast_ref::<String>() {
            s.clone()
        } else {
            "panic".into()
        };
        let mut g = LOC.lock().unwrap();
        if g.is_empty() {
            *g = format!("{loc} {msg}");
        }
    }));
    let r = f();
    std::panic::set_hook(prev);
    let l = LOC.lock().unwrap().clone();
    (r, l)
}

pub fn run(_args: &[String], lines: &mut dyn Iterator<Item = String>, out: &mut dyn Write) {
    for line in lines {
        let f: Vec<&str> = line.split_whitespace().collect();
        let upto = f.get(9).copied().unwrap_or("all");
        let (_, loc) = with_location(|| crate::cmd_analyze::analyze(&line, upto));
        if loc.is_empty() {
            writeln!(out, "no-panic").unwrap();
        } else {
            writeln!(out, "{loc}").unwrap();
        }
    }
}
