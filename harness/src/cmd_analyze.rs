//! `analyze`: the whole pipeline (or a prefix of its stages) on
//! `hex gas iter fork size mem permissive poll_every stop_at [upto] [order]`
//!   upto  = disasm | vm | lift | assign | infer | all (default all)
//!   order = natural | reversed | sorted | sortedrev | seed:<n>   (hook H1; default natural)
//! Prints `XA class [layout] [errors] polls stage` as a Coq term (AnalyzeCases.v).
//!   class: 0 = Ok, 1 = structured error, 2 = panic, 3 = poll budget exceeded (treated as non-termination)
use std::{io::Write, rc::Rc};

use storage_layout_extractor::{
    error,
    extractor::{
        chain::{version::{ChainVersion, EthereumVersion}, Chain},
        contract::Contract,
    },
    tc::{self, abi::AbiType},
    watchdog::DynWatchdog,
    StorageLayout,
};

use crate::{
    cmd_vm::parse_input,
    util::{coq_string, guarded, CountingWatchdog},
};

pub fn abi_term(t: &AbiType) -> String {
    fn opt(o: &Option<usize>) -> String {
        match o {
            None => "[0]".into(),
            Some(n) => format!("[1;{n}]"),
        }
    }
    match t {
        AbiType::Any => "(AT \"Any\" [] [])".into(),
        AbiType::Number { size } => format!("(AT \"Number\" {} [])", opt(size)),
        AbiType::UInt { size } => format!("(AT \"UInt\" {} [])", opt(size)),
        AbiType::Int { size } => format!("(AT \"Int\" {} [])", opt(size)),
        AbiType::Address => "(AT \"Address\" [] [])".into(),
        AbiType::Selector => "(AT \"Selector\" [] [])".into(),
        AbiType::Function => "(AT \"Function\" [] [])".into(),
        AbiType::Bool => "(AT \"Bool\" [] [])".into(),
        AbiType::Array { size, tp } => format!("(AT \"Array\" [{}] [{}])", size.0, abi_term(tp)),
        AbiType::Bytes { length } => format!("(AT \"Bytes\" {} [])", opt(length)),
        AbiType::Bits { length } => format!("(AT \"Bits\" {} [])", opt(length)),
        AbiType::DynArray { tp } => format!("(AT \"DynArray\" [] [{}])", abi_term(tp)),
        AbiType::DynBytes => "(AT \"DynBytes\" [] [])".into(),
        AbiType::Mapping { key_type, value_type } => {
            format!("(AT \"Mapping\" [] [{};{}])", abi_term(key_type), abi_term(value_type))
        }
        AbiType::Struct { elements } => {
            let offs: Vec<String> = elements.iter().map(|e| e.offset.to_string()).collect();
            let kids: Vec<String> = elements.iter().map(|e| abi_term(&e.typ)).collect();
            format!("(AT \"Struct\" [{}] [{}])", offs.join(";"), kids.join(";"))
        }
        AbiType::InfiniteType => "(AT \"InfiniteType\" [] [])".into(),
        AbiType::ConflictedType { .. } => "(AT \"ConflictedType\" [] [])".into(),
    }
}

pub fn layout_term(l: &StorageLayout) -> String {
    let v: Vec<String> = l
        .slots()
        .iter()
        .map(|s| format!("({},{},{})", s.index.0, s.offset, abi_term(&s.typ)))
        .collect();
    format!("[{}]", v.join(";"))
}

pub fn error_terms(es: &error::Errors) -> String {
    let v: Vec<String> = es
        .payloads()
        .iter()
        .map(|e| {
            let (stage, kind) = match &e.payload {
                error::Error::Disassembly(d) => (0, format!("{d:?}")),
                error::Error::Execution(x) => (1, format!("{x:?}")),
                error::Error::Unification(u) => (2, format!("{u:?}")),
                error::Error::Other(_) => (3, "Other".to_string()),
            };
            let kind: String = kind.chars().take_while(|c| c.is_alphanumeric()).collect();
            format!("({},{},{})", stage, e.location, coq_string(&kind))
        })
        .collect();
    format!("[{}]", v.join(";"))
}

pub struct Outcome {
    pub class:  u8,
    pub layout: Option<StorageLayout>,
    pub errors: Option<error::Errors>,
    pub stage:  &'static str,
    pub polls:  u64,
    pub panic:  String,
}

/// The default type-checker configuration (default lifting passes and rules, as `analyze` users get).
pub fn tc_config() -> tc::Config {
    tc::Config::default()
}

pub fn parse_order(s: &str) -> storage_layout_extractor::verif::OrderMode {
    use storage_layout_extractor::verif::OrderMode as M;
    match s {
        "reversed" => M::Reversed,
        "sorted" => M::Sorted,
        "sortedrev" => M::SortedReversed,
        x if x.starts_with("seed:") => M::Seeded(x[5..].parse().unwrap_or(0)),
        _ => M::Natural,
    }
}

pub fn analyze(line: &str, upto: &str) -> Result<Outcome, String> {
    let order = line.split_whitespace().nth(10).unwrap_or("natural").to_string();
    storage_layout_extractor::verif::set_order_mode(parse_order(&order));
    let r = analyze_inner(line, upto);
    storage_layout_extractor::verif::set_order_mode(storage_layout_extractor::verif::OrderMode::Natural);
    r
}

fn analyze_inner(line: &str, upto: &str) -> Result<Outcome, String> {
    let inp = parse_input(&line.split_whitespace().take(9).collect::<Vec<_>>().join(" "))?;
    let wd = Rc::new(CountingWatchdog::new(inp.every, inp.stop_at, 20_000_000));
    let dynwd: DynWatchdog = wd.clone();
    let contract = Contract::new(inp.bytes.clone(), Chain::Ethereum { version: EthereumVersion::latest() });
    let stage = std::cell::Cell::new("disasm");
    let r = guarded(|| -> Result<Option<StorageLayout>, error::Errors> {
        storage_layout_extractor::verif::reset_ids();
        let ex = storage_layout_extractor::new(contract, inp.config.clone(), tc_config(), dynwd);
        let ex = ex.disassemble()?;
        if upto == "disasm" {
            return Ok(None);
        }
        stage.set("vm");
        let ex = ex.prepare_vm()?;
        let ex = ex.execute()?;
        if upto == "vm" {
            return Ok(None);
        }
        stage.set("lift");
        let mut ex = ex.prepare_unifier();
        if upto == "all" {
            stage.set("tc");
            let ex = ex.infer()?;
            return Ok(Some(ex.layout().clone()));
        }
        // staged type checking through the public TypeChecker API
        let st = unsafe { ex.state_mut() };
        let result = st.execution_result.clone();
        let values = st.engine.lift(result)?;
        if upto == "lift" {
            return Ok(None);
        }
        stage.set("assign");
        st.engine.assign_vars(values)?;
        if upto == "assign" {
            return Ok(None);
        }
        stage.set("infer");
        st.engine.infer()?;
        Ok(None)
    });
    storage_layout_extractor::verif::random_ids();
    let polls = wd.polls.get();
    let (class, layout, errors, panic) = match r {
        Err(p) => (2, None, None, p),
        Ok(_) if wd.over_budget.get() => (3, None, None, String::new()),
        Ok(Ok(l)) => (0, l, None, String::new()),
        Ok(Err(es)) => (1, None, Some(es), String::new()),
    };
    Ok(Outcome { class, layout, errors, stage: stage.get(), polls, panic })
}

pub fn run(_args: &[String], lines: &mut dyn Iterator<Item = String>, out: &mut dyn Write) {
    for line in lines {
        let f: Vec<&str> = line.split_whitespace().collect();
        let upto = f.get(9).copied().unwrap_or("all");
        match analyze(&line, upto) {
            Err(e) => writeln!(out, "BADINPUT {e}").unwrap(),
            Ok(o) => writeln!(
                out,
                "XA {} {} {} {} {} {}",
                o.class,
                o.layout.as_ref().map_or("[]".to_string(), layout_term),
                o.errors.as_ref().map_or("[]".to_string(), error_terms),
                o.polls,
                coq_string(o.stage),
                coq_string(&o.panic.chars().take(200).collect::<String>())
            )
            .unwrap(),
        }
    }
}
