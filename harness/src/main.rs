//! Implementation-side driver of the correspondence checks: runs the real library on inputs read
//! from stdin (one per line) and prints its results as Coq terms, one per line.
//! Every call into the library is wrapped in `catch_unwind`; the whole binary runs in a child
//! process of the check so that aborts and native stack overflows are observable too.
//!
//! A command `foo-bar` lives in `src/cmd_foo_bar.rs` and exposes
//! `pub fn run(args: &[String], lines: &mut dyn Iterator<Item = String>, out: &mut dyn Write)`.

pub mod gen_sv;
pub mod util;
include!(concat!(env!("OUT_DIR"), "/cmds.rs"));

use std::io::{self, BufRead, Write};

fn main() {
    // silence the default panic message: panics are reported in-band
    std::panic::set_hook(Box::new(|_| {}));
    let args: Vec<String> = std::env::args().collect();
    if args.len() < 2 {
        eprintln!("usage: slxh <command> [args]  (inputs on stdin)");
        std::process::exit(2);
    }
    let stdin = io::stdin();
    let stdout = io::stdout();
    // one flushed line per input: the runner attributes a hang or a crash to the first input without an answer
    let mut out = io::LineWriter::new(stdout.lock());
    let mut lines = stdin.lock().lines().map(|l| l.expect("stdin"));
    if !dispatch(args[1].as_str(), &args[2..], &mut lines, &mut out) {
        eprintln!("unknown command {}", args[1]);
        std::process::exit(2);
    }
    out.flush().unwrap();
}
