//! `pipeline`: the whole analysis on `hex gas iter fork size mem permissive poll_every stop_at [order]`, twice, both
//! times with deterministic identities (hook H2) and every order-sensitive iteration arranged by hook H1 in mode
//! `order` = sorted (default) | sortedrev | seed:<n>:
//!
//!  1. the REAL entry points in the order of `Extractor::analyze` (disassemble, prepare_vm, execute,
//!     prepare_unifier, infer = `TypeChecker::run`) -- exactly what `analyze <line> all sorted` does, but with a
//!     wall-clock allowance of SLXH_PIPE_MS (default 1500) per run so that a non-halting unification (class K2)
//!     costs seconds, not half a minute;
//!  2. the same stages through the staged public API (`TypeChecker::lift / assign_vars / infer / unify`), dumping
//!     what each stage hands to the next, so that a disagreement with the model can be attributed to a stage.
//!
//! Output, one line per input, three Coq terms (coq/PipelineCases.v):
//!   `<oracle> <real> <dump>`
//!   oracle  `[(bytes, keccak256 bytes); ..]` for every byte string the proxy-slot pass may hash on the values of
//!           this run (computed with the sha3 crate directly, on the values before and after StorageSlotHashes)
//!   real    `(XR class layout errors polls)`    class 0 layout / 1 structured error / 2 panic / 3 allowance exceeded;
//!           polls = the number of `should_stop` calls the watchdog saw
//!   dump    `(mk_xdump true values lifted vars infs final)`, each stage `None` when it was not reached
//!
//! `pipeline display`: one value tree per line in the `(Tag [attrs] kids...)` syntax; prints
//!   `(<tree as Coq term>, "<format!("{}", value)>")`  (the sort key of the storage / symbolic-memory hooks).
use std::{io::Write, rc::Rc};

use itertools::Itertools;
use sha3::{Digest, Keccak256};
use storage_layout_extractor::{
    data::vector_map::ToUniqueIndex,
    error,
    extractor::{
        chain::{version::{ChainVersion, EthereumVersion}, Chain},
        contract::Contract,
    },
    tc::{
        lift::{recognise_hashed_slots::StorageSlotHashes, Lift},
        state::TypeCheckerState,
    },
    verif::{set_order_mode, OrderMode},
    vm::value::{RuntimeBoxedVal, RSVD},
    watchdog::DynWatchdog,
    StorageLayout,
};

use crate::{
    cmd_analyze::{error_terms, layout_term, parse_order, tc_config},
    cmd_register::te_term,
    cmd_vm::{parse_input, VmInput},
    gen_sv::sv_term,
    util::{coq_bytes, coq_string, guarded, parse_value, CountingWatchdog, Ids},
};

fn keccak(bytes: &[u8]) -> ethnum::U256 {
    let mut h = Keccak256::new();
    h.update(bytes);
    let out = h.finalize().to_vec();
    ethnum::U256::from_be_bytes(out.as_slice().try_into().expect("32 bytes"))
}

/// every byte string the proxy pass could hash below `v`
fn preimages(v: &RuntimeBoxedVal, acc: &mut Vec<Vec<u8>>) {
    if let RSVD::Sha3 { data } = v.data() {
        match data.data() {
            RSVD::KnownData { value } => acc.push(value.bytes_be().to_vec()),
            RSVD::Concat { values } => {
                let mut bytes = vec![];
                let mut all = true;
                for x in values {
                    match x.constant_fold().data() {
                        RSVD::KnownData { value } => bytes.extend(value.bytes_be()),
                        _ => all = false,
                    }
                }
                if all {
                    acc.push(bytes);
                }
            }
            _ => {}
        }
    }
    for c in v.children() {
        preimages(&c, acc);
    }
}

fn watchdog(inp: &VmInput) -> Rc<CountingWatchdog> {
    let ms = std::env::var("SLXH_PIPE_MS").ok().and_then(|s| s.parse().ok()).unwrap_or(1500u64);
    let mut wd = CountingWatchdog::new(inp.every, inp.stop_at, 20_000_000);
    wd.deadline = std::time::Instant::now() + std::time::Duration::from_millis(ms);
    Rc::new(wd)
}

fn xr(class: u8, layout: Option<&StorageLayout>, errors: Option<&error::Errors>, polls: u64) -> String {
    format!(
        "(XR {} {} {} {})",
        class,
        layout.map_or("[]".to_string(), layout_term),
        errors.map_or("[]".to_string(), error_terms),
        polls
    )
}

fn contract(inp: &VmInput) -> Contract {
    Contract::new(inp.bytes.clone(), Chain::Ethereum { version: EthereumVersion::latest() })
}

/// 1. the real thing
fn real(inp: &VmInput) -> String {
    let wd = watchdog(inp);
    let dynwd: DynWatchdog = wd.clone();
    let c = contract(inp);
    storage_layout_extractor::verif::reset_ids();
    let r = guarded(|| -> Result<StorageLayout, error::Errors> {
        let ex = storage_layout_extractor::new(c, inp.config.clone(), tc_config(), dynwd);
        let ex = ex.disassemble()?;
        let ex = ex.prepare_vm()?;
        let ex = ex.execute()?;
        let ex = ex.prepare_unifier();
        let ex = ex.infer()?;
        Ok(ex.layout().clone())
    });
    storage_layout_extractor::verif::random_ids();
    let polls = wd.polls.get();
    match r {
        Err(_) => xr(2, None, None, polls),
        Ok(_) if wd.over_budget.get() => xr(3, None, None, polls),
        Ok(Ok(l)) => xr(0, Some(&l), None, polls),
        Ok(Err(es)) => xr(1, None, Some(&es), polls),
    }
}

fn opt(s: Option<String>) -> String {
    s.map_or("None".to_string(), |t| format!("(Some {t})"))
}

/// 2. stage by stage; returns (oracle, dump)
fn staged(inp: &VmInput, hashes: &mut StorageSlotHashes) -> (String, String) {
    let wd = watchdog(inp);
    let dynwd: DynWatchdog = wd.clone();
    let c = contract(inp);
    storage_layout_extractor::verif::reset_ids();
    let mut values_t: Option<String> = None;
    let mut lifted_t: Option<String> = None;
    let mut vars_t: Option<String> = None;
    let mut infs_t: Option<String> = None;
    let mut pre: Vec<Vec<u8>> = vec![];
    let r = guarded(|| -> Result<StorageLayout, error::Errors> {
        let ex = storage_layout_extractor::new(c, inp.config.clone(), tc_config(), dynwd);
        let ex = ex.disassemble()?;
        let ex = ex.prepare_vm()?;
        let ex = ex.execute()?;
        let mut ex = ex.prepare_unifier();
        let st = unsafe { ex.state_mut() };
        let result = st.execution_result.clone();
        // what `lift` is about to see
        let values: Vec<RuntimeBoxedVal> = result.clone().all_values().into_iter().unique().collect();
        let mut ids = Ids::default();
        values_t = Some(format!("[{}]", values.iter().map(|v| sv_term(v, &mut ids)).join(";")));
        let empty = TypeCheckerState::empty();
        for v in &values {
            preimages(v, &mut pre);
            if let Ok(h) = hashes.run(v.clone(), &empty) {
                preimages(&h, &mut pre);
            }
        }
        let lifted = st.engine.lift(result)?;
        lifted_t = Some(format!("[{}]", lifted.iter().map(|v| sv_term(v, &mut ids)).join(";")));
        st.engine.assign_vars(lifted)?;
        vars_t = Some(st.engine.state().tyvar_count().to_string());
        st.engine.infer()?;
        {
            let state = st.engine.state();
            let mut vars = state.variables();
            vars.sort();
            let mut rows = vec![];
            for v in vars {
                let es: Vec<String> = state.inferences(v).iter().map(te_term).collect();
                if !es.is_empty() {
                    rows.push(format!("({},[{}])", v.index(), es.join(";")));
                }
            }
            infs_t = Some(format!("({},[{}])", state.tyvar_count(), rows.join(";")));
        }
        Ok(st.engine.unify()?)
    });
    storage_layout_extractor::verif::random_ids();
    let polls = wd.polls.get();
    let fin = match r {
        Err(_) => xr(2, None, None, polls),
        Ok(_) if wd.over_budget.get() => xr(3, None, None, polls),
        Ok(Ok(l)) => xr(0, Some(&l), None, polls),
        Ok(Err(es)) => xr(1, None, Some(&es), polls),
    };
    let oracle: Vec<String> =
        pre.into_iter().unique().map(|b| format!("({},{})", coq_bytes(&b), keccak(&b))).collect();
    (
        format!("[{}]", oracle.join(";")),
        format!("(mk_xdump true {} {} {} {} {})", opt(values_t), opt(lifted_t), opt(vars_t), opt(infs_t), fin),
    )
}

fn display(lines: &mut dyn Iterator<Item = String>, out: &mut dyn Write) {
    for line in lines {
        match guarded(|| parse_value(line.trim())) {
            Ok(Ok(v)) => {
                let mut ids = Ids::default();
                writeln!(out, "({}, {})", sv_term(&v, &mut ids), coq_string(&format!("{v}"))).unwrap();
            }
            _ => writeln!(out, "BADINPUT tree").unwrap(),
        }
    }
}

pub fn run(args: &[String], lines: &mut dyn Iterator<Item = String>, out: &mut dyn Write) {
    if args.first().map(String::as_str) == Some("display") {
        return display(lines, out);
    }
    let mut hashes = StorageSlotHashes::new();
    for line in lines {
        let inp = match parse_input(&line.split_whitespace().take(9).collect::<Vec<_>>().join(" ")) {
            Ok(i) => i,
            Err(e) => {
                writeln!(out, "BADINPUT {e}").unwrap();
                continue;
            }
        };
        let order = line.split_whitespace().nth(9).unwrap_or("sorted");
        let mode = match parse_order(order) {
            OrderMode::Natural | OrderMode::Reversed => OrderMode::Sorted,
            m => m,
        };
        set_order_mode(mode);
        let real_t = real(&inp);
        let (oracle, dump) = staged(&inp, &mut hashes);
        set_order_mode(OrderMode::Natural);
        writeln!(out, "{oracle} {real_t} {dump}").unwrap();
    }
}
