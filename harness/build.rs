// Collects src/cmd_*.rs into a dispatch table so that adding a command is adding a file.
use std::{env, fs, path::Path};

fn main() {
    let mut names: Vec<String> = fs::read_dir("src")
        .unwrap()
        .filter_map(|e| e.ok())
        .filter_map(|e| e.file_name().into_string().ok())
        .filter(|n| n.starts_with("cmd_") && n.ends_with(".rs"))
        .map(|n| n[..n.len() - 3].to_string())
        .collect();
    names.sort();
    let src = env::current_dir().unwrap().join("src");
    let mut s = String::new();
    for n in &names {
        s += &format!("#[path = {:?}]\npub mod {};\n", src.join(format!("{n}.rs")), n);
    }
    s += "pub fn dispatch(cmd: &str, args: &[String], lines: &mut dyn Iterator<Item = String>, out: &mut dyn std::io::Write) -> bool {\n    match cmd {\n";
    for n in &names {
        s += &format!("        {:?} => {{ {}::run(args, lines, out); true }}\n", &n[4..].replace('_', "-"), n);
    }
    s += "        _ => false,\n    }\n}\n";
    let out = env::var("OUT_DIR").unwrap();
    fs::write(Path::new(&out).join("cmds.rs"), s).unwrap();
    println!("cargo:rerun-if-changed=src");
}
