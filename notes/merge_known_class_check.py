"""Design note (not part of the machinery): over the 40-element evidence domain of C16, the
position-independent classes K1/K2 are EXACTLY the 3-element evidence multisets whose
left folds depend on the order (0 false positives, 0 false negatives of 11 480 multisets).
Run: python3 merge_known_class_check.py"""
import itertools, importlib.util, io, contextlib
spec=importlib.util.spec_from_file_location('m','merge_assoc_enumeration.py')
m=importlib.util.module_from_spec(spec)
with contextlib.redirect_stdout(io.StringIO()): spec.loader.exec_module(m)
dom=m.dom; merge=m.merge; C=m.C
def isword(x): return x[0]=='Word'
def arraylike(x): return x[0] in ('Dyn','Bytes')
def K1(a,b,c):
    # an array-like operand that absorbs each of two words which conflict with each other
    for (x,y,z) in [(a,b,c),(b,a,c),(c,a,b)]:
        if arraylike(x) and isword(y) and isword(z) and merge(y,z)[0]==C and merge(x,y)[0]==x and merge(x,z)[0]==x: return True
    return False
def emits(x,y): return len([s for s in merge(x,y)[1] if len(s)==2])>0
def K2(a,b,c):
    # two operands whose merge emits component equalities, and a third that turns one of them into Conflict or Bytes
    for (x,y,z) in [(a,b,c),(b,c,a),(a,c,b)]:
        if emits(x,y) and (merge(x,z)[0] in (C,('Bytes',)) or merge(y,z)[0] in (C,('Bytes',))): return True
    return False
def fold(order):
    e,q=merge(order[0],order[1]); e2,q2=merge(e,order[2]); return e2, frozenset(s for s in q|q2 if len(s)==2)
bad_k=nonk_dep=tot=0
for a,b,c in itertools.combinations_with_replacement(range(len(dom)),3):
    t=(dom[a],dom[b],dom[c]); tot+=1
    res=[fold(p) for p in itertools.permutations(t)]
    allq=set().union(*[q for _,q in res])
    dep=len({(m.norm(e,allq),q) for e,q in res})>1
    k=K1(*t) or K2(*t)
    bad_k+= (k and not dep); nonk_dep += (dep and not k)
print('multisets',tot,'K but order-independent',bad_k,'order-dependent but not K',nonk_dep)
