import itertools
U=['Bytes','Numeric','Unsigned','Signed','Bool','Address','Selector','Function']
FW={'Bool':8,'Address':160,'Selector':32,'Function':192}
def umerge(a,b):
    if a==b: return a
    if a=='Bytes': return b
    if b=='Bytes': return a
    s={a,b}
    if s=={'Numeric','Unsigned'}: return 'Unsigned'
    if s=={'Numeric','Signed'}: return 'Signed'
    if s=={'Numeric','Address'}: return 'Address'
    if s=={'Unsigned','Address'}: return 'Address'
    return None
C=('Conflict',)
def merge(l,r):
    # returns (expr, frozenset(equalities))
    if l==r: return (l,frozenset())
    if l[0]=='Conflict' or r[0]=='Conflict': return (C,frozenset())
    if l[0]=='Word' and r[0]=='Word':
        wl,ul=l[1],l[2]; wr,ur=r[1],r[2]
        if wl is not None and wr is not None:
            if wl!=wr: return (C,frozenset())
            w=wl
        else: w = wl if wl is not None else wr
        u=umerge(ul,ur)
        if u is None: return (C,frozenset())
        return (('Word',w,u),frozenset())
    if l[0]=='Word' and r[0]=='Bytes': return merge(r,l)
    if l[0]=='Bytes' and r[0]=='Word' and r[2]!='Signed': return (('Bytes',),frozenset())
    if (l[0]=='Dyn' and r[0]=='Bytes') or (l[0]=='Bytes' and r[0]=='Dyn'): return (('Bytes',),frozenset())
    if l[0]=='Word' and r[0]=='Dyn': return merge(r,l)
    if l[0]=='Dyn' and r[0]=='Word':
        return (C,frozenset()) if r[2]=='Signed' else (l,frozenset())
    if l[0]=='Dyn' and r[0]=='Dyn': return (l,frozenset([frozenset([l[1],r[1]])]))
    if l[0]=='Fixed' and r[0]=='Fixed':
        if l[2]==r[2]: return (l,frozenset([frozenset([l[1],r[1]])]))
        return (C,frozenset())
    if l[0]=='Map' and r[0]=='Map': return (l,frozenset([frozenset([l[1],r[1]]),frozenset([l[2],r[2]])]))
    if r[0]=='Any': return (l,frozenset())
    if l[0]=='Any': return (r,frozenset())
    return (C,frozenset())
dom=[('Any',),('Bytes',),C]
for u in U:
    ws=[FW[u]] if u in FW else [None,8,32,160,192,256]
    for w in ws: dom.append(('Word',w,u))
for a,b in [(0,1),(1,0),(0,0)]:
    dom.append(('Map',a,b))
for a in [0,1]:
    dom.append(('Dyn',a)); dom.append(('Fixed',a,3)); dom.append(('Fixed',a,4))
print(len(dom))
# normalise: representative choice among equated vars: compare constructor + components modulo equalities
def norm(e,eqs):
    # union-find over vars 0,1
    same = any(len(s)==2 for s in eqs)
    def v(x): return 0 if same else x
    if e[0]=='Map': return ('Map',v(e[1]),v(e[2]))
    if e[0]=='Dyn': return ('Dyn',v(e[1]))
    if e[0]=='Fixed': return ('Fixed',v(e[1]),e[2])
    return e
def m2(a,b):
    e,q=merge(a,b); return e,q
comm=[];assoc=[]
for a,b in itertools.product(dom,dom):
    e1,q1=m2(a,b); e2,q2=m2(b,a)
    q1={s for s in q1 if len(s)==2}; q2={s for s in q2 if len(s)==2}
    if norm(e1,q1|q2)!=norm(e2,q1|q2) or q1!=q2: comm.append((a,b,e1,e2))
for a,b,c in itertools.product(dom,dom,dom):
    ab,q1=m2(a,b); l,q2=m2(ab,c)
    bc,q3=m2(b,c); r,q4=m2(a,bc)
    ql={s for s in q1|q2 if len(s)==2}; qr={s for s in q3|q4 if len(s)==2}
    if norm(l,ql|qr)!=norm(r,ql|qr) or ql!=qr: assoc.append((a,b,c,l,r,ql,qr))
print('comm fails',len(comm)); 
for x in comm[:10]: print(x)
print('assoc fails',len(assoc))
from collections import Counter
def sh(e): return e[0] if e[0]!='Word' else 'Word'
cnt=Counter((sh(a),sh(b),sh(c),sh(l),sh(r)) for a,b,c,l,r,_,_ in assoc)
for k,v in sorted(cnt.items(), key=lambda x:-x[1]): print(v,k)
