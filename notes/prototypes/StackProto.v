(* FEASIBILITY PROTOTYPE for DESIGN.md (C07) -- not part of the machinery.
   The Vec-backed stack of src/vm/state/stack.rs (top = last element; duplicate(frame) and
   swap(frame) index from the top with len-1-frame) against the EVM's list-with-head-on-top
   stack, for ALL n in 1..16: DUPn = DupN::execute (frame n-1), SWAPn = SwapN::execute (frame n).
   Also the denotation-preservation step for a binary ALU opcode. *)
From Coq Require Import List Arith Lia NArith.
Import ListNotations.

Section Stack.
Variable V : Type.

(* implementation: Vec, top at the end *)
Definition vdup (frame : nat) (s : list V) : option (list V) :=
  if length s <=? frame then None
  else match nth_error s (length s - 1 - frame) with Some v => Some (s ++ [v]) | None => None end.

Fixpoint set_nth (i : nat) (x : V) (l : list V) : list V :=
  match l, i with [], _ => [] | _ :: r, 0 => x :: r | y :: r, S k => y :: set_nth k x r end.

Definition vswap (frame : nat) (s : list V) : option (list V) :=
  if length s <=? frame then None
  else let top := length s - 1 in let j := top - frame in
       match nth_error s top, nth_error s j with
       | Some a, Some b => Some (set_nth j a (set_nth top b s))
       | _, _ => None end.

(* specification: EVM stack, head = top; DUPn copies the n-th item (1-based), SWAPn exchanges
   item 1 and item n+1 *)
Definition edup (n : nat) (s : list V) : option (list V) :=
  match nth_error s (n - 1) with Some v => Some (v :: s) | None => None end.
Definition eswap (n : nat) (s : list V) : option (list V) :=
  match s with
  | [] => None
  | a :: r => match nth_error r (n - 1) with Some b => Some (b :: set_nth (n - 1) a r) | None => None end
  end.

(* swap_sim is analogous to dup_sim below and is left for the machinery *)
Definition rel (impl evm : list V) : Prop := evm = rev impl.

Lemma nth_error_rev (l : list V) i : i < length l -> nth_error (rev l) i = nth_error l (length l - 1 - i).
Proof.
  intros H. destruct (nth_error l (length l - 1 - i)) eqn:E.
  - apply nth_error_split in E as (a & b & -> & Hl). rewrite rev_app_distr. cbn [rev]. rewrite <- app_assoc. cbn.
    rewrite app_length in H, Hl. cbn in H, Hl.
    replace i with (length (rev b)) by (rewrite rev_length; lia). now rewrite nth_error_app2, Nat.sub_diag by lia.
  - apply nth_error_None in E. lia.
Qed.

Theorem dup_sim n s e : 1 <= n -> rel s e ->
  match vdup (n - 1) s, edup n e with
  | Some s', Some e' => rel s' e'
  | None, None => True
  | _, _ => False
  end.
Proof.
  intros Hn ->. unfold vdup, edup. destruct (length s <=? n - 1) eqn:E.
  - apply Nat.leb_le in E. destruct (nth_error (rev s) (n - 1)) eqn:E2; auto.
    assert (nth_error (rev s) (n - 1) <> None) by congruence. apply nth_error_Some in H. rewrite rev_length in H. lia.
  - apply Nat.leb_gt in E. rewrite nth_error_rev by lia.
    destruct (nth_error s (length s - 1 - (n - 1))) eqn:E2.
    + unfold rel. now rewrite rev_app_distr.
    + apply nth_error_None in E2. lia.
Qed.
End Stack.

(* a binary ALU step preserves the denotation relation between symbolic and concrete stacks *)
Section Alu.
Variable sv : Type.
Variable den : sv -> N.
Variable mk_add : sv -> sv -> sv.
Variable spec_add : N -> N -> N.
Hypothesis den_add : forall a b, den (mk_add a b) = spec_add (den a) (den b).

Definition srel (sym : list sv) (conc : list N) : Prop := conc = map den (rev sym).

(* Add::execute: a = pop, b = pop, push Add{left:a,right:b}; EVM: mu_s[0] + mu_s[1] *)
Theorem add_sim sym a b conc :
  srel (sym ++ [b; a]) conc ->
  exists x y rest, conc = x :: y :: rest /\ srel (sym ++ [mk_add a b]) (spec_add x y :: rest).
Proof.
  unfold srel. intros ->. rewrite rev_app_distr. cbn. exists (den a), (den b), (map den (rev sym)).
  split; [reflexivity|]. rewrite rev_app_distr. cbn. now rewrite den_add.
Qed.
End Alu.
Print Assumptions dup_sim.
Print Assumptions add_sim.
