(* FEASIBILITY PROTOTYPE for DESIGN.md (C10) -- not part of the machinery.
   A faithful state-machine model of src/disassembly/disassembler.rs (pinned tree),
   the round-trip / length invariant, and the refutation of totality by [0x60]. *)
From Coq Require Import List Arith NArith Lia Bool.
Import ListNotations.
Open Scope N_scope.

Definition byte := N.

Inductive instr :=
| IPlain (b : byte)            (* any single-byte opcode the table assigns, by its byte *)
| IPush (n : N) (data : list byte)
| INop
| IInvalid (b : byte).

Definition encode (i : instr) : list byte :=
  match i with
  | IPlain b => [b]
  | IPush n d => (95 + n) :: d
  | INop => []
  | IInvalid b => [b]
  end.

(* In the real development this predicate is generated from the match arms (T1). *)
Definition is_push (b : byte) : bool := (96 <=? b) && (b <=? 127).
Definition assigned (b : byte) : bool :=
  (b <=? 11) || ((16 <=? b) && (b <=? 29)) || (b =? 32) || ((48 <=? b) && (b <=? 72))
  || ((80 <=? b) && (b <=? 91)) || (b =? 95) || ((128 <=? b) && (b <=? 164))
  || (b =? 240) || (b =? 241) || (b =? 242) || (b =? 243) || (b =? 244) || (b =? 245)
  || (b =? 250) || (b =? 253) || (b =? 254) || (b =? 255).

Record st := { ops : list instr;          (* in order *)
               last_push : byte; push_size : N; remaining : N; push_bytes : list byte }.

Definition init := {| ops := []; last_push := 0; push_size := 0; remaining := 0; push_bytes := [] |}.

Definition nops (n : N) : list instr := repeat INop (N.to_nat n).

Definition step (s : st) (b : byte) : st :=
  if negb (remaining s =? 0) then
    let pb := push_bytes s ++ [b] in
    let r := remaining s - 1 in
    if (r =? 0) then
      {| ops := ops s ++ IPush (push_size s) pb :: nops (push_size s);
         last_push := 0; push_size := 0; remaining := 0; push_bytes := [] |}
    else {| ops := ops s; last_push := last_push s; push_size := push_size s; remaining := r; push_bytes := pb |}
  else if is_push b then
    {| ops := ops s; last_push := b; push_size := b - 95; remaining := b - 95; push_bytes := [] |}
  else if assigned b then
    {| ops := ops s ++ [IPlain b]; last_push := last_push s; push_size := push_size s; remaining := 0; push_bytes := push_bytes s |}
  else
    {| ops := ops s ++ [IInvalid b]; last_push := last_push s; push_size := push_size s; remaining := 0; push_bytes := push_bytes s |}.

(* pinned behaviour of the tail handling *)
Definition finish (s : st) : option (list instr) :=
  if negb (Nat.eqb (length (push_bytes s)) 0) && negb (N.of_nat (length (push_bytes s)) =? push_size s) then
    Some (ops s ++ IInvalid (last_push s) :: map IInvalid (push_bytes s))
  else if negb (push_size s =? 0) then None   (* PushN::new(n, []) -> Err(InvalidPushSize) *)
  else Some (ops s).

Definition disasm (bs : list byte) : option (list instr) :=
  match bs with [] => None | _ => finish (fold_left step bs init) end.

Definition enc_all (l : list instr) : list byte := concat (map encode l).

(* what has been consumed but not yet emitted *)
Definition pending (s : st) : list byte :=
  if push_size s =? 0 then [] else last_push s :: push_bytes s.

Definition Inv (p : list byte) (s : st) : Prop :=
  enc_all (ops s) ++ pending s = p /\
  (length (ops s) + length (pending s) = length p)%nat /\
  (push_size s = 0 -> remaining s = 0 /\ push_bytes s = []) /\
  (push_size s <> 0 -> last_push s = 95 + push_size s /\ push_size s <= 32 /\
        remaining s + N.of_nat (length (push_bytes s)) = push_size s /\ remaining s <> 0).

Lemma enc_all_app a b : enc_all (a ++ b) = enc_all a ++ enc_all b.
Proof. unfold enc_all. now rewrite map_app, concat_app. Qed.
Lemma enc_nops n : enc_all (nops n) = [].
Proof. unfold nops, enc_all. induction (N.to_nat n); simpl; auto. Qed.
Lemma len_nops n : length (nops n) = N.to_nat n.
Proof. unfold nops. apply repeat_length. Qed.

Ltac inv_split := unfold Inv; split; [|split; [|split]].

Lemma step_inv p s b : Inv p s -> Inv (p ++ [b]) (step s b).
Proof.
  intros (He & Hl & H0 & H1). unfold step.
  destruct (remaining s =? 0) eqn:Er; cbn [negb].
  - apply N.eqb_eq in Er.
    assert (Hz : push_size s = 0).
    { destruct (N.eq_dec (push_size s) 0) as [|Hn]; auto. destruct (H1 Hn) as (_ & _ & _ & Hr). congruence. }
    destruct (H0 Hz) as (_ & Hpb). unfold pending in He, Hl. rewrite Hz in He, Hl. cbn [N.eqb] in He, Hl.
    rewrite app_nil_r in He. cbn [length] in Hl.
    destruct (is_push b) eqn:Ep.
    + unfold is_push in Ep. apply andb_true_iff in Ep as [E1 E2].
      apply N.leb_le in E1, E2.
      assert (Eb : (b - 95 =? 0) = false) by (apply N.eqb_neq; lia).
      inv_split; unfold pending; cbn [ops last_push push_size remaining push_bytes]; rewrite ?Eb.
      * now rewrite He.
      * rewrite app_length; cbn [length]; lia.
      * intros Hc; lia.
      * intros _. cbn [length]. repeat split; lia.
    + destruct (assigned b); inv_split; unfold pending; cbn [ops last_push push_size remaining push_bytes];
        rewrite ?Hz; cbn [N.eqb].
      all: try (rewrite enc_all_app, app_nil_r, He; reflexivity).
      all: try (rewrite !app_length; cbn [length]; lia).
      all: try (intros _; split; [reflexivity|assumption]).
      all: try (intros Hc; now elim Hc).
  - apply N.eqb_neq in Er.
    assert (Hn : push_size s <> 0).
    { intros Hz. destruct (H0 Hz). congruence. }
    destruct (H1 Hn) as (Hlp & Hle & Hsum & _).
    unfold pending in He, Hl. destruct (push_size s =? 0) eqn:Ez; [apply N.eqb_eq in Ez; congruence|].
    destruct (remaining s - 1 =? 0) eqn:E1.
    + apply N.eqb_eq in E1.
      inv_split; unfold pending; cbn [ops last_push push_size remaining push_bytes]; cbn [N.eqb].
      * rewrite enc_all_app. cbn [enc_all map concat encode]. fold (enc_all (nops (push_size s))).
        rewrite enc_nops, !app_nil_r, <- Hlp, <- He, <- !app_assoc. reflexivity.
      * rewrite ?app_length in *; cbn [length] in *; rewrite ?len_nops, ?app_length; cbn [length]; lia.
      * intros _; split; reflexivity.
      * intros Hc; now elim Hc.
    + apply N.eqb_neq in E1.
      inv_split; unfold pending; cbn [ops last_push push_size remaining push_bytes]; rewrite ?Ez.
      * rewrite <- He, <- !app_assoc. reflexivity.
      * rewrite ?app_length in *; cbn [length] in *; rewrite ?app_length; cbn [length]; lia.
      * intros Hc; congruence.
      * intros _. rewrite app_length; cbn [length]. repeat split; try assumption; lia.
Qed.

Lemma init_inv : Inv [] init.
Proof. unfold Inv, init, pending; cbn. repeat split; auto; intros; congruence. Qed.

Lemma fold_inv bs : forall p s, Inv p s -> Inv (p ++ bs) (fold_left step bs s).
Proof.
  induction bs as [|b bs IH]; intros p s H; cbn [fold_left].
  - now rewrite app_nil_r.
  - replace (p ++ b :: bs) with ((p ++ [b]) ++ bs) by (rewrite <- app_assoc; reflexivity).
    apply IH, step_inv, H.
Qed.

Lemma enc_map_invalid l : enc_all (map IInvalid l) = l.
Proof. unfold enc_all. induction l; cbn; congruence. Qed.

(* C10, the part that holds on the pinned tree: whenever disassembly succeeds it is
   lossless and has one entry per byte. *)
Theorem disasm_roundtrip_length bs is :
  disasm bs = Some is -> enc_all is = bs /\ length is = length bs.
Proof.
  unfold disasm. destruct bs as [|b0 bs0] eqn:Eb; [discriminate|]. rewrite <- Eb. clear Eb b0 bs0.
  pose proof (fold_inv bs [] init init_inv) as (He & Hl & H0 & H1). cbn [app] in *.
  set (s := fold_left step bs init) in *. unfold finish.
  destruct (negb (Nat.eqb (length (push_bytes s)) 0) && negb (N.of_nat (length (push_bytes s)) =? push_size s)) eqn:E.
  - intros [= <-]. apply andb_true_iff in E as [E1 E2].
    apply negb_true_iff, Nat.eqb_neq in E1.
    assert (Hn : push_size s <> 0). { intros Hz. destruct (H0 Hz) as [_ Hp]. rewrite Hp in E1. now apply E1. }
    unfold pending in *. destruct (push_size s =? 0) eqn:Ez; [apply N.eqb_eq in Ez; congruence|].
    split.
    + rewrite enc_all_app. change (IInvalid (last_push s) :: map IInvalid (push_bytes s)) with (map IInvalid (last_push s :: push_bytes s)).
      now rewrite enc_map_invalid.
    + rewrite app_length. cbn [length]. rewrite map_length. cbn [length] in Hl. lia.
  - destruct (push_size s =? 0) eqn:Ez; cbn [negb]; [|discriminate].
    intros [= <-]. unfold pending in *. rewrite Ez in *. rewrite app_nil_r in He. cbn in Hl. split; [assumption|lia].
Qed.

(* C10 totality is FALSE on the pinned tree: *)
Theorem disasm_total_refuted : exists bs, bs <> [] /\ Forall (fun b => b < 256) bs /\ disasm bs = None.
Proof. exists [96]. split; [discriminate|split; [constructor; [reflexivity|constructor]|reflexivity]]. Qed.

Print Assumptions disasm_roundtrip_length.
Print Assumptions disasm_total_refuted.
