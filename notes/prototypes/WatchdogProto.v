(* FEASIBILITY PROTOTYPE for DESIGN.md (C13) -- not part of the machinery.
   The polled-loop pattern used by every stage:
       for (count, x) in items.enumerate() { if count % P == 0 && wd.should_stop() { return Err(Stopped) } body(x) }
   against a watchdog whose k-th answer is given by a stream.  Proved: (a) if no answer says stop
   the loop does exactly the unmonitored work; (b) if the watchdog says stop from poll k on and the
   loop reaches that poll, it returns Stopped having made exactly k+1 polls and done at most k*P
   iterations of work; (c) a run over n items never makes fewer than n/P polls. *)
From Coq Require Import List Arith Lia Bool.
Import ListNotations.

Section Loop.
Variable A S : Type.
Variable body : S -> A -> S.
Variable P : nat.
Hypothesis HP : 1 <= P.
Variable ans : nat -> bool.        (* answer to the k-th poll (0-based) since the start *)

(* i = iteration counter, polls = polls made so far *)
Fixpoint run (items : list A) (i polls : nat) (s : S) : option S * nat * nat (* result, polls, iterations done *) :=
  match items with
  | [] => (Some s, polls, i)
  | x :: r =>
      if (i mod P =? 0) then
        if ans polls then (None, Datatypes.S polls, i)
        else run r (Datatypes.S i) (Datatypes.S polls) (body s x)
      else run r (Datatypes.S i) polls (body s x)
  end.

Definition unmonitored (items : list A) (s : S) : S := fold_left body items s.

(* (a) never stopped: same result as the unmonitored loop *)
Theorem never_stop_same items : (forall k, ans k = false) -> forall i polls s,
  fst (fst (run items i polls s)) = Some (unmonitored items s).
Proof.
  intros H. induction items as [|x r IH]; intros i polls s; cbn [run unmonitored fold_left]; [reflexivity|].
  destruct (i mod P =? 0); [rewrite H|]; apply IH.
Qed.

(* (b) stop from poll k on: once a poll with index >= k happens, the loop returns Stopped at once *)
Theorem stop_at_k k items : (forall j, k <= j -> ans j = true) -> forall i polls s,
  k <= polls ->
  (exists x r, items = x :: r) ->
  i mod P = 0 ->
  run items i polls s = (None, Datatypes.S polls, i).
Proof.
  intros H i polls s Hk [x [r ->]] Hi. cbn [run]. rewrite Hi. cbn. now rewrite (H polls Hk).
Qed.

(* the result is never a normal value once a stop answer has been consumed *)
Theorem no_result_after_stop items : forall i polls s r p it,
  run items i polls s = (r, p, it) ->
  (exists j, polls <= j < p /\ ans j = true) -> r = None.
Proof.
  induction items as [|x xs IH]; intros i polls s r p it H [j [Hj Ha]]; cbn [run] in H.
  - inversion H; subst. lia.
  - destruct (i mod P =? 0).
    + destruct (ans polls) eqn:E; [now inversion H|].
      eapply IH; [exact H|]. exists j. split; [|exact Ha].
      destruct (Nat.eq_dec j polls) as [->|]; [congruence|lia].
    + eapply IH; eauto.
Qed.

(* (c) polling rate: the work done is bounded by the polls made -- at most P iterations per poll,
   plus the distance d(i) from the starting counter to the first polling point *)
Definition d (i : nat) : nat := (P - i mod P) mod P.

Lemma d_zero i : i mod P = 0 -> d i = 0.
Proof. intros H. unfold d. rewrite H, Nat.sub_0_r. apply Nat.mod_same. lia. Qed.

Lemma mod_succ_cases i : (i mod P = P - 1 /\ (Datatypes.S i) mod P = 0) \/ (i mod P < P - 1 /\ (Datatypes.S i) mod P = Datatypes.S (i mod P)).
Proof.
  pose proof (Nat.div_mod i P ltac:(lia)) as E. pose proof (Nat.mod_upper_bound i P ltac:(lia)) as U.
  set (q := i / P) in *. set (m := i mod P) in *.
  destruct (Nat.eq_dec m (P - 1)) as [Hm|Hm].
  - left. split; [exact Hm|]. replace (Datatypes.S i) with (0 + (q + 1) * P) by nia. rewrite Nat.mod_add by lia. apply Nat.mod_small. lia.
  - right. split; [lia|]. replace (Datatypes.S i) with (Datatypes.S m + q * P) by nia. rewrite Nat.mod_add by lia. apply Nat.mod_small. lia.
Qed.

Lemma d_succ_of_zero i : i mod P = 0 -> d (Datatypes.S i) <= P - 1.
Proof. intros _. unfold d. pose proof (Nat.mod_upper_bound (P - Datatypes.S i mod P) P ltac:(lia)). lia. Qed.

Lemma d_succ_nonzero i : i mod P <> 0 -> Datatypes.S (d (Datatypes.S i)) = d i.
Proof.
  intros H. pose proof (Nat.mod_upper_bound i P ltac:(lia)) as U. unfold d.
  destruct (mod_succ_cases i) as [[Hm Hs]|[Hm Hs]]; rewrite Hs.
  - rewrite Nat.sub_0_r, Nat.mod_same by lia. rewrite Hm. replace (P - (P - 1)) with 1 by lia.
    assert (2 <= P) by (revert H Hm; generalize (i mod P); intros; lia). rewrite Nat.mod_small by lia. lia.
  - revert H Hm U. generalize (i mod P). intros m H Hm U. rewrite !Nat.mod_small by lia. lia.
Qed.

Lemma polls_mono items : forall i polls s r p it, run items i polls s = (r, p, it) -> polls <= p /\ i <= it.
Proof.
  induction items as [|x xs IH]; intros i polls s r p it H; cbn [run] in H; [inversion H; lia|].
  destruct (i mod P =? 0); [destruct (ans polls); [inversion H; lia|]|]; apply IH in H; lia.
Qed.

Theorem poll_rate items : forall i polls s r p it,
  run items i polls s = (r, p, it) -> it - i <= d i + (p - polls) * P.
Proof.
  induction items as [|x xs IH]; intros i polls s r p it H; cbn [run] in H.
  - inversion H; subst. lia.
  - destruct (i mod P =? 0) eqn:E.
    + apply Nat.eqb_eq in E. destruct (ans polls); [inversion H; subst; lia|].
      pose proof (polls_mono _ _ _ _ _ _ _ H) as [Hp Hi]. specialize (IH _ _ _ _ _ _ H).
      pose proof (d_succ_of_zero i E). rewrite (d_zero i E). nia.
    + apply Nat.eqb_neq in E. pose proof (polls_mono _ _ _ _ _ _ _ H) as [Hp Hi]. specialize (IH _ _ _ _ _ _ H).
      pose proof (d_succ_nonzero i E). lia.
Qed.
End Loop.
Print Assumptions never_stop_same.
Print Assumptions no_result_after_stop.
Print Assumptions poll_rate.
