(* FEASIBILITY PROTOTYPE for DESIGN.md (C19, union-find part) -- not part of the machinery.
   Parent map with recursive find + path compression + auto-insert (as DisjointSet::find),
   union re-rooting root(v2) under root(v1).  Shows the invariant (a rank function) and the
   refinement statements used for C19/C14: find returns the abstract root, needs no more
   fuel than rank+2, and neither find nor compression changes anybody's root. *)
From Coq Require Import List Arith Lia Bool Wf_nat.
Import ListNotations.

Definition rmap := nat -> option nat.
Definition upd (r : rmap) (k v : nat) : rmap := fun x => if x =? k then Some v else r x.

Fixpoint find (fuel : nat) (r : rmap) (v : nat) : option (nat * rmap) :=
  match fuel with
  | 0 => None
  | S f =>
      match r v with
      | Some p =>
          if p =? v then Some (v, r)
          else match find f r p with
               | Some (root, r') => Some (root, upd r' v root)
               | None => None
               end
      | None => find f (upd r v v) v
      end
  end.

(* abstract root *)
Inductive Root (r : rmap) : nat -> nat -> Prop :=
| RootAbsent v : r v = None -> Root r v v
| RootSelf v : r v = Some v -> Root r v v
| RootStep v p x : r v = Some p -> p <> v -> Root r p x -> Root r v x.

Definition WF (rank : nat -> nat) (r : rmap) : Prop :=
  forall v p, r v = Some p -> p <> v -> rank p < rank v.

Lemma root_fun r v x y : Root r v x -> Root r v y -> x = y.
Proof.
  intros H; revert y. induction H as [v E|v E|v p x E Hne _ IH]; intros y Hy; inversion Hy; subst; try congruence.
  replace p0 with p in * by congruence. now apply IH.
Qed.

Lemma root_rank rank r v x : WF rank r -> Root r v x -> x = v \/ rank x < rank v.
Proof.
  intros W H. induction H as [v E|v E|v p x E Hne _ IH]; auto.
  right. pose proof (W v p E Hne). destruct IH; subst; lia.
Qed.

Lemma root_is_root r v x : Root r v x -> r x = None \/ r x = Some x.
Proof. induction 1; auto. Qed.

Lemma root_total rank r : WF rank r -> forall v, exists x, Root r v x.
Proof.
  intros W v. induction v as [v IH] using (induction_ltof1 _ rank). unfold ltof in IH.
  destruct (r v) as [p|] eqn:E.
  - destruct (Nat.eq_dec p v) as [->|Hne].
    + exists v. now apply RootSelf.
    + destruct (IH p (W v p E Hne)) as [x Hx]. exists x. eapply RootStep; eauto.
  - exists v. now apply RootAbsent.
Qed.

(* Re-pointing v at its own root changes nobody's root and keeps the rank function. *)
Lemma compress_wf rank r v x : WF rank r -> Root r v x -> WF rank (upd r v x).
Proof.
  intros W H u p. unfold upd. destruct (u =? v) eqn:E.
  - apply Nat.eqb_eq in E. subst u. intros [= <-] Hne. destruct (root_rank rank r v x W H); [congruence|lia].
  - apply W.
Qed.

Lemma compress_root rank r v x : WF rank r -> Root r v x ->
  forall u y, Root r u y <-> Root (upd r v x) u y.
Proof.
  intros W H.
  assert (Hx : upd r v x x = None \/ upd r v x x = Some x).
  { unfold upd. destruct (x =? v) eqn:E; [right; apply Nat.eqb_eq in E; now subst|apply (root_is_root _ _ _ H)]. }
  assert (Fwd : forall u y, Root r u y -> Root (upd r v x) u y).
  { intros u y Hu. induction Hu as [u E|u E|u p y E Hne Hp IH].
    - destruct (Nat.eq_dec u v) as [->|Hn].
      + assert (x = v) by (eapply root_fun; [exact H|now apply RootAbsent]). subst.
        apply RootSelf. unfold upd. now rewrite Nat.eqb_refl.
      + apply RootAbsent. unfold upd. destruct (u =? v) eqn:E'; [apply Nat.eqb_eq in E'; congruence|auto].
    - destruct (Nat.eq_dec u v) as [->|Hn].
      + assert (x = v) by (eapply root_fun; [exact H|now apply RootSelf]). subst.
        apply RootSelf. unfold upd. now rewrite Nat.eqb_refl.
      + apply RootSelf. unfold upd. destruct (u =? v) eqn:E'; [apply Nat.eqb_eq in E'; congruence|auto].
    - destruct (Nat.eq_dec u v) as [->|Hn].
      + assert (y = x) by (eapply root_fun; [eapply RootStep; eauto|exact H]). subst y.
        destruct (Nat.eq_dec x v) as [->|Hxv].
        * apply RootSelf. unfold upd. now rewrite Nat.eqb_refl.
        * eapply RootStep; [unfold upd; now rewrite Nat.eqb_refl|exact Hxv|].
          destruct Hx as [Hx|Hx]; [now apply RootAbsent|now apply RootSelf].
      + eapply RootStep; [unfold upd; destruct (u =? v) eqn:E'; [apply Nat.eqb_eq in E'; congruence|exact E]|exact Hne|exact IH]. }
  intros u y; split; [apply Fwd|].
  intros Hu'. destruct (root_total rank r W u) as [z Hz].
  pose proof (Fwd _ _ Hz) as Hz'. now rewrite (root_fun _ _ _ _ Hu' Hz').
Qed.

(* find: correct, sufficient fuel, roots preserved *)
Definition present_ok (r : rmap) := True.

Lemma insert_self_wf rank r v : WF rank r -> r v = None -> WF rank (upd r v v).
Proof.
  intros W E u p. unfold upd. destruct (u =? v) eqn:E'.
  - apply Nat.eqb_eq in E'. subst. intros [= <-] Hne. congruence.
  - apply W.
Qed.

Lemma insert_self_root rank r v : WF rank r -> r v = None ->
  forall u y, Root r u y <-> Root (upd r v v) u y.
Proof. intros W E. apply (compress_root rank r v v W). now apply RootAbsent. Qed.

Theorem find_spec rank r : WF rank r ->
  forall fuel v, rank v + 2 <= fuel ->
  exists root r', find fuel r v = Some (root, r') /\ Root r v root /\ WF rank r' /\
                  (forall u y, Root r u y <-> Root r' u y).
Proof.
  intros W fuel. revert r W. induction fuel as [|f IH]; intros r W v Hf; [lia|].
  cbn [find]. destruct (r v) as [p|] eqn:E.
  - destruct (p =? v) eqn:Epv.
    + apply Nat.eqb_eq in Epv. subst p. exists v, r. repeat split; auto. now apply RootSelf.
    + apply Nat.eqb_neq in Epv. pose proof (W v p E Epv) as Hr.
      destruct (IH r W p ltac:(lia)) as (root & r' & Hfind & Hroot & W' & Hpres).
      rewrite Hfind. exists root, (upd r' v root).
      assert (Hv : Root r v root) by (eapply RootStep; eauto).
      assert (Hv' : Root r' v root) by (now apply Hpres).
      repeat split.
      * exact Hv.
      * eapply compress_wf; eauto.
      * intros Hu. apply (compress_root rank r' v root W' Hv'). now apply Hpres.
      * intros Hu. apply Hpres. now apply (compress_root rank r' v root W' Hv').
  - (* auto-insert, then the second call hits the self-parent case *)
    destruct f as [|f']; [lia|]. cbn [find]. unfold upd at 1. rewrite Nat.eqb_refl, Nat.eqb_refl.
    exists v, (upd r v v). repeat split.
    + now apply RootAbsent.
    + now apply insert_self_wf.
    + now apply (insert_self_root rank r v W E).
    + now apply (insert_self_root rank r v W E).
Qed.

(* a pure root function, used to build the rank function after a union *)
Fixpoint rootf (fuel : nat) (r : rmap) (v : nat) : nat :=
  match fuel with
  | 0 => v
  | S f => match r v with Some p => if p =? v then v else rootf f r p | None => v end
  end.

Lemma rootf_spec rank r : WF rank r -> forall fuel v, rank v + 1 <= fuel -> Root r v (rootf fuel r v).
Proof.
  intros W fuel. induction fuel as [|f IH]; intros v Hf; [lia|]. cbn [rootf].
  destruct (r v) as [p|] eqn:E; [|now apply RootAbsent].
  destruct (p =? v) eqn:Ep.
  - apply Nat.eqb_eq in Ep. subst. now apply RootSelf.
  - apply Nat.eqb_neq in Ep. pose proof (W v p E Ep). eapply RootStep; eauto. apply IH. lia.
Qed.

(* union of two distinct roots: re-rooting root2 under root1 merges exactly those two classes *)
Lemma union_roots rank r a b : WF rank r -> a <> b ->
  (r a = None \/ r a = Some a) -> (r b = None \/ r b = Some b) ->
  let r' := upd r b a in
  (exists rank', WF rank' r') /\
  (forall u y, Root r u y -> Root r' u (if y =? b then a else y)).
Proof.
  intros W Hab Ha Hb r'.
  assert (Ra : Root r a a) by (destruct Ha; [now apply RootAbsent|now apply RootSelf]).
  assert (Rb : Root r b b) by (destruct Hb; [now apply RootAbsent|now apply RootSelf]).
  split.
  - exists (fun u => if rootf (rank u + 1) r u =? b then rank u + rank a + 1 else rank u).
    intros u p. unfold r', upd. destruct (u =? b) eqn:E.
    + apply Nat.eqb_eq in E. subst u. intros [= <-] _.
      pose proof (rootf_spec rank r W (rank a + 1) a (le_n _)) as Hza.
      pose proof (rootf_spec rank r W (rank b + 1) b (le_n _)) as Hzb.
      rewrite (root_fun _ _ _ _ Hza Ra), (root_fun _ _ _ _ Hzb Rb).
      destruct (a =? b) eqn:E1; [apply Nat.eqb_eq in E1; congruence|]. rewrite Nat.eqb_refl. lia.
    + intros Hu Hne. pose proof (W u p Hu Hne) as Hlt.
      pose proof (rootf_spec rank r W (rank p + 1) p (le_n _)) as Hzp.
      pose proof (rootf_spec rank r W (rank u + 1) u (le_n _)) as Hzu.
      assert (Heq : rootf (rank u + 1) r u = rootf (rank p + 1) r p)
        by (eapply root_fun; [exact Hzu|eapply RootStep; eauto]).
      rewrite Heq. destruct (rootf (rank p + 1) r p =? b); lia.
  - intros u y Hu. induction Hu as [u E|u E|u p y E Hne Hp IH].
    + destruct (u =? b) eqn:Eb.
      * apply Nat.eqb_eq in Eb. subst u. eapply RootStep; [unfold r', upd; now rewrite Nat.eqb_refl|congruence|].
        destruct Ha as [Ha|Ha]; [apply RootAbsent|apply RootSelf]; unfold r', upd;
          (destruct (a =? b) eqn:E1; [apply Nat.eqb_eq in E1; congruence|exact Ha]).
      * apply RootAbsent. unfold r', upd. now rewrite Eb.
    + destruct (u =? b) eqn:Eb.
      * apply Nat.eqb_eq in Eb. subst u. eapply RootStep; [unfold r', upd; now rewrite Nat.eqb_refl|congruence|].
        destruct Ha as [Ha|Ha]; [apply RootAbsent|apply RootSelf]; unfold r', upd;
          (destruct (a =? b) eqn:E1; [apply Nat.eqb_eq in E1; congruence|exact Ha]).
      * apply RootSelf. unfold r', upd. now rewrite Eb.
    + assert (Hub : u <> b). { intros ->. destruct Hb; congruence. }
      eapply RootStep; [unfold r', upd; destruct (u =? b) eqn:E'; [apply Nat.eqb_eq in E'; congruence|exact E]|exact Hne|exact IH].
Qed.

Print Assumptions find_spec.
Print Assumptions union_roots.
