(* FEASIBILITY PROTOTYPE for DESIGN.md (C14/C16 tie) -- not part of the machinery.
   Model of the Packed x Packed and Packed x Word arms of unification::merge (fresh-variable
   counter threaded).  A mini correspondence run (packed_corr_probe.rs writes a cases.v holding the
   implementation results as Coq terms; one coqc evaluates `failures`) agreed on 390/390 random
   cases incl. overlapping, unsorted and empty span lists, flipped operands and fresh-variable
   numbering, and flagged a deliberately mutated model. *)
From Coq Require Import List NArith Bool Arith.
Import ListNotations.
Open Scope N_scope.

Inductive wuse := UBytes | UNumeric | UUnsigned | USigned | UBool | UAddress | USelector | UFunction.
Record span := { typ : N; off : N; sz : N }.
Inductive te :=
| Any | Word (w : option N) (u : wuse) | Bytes | Dyn (e : N)
| Packed (types : list span) (is_struct : bool) | Conflict.

Record mres := { expr : te; eqs : list (N * N); judg : list (N * te); newv : list N; next : N }.

Definition span_eqb (a b : span) := (typ a =? typ b) && (off a =? off b) && (sz a =? sz b).

(* insertion sort, stable *)
Fixpoint insN (x : N) (l : list N) := match l with [] => [x] | y :: r => if y <=? x then y :: insN x r else x :: l end.
Definition sortN (l : list N) := fold_right insN [] l.
Fixpoint uniq (l : list N) (seen : list N) : list N :=
  match l with [] => [] | x :: r => if existsb (N.eqb x) seen then uniq r seen else x :: uniq r (x :: seen) end.

Definition span_le (a b : span) : bool := (off a <? off b) || ((off a =? off b) && (sz a <=? sz b)).
Fixpoint insS (x : span) (l : list span) := match l with [] => [x] | y :: r => if span_le x y then x :: l else y :: insS x r end.
Definition sortS (l : list span) := fold_right insS [] l.

Fixpoint mk_spans (bs : list N) (start : N) (nxt : N) : list (N * N * N) * N :=
  match bs with
  | [] => ([], nxt)
  | e :: r => let '(rest, n') := mk_spans r e (nxt + 1) in ((nxt, start, e) :: rest, n')
  end.

Fixpoint skip_while {A} (p : A -> bool) (l : list A) := match l with [] => [] | x :: r => if p x then skip_while p r else l end.
Fixpoint take_while {A} (p : A -> bool) (l : list A) := match l with [] => [] | x :: r => if p x then x :: take_while p r else [] end.

Definition process (spans : list (N * N * N)) (input : list span) : list (N * N) * list (N * te) :=
  fold_left (fun acc s =>
    let corr := take_while (fun '(_, _, e) => e <=? off s + sz s)
                  (skip_while (fun '(_, st, _) => st <? off s) spans) in
    match corr with
    | [(t, _, _)] => (fst acc ++ [(typ s, t)], snd acc)
    | _ => (fst acc, snd acc ++ [(typ s, Packed (map (fun '(t, st, e) => {| typ := t; off := st - off s; sz := e - st |}) corr) false)])
    end) (sortS input) ([], []).

Definition merge_pp (tl : list span) (sl : bool) (tr : list span) (sr : bool) (nxt : N) : mres :=
  let st := sr || sl in
  match tl, tr with
  | [], _ => {| expr := Packed tr st; eqs := []; judg := []; newv := []; next := nxt |}
  | _, [] => {| expr := Packed tl st; eqs := []; judg := []; newv := []; next := nxt |}
  | _, _ =>
      let bl := flat_map (fun s => [off s; off s + sz s]) tl in
      let br := flat_map (fun s => [off s; off s + sz s]) tr in
      let bs := sortN (uniq (bl ++ br) []) in
      match bs with
      | [] => {| expr := Conflict; eqs := []; judg := []; newv := []; next := nxt |}
      | b0 :: rest =>
          let '(spans, n') := mk_spans rest b0 nxt in
          let '(e1, j1) := process spans tl in
          let '(e2, j2) := process spans tr in
          {| expr := Packed (map (fun '(t, s, e) => {| typ := t; off := s; sz := e - s |}) spans) st;
             eqs := e1 ++ e2; judg := j1 ++ j2; newv := map (fun '(t, _, _) => t) spans; next := n' |}
      end
  end.

Definition merge_pw (types : list span) (stt : bool) (w : option N) (u : wuse) (parent : N) (nxt : N) : mres :=
  let left := Packed types stt in
  match types with
  | [] => {| expr := Word w u; eqs := []; judg := []; newv := []; next := nxt |}
  | first :: _ =>
    match u with
    | UUnsigned | UNumeric | UBytes =>
        match w with
        | None => {| expr := left; eqs := []; judg := []; newv := []; next := nxt |}
        | Some 256 => {| expr := left; eqs := []; judg := []; newv := []; next := nxt |}
        | Some x => {| expr := left; eqs := []; judg := [(parent, Packed [ {| typ := nxt; off := 0; sz := x |} ] false)];
                       newv := [nxt]; next := nxt + 1 |}
        end
    | _ =>
        match w with
        | Some x => if (off first =? 0) && (sz first =? x)
                    then {| expr := left; eqs := []; judg := [(typ first, Word w u)]; newv := []; next := nxt |}
                    else {| expr := Conflict; eqs := []; judg := []; newv := []; next := nxt |}
        | None => {| expr := Conflict; eqs := []; judg := []; newv := []; next := nxt |}
        end
    end
  end.

(* comparison against what the implementation printed *)
Fixpoint te_eqb (a b : te) : bool :=
  match a, b with
  | Any, Any | Bytes, Bytes | Conflict, Conflict => true
  | Word w u, Word w' u' => (match w, w' with Some x, Some y => x =? y | None, None => true | _, _ => false end)
                            && (match u, u' with UBytes, UBytes | UNumeric, UNumeric | UUnsigned, UUnsigned | USigned, USigned | UBool, UBool | UAddress, UAddress | USelector, USelector | UFunction, UFunction => true | _, _ => false end)
  | Dyn e, Dyn e' => e =? e'
  | Packed t s, Packed t' s' => (length t =? length t')%nat && forallb (fun p => span_eqb (fst p) (snd p)) (combine t t') && Bool.eqb s s'
  | _, _ => false
  end.
Definition pairs_eqb (a b : list (N * N)) := (length a =? length b)%nat && forallb (fun p => (fst (fst p) =? fst (snd p)) && (snd (fst p) =? snd (snd p))) (combine a b).
Definition judg_eqb (a b : list (N * te)) := (length a =? length b)%nat && forallb (fun p => (fst (fst p) =? fst (snd p)) && te_eqb (snd (fst p)) (snd (snd p))) (combine a b).
Definition ns_eqb (a b : list N) := (length a =? length b)%nat && forallb (fun p => fst p =? snd p) (combine a b).
Definition same (m : mres) (e : te) (q : list (N * N)) (j : list (N * te)) (v : list N) : bool :=
  te_eqb (expr m) e && pairs_eqb (eqs m) q && judg_eqb (judg m) j && ns_eqb (newv m) v.
Fixpoint failures (l : list bool) (i : nat) : list nat := match l with [] => [] | b :: r => (if b then [] else [i]) ++ failures r (S i) end.
