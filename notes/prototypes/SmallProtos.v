(* FEASIBILITY PROTOTYPES for DESIGN.md (C12, C18, C20) -- not part of the machinery. *)
From Coq Require Import List NArith Arith Lia Bool Sorted Permutation.
Import ListNotations.

(* ================= C18: recorded size = node count; builder with a size limit ============= *)
Module C18.
Inductive sv := Leaf (payload : N) | Opaque (id : N) | Node (tag : N) (size : nat) (args : list sv).

Definition rsize (x : sv) : nat := match x with Node _ s _ => s | _ => 1 end.
Fixpoint count (x : sv) : nat :=
  match x with Node _ _ args => S (fold_right (fun a acc => count a + acc) 0 args) | _ => 1 end.
Definition child_size (args : list sv) : nat := fold_right (fun a acc => rsize a + acc) 0 args.

(* RSV::new after repair F4: a culled value is a fresh opaque value of size 1 *)
Definition mk (limit : option nat) (fresh : N) (tag : N) (args : list sv) : sv :=
  let s := S (child_size args) in
  match limit with
  | Some l => if l <? s then Opaque fresh else Node tag s args
  | None => Node tag s args
  end.
(* pinned behaviour: the oversized size is kept on the replacement (modelled as a Node with no
   children so that the recorded size is visible) *)
Definition mk_pinned (limit : option nat) (fresh : N) (tag : N) (args : list sv) : sv :=
  let s := S (child_size args) in
  match limit with
  | Some l => if l <? s then Node 0 s [] else Node tag s args
  | None => Node tag s args
  end.

Fixpoint ok (x : sv) : Prop :=
  match x with
  | Node _ s args => s = count x /\ (fix all l := match l with [] => True | a :: r => ok a /\ all r end) args
  | _ => True end.

Lemma ok_size x : ok x -> rsize x = count x.
Proof. destruct x; cbn; intuition. Qed.

Lemma child_size_count args :
  (fix all l := match l with [] => True | a :: r => ok a /\ all r end) args ->
  child_size args = fold_right (fun a acc => count a + acc) 0 args.
Proof. unfold child_size. induction args as [|a r IH]; cbn [fold_right]; [reflexivity|]. intros [Ha Hr]. rewrite (ok_size a Ha), IH; auto. Qed.

Theorem mk_ok limit fresh tag args :
  (fix all l := match l with [] => True | a :: r => ok a /\ all r end) args -> ok (mk limit fresh tag args).
Proof.
  intros H. unfold mk. destruct limit as [l|]; [destruct (l <? S (child_size args))|]; cbn; auto;
    (split; [now rewrite (child_size_count args H)|exact H]).
Qed.

Theorem mk_pinned_refuted : exists limit fresh tag args,
  (fix all l := match l with [] => True | a :: r => ok a /\ all r end) args /\ ~ ok (mk_pinned limit fresh tag args).
Proof.
  exists (Some 1), 0%N, 7%N, [Leaf 0; Leaf 1]. split; [cbn; auto|]. cbn. intros [H _]. discriminate.
Qed.
End C18.

(* ================= C12: StorageLayout::add keeps the rows sorted ============================ *)
Module C12.
Definition key := (N * nat)%type.
Definition kle (a b : key) : Prop := (fst a < fst b)%N \/ (fst a = fst b /\ snd a <= snd b).
Definition kleb (a b : key) : bool := (fst a <? fst b)%N || ((fst a =? fst b)%N && (snd a <=? snd b)).
Lemma kleb_spec a b : kleb a b = true <-> kle a b.
Proof.
  unfold kleb, kle. rewrite orb_true_iff, andb_true_iff, N.ltb_lt, N.eqb_eq, Nat.leb_le. tauto.
Qed.
Lemma kle_total a b : kle a b \/ kle b a.
Proof. unfold kle. destruct (N.lt_trichotomy (fst a) (fst b)) as [|[|]]; destruct (Nat.le_ge_cases (snd a) (snd b)); auto. Qed.
Lemma kle_trans a b c : kle a b -> kle b c -> kle a c.
Proof. unfold kle. intros [?|[? ?]] [?|[? ?]]; [left|left|left|right]; try split; try lia. Qed.

(* push followed by a stable sort, modelled as stable insertion from the right end *)
Fixpoint ins (x : key) (l : list key) : list key :=
  match l with [] => [x] | y :: r => if kleb y x then y :: ins x r else x :: l end.
Definition add (l : list key) (x : key) : list key := ins x l.

Lemma ins_hd x l a : HdRel kle a l -> kle a x -> HdRel kle a (ins x l).
Proof. destruct l as [|y r]; cbn; intros H Hx; [constructor; auto|]. destruct (kleb y x); constructor; auto. now inversion H. Qed.

Theorem add_sorted l x : Sorted kle l -> Sorted kle (add l x).
Proof.
  unfold add. induction 1 as [|y r Hs IH Hh]; cbn; [repeat constructor|].
  destruct (kleb y x) eqn:E.
  - apply kleb_spec in E. constructor; auto. apply ins_hd; auto.
  - constructor; [constructor; auto|]. constructor.
    destruct (kle_total x y) as [|H]; auto. apply kleb_spec in H. congruence.
Qed.
Theorem add_perm l x : Permutation (x :: l) (add l x).
Proof. unfold add. induction l as [|y r IH]; cbn; [reflexivity|]. destruct (kleb y x); [|reflexivity]. rewrite perm_swap. now constructor. Qed.
End C12.

(* ================= C20: fixed-width big-endian hex codec for 256-bit words ================= *)
Module C20.
Open Scope N_scope.
Fixpoint to_digits (n : nat) (x : N) : list N :=      (* n hex digits, most significant first *)
  match n with O => [] | S k => to_digits k (x / 16) ++ [x mod 16] end.
Definition of_digits (ds : list N) : N := fold_left (fun acc d => acc * 16 + d) ds 0.

Lemma of_digits_app a b : of_digits (a ++ b) = fold_left (fun acc d => acc * 16 + d) b (of_digits a).
Proof. unfold of_digits. now rewrite fold_left_app. Qed.

Theorem hex_roundtrip n x : x < 16 ^ N.of_nat n -> of_digits (to_digits n x) = x.
Proof.
  revert x. induction n as [|n IH]; intros x H.
  - cbn in H. cbn. lia.
  - cbn [to_digits]. rewrite of_digits_app. cbn [fold_left].
    rewrite IH.
    + rewrite N.mul_comm. symmetry. apply N.div_mod. discriminate.
    + rewrite Nat2N.inj_succ, N.pow_succ_r' in H. apply N.div_lt_upper_bound; [discriminate|exact H].
Qed.
Theorem hex_length n x : length (to_digits n x) = n.
Proof. revert x; induction n; intros; cbn; [reflexivity|]. rewrite app_length, IHn. cbn. lia. Qed.
Corollary hex_roundtrip_256 x : x < 2 ^ 256 -> of_digits (to_digits 64 x) = x /\ length (to_digits 64 x) = 64%nat.
Proof. intros H. split; [apply hex_roundtrip; exact H|apply hex_length]. Qed.
End C20.
Print Assumptions C18.mk_ok.
Print Assumptions C12.add_sorted.
Print Assumptions C20.hex_roundtrip_256.
