(* FEASIBILITY PROTOTYPE for DESIGN.md (C17) -- not part of the machinery.
   Error recording of VM::execute / JumpI::execute (after repair F6) on top of an arbitrary
   control machine: the permissive flag only gates what is RECORDED, never what is DONE.  Hence
   both modes pass through the same machine states, the permissive error list is the strict one
   with the four jump-target kinds filtered out, and strict success implies permissive success. *)
From Coq Require Import List Bool.
Import ListNotations.

Section P.
Variable state : Type.
Inductive kind := JumpTargetErr | OtherErr.
Record err := { loc : nat; k : kind }.

(* one scheduler step: new control state plus the errors raised/stored by the instruction
   (returned by execute, or stored by JUMPI for its would-be target thread) *)
Variable step : state -> state * list err.
Variable finished : state -> bool.

Definition keep (permissive : bool) (e : err) : bool :=
  match k e with JumpTargetErr => negb permissive | OtherErr => true end.

Fixpoint run (permissive : bool) (fuel : nat) (s : state) (acc : list err) : option (state * list err) :=
  match fuel with
  | 0 => None
  | S f => if finished s then Some (s, acc)
           else let '(s', es) := step s in run permissive f s' (acc ++ filter (keep permissive) es)
  end.

Lemma filter_keep_perm l : filter (keep true) (filter (keep false) l) = filter (keep true) l.
Proof. induction l as [|e l IH]; cbn; [reflexivity|]. unfold keep at 2 4. destruct (k e); cbn; now rewrite ?IH. Qed.

Lemma keep_false_all l : filter (keep false) l = l.
Proof. induction l as [|e l IH]; cbn; [reflexivity|]. unfold keep at 1. destruct (k e); cbn; now rewrite IH. Qed.

Theorem permissive_same_states fuel : forall s acc,
  match run false fuel s acc, run true fuel s (filter (keep true) acc) with
  | Some (s1, e1), Some (s2, e2) => s1 = s2 /\ e2 = filter (keep true) e1
  | None, None => True
  | _, _ => False
  end.
Proof.
  induction fuel as [|f IH]; intros s acc; cbn [run]; [exact I|].
  destruct (finished s); [split; reflexivity|].
  destruct (step s) as [s' es]. specialize (IH s' (acc ++ filter (keep false) es)).
  rewrite filter_app, filter_keep_perm in IH. exact IH.
Qed.

(* strict mode lists every error raised; strict success implies permissive success *)
Corollary strict_ok_permissive_ok fuel s sf :
  run false fuel s [] = Some (sf, []) -> run true fuel s [] = Some (sf, []).
Proof.
  intros H. pose proof (permissive_same_states fuel s []) as P. rewrite H in P. cbn in P.
  destruct (run true fuel s []) as [[s2 e2]|]; [|contradiction]. destruct P as [-> ->]. reflexivity.
Qed.

Corollary permissive_has_no_jump_errors fuel s sf es :
  run true fuel s [] = Some (sf, es) -> forall e, In e es -> k e = OtherErr.
Proof.
  intros H e Hin. pose proof (permissive_same_states fuel s []) as P. cbn in P. rewrite H in P.
  destruct (run false fuel s []) as [[s1 e1]|]; [|contradiction]. destruct P as [_ ->].
  apply filter_In in Hin as [_ Hk]. unfold keep in Hk. destruct (k e); [discriminate|reflexivity].
Qed.
End P.
Print Assumptions permissive_same_states.
