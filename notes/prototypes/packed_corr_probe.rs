use std::panic;
use storage_layout_extractor as sle;
use sle::{data::vector_map::ToUniqueIndex, tc::{expression::{TE, Span, WordUse}, state::{TypeCheckerState, type_variable::TypeVariable}, unification::merge}, vm::value::{RSV, Provenance}};
struct Rng(u64);
impl Rng { fn next(&mut self) -> u64 { self.0 ^= self.0 << 13; self.0 ^= self.0 >> 7; self.0 ^= self.0 << 17; self.0 } fn below(&mut self, n: u64) -> u64 { self.next() % n } }
fn tv(v: &TypeVariable) -> usize { v.index() }
fn usage(u: &WordUse) -> &'static str { match u { WordUse::Bytes=>"UBytes", WordUse::Numeric=>"UNumeric", WordUse::UnsignedNumeric=>"UUnsigned", WordUse::SignedNumeric=>"USigned", WordUse::Bool=>"UBool", WordUse::Address=>"UAddress", WordUse::Selector=>"USelector", WordUse::Function=>"UFunction" } }
fn spans(ts: &[Span]) -> String { format!("[{}]", ts.iter().map(|s| format!("{{| typ := {}; off := {}; sz := {} |}}", tv(&s.typ), s.offset, s.size)).collect::<Vec<_>>().join("; ")) }
fn te(e: &TE) -> String { match e {
    TE::Any => "Any".into(), TE::Bytes => "Bytes".into(), TE::Conflict{..} => "Conflict".into(),
    TE::Word{width, usage: u} => format!("(Word {} {})", match width { Some(w) => format!("(Some {w})"), None => "None".into() }, usage(u)),
    TE::DynamicArray{element} => format!("(Dyn {})", tv(element)),
    TE::Packed{types, is_struct} => format!("(Packed {} {})", spans(types), is_struct),
    other => panic!("unexpected {other:?}") } }
fn main() {
    let n: u64 = std::env::args().nth(1).and_then(|s| s.parse().ok()).unwrap_or(300);
    let seed: u64 = std::env::args().nth(2).and_then(|s| s.parse().ok()).unwrap_or(1);
    let mut rng = Rng(seed.wrapping_mul(0x9E3779B97F4A7C15) | 1);
    println!("Require Import Corr.PackedModel. From Coq Require Import List NArith. Import ListNotations. Open Scope N_scope.");
    println!("Definition results : list bool := [");
    let mut first = true;
    for _ in 0..n {
        let mut st = TypeCheckerState::empty();
        let nv = 6usize;
        let vars: Vec<TypeVariable> = (0..nv).map(|i| st.register(RSV::new_value(i as u32, Provenance::Synthetic))).collect();
        let mut gen_spans = |rng: &mut Rng| -> Vec<Span> { let k = rng.below(4); (0..k).map(|_| Span::new(vars[rng.below(nv as u64) as usize], 8*rng.below(12) as usize, 8*(1+rng.below(6)) as usize)).collect() };
        let parent = vars[rng.below(nv as u64) as usize];
        let tl = gen_spans(&mut rng); let sl = rng.below(4)==0;
        let (call, res) = if rng.below(2)==0 {
            let tr = gen_spans(&mut rng); let sr = rng.below(4)==0;
            let l = TE::Packed{types: tl.clone(), is_struct: sl}; let r = TE::Packed{types: tr.clone(), is_struct: sr};
            if l == r { continue; }
            (format!("merge_pp {} {} {} {} {}", spans(&tl), sl, spans(&tr), sr, nv), merge(l, r, parent, &mut st))
        } else {
            let uses = [WordUse::Bytes, WordUse::Numeric, WordUse::UnsignedNumeric, WordUse::SignedNumeric, WordUse::Bool, WordUse::Address, WordUse::Selector, WordUse::Function];
            let u = uses[rng.below(8) as usize]; let w = [None, Some(8usize), Some(16), Some(160), Some(256)][rng.below(5) as usize];
            let l = TE::Packed{types: tl.clone(), is_struct: sl}; let r = TE::word(w, u);
            let flip = rng.below(2)==0;
            let res = if flip { merge(r.clone(), l.clone(), parent, &mut st) } else { merge(l, r, parent, &mut st) };
            (format!("merge_pw {} {} {} {} {} {}", spans(&tl), sl, match w { Some(w) => format!("(Some {w})"), None => "None".into() }, usage(&u), tv(&parent), nv), res)
        };
        let q = format!("[{}]", res.equalities.iter().map(|e| format!("({}, {})", tv(&e.left), tv(&e.right))).collect::<Vec<_>>().join("; "));
        let j = format!("[{}]", res.judgements.iter().map(|j| format!("({}, {})", tv(&j.tv), te(&j.expr))).collect::<Vec<_>>().join("; "));
        let v = format!("[{}]", res.ty_vars.iter().map(|t| format!("{}", tv(t))).collect::<Vec<_>>().join("; "));
        if !first { println!(";"); } first = false;
        print!("  same ({call}) {} {q} {j} {v}", te(&res.expression));
    }
    println!("\n].\nEval vm_compute in (length results, failures results 0).");
}
