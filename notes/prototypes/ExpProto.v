(* FEASIBILITY PROTOTYPE for DESIGN.md (C09) -- not part of the machinery.
   (1) square-and-multiply over the bits of a 256-bit exponent equals modular exponentiation;
   (2) the pinned KnownWord::exp (exponent truncated to 32 bits) is refuted by 2^(2^32);
   (3) Yellow-paper SDIV equals reinterpret-as-signed / truncating division / wrap. *)
From Coq Require Import ZArith NArith Lia Bool.
Open Scope bool_scope.
Open Scope N_scope.

Definition W : N := 2 ^ 256.
Definition wmul (a b : N) := (a * b) mod W.

(* the repaired loop, LSB first *)
Fixpoint exp_pos (base : N) (e : positive) : N :=
  match e with
  | xH => base mod W
  | xO e' => exp_pos (wmul base base) e'
  | xI e' => wmul base (exp_pos (wmul base base) e')
  end.
Definition exp_fixed (a b : N) : N := match b with N0 => 1 mod W | Npos e => exp_pos a e end.

Definition spec_exp (a b : N) : N := (a ^ b) mod W.

Lemma W_nz : W <> 0. Proof. discriminate. Qed.

Lemma pow_mod_base a e : ((a mod W) ^ e) mod W = (a ^ e) mod W.
Proof.
  induction e as [|e IH] using N.peano_ind; [reflexivity|].
  rewrite !N.pow_succ_r'. rewrite N.mul_mod by apply W_nz. rewrite IH.
  rewrite N.mod_mod by apply W_nz. now rewrite <- N.mul_mod by apply W_nz.
Qed.

Lemma exp_pos_spec e : forall base, exp_pos base e = (base ^ Npos e) mod W.
Proof.
  induction e as [e IH|e IH|]; intros base; cbn [exp_pos].
  - rewrite IH. unfold wmul. rewrite pow_mod_base.
    replace (N.pos e~1) with (N.succ (2 * N.pos e)) by reflexivity.
    rewrite N.pow_succ_r', N.pow_mul_r. rewrite N.pow_2_r.
    now rewrite N.mul_mod_idemp_r by apply W_nz.
  - rewrite IH. unfold wmul. rewrite pow_mod_base.
    replace (N.pos e~0) with (2 * N.pos e) by reflexivity.
    rewrite N.pow_mul_r. rewrite N.pow_2_r. reflexivity.
  - now rewrite N.pow_1_r.
Qed.

Theorem exp_fixed_spec a b : exp_fixed a b = spec_exp a b.
Proof. destruct b as [|e]; [reflexivity|apply exp_pos_spec]. Qed.

(* pinned implementation: exponent truncated with as_u32 *)
Definition exp_pinned (a b : N) : N := (a ^ (b mod 2 ^ 32)) mod W.
Theorem exp_pinned_refuted : exists a b, a < W /\ b < W /\ exp_pinned a b <> spec_exp a b.
Proof.
  exists 2, (2 ^ 32). split; [reflexivity|split; [reflexivity|]].
  unfold exp_pinned, spec_exp. replace (2 ^ 32 mod 2 ^ 32) with 0 by reflexivity.
  replace ((2 ^ 0) mod W) with 1 by reflexivity.
  (* 2^(2^32) = (2^256)^(2^24) is a multiple of W *)
  replace (2 ^ 32) with (256 * 2 ^ 24) by reflexivity. rewrite N.pow_mul_r. fold W.
  replace (2 ^ 24) with (N.succ (2 ^ 24 - 1)) by reflexivity. rewrite N.pow_succ_r'.
  rewrite N.mul_comm, N.mod_mul by apply W_nz. discriminate.
Qed.

(* ---- SDIV ---- *)
Open Scope Z_scope.
Definition Wz : Z := 2 ^ 256.
Definition to_signed (x : Z) : Z := if x <? 2 ^ 255 then x else x - Wz.
Definition of_signed (z : Z) : Z := z mod Wz.

(* implementation: I256 reinterpretation, explicit zero divisor, wrapping_div *)
Definition sdiv_impl (a b : Z) : Z :=
  if to_signed b =? 0 then 0 else of_signed (Z.quot (to_signed a) (to_signed b)).

(* Yellow Paper (H.2, 0x05) *)
Definition sdiv_spec (a b : Z) : Z :=
  let sa := to_signed a in let sb := to_signed b in
  if sb =? 0 then 0
  else if (sa =? - 2 ^ 255) && (sb =? -1) then of_signed (- 2 ^ 255)
  else of_signed (Z.sgn sa * Z.sgn sb * (Z.abs sa / Z.abs sb)).

Theorem sdiv_impl_spec a b : sdiv_impl a b = sdiv_spec a b.
Proof.
  unfold sdiv_impl, sdiv_spec. cbv zeta.
  destruct (to_signed b =? 0) eqn:Eb; [reflexivity|]. apply Z.eqb_neq in Eb.
  rewrite Z.quot_div by exact Eb.
  destruct ((to_signed a =? - 2 ^ 255) && (to_signed b =? -1)) eqn:E; [|reflexivity].
  apply andb_prop in E as [E1 E2]. apply Z.eqb_eq in E1, E2. rewrite E1, E2. reflexivity.
Qed.
Print Assumptions exp_fixed_spec.
Print Assumptions exp_pinned_refuted.
Print Assumptions sdiv_impl_spec.
