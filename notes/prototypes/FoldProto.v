(* FEASIBILITY PROTOTYPE for DESIGN.md (C09) -- not part of the machinery: generic value tree,
   table-driven constant folding, fold_sound and fold_idem. *)
From Coq Require Import List ZArith NArith Lia Bool.
Import ListNotations.
Open Scope N_scope.

Definition W := 2^256.
Definition wrap (n : N) := n mod W.

Inductive op := OAdd | OMul | OSub | ODiv | OLt | OShl | OSha3 | OSload.

(* generic rose tree *)
Inductive sv :=
| Known (w : N)
| Opaque (id : N)
| Node (o : op) (args : list sv).

Section ind.
  Variable P : sv -> Prop.
  Hypothesis HK : forall w, P (Known w).
  Hypothesis HO : forall i, P (Opaque i).
  Hypothesis HN : forall o args, Forall P args -> P (Node o args).
  Fixpoint sv_ind' (t : sv) : P t :=
    match t with
    | Known w => HK w
    | Opaque i => HO i
    | Node o args => HN o args ((fix go l : Forall P l := match l with [] => Forall_nil _ | x :: xs => Forall_cons _ (sv_ind' x) (go xs) end) args)
    end.
End ind.

(* EVM spec of binary ops *)
Definition spec (o : op) (a b : N) : option N :=
  match o with
  | OAdd => Some (wrap (a + b))
  | OMul => Some (wrap (a * b))
  | OSub => Some (wrap (a + W - b))
  | ODiv => Some (if b =? 0 then 0 else a / b)
  | OLt => Some (if a <? b then 1 else 0)
  | OShl => Some (if 256 <=? a then 0 else wrap (N.shiftl b a))
  | _ => None
  end.

Section eval.
  Variable env : N -> N.
  Variable uf : op -> list N -> N.   (* uninterpreted *)
  Fixpoint eval (t : sv) : N :=
    match t with
    | Known w => w
    | Opaque i => env i
    | Node o args =>
        let vs := map eval args in
        match vs with
        | [a; b] => match spec o a b with Some r => r | None => uf o vs end
        | _ => uf o vs
        end
    end.
End eval.

Definition as_known (t : sv) : option N := match t with Known w => Some w | _ => None end.

Fixpoint fold (t : sv) : sv :=
  match t with
  | Node o args =>
      let args' := map fold args in
      match args' with
      | [Known a; Known b] => match spec o a b with Some r => Known r | None => Node o args' end
      | _ => Node o args'
      end
  | _ => t
  end.

Theorem fold_sound env uf t : eval env uf (fold t) = eval env uf t.
Proof.
  induction t as [w|i|o args IH] using sv_ind'; cbn [fold eval]; try reflexivity.
  assert (Hm : map (eval env uf) (map fold args) = map (eval env uf) args).
  { induction IH as [|x xs Hx _ IHxs]; cbn [map]; [reflexivity|]. now rewrite Hx, IHxs. }
  rewrite <- Hm.
  destruct (map fold args) as [|[a| |] [|[b| |] [|? ?]]] eqn:E; cbn [eval map]; try reflexivity.
  all: try (destruct (spec o a b) eqn:S; cbn [eval map]; rewrite ?S; reflexivity).
Qed.

Definition mk (o : op) (l : list sv) : sv :=
  match l with
  | [Known a; Known b] => match spec o a b with Some r => Known r | None => Node o l end
  | _ => Node o l
  end.
Lemma fold_node o args : fold (Node o args) = mk o (map fold args).
Proof. reflexivity. Qed.
Lemma fold_mk o l : map fold l = l -> fold (mk o l) = mk o l.
Proof.
  intros H. unfold mk.
  destruct l as [|[a| |] [|[b| |] [|? ?]]]; try (rewrite fold_node, H; reflexivity).
  destruct (spec o a b) eqn:S; [reflexivity|]. rewrite fold_node, H. unfold mk. now rewrite S.
Qed.
Theorem fold_idem t : fold (fold t) = fold t.
Proof.
  induction t as [w|i|o args IH] using sv_ind'; try reflexivity.
  rewrite fold_node. apply fold_mk.
  induction IH as [|x xs Hx _ IHxs]; cbn [map]; [reflexivity|]. now rewrite Hx, IHxs.
Qed.
Print Assumptions fold_sound.
Eval vm_compute in fold (Node OAdd [Node OShl [Known 255; Known 1]; Node OMul [Known 3; Opaque 1]]).
