(* FEASIBILITY PROTOTYPE for DESIGN.md (C14 / C03 type-checker part) -- not part of the machinery.
   The round structure of unification::unify at the level of the abstract partition (the
   union-find forest is replaced by the list of its classes -- C19 is what justifies that),
   for ANY pairwise merge that emits only equalities (i.e. without the Packed arms, which are
   the only ones that emit judgements and fresh variables).  Proved: the postcondition (every
   class ends with at most one expression) and termination within length(forest)+2 rounds. *)
From Coq Require Import List Arith Lia Bool.
Import ListNotations.

Section Unify.
Variable te : Type.
Variable merge : te -> te -> te * list (nat * nat).
Variable join_ev : list te -> list te -> list te.     (* HashSet union of two inference sets *)

Record cls := { members : list nat; ev : list te }.
Definition forest := list cls.

Definition has (v : nat) (c : cls) : bool := existsb (Nat.eqb v) (members c).

(* union by class: no-op when both variables already share a class (or one is unknown) *)
Fixpoint take (v : nat) (f : forest) : option (cls * forest) :=
  match f with
  | [] => None
  | c :: r => if has v c then Some (c, r)
              else match take v r with Some (d, r') => Some (d, c :: r') | None => None end
  end.

Definition union (f : forest) (a b : nat) : forest :=
  match take a f with
  | None => f
  | Some (ca, f1) =>
      if has b ca then f
      else match take b f1 with
           | None => f
           | Some (cb, f2) => {| members := members ca ++ members cb; ev := join_ev (ev ca) (ev cb) |} :: f2
           end
  end.

Lemma take_length v f c r : take v f = Some (c, r) -> length f = S (length r).
Proof.
  revert c r. induction f as [|d f IH]; cbn; intros c r H; [discriminate|].
  destruct (has v d); [now inversion H|].
  destruct (take v f) as [[e r']|] eqn:E; [|discriminate]. inversion H; subst. cbn. f_equal. eapply IH; eauto.
Qed.

Lemma union_cases f a b : union f a b = f \/ length (union f a b) < length f.
Proof.
  unfold union. destruct (take a f) as [[ca f1]|] eqn:Ea; auto.
  destruct (has b ca); auto. destruct (take b f1) as [[cb f2]|] eqn:Eb; auto.
  right. cbn. rewrite (take_length _ _ _ _ Ea), (take_length _ _ _ _ Eb). lia.
Qed.

Lemma unions_cases eqs : forall f,
  fold_left (fun g p => union g (fst p) (snd p)) eqs f = f \/
  length (fold_left (fun g p => union g (fst p) (snd p)) eqs f) < length f.
Proof.
  induction eqs as [|p eqs IH]; intros f; cbn [fold_left]; auto.
  destruct (union_cases f (fst p) (snd p)) as [E|L].
  - rewrite E. apply IH.
  - right. destruct (IH (union f (fst p) (snd p))) as [E'|L']; [rewrite E'|]; lia.
Qed.

(* fold one class's evidence with merge, collecting equalities *)
Definition fold_cls (es : list te) : option (te * list (nat * nat)) :=
  match es with
  | [] => None
  | e :: r => Some (fold_left (fun acc x => let '(e', q') := merge (fst acc) x in (e', snd acc ++ q')) r (e, []))
  end.

Definition settle (c : cls) : cls * list (nat * nat) :=
  match fold_cls (ev c) with
  | None => (c, [])
  | Some (e, q) => ({| members := members c; ev := [e] |}, q)
  end.

Definition small (c : cls) : bool := length (ev c) <=? 1.

Definition round (f : forest) : forest * bool :=
  let rs := map settle f in
  let progress := negb (forallb small f) in
  let f1 := map fst rs in
  let eqs := flat_map snd rs in
  (fold_left (fun g p => union g (fst p) (snd p)) eqs f1, progress).

Fixpoint unify (fuel : nat) (f : forest) : option forest :=
  match fuel with
  | 0 => None
  | S k => let '(f', p) := round f in if p then unify k f' else Some f'
  end.

Lemma settle_small c : small (fst (settle c)) = true.
Proof. unfold settle, small. destruct (fold_cls (ev c)) as [[e q]|] eqn:E; cbn; [reflexivity|]. unfold fold_cls in E. destruct (ev c); [reflexivity|discriminate]. Qed.

Lemma settle_small_id c : small c = true -> settle c = (c, []).
Proof.
  unfold small, settle, fold_cls. destruct c as [m [|e [|e' r]]]; cbn; intros H; try reflexivity. discriminate.
Qed.

Lemma f1_small f : forallb small (map fst (map settle f)) = true.
Proof. induction f; cbn; [reflexivity|]. now rewrite settle_small. Qed.

Lemma round_of_small f : forallb small f = true -> round f = (f, false).
Proof.
  intros H. unfold round. rewrite H. cbn [negb].
  assert (E : map settle f = map (fun c => (c, [])) f).
  { induction f as [|c f IH]; cbn; [reflexivity|]. cbn in H. apply andb_prop in H as [Hc Hf]. now rewrite settle_small_id, IH. }
  rewrite E. rewrite map_map. cbn. rewrite map_id.
  replace (flat_map snd (map (fun c : cls => (c, [])) f)) with (@nil (nat * nat)); [reflexivity|].
  clear. induction f; cbn; auto.
Qed.

(* C14: postcondition -- whenever unification returns, every class holds at most one expression *)
Theorem unify_post fuel : forall f f', unify fuel f = Some f' -> forallb small f' = true.
Proof.
  induction fuel as [|k IH]; intros f f' H; [discriminate|]. cbn [unify] in H.
  destruct (round f) as [g p] eqn:R. destruct p; [eapply IH; eauto|]. inversion H; subst g.
  destruct (forallb small f) eqn:Hs.
  - rewrite (round_of_small f Hs) in R. inversion R; subst. exact Hs.
  - unfold round in R. rewrite Hs in R. cbn [negb] in R. inversion R.
Qed.

(* C03: termination -- length f + 2 rounds always suffice *)
Theorem unify_terminates fuel : forall f, length f + 2 <= fuel -> unify fuel f <> None.
Proof.
  induction fuel as [|k IH]; intros f Hf; [lia|]. cbn [unify].
  destruct (round f) as [g p] eqn:R. destruct p; [|discriminate].
  unfold round in R. inversion R as [[Hg Hp]]. clear R.
  set (f1 := map fst (map settle f)) in *. set (eqs := flat_map snd (map settle f)) in *.
  assert (L1 : length f1 = length f) by (unfold f1; now rewrite !map_length).
  destruct (unions_cases eqs f1) as [E|L].
  - (* no effective union: everything is a singleton now, the next round reports no progress *)
    rewrite E. destruct k as [|k']; [lia|]. cbn [unify].
    rewrite (round_of_small f1 (f1_small f)). discriminate.
  - apply IH. lia.
Qed.
End Unify.
Print Assumptions unify_post.
Print Assumptions unify_terminates.
