(* FEASIBILITY PROTOTYPE for DESIGN.md (C05/C06) -- not part of the machinery.
   The mapping_index lifting pass as a direct structural fixpoint over the generic value tree
   (guard at storage-access nodes, pattern sha3(concat(key, slot)) below them), with
   (a) no storage access in the tree  ->  the pass is the identity (no phantom MappingIndex);
   (b) a literal key of a storage write survives the pass unchanged. *)
From Coq Require Import List NArith Bool.
Import ListNotations.

Inductive tag := TSha3 | TConcat | TSLoad | TStorageWrite | TUnwritten | TMappingIndex | TAdd | TOther (n : N).
Inductive sv := Known (w : N) | Opaque (id : N) | Node (t : tag) (args : list sv).

Section ind.
  Variable P : sv -> Prop.
  Hypothesis HK : forall w, P (Known w).
  Hypothesis HO : forall i, P (Opaque i).
  Hypothesis HN : forall t args, Forall P args -> P (Node t args).
  Fixpoint sv_rect' (x : sv) : P x :=
    match x with
    | Known w => HK w | Opaque i => HO i
    | Node t args => HN t args ((fix go l : Forall P l := match l with [] => Forall_nil _ | y :: ys => Forall_cons _ (sv_rect' y) (go ys) end) args)
    end.
End ind.

(* insert_mapping_accesses: applies everywhere below a guarded node *)
Fixpoint ins (x : sv) : sv :=
  match x with
  | Node TSha3 [Node TConcat [key; slot]] => Node TMappingIndex [ins key; ins slot]
  | Node t args => Node t (map ins args)
  | leaf => leaf
  end.

(* guard_mapping_accesses: recurse until a storage access, then switch to ins (key AND value,
   as in the pinned tree) *)
Fixpoint guard (x : sv) : sv :=
  match x with
  | Node TStorageWrite [k; v] => Node TStorageWrite [ins k; ins v]
  | Node TSLoad [k; v] => Node TSLoad [ins k; ins v]
  | Node TUnwritten [k] => Node TUnwritten [ins k]
  | Node t args => Node t (map guard args)
  | leaf => leaf
  end.

Definition is_access (t : tag) : bool := match t with TSLoad | TStorageWrite | TUnwritten => true | _ => false end.
Fixpoint no_access (x : sv) : bool :=
  match x with Node t args => negb (is_access t) && forallb no_access args | _ => true end.

Lemma map_id_forall (f : sv -> sv) l : Forall (fun x => f x = x) l -> map f l = l.
Proof. induction 1; cbn; congruence. Qed.

Theorem guard_id_without_access x : no_access x = true -> guard x = x.
Proof.
  induction x as [w|i|t args IH] using sv_rect'; intros H; try reflexivity.
  cbn [no_access] in H. apply andb_prop in H as [Ht Hargs].
  assert (Hm : map guard args = args).
  { apply map_id_forall. rewrite forallb_forall in Hargs. rewrite Forall_forall in IH |- *. intros y Hy. apply IH; auto. }
  destruct t; cbn in Ht; try discriminate; cbn [guard]; rewrite ?Hm; try reflexivity.
Qed.

(* a literal key is untouched *)
Theorem guard_keeps_literal_key c v : exists v', guard (Node TStorageWrite [Known c; v]) = Node TStorageWrite [Known c; v'].
Proof. eexists. reflexivity. Qed.

(* the phantom-slot finding: a hash-shaped VALUE is lifted *)
Example value_hash_lifted :
  guard (Node TStorageWrite [Known 0; Node TSha3 [Node TConcat [Opaque 1; Known 5]]])
  = Node TStorageWrite [Known 0; Node TMappingIndex [Opaque 1; Known 5]].
Proof. reflexivity. Qed.
Print Assumptions guard_id_without_access.
