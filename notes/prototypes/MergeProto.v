(* FEASIBILITY PROTOTYPE for DESIGN.md (C15/C16) -- not part of the machinery.
   unification::merge restricted to expressions without Packed/Equal, arm by arm in source
   order; WordUse::merge; the property C16 exactly as quantified (a finite 40-element domain)
   decided by reflection: commutativity holds for all ordered pairs; associativity holds for
   all ordered triples outside the known class K1 \/ K2, and K is tight (every multiset in K
   is order-dependent). *)
From Coq Require Import List NArith Bool Lia.
Import ListNotations.
Open Scope N_scope.

Inductive wuse := UBytes | UNumeric | UUnsigned | USigned | UBool | UAddress | USelector | UFunction.
Definition wuse_eqb (a b : wuse) : bool :=
  match a, b with
  | UBytes, UBytes | UNumeric, UNumeric | UUnsigned, UUnsigned | USigned, USigned
  | UBool, UBool | UAddress, UAddress | USelector, USelector | UFunction, UFunction => true
  | _, _ => false end.

(* expression.rs:318-346 *)
Definition umerge (a b : wuse) : option wuse :=
  if wuse_eqb a b then Some a else
  match a, b with
  | UBytes, o | o, UBytes => Some o
  | UNumeric, UUnsigned | UUnsigned, UNumeric => Some UUnsigned
  | UNumeric, USigned | USigned, UNumeric => Some USigned
  | UNumeric, UAddress | UAddress, UNumeric => Some UAddress
  | UUnsigned, UAddress | UAddress, UUnsigned => Some UAddress
  | _, _ => None
  end.

Inductive te :=
| Any | Word (w : option N) (u : wuse) | Bytes
| Fixed (e len : N) | Mapping (k v : N) | Dyn (e : N) | Conflict.

Definition optN_eqb (a b : option N) := match a, b with Some x, Some y => x =? y | None, None => true | _, _ => false end.
Definition te_eqb (a b : te) : bool :=
  match a, b with
  | Any, Any | Bytes, Bytes => true
  | Conflict, Conflict => true            (* conflicts compare equal up to payload *)
  | Word w u, Word w' u' => optN_eqb w w' && wuse_eqb u u'
  | Fixed e l, Fixed e' l' => (e =? e') && (l =? l')
  | Mapping k v, Mapping k' v' => (k =? k') && (v =? v')
  | Dyn e, Dyn e' => e =? e'
  | _, _ => false
  end.

Definition res := (te * list (N * N))%type.
Definition signed (u : wuse) := match u with USigned => true | _ => false end.

(* unification.rs:153-547 without the Packed arms; conflict payloads dropped *)
Definition merge (l r : te) : res :=
  if te_eqb l r && negb (te_eqb l Conflict) then (l, []) else
  match l, r with
  | Conflict, _ | _, Conflict => (Conflict, [])
  | Word wl ul, Word wr ur =>
      match (match wl, wr with
             | Some a, Some b => if a =? b then Some (Some a) else None
             | Some a, None => Some (Some a) | None, Some b => Some (Some b) | None, None => Some None end) with
      | None => (Conflict, [])
      | Some w => match umerge ul ur with None => (Conflict, []) | Some u => (Word w u, []) end
      end
  | Word _ u, Bytes | Bytes, Word _ u => if signed u then (Conflict, []) else (Bytes, [])
  | Dyn _, Bytes | Bytes, Dyn _ => (Bytes, [])
  | Word _ u, Dyn e | Dyn e, Word _ u => if signed u then (Conflict, []) else (Dyn e, [])
  | Dyn el, Dyn er => (l, [(el, er)])
  | Fixed el ll, Fixed er lr => if ll =? lr then (l, [(el, er)]) else (Conflict, [])
  | Mapping kl vl, Mapping kr vr => (l, [(kl, kr); (vl, vr)])
  | x, Any => (x, [])
  | Any, x => (x, [])
  | _, _ => (Conflict, [])
  end.

(* ---------- the finite evidence domain of C16 ---------- *)
Definition uses := [UBytes; UNumeric; UUnsigned; USigned; UBool; UAddress; USelector; UFunction].
Definition fixed_width (u : wuse) : option N :=
  match u with UBool => Some 8 | UAddress => Some 160 | USelector => Some 32 | UFunction => Some 192 | _ => None end.
Definition widths : list (option N) := [None; Some 8; Some 32; Some 160; Some 192; Some 256].
Definition words : list te :=
  flat_map (fun u => match fixed_width u with Some w => [Word (Some w) u] | None => map (fun w => Word w u) widths end) uses.
Definition dom : list te :=
  [Any; Bytes; Conflict] ++ words ++
  [Mapping 0 1; Mapping 1 0; Mapping 0 0; Dyn 0; Fixed 0 3; Fixed 0 4; Dyn 1; Fixed 1 3; Fixed 1 4].
Example dom_size : length dom = 40%nat. Proof. reflexivity. Qed.

(* ---------- comparison up to conflict wording and representative choice ---------- *)
(* the variables are 0 and 1; a non-trivial equality among them identifies both *)
Definition nontriv (q : list (N * N)) : bool := existsb (fun p => negb (fst p =? snd p)) q.
Definition rn (same : bool) (x : N) : N := if same then 0 else x.
Definition norm (same : bool) (e : te) : te :=
  match e with
  | Mapping k v => Mapping (rn same k) (rn same v) | Dyn x => Dyn (rn same x) | Fixed x l => Fixed (rn same x) l
  | o => o end.
Definition req (a b : res) : bool :=
  let same := nontriv (snd a) || nontriv (snd b) in
  te_eqb (norm same (fst a)) (norm same (fst b)) && Bool.eqb (nontriv (snd a)) (nontriv (snd b)).

Definition merge2 (a : res) (c : te) : res := let '(e, q) := merge (fst a) c in (e, snd a ++ q).
Definition mergeL (a : te) (b : res) : res := let '(e, q) := merge a (fst b) in (e, snd b ++ q).

Definition comm_ok (a b : te) : bool := req (merge a b) (merge b a).
Definition assoc_ok (a b c : te) : bool := req (merge2 (merge a b) c) (mergeL a (merge b c)).

(* ---------- the known class (position independent) ---------- *)
Definition is_word e := match e with Word _ _ => true | _ => false end.
Definition arraylike e := match e with Dyn _ | Bytes => true | _ => false end.
Definition is_conflict e := match e with Conflict => true | _ => false end.
Definition is_bytes e := match e with Bytes => true | _ => false end.
Definition K1_at (x y z : te) : bool :=
  arraylike x && is_word y && is_word z && is_conflict (fst (merge y z))
  && te_eqb (fst (merge x y)) x && te_eqb (fst (merge x z)) x.
Definition K1 a b c := K1_at a b c || K1_at b a c || K1_at c a b.
Definition emits x y := nontriv (snd (merge x y)).
Definition kills x z := let r := fst (merge x z) in is_conflict r || is_bytes r.
Definition K2_at (x y z : te) : bool := emits x y && (kills x z || kills y z).
Definition K2 a b c := K2_at a b c || K2_at b c a || K2_at a c b.
Definition K a b c := K1 a b c || K2 a b c.

Definition all2 (f : te -> te -> bool) := forallb (fun a => forallb (fun b => f a b) dom) dom.
Definition all3 (f : te -> te -> te -> bool) := forallb (fun a => forallb (fun b => forallb (fun c => f a b c) dom) dom) dom.

(* C16, commutativity: every ordered pair of the domain *)
Theorem C16_comm_finite : all2 comm_ok = true.
Proof. vm_compute. reflexivity. Qed.

(* C16, associativity: every ordered triple of the domain outside the known class *)
Theorem C16_assoc_finite_outside_known : all3 (fun a b c => K a b c || assoc_ok a b c) = true.
Proof. vm_compute. reflexivity. Qed.

(* the known class is not a blanket excuse: every triple in it is order-dependent in some order *)
Definition some_order_fails (a b c : te) : bool :=
  negb (assoc_ok a b c && assoc_ok a c b && assoc_ok b a c && assoc_ok b c a && assoc_ok c a b && assoc_ok c b a
        && req (merge2 (merge a b) c) (merge2 (merge a c) b) && req (merge2 (merge a b) c) (merge2 (merge b c) a)).
Theorem C16_known_class_tight : all3 (fun a b c => negb (K a b c) || some_order_fails a b c) = true.
Proof. vm_compute. reflexivity. Qed.

(* the witness behind C02's nondeterminism *)
Theorem C16_refuted : exists a b c, In a dom /\ In b dom /\ In c dom /\ assoc_ok a b c = false.
Proof. exists (Word (Some 8) UBool), (Word (Some 160) UAddress), (Dyn 0). vm_compute. intuition. Qed.

(* lifting the reflection to a quantified statement *)
Corollary C16_comm : forall a b, In a dom -> In b dom -> comm_ok a b = true.
Proof.
  intros a b Ha Hb. pose proof C16_comm_finite as H. unfold all2 in H.
  rewrite forallb_forall in H. specialize (H a Ha). rewrite forallb_forall in H. exact (H b Hb).
Qed.

(* C15: usages form a join-semilattice with top (None): commutative, associative, idempotent *)
Definition ojoin (a b : option wuse) : option wuse := match a, b with Some x, Some y => umerge x y | _, _ => None end.
Theorem umerge_lattice :
  (forall a b, umerge a b = umerge b a) /\
  (forall a b c, ojoin (umerge a b) (Some c) = ojoin (Some a) (umerge b c)) /\
  (forall a, umerge a a = Some a).
Proof. repeat split; intros; destruct a; try destruct b; try destruct c; reflexivity. Qed.

Print Assumptions C16_assoc_finite_outside_known.
