(* FEASIBILITY PROTOTYPE for DESIGN.md (C03, VM part) -- not part of the machinery.
   An abstract version of VM::execute / VM::advance / JumpI::execute in which the effect
   of every instruction is an arbitrary oracle.  With the fork-entry check of repair F9
   (a fork only happens when the child would not exceed the visit limit at its first
   instruction) we prove: per-thread visit counts <= I, per-target fork counts <= F, and a
   strictly decreasing potential, hence termination within (1 + F*len) * (I*len + 1) steps. *)
From Coq Require Import List Arith Lia Bool.
Import ListNotations.

Section VM.
Variables len I F : nat.
Hypothesis HI : 1 <= I.
Hypothesis Hlen : 1 <= len.

Definition visits := nat -> nat.
Definition bump (v : visits) (o : nat) : visits := fun x => if x =? o then S (v x) else v x.

Record thread := { ip : nat; vis : visits }.
Inductive effect := ENext | EJump (t : nat) | EFork (t : nat) | EHalt.

(* arbitrary instruction semantics; targets have been validated to lie in the code *)
Variable eff : thread -> effect.
Hypothesis eff_jump : forall th t, eff th = EJump t -> t < len.
Hypothesis eff_fork : forall th t, eff th = EFork t -> t < len.

Record machine := { queue : list thread; stored : list thread; forks : nat -> nat }.

Definition advance (th : thread) : option thread :=
  let n := S (ip th) in
  if (len <=? n) || (I <=? vis th n) then None else Some {| ip := n; vis := vis th |}.

Definition settle (cur : option thread) (retired : thread) (q st : list thread) (extra : list thread) fk : machine :=
  match cur with
  | Some th => {| queue := th :: q ++ extra; stored := st; forks := fk |}
  | None => {| queue := q ++ extra; stored := retired :: st; forks := fk |}
  end.

Definition step (m : machine) : machine :=
  match queue m with
  | [] => m
  | th :: q =>
      let v' := bump (vis th) (ip th) in
      let th1 := {| ip := ip th; vis := v' |} in
      match eff th with
      | EHalt => settle None th1 q (stored m) [] (forks m)
      | ENext => settle (advance th1) th1 q (stored m) [] (forks m)
      | EJump t => settle (advance {| ip := t; vis := v' |}) {| ip := t; vis := v' |} q (stored m) [] (forks m)
      | EFork t =>
          if (v' t <? I) && (forks m t <? F)
          then settle (advance th1) th1 q (stored m) [ {| ip := t; vis := v' |} ] (bump (forks m) t)
          else settle (advance th1) th1 q (stored m) [] (forks m)
      end
  end.

(* ---------- sums of a function over [0, n) ---------- *)
Fixpoint sum (f : nat -> nat) (n : nat) : nat := match n with 0 => 0 | S k => sum f k + f k end.

Lemma sum_bump_out f o n : n <= o -> sum (bump f o) n = sum f n.
Proof.
  induction n as [|n IH]; intros H; [reflexivity|]. cbn [sum]. rewrite IH by lia.
  unfold bump. destruct (n =? o) eqn:E; [apply Nat.eqb_eq in E; lia|reflexivity].
Qed.

Lemma sum_bump_in f o n : o < n -> sum (bump f o) n = S (sum f n).
Proof.
  induction n as [|n IH]; intros H; [lia|]. cbn [sum].
  destruct (Nat.eq_dec n o) as [->|Hne].
  - rewrite sum_bump_out by lia. unfold bump. rewrite Nat.eqb_refl. lia.
  - rewrite IH by lia. unfold bump. destruct (n =? o) eqn:E; [apply Nat.eqb_eq in E; congruence|lia].
Qed.

Lemma sum_le_const f n c : (forall o, o < n -> f o <= c) -> sum f n <= c * n.
Proof. induction n as [|n IH]; intros H; cbn [sum]; [lia|]. specialize (IH (fun o Ho => H o (Nat.lt_lt_succ_r _ _ Ho))). specialize (H n (Nat.lt_succ_diag_r n)). lia. Qed.

(* ---------- invariant ---------- *)
Definition vis_ok (th : thread) : Prop := forall o, vis th o <= I.
Definition runnable (th : thread) : Prop := ip th < len /\ vis th (ip th) < I /\ vis_ok th.

Definition Inv (m : machine) : Prop :=
  Forall runnable (queue m) /\ Forall vis_ok (stored m) /\ (forall t, forks m t <= F).

Lemma bump_ok th : runnable th -> vis_ok {| ip := ip th; vis := bump (vis th) (ip th) |}.
Proof.
  intros (_ & Hlt & Hok) o. cbn. unfold bump. destruct (o =? ip th) eqn:E.
  - apply Nat.eqb_eq in E. subst. lia.
  - apply Hok.
Qed.

Lemma advance_runnable th th' : vis_ok th -> advance th = Some th' -> runnable th'.
Proof.
  unfold advance. intros Hok. destruct ((len <=? S (ip th)) || (I <=? vis th (S (ip th)))) eqn:E; [discriminate|].
  intros [= <-]. apply orb_false_iff in E as [E1 E2]. apply Nat.leb_gt in E1, E2. cbn. repeat split; auto.
Qed.

Lemma settle_inv cur r q st extra fk :
  (forall th, cur = Some th -> runnable th) -> vis_ok r -> Forall runnable q -> Forall vis_ok st ->
  Forall runnable extra -> (forall t, fk t <= F) -> Inv (settle cur r q st extra fk).
Proof.
  intros Hc Hr Hq Hst He Hf. unfold settle, Inv. destruct cur as [th|]; cbn.
  - repeat split; auto. constructor; [apply Hc; reflexivity|]. apply Forall_app; auto.
  - repeat split; auto. apply Forall_app; auto.
Qed.

Theorem step_inv m : Inv m -> Inv (step m).
Proof.
  intros (Hq & Hs & Hf). unfold step. destruct (queue m) as [|th q] eqn:Eq; [repeat split; rewrite ?Eq; auto|].
  inversion Hq as [|? ? Hth Hq']; subst.
  pose proof (bump_ok th Hth) as Hok1.
  destruct (eff th) as [| t | t |] eqn:Ee.
  - apply settle_inv; auto. intros th' H. eapply advance_runnable; eauto.
  - apply settle_inv; auto; try (intros th' H; eapply advance_runnable; [|exact H]); exact Hok1.
  - destruct ((bump (vis th) (ip th) t <? I) && (forks m t <? F)) eqn:Eg.
    + apply andb_true_iff in Eg as [E1 E2]. apply Nat.ltb_lt in E1, E2.
      apply settle_inv; auto.
      * intros th' H. eapply advance_runnable; eauto.
      * constructor; [|constructor]. repeat split; cbn; auto. eapply eff_fork; eauto.
      * intros t'. unfold bump. destruct (t' =? t) eqn:E; [apply Nat.eqb_eq in E; subst; lia|apply Hf].
    + apply settle_inv; auto. intros th' H. eapply advance_runnable; eauto.
  - apply settle_inv; auto. intros ? H; discriminate.
Qed.

(* every thread ever retired has all visit counts within the limit, and fork counts stay within F *)
Fixpoint run (n : nat) (m : machine) : machine := match n with 0 => m | S k => run k (step m) end.
Definition init : machine := {| queue := [ {| ip := 0; vis := fun _ => 0 |} ]; stored := []; forks := fun _ => 0 |}.

Lemma init_inv : Inv init.
Proof.
  unfold Inv, init; cbn. split; [|split].
  - constructor; [|constructor]. unfold runnable, vis_ok; cbn. split; [exact Hlen|split; [exact HI|intros o; apply Nat.le_0_l]].
  - constructor.
  - intros t; apply Nat.le_0_l.
Qed.

Theorem reachable_inv n : Inv (run n init).
Proof. assert (G : forall n m, Inv m -> Inv (run n m)) by (induction n0; intros; cbn; auto using step_inv). apply G, init_inv. Qed.

Corollary C03_visit_and_fork_bounds n :
  (forall th, In th (stored (run n init)) -> forall o, vis th o <= I) /\ (forall t, forks (run n init) t <= F).
Proof. destruct (reachable_inv n) as (_ & Hs & Hf). split; auto. intros th Hin. eapply Forall_forall in Hs; eauto. Qed.

(* ---------- termination: a strictly decreasing potential ---------- *)
Definition vsum (th : thread) : nat := sum (vis th) len.
Definition cap : nat := I * len + 1.
Definition term (th : thread) : nat := cap - vsum th.
Fixpoint qsum (q : list thread) : nat := match q with [] => 0 | th :: r => term th + qsum r end.
Definition phi (m : machine) : nat := qsum (queue m) + (F * len - sum (forks m) len) * cap.

Lemma qsum_app a b : qsum (a ++ b) = qsum a + qsum b.
Proof. induction a; cbn; lia. Qed.

Lemma vsum_le th : vis_ok th -> vsum th <= I * len.
Proof. intros H. apply sum_le_const. intros o _. apply H. Qed.

Lemma vsum_bump th : ip th < len -> vsum {| ip := ip th; vis := bump (vis th) (ip th) |} = S (vsum th).
Proof. intros H. unfold vsum; cbn. now apply sum_bump_in. Qed.

Lemma advance_vis th th' : advance th = Some th' -> vis th' = vis th.
Proof. unfold advance. destruct (_ || _); [discriminate|]. now intros [= <-]. Qed.

Lemma phi_settle cur r q st extra fk :
  (forall th, cur = Some th -> vsum th = vsum r) ->
  phi (settle cur r q st extra fk) <= term r + qsum q + qsum extra + (F * len - sum fk len) * cap.
Proof.
  intros H. unfold phi, settle. destruct cur as [th|]; cbn [queue forks qsum]; rewrite qsum_app.
  - unfold term. rewrite (H th eq_refl). lia.
  - lia.
Qed.

Theorem step_decreases m : Inv m -> queue m <> [] -> phi (step m) < phi m.
Proof.
  intros (Hq & Hs & Hf) Hne. unfold step. destruct (queue m) as [|th q] eqn:Eq; [congruence|].
  inversion Hq as [|? ? Hth Hq']; subst. destruct Hth as (Hip & Hlt & Hok).
  set (th1 := {| ip := ip th; vis := bump (vis th) (ip th) |}).
  assert (Hok1 : vis_ok th1) by (apply bump_ok; repeat split; auto).
  assert (Hv1 : vsum th1 = S (vsum th)) by (apply vsum_bump; auto).
  assert (Hle1 : vsum th1 <= I * len) by (apply vsum_le; auto).
  assert (Hterm : term th1 + 1 = term th) by (unfold term, cap; lia).
  assert (Hphi : phi m = term th + qsum q + (F * len - sum (forks m) len) * cap)
    by (unfold phi; rewrite Eq; cbn [qsum]; lia).
  assert (Hadv : forall th', advance th1 = Some th' -> vsum th' = vsum th1)
    by (intros th' H; unfold vsum; now rewrite (advance_vis _ _ H)).
  destruct (eff th) as [| t | t |] eqn:Ee.
  - pose proof (phi_settle (advance th1) th1 q (stored m) [] (forks m) Hadv) as P. cbn [qsum] in P. lia.
  - set (tj := {| ip := t; vis := bump (vis th) (ip th) |}).
    assert (Hj : forall th', advance tj = Some th' -> vsum th' = vsum tj)
      by (intros th' H; unfold vsum; now rewrite (advance_vis _ _ H)).
    pose proof (phi_settle (advance tj) tj q (stored m) [] (forks m) Hj) as P. cbn [qsum] in P.
    assert (term tj = term th1) by reflexivity. lia.
  - destruct ((bump (vis th) (ip th) t <? I) && (forks m t <? F)) eqn:Eg.
    + apply andb_true_iff in Eg as [E1 E2]. apply Nat.ltb_lt in E1, E2.
      pose proof (eff_fork _ _ Ee) as Ht.
      pose proof (phi_settle (advance th1) th1 q (stored m) [ {| ip := t; vis := bump (vis th) (ip th) |} ] (bump (forks m) t) Hadv) as P.
      cbn [qsum] in P.
      assert (Hc : term {| ip := t; vis := bump (vis th) (ip th) |} = term th1) by reflexivity.
      assert (Hs1 : sum (bump (forks m) t) len = S (sum (forks m) len)) by (apply sum_bump_in; auto).
      assert (Hs2 : sum (bump (forks m) t) len <= F * len).
      { apply sum_le_const. intros o _. unfold bump. destruct (o =? t) eqn:E; [apply Nat.eqb_eq in E; subst; lia|apply Hf]. }
      assert (Hcap : term th1 < cap) by (unfold term, cap; lia).
      rewrite Hc, Hs1 in P.
      assert ((F * len - S (sum (forks m) len)) * cap + cap = (F * len - sum (forks m) len) * cap) by nia.
      lia.
    + pose proof (phi_settle (advance th1) th1 q (stored m) [] (forks m) Hadv) as P. cbn [qsum] in P. lia.
  - pose proof (phi_settle None th1 q (stored m) [] (forks m) (fun th H => ltac:(discriminate))) as P. cbn [qsum] in P. lia.
Qed.

Lemma run_empty n : forall m, queue m = [] -> queue (run n m) = [].
Proof.
  induction n as [|n IH]; intros m E; cbn [run]; [exact E|].
  assert (H : step m = m) by (unfold step; now rewrite E). rewrite H. now apply IH.
Qed.

Theorem execute_terminates : queue (run ((1 + F * len) * (I * len + 1)) init) = [].
Proof.
  assert (G : forall n m, Inv m -> phi m <= n -> queue (run n m) = []).
  { induction n as [|n IH]; intros m Hi Hp.
    - cbn. destruct (queue m) as [|th q] eqn:E; [reflexivity|].
      destruct Hi as (Hq & _). rewrite E in Hq. inversion Hq as [|? ? Hth _]; subst.
      destruct Hth as (_ & _ & Hok). pose proof (vsum_le th Hok).
      assert (term th >= 1) by (unfold term, cap; lia).
      unfold phi in Hp. rewrite E in Hp. cbn [qsum] in Hp.
      remember ((F * len - sum (forks m) len) * cap) as x. lia.
    - cbn [run]. destruct (queue m) as [|th q] eqn:E.
      + change (queue (run (S n) m) = []). now apply run_empty.
      + apply IH; [now apply step_inv|]. assert (queue m <> []) by congruence.
        pose proof (step_decreases m Hi H). lia. }
  apply G; [apply init_inv|]. unfold phi, init; cbn [queue forks qsum]. unfold term, vsum, cap; cbn [vis].
  assert (Z : forall n, sum (fun _ => 0) n = 0) by (induction n; cbn; lia). rewrite !Z. nia.
Qed.

End VM.

Check C03_visit_and_fork_bounds.
Check execute_terminates.
Print Assumptions execute_terminates.
Print Assumptions C03_visit_and_fork_bounds.
