import re, glob, json
# T1: disassembler table
src=open('/repo/src/disassembly/disassembler.rs').read()
arms=re.findall(r'^\s*(0x[0-9a-f]{2})(?:\.\.=(0x[0-9a-f]{2}))?\s*=>\s*(?:add_op\(ops,\s*([A-Za-z_:]+(?:::default\(\))?)\)|\{)', src, re.M)
single=[(a,c) for a,b,c in arms if not b]; ranges=[(a,b) for a,b,c in arms if b]
print('T1 single arms',len(single),'range arms',ranges)
# per-opcode impl blocks
ops={}
for f in glob.glob('/repo/src/opcode/*.rs'):
    t=open(f).read().split('#[cfg(test)]')[0]
    for m in re.finditer(r'impl Opcode for (\w+) \{(.*?)\n\}\n', t, re.S):
        name,body=m.group(1),m.group(2)
        def grab(fn):
            mm=re.search(r'fn '+fn+r'\(&self\) -> \w+ \{\s*(.*?)\s*\}', body, re.S); return mm.group(1) if mm else None
        ops[name]=dict(byte=grab('as_byte'),gas=grab('min_gas_cost'),args=grab('arg_count'),encode='fn encode' in body)
print('T1 opcode impls',len(ops)); 
odd={k:v for k,v in ops.items() if not re.fullmatch(r'0x[0-9a-f]{2}',v['byte'] or '') or not re.fullmatch(r'\d+',v['gas'] or '') or not re.fullmatch(r'\d+',v['args'] or '')}
print('  non-literal:',json.dumps(odd,indent=0)[:900])
# T2: constant_folder arms
v=open('/repo/src/vm/value/mod.rs').read()
body=v[v.index('fn constant_folder'):v.index('self.clone().transform(constant_folder)')]
arm=re.compile(r'SVD::(\w+) \{ ([^}]*) \} => \{(.*?)\n                \}', re.S)
rows=[]
for m in arm.finditer(body):
    name,fields,b=m.groups()
    fold=re.search(r'=> SVD::new_known\((.*?)\),\n', b).group(1)
    fb=re.search(r'_ => SVD::(\w+) \{ ([^}]*) \}', b).group(1,2)
    scrut=re.search(r'match \(?(.*?)\)? \{', b).group(1)
    rows.append((name,fields.strip(),scrut,fold,fb))
print('T2 arms',len(rows))
for r in rows: print('  ',r[0],'|',r[1],'|',r[2],'|',r[3],'| fallback',r[4][0], '' if r[4][0]==r[0] else '  <-- MISMATCH')
