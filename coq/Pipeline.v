(* The whole analysis, `Extractor::analyze` (src/extractor/mod.rs) = disassemble -> VM::execute ->
   `TypeChecker::run` (src/tc/mod.rs: lift; assign_vars; infer; unify + the layout loop), as ONE executable
   function composed from the stage models.  Nothing of a stage is re-modelled here; this file only contains

     * the glue the Rust code has between the stages:
         - `ExecutionResult::all_values` / `VMState::all_values` / `Stack::all_values` / `Memory::all_values` /
           `Storage::stores_as_values` (src/vm/mod.rs, src/vm/state/*.rs): which values of a retired state are handed to
           the type checker, in which order, storage generations wrapped as `StorageWrite {key, value}`;
         - `.unique()` in `TypeChecker::lift` (first occurrence wins);
         - the watchdog in EVERY stage (the answer stream of VM.v is shared by all stages): the loops of `lift` (errors
           are collected, the loop goes on), `assign_vars`, `infer`, every round of `unification::unify` (a thin wrapper
           around Unify.v's `classes_loop`; poll at the top of each class iteration, the counter running on across
           rounds) and the layout loop of `TypeChecker::unify`, each an instance of PolledLoop.v's scheme (`ploop_e`);
         - `Register.tcs` -> `Unify.tstate`, and the forest `unify` leaves behind -> `Abi.abi_env`;
     * the iteration orders the hook `verif::order` imposes at the call sites outside `unify` (`unify`'s own are
       `Unify.orders_sorted` / `orders_sorted_rev` / `orders_seeded`), in the three modes that determine an order
       (`order_mode`: Sorted, SortedReversed, Seeded = sort, then the shuffle `Unify.seeded`); the sort keys:
         memory.constant_offsets   by the `usize` offset
         memory.symbolic_offsets   by `format!("{k}")` of the offset     (`sv_display` below = the `Display` impl)
         storage.stores_as_values  by `format!("{k}")` of the key, known slots chained before symbolic ones
         tc.values                 by type variable                       (`Register.values`)
         tc.rules                  by `format!("{:?}", rule)`             (= `default_rules`, see `sorted_rules`)
       `sort_by_key` is stable: items with EQUAL keys keep the order of the underlying hash map, which no model can
       know.  Under hook H2 every fresh identity prints as `00000000` (`clip_uuid` keeps the first 8 hex digits of a
       uuid that counts up from 1 000 000), so two keys that differ only in identities tie; `order_determined` says
       whether a state has such a tie.  The model breaks ties by insertion order.
     * keccak and the slot table of the slot passes stay parameters (`Section`): in runs they are the oracle
       / table the harness exports (PipelineCases.v).

   Fuel is explicit (`fuels`), every out-of-fuel result is distinct from every result of the Rust code. *)
From Coq Require Import String Ascii HexadecimalString.
From SLX Require Import Base Word256 PackingArith gen.Constants gen.ValueSig gen.OpcodeTable gen.PassOrder gen.RulesSig
  SymVal Micro gen.OpcodeSem Disasm VM Fold PassesSlots PassesPacking TypeExpr Merge VectorMap DisjointSet Register Rules
  Unify AbiT Layout Abi PolledLoop.
Open Scope string_scope.
Open Scope list_scope.
Open Scope N_scope.

(* ------------------------------------------------------------------------------------------------ Display *)
(* `impl Display for SymbolicValueData` (src/vm/value/mod.rs), `KnownWord` (known.rs), `PackedSpan`,
   `utility::clip_uuid`.  Arguments arrive in declaration order (SymVal.v). *)
Definition hexs (n : N) : string := NilZero.string_of_uint (N.to_hex_uint n).

Fixpoint zeros (n : nat) : string := match n with O => "" | S k => "0" ++ zeros k end.
(* the first 8 characters of the hyphenated lower-case form of a 128-bit uuid: its top 32 bits *)
Definition clip_uuid (id : N) : string :=
  let h := hexs ((id / 2 ^ 96) mod 2 ^ 32) in zeros (8 - String.length h) ++ h.

Definition dsp_word (w : N) : string := "0x" ++ hexs w.
Definition arg (ds : list string) (i : nat) : string := nth i ds "".
Definition attr (a : list N) (i : nat) : N := nth i a 0.
Definition bin (op : string) (l r : string) : string := "(" ++ l ++ " " ++ op ++ " " ++ r ++ ")".
Definition call1 (f x : string) : string := f ++ "(" ++ x ++ ")".

Definition span_display (off sz : N) (d : string) : string :=
  "span(" ++ d ++ ")[" ++ Unify.dec off ++ ", " ++ Unify.dec sz ++ "]".
Fixpoint spans_display (a : list N) (ds : list string) : list string :=
  match a, ds with
  | off :: sz :: a', d :: ds' => span_display off sz d :: spans_display a' ds'
  | _, _ => []
  end.

(* one node, given the texts of its children *)
Definition display_node (t : tag) (a : list N) (ds : list string) : string :=
  let d := arg ds in
  match t with
  | T_Value => clip_uuid (attr a 0)
  | T_KnownData => dsp_word (attr a 0)
  | T_Add => bin "+" (d 0%nat) (d 1%nat)
  | T_Multiply => bin "*" (d 0%nat) (d 1%nat)
  | T_Subtract => bin "-" (d 0%nat) (d 1%nat)
  | T_Divide => bin "/" (d 0%nat) (d 1%nat)
  | T_SignedDivide => bin "s/" (d 0%nat) (d 1%nat)
  | T_Modulo => bin "%" (d 0%nat) (d 1%nat)
  | T_SignedModulo => bin "s%" (d 0%nat) (d 1%nat)
  | T_Exp => bin "**" (d 0%nat) (d 1%nat)
  | T_SignExtend => "sign_ext(" ++ d 0%nat ++ ", " ++ d 1%nat ++ ")"
  | T_CallWithValue => "call_val(" ++ Unify.commas ds ++ ")"
  | T_CallWithoutValue => "call_val(" ++ Unify.commas ds ++ ")"
  | T_Sha3 => call1 "sha3" (d 0%nat)
  | T_Address => "address(this)"
  | T_Balance => call1 "balance" (d 0%nat)
  | T_Origin => "tx.origin"
  | T_Caller => "msg.sender"
  | T_CallValue => "msg.value"
  | T_GasPrice => "tx.gasprice"
  | T_ExtCodeHash => call1 "ext_code_hash" (d 0%nat)
  | T_BlockHash => "block_hash(" ++ d 0%nat          (* sic: the closing parenthesis is missing in the source *)
  | T_CoinBase => "block.coinbase"
  | T_BlockTimestamp => "block.timestamp"
  | T_BlockNumber => "block.number"
  | T_Prevrandao => "block.prevrandao"
  | T_GasLimit => "block.gaslimit"
  | T_ChainId => "block.chain_id"
  | T_SelfBalance => "address(this).balance"
  | T_BaseFee => "block.basefee"
  | T_Gas => "gasRemaining"
  | T_Log => "log(" ++ d 0%nat ++ ", ?)"             (* `{topics:?}` is the derived Debug of whole values: not modelled *)
  | T_Create => "create(" ++ d 0%nat ++ ", " ++ d 1%nat ++ ")"
  | T_Create2 => "create(" ++ d 0%nat ++ ", " ++ d 2%nat ++ ", " ++ d 1%nat ++ ")"    (* value, data, salt *)
  | T_SelfDestruct => call1 "self_destruct" (d 0%nat)
  | T_LessThan => bin "<" (d 0%nat) (d 1%nat)
  | T_GreaterThan => bin ">" (d 0%nat) (d 1%nat)
  | T_SignedLessThan => bin "s<" (d 0%nat) (d 1%nat)
  | T_SignedGreaterThan => bin "s>" (d 0%nat) (d 1%nat)
  | T_Equals => bin "==" (d 0%nat) (d 1%nat)
  | T_IsZero => "(" ++ d 0%nat ++ " == 0)"
  | T_And => bin "&" (d 0%nat) (d 1%nat)
  | T_Or => bin "|" (d 0%nat) (d 1%nat)
  | T_Xor => bin "^" (d 0%nat) (d 1%nat)
  | T_Not => "!" ++ d 0%nat
  | T_LeftShift => bin "<<" (d 1%nat) (d 0%nat)            (* ({value} << {shift}) *)
  | T_RightShift => bin ">>" (d 1%nat) (d 0%nat)
  | T_ArithmeticRightShift => bin ">>>" (d 1%nat) (d 0%nat)
  | T_CallData => "call_data(" ++ clip_uuid (attr a 0) ++ ")[" ++ d 0%nat ++ ", " ++ d 1%nat ++ "]"
  | T_CallDataSize => "call_data_size"
  | T_CodeCopy => "code_copy[" ++ d 0%nat ++ ", " ++ d 1%nat ++ "]"
  | T_ExtCodeSize => call1 "ext_code_size" (d 0%nat)
  | T_ExtCodeCopy => "ext_code_copy(" ++ d 0%nat ++ ")[" ++ d 1%nat ++ ", " ++ d 2%nat ++ "]"
  | T_ReturnData => "return_data_copy[" ++ d 0%nat ++ ", " ++ d 1%nat ++ "]"
  | T_Return => call1 "return" (d 0%nat)
  | T_Revert => call1 "revert" (d 0%nat)
  | T_UnwrittenStorageValue => call1 "uninit_storage" (d 0%nat)
  | T_SLoad => "(s_load[" ++ d 0%nat ++ "] => " ++ d 1%nat ++ ")"
  | T_StorageSlot => call1 "slot" (d 0%nat)
  | T_StorageWrite => "(s_store[" ++ d 0%nat ++ "] = " ++ d 1%nat ++ ")"
  | T_Concat => "concat(" ++ Unify.commas ds ++ ")"
  | T_MappingIndex =>
      "mapping_ix(" ++ d 0%nat ++ ")[" ++ Unify.dec (match a with [1; p] => p | _ => 0 end) ++ "][" ++ d 1%nat ++ "]"
  | T_DynamicArrayIndex => "dyn_arr_ix(" ++ d 0%nat ++ ")[" ++ d 1%nat ++ "]"
  | T_SubWord => "sub_word(" ++ d 0%nat ++ ")[" ++ Unify.dec (attr a 0) ++ ", " ++ Unify.dec (attr a 1) ++ "]"
  | T_Shifted => "shifted(" ++ d 0%nat ++ ")[" ++ Unify.dec (attr a 0) ++ "]"
  | T_Packed => "packed(" ++ Unify.commas (spans_display a ds) ++ ")"
  end.

(* `format!("{v}")` *)
Fixpoint sv_display (v : sv) : string :=
  match v with Node t a args => display_node t a (map sv_display args) end.

(* is the text above the real one?  (no `Log` node: its topics are printed with the derived Debug) *)
Fixpoint display_exact (v : sv) : bool :=
  match v with Node t _ args => negb (tag_eqb t T_Log) && forallb display_exact args end.

(* ------------------------------------------------------------------------------------------------ all_values *)
(* stable sort by a text key *)
Definition sort_by_text {A} (key : A -> string) (l : list A) : list A :=
  map snd (sort_le (fun a b => String.leb (fst a) (fst b)) (map (fun x => (key x, x)) l)).

(* the modes of the hook `verif::order` that determine an order (src/verif.rs): sort by the key of the iteration
   point; the same, reversed; the same, then the Fisher-Yates shuffle of Unify.seeded (a function of the seed, the
   name of the point and the number of items) *)
Inductive order_mode := MSorted | MSortedRev | MSeeded (seed : N).

Definition arrange {A} (m : order_mode) (point : string) (sorted : list A) : list A :=
  match m with
  | MSorted => sorted
  | MSortedRev => rev sorted
  | MSeeded seed => seeded seed point sorted
  end.

Definition orders_of (m : order_mode) : orders :=
  match m with
  | MSorted => orders_sorted
  | MSortedRev => orders_sorted_rev
  | MSeeded seed => orders_seeded seed
  end.

Section Collect.
  Variable mode : order_mode.

  (* Memory::all_values under the hook *)
  Definition memory_values (st : vstate) : list sv :=
    flat_map (fun p => map fst (snd p))
             (arrange mode "memory.constant_offsets" (sort_le (fun a b => fst a <=? fst b) (mem_const st)))
    ++ flat_map (fun p => fst p :: map fst (snd p))
                (arrange mode "memory.symbolic_offsets" (sort_by_text (fun p => sv_display (fst p)) (mem_sym st))).

  (* Storage::stores_as_values under the hook: known_slots.chain(symbolic_slots), sorted by the key's text, every
     generation wrapped as a write *)
  Definition storage_entries (st : vstate) : list (sv * list sv) :=
    arrange mode "storage.stores_as_values" (sort_by_text (fun p => sv_display (fst p)) (sto_known st ++ sto_sym st)).
  Definition stores_as_values (st : vstate) : list sv :=
    flat_map (fun p => map (fun v => Node T_StorageWrite [] [fst p; v]) (snd p)) (storage_entries st).

  (* VMState::all_values: stack (bottom first: `Stack::data` is pushed at the end), memory, storage, recorded, logged *)
  Definition state_values (st : vstate) : list sv :=
    rev (stack st) ++ memory_values st ++ stores_as_values st ++ recorded st ++ logged st.

  (* ExecutionResult::all_values: the retired states in the order they were stored *)
  Definition all_values (stored : list (vstate * list (N * N))) : list sv :=
    flat_map (fun s => state_values (fst s)) stored.
End Collect.

(* itertools `unique()`: first occurrences, in order *)
Fixpoint unique_from (seen : list sv) (l : list sv) : list sv :=
  match l with
  | [] => []
  | x :: r => if existsb (sv_eqb x) seen then unique_from seen r else x :: unique_from (x :: seen) r
  end.
Definition unique (l : list sv) : list sv := unique_from [] l.

(* the hook leaves the order of a state's values to the hash map exactly when two sort keys are equal (or a key
   text is not modelled) *)
Fixpoint no_dup_text (l : list string) : bool :=
  match l with [] => true | x :: r => negb (existsb (String.eqb x) r) && no_dup_text r end.
Definition state_order_determined (st : vstate) : bool :=
  forallb display_exact (map fst (mem_sym st) ++ map fst (sto_known st) ++ map fst (sto_sym st))
  && no_dup_text (map (fun p => sv_display (fst p)) (mem_sym st))
  && no_dup_text (map (fun p => sv_display (fst p)) (sto_known st ++ sto_sym st)).
Definition order_determined (stored : list (vstate * list (N * N))) : bool :=
  forallb (fun s => state_order_determined (fst s)) stored.

(* an SLOAD or SSTORE instruction (vocabulary of pipeline_storage_free_empty) *)
Definition is_storage_op (i : instr) : bool :=
  match i with IOp o => (op_idx o =? op_idx memory_SLoad) || (op_idx o =? op_idx memory_SStore) | _ => false end.

(* ------------------------------------------------------------------------------------------------ results *)
Inductive pipeline_result :=
| PLayout (l : list entry)                    (* Ok(layout) *)
| PErrDisasm (e : dis_err)                    (* InstructionStream::try_from failed *)
| PErrVm (errs : list (N * exec_err))         (* VM::execute returned its error container (location, kind) *)
| PErrLift                                    (* a lifting pass returned Err *)
| PErrStopped (stage : N)                     (* Error::StoppedByWatchdog in lift (1) / assign_vars (2) / infer (3) /
                                                 unification::unify (4) / the layout loop of TypeChecker::unify (5) *)
| PErrInfer                                   (* an inference rule returned Err *)
| PErrAbi (e : abi_err)                       (* type_of / abi_type_for failed *)
| PPanic (site : N)
| PFuelVm                                     (* out of fuel: the VM loop *)
| PFuelUnify                                  (* out of fuel: the rounds of `unify` (class K2 never halts) *)
| PFuelFind                                   (* out of fuel: union-find `find` (excluded by C19) *)
| PModelBug.                                  (* `merge` returned the Err it does not have *)

Definition SITE_POLL_ZERO : N := 9300.        (* `counter % poll_every()` with poll_every() = 0 (VM::execute) *)

Record fuels := mk_fuels { f_vm : positive; f_rounds : nat }.
Definition default_fuels : fuels := mk_fuels (2 ^ 40)%positive 64%nat.

(* what the stages handed to each other (for locating a disagreement with the implementation) *)
Record ptrace := mk_ptrace {
  t_determined : bool;                                (* order_determined of the retired states *)
  t_values : option (list sv);                        (* unique all_values *)
  t_lifted : option (list sv);                        (* after the nine passes *)
  t_vars : option N;                                  (* tyvar_count after assign_vars *)
  t_infs : option (N * list (tyvar * list te));       (* tyvar_count and inference sets after infer *)
  t_polls : N;                                        (* watchdog polls made by the whole run *)
  t_result : pipeline_result }.

(* ------------------------------------------------------------------------------------------------ polled loops *)
(* The loops of the type-checker stages follow the scheme of PolledLoop.v (`ploop`): poll when the counter is a
   multiple of the interval, bump the counter on every iteration, run the body.  `ploop_e` is that scheme with the
   body's failure kept (`ploop` forgets it: proofs/PipelineProofs.v `ploop_e_forget`); `fold_e` is the unmonitored loop. *)
Inductive pres (St E : Type) := PDone (s : St) (c : N) (w : wdog) | PStopped (w : wdog) | PFailed (e : E) (w : wdog).
Arguments PDone {St E}. Arguments PStopped {St E}. Arguments PFailed {St E}.

Section LoopE.
  Context {A St E : Type}.
  Variable body : A -> St -> St + E.
  Variable interval : N.

  Fixpoint ploop_e (items : list A) (c : N) (w : wdog) (s : St) : pres St E :=
    match items with
    | [] => PDone s c w
    | x :: r =>
        let '(stop, w1) := if c mod interval =? 0 then should_stop w else (false, w) in
        if stop then PStopped w1
        else match body x s with
             | inl s1 => ploop_e r (c + 1) w1 s1
             | inr e => PFailed e w1
             end
    end.

  Fixpoint fold_e (items : list A) (s : St) : St + E :=
    match items with
    | [] => inl s
    | x :: r => match body x s with inl s1 => fold_e r s1 | inr e => inr e end
    end.
End LoopE.

Definition forget {St E} (r : pres St E) : lres St :=
  match r with PDone s c w => LDone s c w | PStopped w => LStopped w | PFailed _ w => LFailed w end.
Definition forget_body {A St E} (body : A -> St -> St + E) : A -> St -> option St :=
  fun x s => match body x s with inl s1 => Some s1 | inr _ => None end.
Definition pres_wdog {St E} (r : pres St E) : wdog :=
  match r with PDone _ _ w | PStopped w | PFailed _ w => w end.

(* ------------------------------------------------------------------------------------------------ disassembly + VM *)
Definition no_trace (polls : N) (r : pipeline_result) : ptrace := mk_ptrace true None None None None polls r.

(* the part of the analysis that needs neither keccak nor the slot table: the retired states and the number of
   watchdog polls made so far, or the result (and the polls made) when the analysis ends here *)
Inductive vm_phase := VmFail (r : pipeline_result) (polls : N) | VmOk (stored : list (vstate * list (N * N))) (polls : N).

Definition vm_phase_of (fu : fuels) (bytes : list byte) (cfg : config) : vm_phase :=
  match try_from bytes with
  | Err e => VmFail (PErrDisasm e) 0
  | Panic s => VmFail (PPanic s) 0
  | Ok code =>
      if poll_every cfg =? 0 then VmFail (PPanic SITE_POLL_ZERO) 0
      else
        match run_p constant_fold (f_vm fu) (init_vm code cfg) with
        | ROutOfFuel m => VmFail PFuelVm (v_polls m)
        | RStopped ip m => VmFail (PErrVm [(ip, EStoppedByWatchdog)]) (v_polls m)
        | RDone m =>
            match v_errors m with
            | _ :: _ => VmFail (PErrVm (v_errors m)) (v_polls m)
            | [] => VmOk (v_stored m) (v_polls m)
            end
        end
  end.

Section Analyze.
  Variable keccak : list byte -> N.
  Variable table : list (N * N).
  Variable mode : order_mode.

  (* ---------------------------------------------------------------------------------------------- lift *)
  (* one pass of `LiftingPasses::default()` *)
  Definition pass9 (p : pass_id) (v : sv) : outcome sv unit :=
    match pass6 keccak table p with
    | Some f => Ok (f v)
    | None =>
        match p with
        | P_SubWordValue => sub_word v
        | P_MulShiftedValue => Ok (mul_shifted v)
        | P_PackedEncoding => packed_encoding v
        | _ => Ok v
        end
    end.

  (* LiftingPasses::run: `for pass in &mut self.passes { value = pass.run(value, state)?; }` *)
  Definition run_passes9 (order : list pass_id) (v : sv) : outcome sv unit :=
    fold_left (fun acc p => obind acc (pass9 p)) order (Ok v).
  Definition lift_value : sv -> outcome sv unit := run_passes9 default_pass_order.

  (* the body of the loop of TypeChecker::lift: run the passes; an Err is collected and the loop goes on.
     State: the lifted values so far (newest first) and whether a pass failed *)
  Definition lift_body (v : sv) (st : list sv * bool) : (list sv * bool) + pipeline_result :=
    match lift_value v with
    | Ok v' => inl (v' :: fst st, snd st)
    | Err _ => inl (fst st, true)
    | Panic s => inr (PPanic s)
    end.

  (* ---------------------------------------------------------------------------------------------- assign_vars *)
  Definition reg_body (v : sv) (st : tcs) : tcs + pipeline_result := inl (snd (reg v st)).

  (* ---------------------------------------------------------------------------------------------- rules *)
  (* the order of `tc.rules` under the hook: by the Debug text of the rule = the name of its unit struct *)
  Definition sorted_rules : list string := sort_le String.leb default_rules.
  Definition pipeline_rules : list rule := map rule_named (arrange mode "tc.rules" sorted_rules).

  (* `state.values()` under the hook: by type variable, i.e. in creation order (`Register.values`), then arranged *)
  Definition tc_values (vals : list tsv) : list tsv := arrange mode "tc.values" vals.

  Definition infer_body (x : tsv) (st : tcs) : tcs + pipeline_result :=
    match infer_value pipeline_rules x st with
    | Ok st' => inl st'
    | Err _ => inr PErrInfer
    | Panic s => inr (PPanic s)
    end.

  (* the expressions `merge` allocated during unification (`allocate_ty_var`): synthetic values, one per variable *)
  Definition synthetic_values (from to : N) : list tsv :=
    map (fun k => let v := from + N.of_nat k in TN v T_Value [two64 + v] []) (seq 0 (N.to_nat (to - from))).

  (* ---------------------------------------------------------------------------------------------- unify *)
  Definition tstate_of (st : tcs) : tstate := mk_tstate (infs st) (next st).

  Definition ures_res {X} (r : ures X) : X + pipeline_result :=
    match r with
    | Ok a => inl a
    | Err URounds => inr PFuelUnify
    | Err UFindFuel => inr PFuelFind
    | Err UImpossible => inr PModelBug
    | Panic s => inr (PPanic s)
    end.

  (* `unification::unify` with its watchdog (src/tc/unification.rs): in every round
       for (ty_var, inferences) in forest.sets() { poll; counter += 1; if inferences.is_empty() { continue }; .. }
     i.e. the polled-loop scheme over ALL classes (the empty ones included), the counter running on across rounds.
     The body of one class and the rest of the round are Unify.v's own `classes_loop` (on a one-element list) and the
     three loops `insert_all`, `union_all`, `add_all` (proofs: `unify_rounds_never_stop` = `Unify.unify`). *)
  Definition class_body (rnd : nat) (p : tyvar * iset) (st : dsu iset * racc) : (dsu iset * racc) + pipeline_result :=
    ures_res (classes_loop ds_forest (orders_of mode) rnd (fst st) [p] (snd st)).

  (* what `round` does after the loop over the classes *)
  Definition round_tail (rnd : nat) (sa : dsu iset * racc) : ures (dsu iset) :=
    let o := orders_of mode in
    let acc := snd sa in
    do s2 <- insert_all ds_forest (fst sa) (o_newv o rnd (dedup N.eqb (r_newv acc)));
    do s3 <- union_all ds_forest s2 (o_eqs o rnd (dedup Unify.pair_eqb (r_eqs acc)));
    add_all ds_forest s3 (o_judg o rnd (dedup judg_eqb (r_judg acc))).

  Inductive unify_out :=
  | UStop (w : wdog)
  | UFail (r : pipeline_result) (w : wdog)
  | UDone (s : dsu iset) (nxt c : N) (w : wdog).

  Fixpoint unify_rounds (interval : N) (fuel rnd : nat) (s : dsu iset) (nxt c : N) (w : wdog) : unify_out :=
    match fuel with
    | O => UFail PFuelUnify w
    | S f =>
        match ures_res (f_sets ds_forest s) with
        | inr e => UFail e w
        | inl sl =>
            match ploop_e (class_body rnd) interval (snd sl) c w (fst sl, mk_racc [] [] [] nxt false) with
            | PStopped w' => UStop w'
            | PFailed e w' => UFail e w'
            | PDone sa c' w' =>
                match ures_res (round_tail rnd sa) with
                | inr e => UFail e w'
                | inl s4 =>
                    if r_prog (snd sa) then unify_rounds interval f (S rnd) s4 (r_next (snd sa)) c' w'
                    else UDone s4 (r_next (snd sa)) c' w'
                end
            end
        end
    end.

  Definition unify_polled (interval : N) (fuel : nat) (st : tstate) (w : wdog) : unify_out :=
    match ures_res (init_forest ds_forest (orders_of mode) st) with
    | inr e => UFail e w
    | inl s0 => unify_rounds interval fuel 0 s0 (ts_next st) 0 w
    end.

  (* ---------------------------------------------------------------------------------------------- abi, layout *)
  (* `forest.get_data(&var)` on the forest `unify` left behind; `state.value(var)` is defined for every variable
     allocated so far (registered values, the mapping rule's and `merge`'s `allocate_ty_var`) *)
  Definition env_of_forest (s : dsu iset) (n : N) : abi_env :=
    mk_env (fun v => if v <? n then match ds_get_data iset s v with Ok (_, d) => d | _ => None end else None)
           (fun v => v <? n).

  (* the loop of TypeChecker::unify over `constant_storage_slots` (the values filtered first, then enumerated):
     one slot = Abi.build_layout on a one-element list *)
  Definition is_const_slot (x : tsv) : bool := match const_slot_key x with Some _ => true | None => false end.
  Definition layout_body (env : abi_env) (fuel : nat) (x : tsv) (layout : list entry) : list entry + pipeline_result :=
    match build_layout abi_nested_add abi_nested_fit env fuel [x] layout with
    | Ok l => inl l
    | Err e => inr (PErrAbi e)
    | Panic p => inr (PPanic p)
    end.

  (* ---------------------------------------------------------------------------------------------- the whole *)
  (* the type checker with the watchdog: `TypeChecker::run` on the retired states, `polls0` polls made so far *)
  Definition analyze_tc (fu : fuels) (cfg : limits) (det : bool) (stored : list (vstate * list (N * N))) (polls0 : N) : ptrace :=
    let k := poll_every cfg in
    let values := unique (all_values mode stored) in
    let tr0 := fun ls nv inf w r => mk_ptrace det (Some values) ls nv inf (polls w) r in
    match ploop_e lift_body k values 0 (mk_wdog polls0 (stop_at cfg)) ([], false) with
    | PStopped w => tr0 None None None w (PErrStopped 1)
    | PFailed e w => tr0 None None None w e
    | PDone (acc, failed) _ w1 =>
        if failed : bool then tr0 None None None w1 PErrLift else
        let lifted := rev acc in
        let tr1 := tr0 (Some lifted) in
        match ploop_e reg_body k lifted 0 w1 empty_tcs with
        | PStopped w => tr1 None None w (PErrStopped 2)
        | PFailed e w => tr1 None None w e
        | PDone st _ w2 =>
            let tr2 := tr1 (Some (next st)) in
            match ploop_e infer_body k (tc_values (Register.values st)) 0 w2 st with
            | PStopped w => tr2 None w (PErrStopped 3)
            | PFailed e w => tr2 None w e
            | PDone st' _ w3 =>
                let tr3 := tr2 (Some (next st', infs st')) in
                match unify_polled k (f_rounds fu) (tstate_of st') w3 with
                | UStop w => tr3 w (PErrStopped 4)
                | UFail e w => tr3 w e
                | UDone s n _ w4 =>
                    match ploop_e (layout_body (env_of_forest s n) (S (N.to_nat n))) k
                            (filter is_const_slot (tc_values (Register.values st' ++ synthetic_values (next st') n))) 0 w4 [] with
                    | PStopped w => tr3 w (PErrStopped 5)
                    | PFailed e w => tr3 w e
                    | PDone l _ w5 => tr3 w5 (PLayout l)
                    end
                end
            end
        end
    end.

  (* the same without a watchdog: every loop is the plain fold of its body *)
  Definition analyze_plain (fu : fuels) (stored : list (vstate * list (N * N))) : pipeline_result :=
    let values := unique (all_values mode stored) in
    match fold_e lift_body values ([], false) with
    | inr e => e
    | inl (acc, failed) =>
        if failed : bool then PErrLift else
        match fold_e reg_body (rev acc) empty_tcs with
        | inr e => e
        | inl st =>
            match fold_e infer_body (tc_values (Register.values st)) st with
            | inr e => e
            | inl st' =>
                match ures_res (unify (f_rounds fu) (orders_of mode) (tstate_of st')) with
                | inr e => e
                | inl (s, n) =>
                    match fold_e (layout_body (env_of_forest s n) (S (N.to_nat n)))
                            (filter is_const_slot (tc_values (Register.values st' ++ synthetic_values (next st') n))) [] with
                    | inr e => e
                    | inl l => PLayout l
                    end
                end
            end
        end
    end.

  Definition analyze_trace (fu : fuels) (bytes : list byte) (cfg : config) : ptrace :=
    match vm_phase_of fu bytes cfg with
    | VmFail r polls => no_trace polls r
    | VmOk stored polls => analyze_tc fu cfg (order_determined stored) stored polls
    end.

  (* THE model of `Extractor::analyze` under the iteration orders of `mode` *)
  Definition analyze_model_fuel (fu : fuels) (bytes : list byte) (cfg : config) : pipeline_result :=
    t_result (analyze_trace fu bytes cfg).
End Analyze.

(* under the SORTED iteration orders, default fuels *)
Definition analyze_model (keccak : list byte -> N) (table : list (N * N)) : list byte -> config -> pipeline_result :=
  analyze_model_fuel keccak table MSorted default_fuels.
