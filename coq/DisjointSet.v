(* DisjointSet (src/data/disjoint_set.rs): a union-find forest `reps : VectorMap<Value, Value>` carrying
   auxiliary data `data : VectorMap<Value, Data>` at the roots.  Faithful executable model (recursive `find`
   WITH path compression and auto-insertion of unknown values, `union` as repaired) and the abstract
   specification: a naive partition model -- a table giving every member its representative, and a
   table giving the data of a representative.

   Values are `usize` (ToUniqueIndex/FromUniqueIndex are the identity), modelled as N.
   The data type is a Section variable `D` with `combine` and `ident` (Combine::combine / Combine::identity).
   `sets()` uses `Data::default()`; the model uses `ident` for it: for every Combine instance in the
   crate (HashSet, Option) and in the harness (multiset) Default::default() == Combine::identity().

   `find` is recursive on a non-structural argument in Rust; here it is fuelled, with the distinct
   result `Err OutOfFuel`.  The operations pass `find_fuel s` (backing-vector length + 2); DsuProofs
   proves that this is always sufficient (`ds_step` never returns `Err OutOfFuel` on reachable states).

   `insert_guarded` selects between the two known bodies of `DisjointSet::insert`:
     false: `self.reps.insert(&value.clone(), value)`                 -- unconditional (pinned code)
     true:  the same, but only when `self.reps.get(&value).is_none()` -- re-insert is a no-op
   The correspondence run determines which one the code has (harness probe). *)
From SLX Require Import Base VectorMap.
Open Scope N_scope.

Inductive ds_err := OutOfFuel.

Section DisjointSet.
  Variable D : Type.
  Variable combine : D -> D -> D.
  Variable ident : D.
  Variable insert_guarded : bool.

  Record dsu := mk_dsu { reps : vmap N; data : vmap D }.

  Definition res (A : Type) := outcome A ds_err.

  (* new / with_capacity / default *)
  Definition ds_new : dsu := mk_dsu vm_new vm_new.

  Definition ds_insert (s : dsu) (v : N) : dsu :=
    if insert_guarded && (match vm_get (reps s) v with Some _ => true | None => false end) then s
    else mk_dsu (vm_insert (reps s) v v) (data s).

  (* find: parent lookup; self-parent = root; otherwise recurse on the parent and re-point `value` at the
     root found (path compression); an unknown value is inserted as its own root and looked up again *)
  Fixpoint ds_find (fuel : nat) (s : dsu) (v : N) : res (N * dsu) :=
    match fuel with
    | O => Err OutOfFuel
    | S f =>
        match vm_get (reps s) v with
        | Some rep =>
            if rep =? v then Ok (v, s)
            else match ds_find f s rep with
                 | Ok (r, s') => Ok (r, mk_dsu (vm_insert (reps s') v r) (data s'))
                 | Err e => Err e
                 | Panic p => Panic p
                 end
        | None => ds_find f (mk_dsu (vm_insert (reps s) v v) (data s)) v
        end
    end.

  Definition find_fuel (s : dsu) : nat := length (vm_data (reps s)) + 2.
  Definition ds_find_top (s : dsu) (v : N) : res (N * dsu) := ds_find (find_fuel s) s v.

  Definition or_ident (o : option D) : D := match o with Some d => d | None => ident end.

  Definition ds_union (s : dsu) (v1 v2 : N) : res dsu :=
    match ds_find_top s v1 with
    | Ok (r1, s1) =>
        match ds_find_top s1 v2 with
        | Ok (r2, s2) =>
            if r1 =? r2 then Ok s2
            else
              let v1_val := or_ident (vm_get (data s2) r1) in
              match vm_remove (data s2) r2 with
              | Ok (dm, o2) =>
                  Ok (mk_dsu (vm_insert (reps s2) r2 r1) (vm_insert dm r1 (combine v1_val (or_ident o2))))
              | Err e => Err e
              | Panic p => Panic p
              end
        | Err e => Err e
        | Panic p => Panic p
        end
    | Err e => Err e
    | Panic p => Panic p
    end.

  Definition ds_add_data (s : dsu) (v : N) (d : D) : res dsu :=
    match ds_find_top s v with
    | Ok (root, s1) =>
        match vm_remove (data s1) root with
        | Ok (dm, prev) => Ok (mk_dsu (reps s1) (vm_insert dm root (combine (or_ident prev) d)))
        | Err e => Err e
        | Panic p => Panic p
        end
    | Err e => Err e
    | Panic p => Panic p
    end.

  Definition ds_get_data (s : dsu) (v : N) : res (dsu * option D) :=
    match ds_find_top s v with
    | Ok (root, s1) => Ok (s1, vm_get (data s1) root)
    | Err e => Err e
    | Panic p => Panic p
    end.

  Definition ds_set_data (s : dsu) (v : N) (d : D) : res dsu :=
    match ds_find_top s v with
    | Ok (root, s1) => Ok (mk_dsu (reps s1) (vm_insert (data s1) root d))
    | Err e => Err e
    | Panic p => Panic p
    end.

  (* sets: `reps.iter().filter(|(k, v)| *k == v.index()).map(|(k, _)| data.get(k).cloned() or
     { data.insert(k, default); default })`: roots in increasing index order; a root without data
     gets Data::default() stored *)
  Fixpoint sets_fold (roots : list N) (dm : vmap D) : vmap D * list (N * D) :=
    match roots with
    | [] => (dm, [])
    | k :: t =>
        match vm_get dm k with
        | Some d => let '(dm', l) := sets_fold t dm in (dm', (k, d) :: l)
        | None => let '(dm', l) := sets_fold t (vm_insert dm k ident) in (dm', (k, ident) :: l)
        end
    end.

  Definition root_keys (l : list (N * N)) : list N := map fst (filter (fun p => fst p =? snd p) l).

  Definition ds_sets (s : dsu) : dsu * list (N * D) :=
    let '(dm, l) := sets_fold (root_keys (vm_iter (reps s))) (data s) in (mk_dsu (reps s) dm, l).

  Definition ds_values (s : dsu) : list N := vm_indices (reps s).

  (* ---------------------------------------------------------------------------------------- *)
  Inductive dop :=
  | DInsert (v : N) | DFind (v : N) | DUnion (a b : N) | DAdd (v : N) (d : D) | DGet (v : N)
  | DSet (v : N) (d : D) | DSets | DValues.

  Inductive dout :=
  | DoUnit | DoFind (r : N) | DoData (o : option D) | DoSets (l : list (N * D)) | DoValues (l : list N).

  Definition lift {A} (r : res A) (f : A -> dsu * dout) : res (dsu * dout) :=
    match r with Ok a => Ok (f a) | Err e => Err e | Panic p => Panic p end.

  Definition ds_step (s : dsu) (op : dop) : res (dsu * dout) :=
    match op with
    | DInsert v => Ok (ds_insert s v, DoUnit)
    | DFind v => lift (ds_find_top s v) (fun p => (snd p, DoFind (fst p)))
    | DUnion a b => lift (ds_union s a b) (fun s' => (s', DoUnit))
    | DAdd v d => lift (ds_add_data s v d) (fun s' => (s', DoUnit))
    | DGet v => lift (ds_get_data s v) (fun p => (fst p, DoData (snd p)))
    | DSet v d => lift (ds_set_data s v d) (fun s' => (s', DoUnit))
    | DSets => let '(s', l) := ds_sets s in Ok (s', DoSets l)
    | DValues => Ok (s, DoValues (ds_values s))
    end.

  Fixpoint ds_run_from (s : dsu) (ops : list dop) : res (dsu * list dout) :=
    match ops with
    | [] => Ok (s, [])
    | op :: t =>
        match ds_step s op with
        | Ok (s', o) =>
            match ds_run_from s' t with
            | Ok (s'', os) => Ok (s'', o :: os)
            | Err e => Err e
            | Panic p => Panic p
            end
        | Err e => Err e
        | Panic p => Panic p
        end
    end.
  Definition ds_run (ops : list dop) : res (dsu * list dout) := ds_run_from ds_new ops.

  (* ------------------------------------------------------------------------------------------
     Abstract specification: the naive partition model.
       a_tbl  : member  -> representative of its set   (finite map; its keys are the members)
       a_data : representative -> data of its set       (finite map; absent = no data yet)
     An operation naming a value that is not a member first makes it a singleton set (all of
     find/union/add_data/get_data/set_data do that in the implementation).  `union a b` keeps the
     representative of a's set.  Inserting an existing member changes nothing. *)
  Record astate := mk_a { a_tbl : fmap N; a_data : fmap D }.

  Definition a_new : astate := mk_a [] [].

  Definition a_touch (a : astate) (v : N) : astate :=
    match fm_get v (a_tbl a) with
    | Some _ => a
    | None => mk_a (fm_insert v v (a_tbl a)) (a_data a)
    end.

  Definition a_rep (a : astate) (v : N) : N :=
    match fm_get v (a_tbl a) with Some r => r | None => v end.

  Definition a_set_class_data (a : astate) (r : N) (d : D) : astate :=
    mk_a (a_tbl a) (fm_insert r d (a_data a)).

  Definition a_union (a : astate) (x y : N) : astate :=
    let a1 := a_touch (a_touch a x) y in
    let r1 := a_rep a1 x in
    let r2 := a_rep a1 y in
    if r1 =? r2 then a1
    else
      let d := combine (or_ident (fm_get r1 (a_data a1))) (or_ident (fm_get r2 (a_data a1))) in
      mk_a (map (fun p => (fst p, if snd p =? r2 then r1 else snd p)) (a_tbl a1))
           (fm_insert r1 d (fm_remove r2 (a_data a1))).

  (* the representatives, in key order, each with its data (identity when none); enumerating records
     the identity as the data of a set that had none *)
  Fixpoint a_sets_fold (roots : list N) (dt : fmap D) : fmap D * list (N * D) :=
    match roots with
    | [] => (dt, [])
    | k :: t =>
        match fm_get k dt with
        | Some d => let '(dt', l) := a_sets_fold t dt in (dt', (k, d) :: l)
        | None => let '(dt', l) := a_sets_fold t (fm_insert k ident dt) in (dt', (k, ident) :: l)
        end
    end.

  Definition a_step (a : astate) (op : dop) : astate * dout :=
    match op with
    | DInsert v => (a_touch a v, DoUnit)
    | DFind v => let a1 := a_touch a v in (a1, DoFind (a_rep a1 v))
    | DUnion x y => (a_union a x y, DoUnit)
    | DAdd v d =>
        let a1 := a_touch a v in
        let r := a_rep a1 v in
        (a_set_class_data a1 r (combine (or_ident (fm_get r (a_data a1))) d), DoUnit)
    | DGet v => let a1 := a_touch a v in (a1, DoData (fm_get (a_rep a1 v) (a_data a1)))
    | DSet v d => let a1 := a_touch a v in (a_set_class_data a1 (a_rep a1 v) d, DoUnit)
    | DSets => let '(dt, l) := a_sets_fold (root_keys (a_tbl a)) (a_data a) in (mk_a (a_tbl a) dt, DoSets l)
    | DValues => (a, DoValues (map fst (a_tbl a)))
    end.

  Fixpoint a_run_from (a : astate) (ops : list dop) : astate * list dout :=
    match ops with
    | [] => (a, [])
    | op :: t => let '(a', o) := a_step a op in let '(a'', os) := a_run_from a' t in (a'', o :: os)
    end.
  Definition a_run (ops : list dop) : astate * list dout := a_run_from a_new ops.

  (* The class of histories on which the unguarded `insert` departs from the partition model: some
     `insert v` names a value that is, at that moment, a member but not the representative of its set
     (the pinned code then makes v a root again: v -- and whatever hangs below it in the forest --
     silently leaves its set and loses the set's data).  `hist_ok` = the history is outside that class. *)
  Definition op_ok (a : astate) (op : dop) : bool :=
    match op with
    | DInsert v => match fm_get v (a_tbl a) with Some r => r =? v | None => true end
    | _ => true
    end.

  Fixpoint hist_ok_from (a : astate) (ops : list dop) : bool :=
    match ops with
    | [] => true
    | op :: t => op_ok a op && hist_ok_from (fst (a_step a op)) t
    end.
  Definition hist_ok (ops : list dop) : bool := hist_ok_from a_new ops.
End DisjointSet.

Arguments mk_dsu {D}.
Arguments reps {D}.
Arguments data {D}.
Arguments mk_a {D}.
Arguments a_tbl {D}.
Arguments a_data {D}.
Arguments DInsert {D}.
Arguments DFind {D}.
Arguments DUnion {D}.
Arguments DAdd {D}.
Arguments DGet {D}.
Arguments DSet {D}.
Arguments DSets {D}.
Arguments DValues {D}.
Arguments DoUnit {D}.
Arguments DoFind {D}.
Arguments DoData {D}.
Arguments DoSets {D}.
Arguments DoValues {D}.
