(* usize helpers used by the packing lifting passes (src/tc/lift/{sub_word,mul_shifted,packed_encoding}.rs)
   and by the generated anchors gen/PackingAnchors.v.  Definitions only; lemmas in proofs/PassesPackingProofs.v.
   `usize` is 64 bits; overflow-checks are on in every profile, so `a + b` panics on overflow
   (Word256.usize_add), `checked_add` returns None, `saturating_add` clamps to usize::MAX. *)
From SLX Require Import Base Word256.
Open Scope N_scope.

Definition usize_max : N := two64 - 1.
Definition usize_checked_add (a b : N) : option N := if a + b <? two64 then Some (a + b) else None.
Definition usize_saturating_add (a b : N) : N := if a + b <? two64 then a + b else usize_max.

(* panic sites of the three passes *)
Definition SITE_SW_OFFSET_ADD : N := 7001.      (* sub_word.rs: `offset + shift` (pinned text) *)
Definition SITE_SW_END_ADD : N := 7002.         (* sub_word.rs: `offset + length` (variant text) *)
Definition SITE_PE_SHIFT_NON_SUBWORD : N := 7003. (* packed_encoding.rs: panic!("Shift of non-sub-word") *)
Definition SITE_PE_UNREACHABLE : N := 7004.     (* packed_encoding.rs: unreachable!("Element was of impossible type") *)
Definition SITE_PE_LAST_ADD : N := 7005.        (* packed_encoding.rs: `offset + size` (pinned text) *)
Definition SITE_PE_REGION_SUB : N := 7006.      (* sub_word.rs: `WORD_SIZE_BITS - offset` in get_region *)

(* outcome plumbing *)
Definition obind {A B} (o : outcome A unit) (f : A -> outcome B unit) : outcome B unit :=
  match o with Ok a => f a | Err e => Err e | Panic s => Panic s end.

Section MapM.
  Context {A B : Type}.
  Variable f : A -> outcome B unit.
  (* left to right; the first failure wins (Rust evaluates the fields of a rebuilt node in order) *)
  Fixpoint mapM (l : list A) : outcome (list B) unit :=
    match l with
    | [] => Ok []
    | x :: r => match f x with
                | Ok y => match mapM r with Ok ys => Ok (y :: ys) | Err e => Err e | Panic s => Panic s end
                | Err e => Err e
                | Panic s => Panic s
                end
    end.
End MapM.
