(* C02 end to end: the vocabulary of props/C02_e2e.v.  Definitions only; proofs are in proofs/PipelineRename.v.

   The type checker on a list of LIFTED values, every iteration-order point a parameter:
     tc_front names vals        assign_vars on `vals` in the given order, then the rules `names` (a list of rule names,
                                applied in that order) on every registered value: the state handed to unification
     tc_run names o arr r vals  .. then `PipelineOrderDefs.back_run`: unification::unify under the hash-order hooks `o`
                                (r rounds of fuel), then the layout loop over the constant storage slots in the order
                                `arr` leaves the values in
   and with the lifting in front, on the list of values COLLECTED from the retired VM states:
     analyze_gen keccak table names o arr r collected
                                `unique`, the nine passes on every value (a failed pass = PErrLift), tc_run on the lifted
                                values in reverse collection order -- exactly what `Pipeline.analyze_plain` does with them
                                (`analyze_plain_is_gen`: analyze_plain under MSorted is analyze_gen under the sorted rule
                                names, the sorted hooks, the identity arrangement and `all_values MSorted stored`). *)
From Coq Require Import String.
From SLX Require Import Base gen.Constants gen.ValueSig gen.RulesSig SymVal TypeExpr Merge VectorMap DisjointSet Register Rules Unify
  UnifyOrder AbiT Layout Abi NoPanic Pipeline PipelineOrderDefs.
Open Scope N_scope.

Definition tc_front (names : list string) (vals : list sv) : outcome tcs unit :=
  infer_all (map rule_named names) (snd (assign_vars vals)).

Definition tc_run (names : list string) (o : orders) (arr : list tsv -> list tsv) (rounds : nat) (vals : list sv)
  : pipeline_result :=
  match tc_front names vals with
  | Ok s => back_run o arr rounds s
  | Err _ => PErrInfer
  | Panic p => PPanic p
  end.

Definition analyze_gen (keccak : list byte -> N) (table : list (N * N)) (names : list string) (o : orders)
    (arr : list tsv -> list tsv) (rounds : nat) (collected : list sv) : pipeline_result :=
  match fold_e (lift_body keccak table) (unique collected) ([], false) with
  | inr e => e
  | inl (acc, failed) => if failed : bool then PErrLift else tc_run names o arr rounds (rev acc)
  end.
