(* Correspondence + property evaluation for the packing lifting passes (support suite of C04 / C12).
   Each case carries a pass, an input tree and what the REAL pass returned for it (harness/src/cmd_lift_packing.rs),
   plus -- for ground-truth inputs -- the (offset, size) pairs the generator packed, which are independent of the model.
     0      fine
     1..9   model and implementation disagree (or the input is not a valid case)
              1  the model computes another tree        2  the model panics, the implementation does not
              3  the implementation panics on an input outside the hypothesis of packing_no_panic (an ill-formed
                 Shifted node in the input) and the model does NOT panic     9  constant out of range (generator)
     >= 10  the property predicate, evaluated on the implementation's own output, fails
             10  a created SubWord has size 0 or ends beyond bit 256
             11  the pass panicked on an input inside the hypothesis of packing_no_panic
             12  a created Shifted has offset >= 256
             13  a created Packed has a span that ends beyond bit 256
             14  a created Packed has unordered or overlapping spans
             15  a ground-truth packing / mask was not recovered with exactly its (offset, size) pairs
             16  the pass returned Err
             17  a created Shifted does not wrap a SubWord *)
From SLX Require Import Base Word256 PackingArith gen.ValueSig SymVal Fold PassesPacking.
Open Scope N_scope.

Inductive pres := POk (out : sv) | PErr | PPanic.
Inductive pexpect := ENone | EPacked (attrs : list N) | ESubWord (o n : N).
Record pcase := mk_pcase { p_pass : pass; p_in : sv; p_res : pres; p_expect : pexpect }.

(* signature of a lifted node: constructor, payload, (for one child) whether the child is a SubWord *)
Definition lsig : Type := (N * list N * bool)%type.
(* a node of the result counts as CREATED by the pass when no node of the input has its constructor and payload (the
   children of an input node may change under it: `Shifted [296] [x & 0xff]` stays the input's node) *)
Definition lsig_eqb (x y : lsig) : bool :=
  (fst (fst x) =? fst (fst y)) && list_eqb N.eqb (snd (fst x)) (snd (fst y)).

Fixpoint lifted_nodes (v : sv) : list lsig :=
  match v with
  | Node t a args =>
      (if is_lifted t then [(tag_idx t, a, match args with [c] => is_subword c | _ => false end)] else [])
      ++ flat_map lifted_nodes args
  end.

(* each span ends inside the word (ordering aside) *)
Fixpoint spans_end_ok (a : list N) : bool :=
  match a with
  | [] => true
  | o :: n :: r => (o + n <=? 256) && spans_end_ok r
  | _ => false
  end.

Definition sig_code (s : lsig) : N :=
  let '(ti, a, sub) := s in
  if ti =? tag_idx T_SubWord then (if subword_ok a then 0 else 10)
  else if ti =? tag_idx T_Shifted then (if negb (shifted_ok a) then 12 else if negb sub then 17 else 0)
  else (if negb (spans_end_ok a) then 13 else if negb (spans_ok 0 a) then 14 else 0).

Fixpoint first_code (l : list N) : N :=
  match l with [] => 0 | c :: r => if c =? 0 then first_code r else c end.

Definition created_code (i o : sv) : N :=
  let old := lifted_nodes i in
  first_code (map (fun s => if existsb (lsig_eqb s) old then 0 else sig_code s) (lifted_nodes o)).

Definition expect_ok (e : pexpect) (o : sv) : bool :=
  match e with
  | ENone => true
  | EPacked attrs =>
      match o with
      | Node T_StorageWrite [] [_; Node T_Packed a kids] =>
          list_eqb N.eqb a attrs && Nat.eqb (2 * length kids) (length attrs)
      | _ => false
      end
  | ESubWord off n =>
      match o with Node T_SubWord [a; b] [_] => (a =? off) && (b =? n) | _ => false end
  end.

(* inside the hypothesis of packing_no_panic? *)
Definition no_panic_hyp (p : pass) (i : sv) : bool :=
  match p with
  | P_sub_word | P_mul_shifted => true
  | P_packed_encoding | P_packing3 => shifted_wf i
  end.

Definition check_case (c : pcase) : N :=
  let i := p_in c in
  if negb (wfb i) then 9
  else
    let m := run_pass (p_pass c) i in
    match p_res c with
    | PErr => 16
    | PPanic => if no_panic_hyp (p_pass c) i then 11 else if is_panic m then 0 else 3
    | POk o =>
        let cc := created_code i o in
        if negb (cc =? 0) then cc
        else if negb (expect_ok (p_expect c) o) then 15
        else match m with
             | Ok mo => if sv_eqb o mo then 0 else 1
             | _ => 2
             end
    end.
