(* C02: classification of an observed dependence on iteration order by the MODEL of unification.
   The known classes (merge's non-associativity K1/K2; order dependence around packed encodings) are properties of
   the evidence a class holds when it is folded.  OrderCases.v looks at the evidence of the initial classes only;
   here the rounds of the model of `unify` are run (sorted and reversed orders) and the evidence of every class at
   the beginning of every round is examined, so evidence that only meets after component equalities / pushed-down
   judgements of earlier rounds is seen as well.  Definitions only. *)
From Coq Require Import String.
From SLX Require Import Base TypeExpr Merge DisjointSet Unify OrderCases.
Open Scope N_scope.

(* the left fold of `unify` over a whole evidence list *)
Fixpoint fold_ev (cur : te) (rest : list te) (p : tyvar) (n : N) (e0 : list (tyvar * tyvar)) (j0 : list (tyvar * te)) : comb :=
  match rest with
  | [] => Ok (mk_cres cur e0 j0)
  | e :: r =>
      match merge cur e p n with
      | Ok m => fold_ev (expr m) r p (next m) (e0 ++ eqs m) (j0 ++ judg m)
      | Err x => Err x
      | Panic s => Panic s
      end
  end.
Definition fold_list (l : list te) (p : tyvar) (n : N) : comb :=
  match l with [] => Ok (mk_cres Any [] []) | a :: r => fold_ev a r p n [] [] end.

Fixpoint inserts {A} (x : A) (l : list A) : list (list A) :=
  match l with
  | [] => [[x]]
  | y :: r => (x :: l) :: map (cons y) (inserts x r)
  end.
Fixpoint perms {A} (l : list A) : list (list A) :=
  match l with [] => [[]] | x :: r => flat_map (inserts x) (perms r) end.

(* whole-list order independence, for evidence lists of at most five pieces (120 orders) *)
Definition list_orders_agree (ev : list te) : bool :=
  if Nat.ltb 5 (length ev) then true
  else match perms ev with
       | [] => true
       | p0 :: ps => let r0 := fold_list p0 0 100000 in forallb (fun q => comb_equivb r0 (fold_list q 0 100000)) ps
       end.

Definition class_code (ev : iset) : N :=
  let ev := dedup_te ev in
  if evidence_known_nonassoc ev then 1
  else if existsb is_packed ev && (packed_order_dependent ev || negb (list_orders_agree ev)) then 2
  else 0.

Fixpoint first_nz (l : list N) : N := match l with [] => 0 | 0 :: r => first_nz r | x :: _ => x end.

Definition state_code (s : dsu iset) : N :=
  let '(_, sets) := ds_sets iset iset_ident s in first_nz (map (fun p => class_code (snd p)) sets).

Fixpoint scan (o : orders) (k rnd : nat) (s : dsu iset) (nxt : N) : N :=
  match state_code s with
  | 0 => match k with
         | O => 0
         | S k' => match round ds_forest o rnd s nxt with
                   | Ok (s1, n1, true) => scan o k' (S rnd) s1 n1
                   | _ => 0
                   end
         end
  | c => c
  end.

Definition scan_from (o : orders) (k : nat) (st : tstate) : N :=
  match init_forest ds_forest o st with Ok s0 => scan o k 0 s0 (ts_next st) | _ => 0 end.

Definition to_tstate (j : judgements) : tstate :=
  mk_tstate j (1 + fold_left N.max (map fst j ++ flat_map (fun p => flat_map te_vars (snd p)) j) 0).

(* 1 = K1/K2 evidence meets in some class at some round; 2 = packed order dependence; 0 = neither (within 12 rounds) *)
Definition order_class_unify (j : judgements) : N :=
  let st := to_tstate j in
  match scan_from orders_sorted 12 st with
  | 0 => scan_from orders_sorted_rev 12 st
  | c => c
  end.

Definition order_class_code2 (x : xjudgements) : N :=
  match order_class_code_x x with
  | 0 => order_class_unify (conv_j x)
  | c => c
  end.
