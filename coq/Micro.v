(* Micro-operations: the straight-line statement language into which the translator (T9,
   tools/tr_opsem.py) reads the `execute` bodies of the regular opcodes.  Variables are numbered
   by the translator in order of first binding. *)
From SLX Require Import Base gen.ValueSig.
Open Scope N_scope.

Inductive mop :=
| MPop (x : N) (fold : bool)            (* let x = stack.pop()?  [.constant_fold()] *)
| MBuild (x : N) (t : tag) (args : list N)   (* vm.build().symbolic_exec(ip, RSVD::T { .. }) -- culled at the size limit *)
| MCallData (x a b : N)                 (* symbolic_exec(ip, RSVD::call_data(a, b)) -- consumes a fresh id *)
| MConst (x : N) (w : N)                (* vm.build().known / known_exec / symbolic(new_known(..)) of a literal *)
| MConstIp (x : N)                      (* KnownWord::from_le(instruction_pointer) *)
| MConstCodeSize (x : N)                (* KnownWord::from(vm.instructions().len()) *)
| MConstSelfWord (x : N)                (* PushN: self.bytes_as_word() *)
| MFresh (x : N)                        (* RSV::new_value(ip, _) -- not culled, consumes a fresh id *)
| MPush (x : N)
| MRecord (x : N)
| MLog (x : N)
| MKill
| MLoadSlice (x a b : N)                (* memory.load_slice(&a, &b, ip) *)
| MMemLoad (x a : N)
| MMemStore (a v : N)
| MMemStore8 (a v : N)
| MSLoad (x k : N) (limited : bool)    (* storage.load(&k) / storage.load_with_limit(&k, Some(limit)) *)
| MSStore (k v : N)
| MStoreReturnData (size off : N)       (* store_return_data(&size, &off, vm)? *)
| MDupSelf (minus_one : bool)           (* DupN: stack.dup(u32::from(self.n()) - 1) *)
| MSwapSelf.                            (* SwapN: stack.swap(u32::from(self.n())) *)
