(* The value trees that compiler-style packing code builds (the ground truth of C04's `lift_packed` stage):
   a field value masked to its width, shifted into position by a multiplication with 2^o or by a left shift,
   or-ed together under a storage write; and the read-modify-write of one field with an inverted mask.
   Definitions only; the theorems are in proofs/PassesPackingProofs.v. *)
From SLX Require Import Base Word256 gen.ValueSig SymVal Fold PassesPacking.
Open Scope N_scope.

(* the source of a field's value: anything that is not itself a constant, a right shift, a mask, a read of storage
   or an already lifted sub-word (calldata words, CALLER, CALLVALUE, arithmetic on them, ...) *)
Definition plain_source (x : sv) : bool :=
  negb (existsb (tag_eqb (sv_tag x)) [T_KnownData; T_RightShift; T_Divide; T_SLoad; T_And; T_SubWord])
  && match as_word (constant_fold x) with None => true | Some _ => false end.

(* `x & (2^n - 1)`, either operand order *)
Definition masked (mask_left : bool) (x : sv) (n : N) : sv :=
  if mask_left then Node T_And [] [Known (2 ^ n - 1); x] else Node T_And [] [x; Known (2 ^ n - 1)].

(* how a masked value is moved to bit offset o *)
Inductive style := St_none | St_mul_r | St_mul_l | St_shl.
Definition shift_in (st : style) (o : N) (v : sv) : sv :=
  match st with
  | St_none => v                                            (* the field at offset 0 *)
  | St_mul_r => Node T_Multiply [] [v; Known (2 ^ o)]       (* v * 2^o *)
  | St_mul_l => Node T_Multiply [] [Known (2 ^ o); v]       (* 2^o * v *)
  | St_shl => Node T_LeftShift [] [Known o; v]              (* v << o *)
  end.
Definition style_ok (st : style) (o : N) : Prop := match st with St_none => o = 0 | _ => True end.

(* an or-tree of any shape whose leaves, left to right, are the shifted-in fields fs = [(offset, size); ...] *)
Inductive field_tree : sv -> list (N * N) -> Prop :=
| ft_leaf st ml o n x :
    plain_source x = true -> style_ok st o -> field_tree (shift_in st o (masked ml x n)) [(o, n)]
| ft_or l r fl fr :
    field_tree l fl -> field_tree r fr -> field_tree (Node T_Or [] [l; r]) (fl ++ fr).

Definition span_attrs (fs : list (N * N)) : list N := flat_map (fun f => [fst f; snd f]) fs.

(* ground truth: fields in ascending order, disjoint, non-empty, inside the word *)
Definition fields_ok (fs : list (N * N)) : Prop :=
  spans_ok 0 (span_attrs fs) = true /\ Forall (fun f => 0 < snd f) fs.

(* `old & ~(mask << o)`: the rest of the slot that a read-modify-write keeps, either operand order *)
Definition cleared (mask_left : bool) (key prev : sv) (o n : N) : sv :=
  let inv := Known (MAXW - (2 ^ n - 1) * 2 ^ o) in
  let old := Node T_SLoad [] [key; prev] in
  if mask_left then Node T_And [] [inv; old] else Node T_And [] [old; inv].
