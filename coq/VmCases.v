(* Cases of the `vm` suites: what VM::execute did on the real code (harness/src/cmd_vm.rs), compared
   with the model, plus the property predicates of C03 / C08 / C17 evaluated on the implementation's
   own output. *)
From Coq Require Import String.
From SLX Require Import Base gen.Constants gen.ValueSig gen.OpcodeTable SymVal Micro gen.OpcodeSem Disasm VM Fold.
Open Scope N_scope.

Inductive xrun :=
| XRun (ok : bool) (errs : list (N * N)) (states : list (vstate * list (N * N))) (jt : list (N * N))
       (retired : list (N * N)) (queued : N) (polls : N)
| XDisasmErr | XNewErr | XPanic (msg : string) | XBudget.

Record vcase := mk_vcase { c_code : list byte; c_cfg : config; c_run : xrun }.

(* ---- order-insensitive comparison of the maps ---- *)
Section SetEq.
  Context {K V : Type} (keq : K -> K -> bool) (veq : V -> V -> bool).
  Definition assoc_sub (a b : list (K * V)) : bool :=
    forallb (fun kv => existsb (fun kv' => keq (fst kv) (fst kv') && veq (snd kv) (snd kv')) b) a.
  Definition assoc_eq (a b : list (K * V)) : bool :=
    Nat.eqb (length a) (length b) && assoc_sub a b && assoc_sub b a.
End SetEq.

Definition memgen_eqb (a b : memgen) : bool := sv_eqb (fst a) (fst b) && Bool.eqb (snd a) (snd b).

Definition vstate_eqb (a b : vstate) : bool :=
  (fork_point a =? fork_point b)
  && list_eqb sv_eqb (stack a) (stack b)
  && assoc_eq N.eqb (list_eqb memgen_eqb) (mem_const a) (mem_const b)
  && assoc_eq sv_eqb (list_eqb memgen_eqb) (mem_sym a) (mem_sym b)
  && assoc_eq sv_eqb (list_eqb sv_eqb) (sto_known a) (sto_known b)
  && assoc_eq sv_eqb (list_eqb sv_eqb) (sto_sym a) (sto_sym b)
  && list_eqb sv_eqb (recorded a) (recorded b)
  && list_eqb sv_eqb (logged a) (logged b).

Definition stored_eqb (a b : vstate * list (N * N)) : bool :=
  vstate_eqb (fst a) (fst b) && assoc_eq N.eqb N.eqb (snd a) (snd b).

Definition pair_eqb (a b : N * N) : bool := (fst a =? fst b) && (snd a =? snd b).

Definition model_run (code : list instr) (cfg : config) : exec_result :=
  run_p constant_fold (2 ^ 40)%positive (init_vm code cfg).

Definition model_errors (r : exec_result) : list (N * N) :=
  match r with
  | RDone m => map (fun e => (fst e, err_idx (snd e))) (v_errors m)
  | RStopped ip _ => [(ip, err_idx EStoppedByWatchdog)]
  | ROutOfFuel _ => []
  end.
Definition result_vm (r : exec_result) : vm :=
  match r with RDone m | RStopped _ m | ROutOfFuel m => m end.

(* 0 = agrees; 1..9 = where model and implementation differ *)
Definition corr_code (c : vcase) : N :=
  match try_from (c_code c), c_run c with
  | Ok code, XRun ok errs states jt retired queued polls =>
      let r := model_run code (c_cfg c) in
      let m := result_vm r in
      match r with ROutOfFuel _ => 9 | _ =>
      if negb (list_eqb pair_eqb (model_errors r) errs) then 2
      else if negb (Bool.eqb ok (match model_errors r with [] => true | _ => false end)) then 2
      else if negb (list_eqb stored_eqb (v_stored m) states) then 3
      else if negb (assoc_eq N.eqb N.eqb (v_jt m) jt) then 4
      else if negb (list_eqb pair_eqb (v_retired m) retired) then 5
      else if negb (N.of_nat (length (v_queue m)) =? queued) then 6
      else if negb (v_polls m =? polls) then 7
      else 0
      end
  | Err _, XDisasmErr => 0
  | _, _ => 1
  end.

(* ---- C03: execution bounds, evaluated on the implementation's output ---- *)
Definition count_jumpdests (code : list instr) : N :=
  N.of_nat (length (filter is_jumpdest code)).
Definition max_gas (code : list instr) : N := fold_left N.max (map instr_gas code) 0.

Definition c03_code (c : vcase) : N :=
  match try_from (c_code c), c_run c with
  | Ok code, XRun ok errs states jt retired queued polls =>
      let cfg := c_cfg c in
      if negb (forallb (fun st => forallb (fun p => snd p <=? iter_limit cfg) (snd st)) states) then 20
      else if negb (forallb (fun p => snd p <=? fork_limit cfg) jt) then 21
      else if negb (N.of_nat (length states) + queued <=? 1 + fork_limit cfg * count_jumpdests code) then 22
      else if negb (forallb (fun p => snd p <=? gas_limit cfg + max_gas code) retired) then 23
      else if negb (match stop_at cfg with None => queued =? 0 | Some _ => true end) then 25
      else 0
  | _, XBudget => 24
  | _, XPanic _ => 26
  | _, _ => 0
  end.

Definition check_c03 (c : vcase) : N := match c03_code c with 0 => corr_code c | n => n end.

(* ---- C17: strict / permissive, evaluated on the implementation's output ---- *)
From SLX Require Import AbiT.

Record c17case := mk_c17case {
  k_code : list byte; k_lim : limits;
  k_strict : xrun; k_perm : xrun;          (* VM::execute in both modes *)
  k_astrict : xa; k_aperm : xa }.          (* the whole analysis in both modes *)

Definition jump_err_idx (k : N) : bool := (k =? 5) || (k =? 6) || (k =? 7) || (k =? 8).

Definition c17_code (c : c17case) : N :=
  match try_from (k_code c), k_strict c, k_perm c with
  | Ok code, XRun ok1 e1 s1 jt1 r1 q1 p1, XRun ok2 e2 s2 jt2 r2 q2 p2 =>
      let len := N.of_nat (length code) in
      if negb (Bool.eqb ok1 (match e1 with [] => true | _ => false end)) then 30
      else if negb (Bool.eqb ok2 (match e2 with [] => true | _ => false end)) then 30
      else if negb (forallb (fun e => fst e <? len) (e1 ++ e2)) then 31
      else if existsb (fun e => jump_err_idx (snd e)) e2 then 32
      else if negb (list_eqb stored_eqb s1 s2 && assoc_eq N.eqb N.eqb jt1 jt2 && list_eqb pair_eqb r1 r2) then 33
      else if negb (forallb (fun e => existsb (pair_eqb e) e1) e2) then 34
      else if negb (forallb (fun e => jump_err_idx (snd e) || existsb (pair_eqb e) e2) e1) then 35
      (* 40: a thread retired with a gas account above the limit (the implementation's own retirement log) and no
         GasLimitExceeded error at that instruction in the error list -- in either mode: it is not a jump-target error *)
      else if negb (forallb (fun p => negb (gas_limit (k_lim c) <? snd p) || existsb (pair_eqb (fst p, 9)) e1) r1) then 40
      else if negb (forallb (fun p => negb (gas_limit (k_lim c) <? snd p) || existsb (pair_eqb (fst p, 9)) e2) r2) then 40
      else if (xa_class (k_astrict c) =? 0)
              && negb ((xa_class (k_aperm c) =? 0) && list_eqb entry_eqb (xa_layout (k_astrict c)) (xa_layout (k_aperm c))) then 36
      else if (xa_class (k_astrict c) =? 2) || (xa_class (k_aperm c) =? 2) then 37
      else 0
  | Ok _, XPanic _, _ | Ok _, _, XPanic _ => 37
  | _, _, _ => 0
  end.

Definition check_c17 (c : c17case) : N :=
  match c17_code c with
  | 0 => match corr_code (mk_vcase (k_code c) (mk_config' (k_lim c) false) (k_strict c)) with
         | 0 => corr_code (mk_vcase (k_code c) (mk_config' (k_lim c) true) (k_perm c))
         | n => n end
  | n => n
  end.
