(* Correspondence and stage-property evaluation for the type-checker stages between lifting and the layout:
   registration (harness `register`), the inference rules (`rules`), abi_type_for + the layout loop (`abi`), and
   the class dump of a whole run (`tc-classes`).

   Every check returns 0 = fine; 1..9 = model and implementation disagree (a correspondence obligation);
   >= 10 = a stage property, evaluated on the implementation's own output, fails. *)
From Coq Require Import String.
From SLX Require Import Base Word256 gen.Constants gen.ValueSig gen.WordUseTable gen.RulesSig SymVal TypeExpr AbiT Layout
  Register Rules Abi.
Open Scope string_scope.
Open Scope list_scope.
Open Scope N_scope.

(* ------------------------------------------------------------------------------------------------ register *)
Inductive vt := VT (v : tyvar) (kids : list vt).
Definition vt_var (x : vt) : tyvar := match x with VT v _ => v end.
Definition vt_kids (x : vt) : list vt := match x with VT _ k => k end.

Inductive rres :=
| RR (count vars : N) (roots : list vt) (table : list (tyvar * tag * list tyvar))
| RPanic.
Inductive rcase := RC (inputs : list sv) (res : rres).

(* the model's typed tree in the shape the harness prints (children() order) *)
Fixpoint vtree (x : tsv) : vt :=
  match x with
  | TN v t _ args =>
      let kids := map vtree args in
      VT v (match field_perm (children_fields t) t with
            | None => kids
            | Some ix => map (fun i => nth i kids (VT 0 [])) ix
            end)
  end.

Fixpoint vt_eqb (a b : vt) : bool :=
  match a, b with
  | VT v k, VT w l =>
      (v =? w) && ((fix go (x y : list vt) : bool :=
                      match x, y with
                      | [], [] => true
                      | p :: x', q :: y' => vt_eqb p q && go x' y'
                      | _, _ => false
                      end) k l)
  end.

Definition row_eqb (a b : tyvar * tag * list tyvar) : bool :=
  (fst (fst a) =? fst (fst b)) && tag_eqb (snd (fst a)) (snd (fst b)) && list_eqb N.eqb (snd a) (snd b).

Definition model_table (st : tcs) : list (tyvar * tag * list tyvar) :=
  map (fun x => (tv_of x, ttag x, map vt_var (vt_kids (vtree x)))) (values st).

Fixpoint find_row3 (tbl : list (tyvar * tag * list tyvar)) (v : tyvar) : option (tag * list tyvar) :=
  match tbl with
  | [] => None
  | (w, t, ks) :: r => if w =? v then Some (t, ks) else find_row3 r v
  end.

(* every sub-term of the registered value has a variable whose table row has the sub-term's constructor and
   the variables of its children *)
Fixpoint covered (tbl : list (tyvar * tag * list tyvar)) (x : vt) (v : sv) : bool :=
  match x with
  | VT w kids =>
      match find_row3 tbl w with
      | Some (t, ks) =>
          tag_eqb t (sv_tag v) && list_eqb N.eqb ks (map vt_var kids) &&
          Nat.eqb (length kids) (length (children v)) &&
          ((fix go (l : list vt) (cs : list sv) : bool :=
              match l, cs with
              | [], _ => true
              | k :: l', c :: cs' => covered tbl k c && go l' cs'
              | _ :: _, [] => false
              end) kids (children v))
      | None => false
      end
  end.

(* (sub-term, variable) for every occurrence *)
Fixpoint occurrences (x : vt) (v : sv) : list (sv * tyvar) :=
  match x with
  | VT w kids =>
      (v, w) :: (fix go (l : list vt) (cs : list sv) : list (sv * tyvar) :=
                   match l, cs with
                   | k :: l', c :: cs' => occurrences k c ++ go l' cs'
                   | _, _ => []
                   end) kids (children v)
  end.

(* hand-written statement of "stably typed" for the property predicate (independent of gen stable_tags) *)
Fixpoint contains_stable (v : sv) : bool :=
  match v with
  | Node t _ args =>
      match t with T_StorageSlot | T_Value | T_CallData => true | _ => existsb contains_stable args end
  end.

Fixpoint stable_functional (l : list (sv * tyvar)) : bool :=
  match l with
  | [] => true
  | (v, w) :: r =>
      (if contains_stable v then forallb (fun p => (snd p =? w) || negb (sv_eqb (fst p) v)) r else true)
      && stable_functional r
  end.

Fixpoint count_N (x : N) (l : list N) : nat :=
  match l with [] => O | y :: r => ((if N.eqb y x then 1%nat else 0%nat) + count_N x r)%nat end.

(* a value without stable part is never shared: its variable occurs once among the roots and the child lists *)
Definition unstable_unique (roots : list vt) (tbl : list (tyvar * tag * list tyvar)) (occ : list (sv * tyvar)) : bool :=
  let places := map vt_var roots ++ flat_map (fun r => snd r) tbl in
  forallb (fun p => contains_stable (fst p) || Nat.leb (count_N (snd p) places) 1) occ.

Definition check_register (c : rcase) : N :=
  match c with
  | RC inputs RPanic => 12
  | RC inputs (RR count vars roots tbl) =>
      let '(ts, st) := assign_vars inputs in
      let occ := flat_map (fun p => occurrences (fst p) (snd p)) (combine roots inputs) in
      if negb (Nat.eqb (length roots) (length inputs)) then 4
      else if negb (forallb (fun p => covered tbl (fst p) (snd p)) (combine roots inputs)) then 10
      else if negb (stable_functional occ) then 11
      else if negb (unstable_unique roots tbl occ) then 13
      else if negb (vars =? count) then 14
      else if negb (count =? next st) then 1
      else if negb (list_eqb vt_eqb roots (map vtree ts)) then 2
      else if negb (list_eqb row_eqb tbl (model_table st)) then 3
      else 0
  end.

(* ---- the order property (register_order): registering a permuted list renames the variables ----
   `ocase`: the same values registered in two orders; perm gives, for position i of the second run, the position
   of that value in the first run.  The check builds the renaming from the var trees and verifies it is a
   bijection on the variables in use. *)
Inductive ocase := OC (inputs : list sv) (perm : list nat) (res1 res2 : rres).

Fixpoint vt_pairs (a b : vt) : list (tyvar * tyvar) :=
  match a, b with
  | VT v k, VT w l =>
      (v, w) :: (fix go (x y : list vt) : list (tyvar * tyvar) :=
                   match x, y with
                   | p :: x', q :: y' => vt_pairs p q ++ go x' y'
                   | _, _ => []
                   end) k l
  end.

Fixpoint same_shape (a b : vt) : bool :=
  match a, b with
  | VT _ k, VT _ l =>
      (fix go (x y : list vt) : bool :=
         match x, y with
         | [], [] => true
         | p :: x', q :: y' => same_shape p q && go x' y'
         | _, _ => false
         end) k l
  end.

Definition functional_pairs (l : list (tyvar * tyvar)) : bool :=
  forallb (fun p => forallb (fun q => negb (fst p =? fst q) || (snd p =? snd q)) l) l.

Definition check_order (c : ocase) : N :=
  match c with
  | OC inputs perm (RR c1 _ r1 _) (RR c2 _ r2 _) =>
      let r1p := map (fun i => nth i r1 (VT 0 [])) perm in
      if negb (Nat.eqb (length r2) (length perm)) then 4
      else if negb (c1 =? c2) then 15
      else if negb (forallb (fun p => same_shape (fst p) (snd p)) (combine r1p r2)) then 15
      else let ps := flat_map (fun p => vt_pairs (fst p) (snd p)) (combine r1p r2) in
           if functional_pairs ps && functional_pairs (map (fun p => (snd p, fst p)) ps) then 0 else 15
  | _ => 12
  end.

(* ------------------------------------------------------------------------------------------------ rules *)
Inductive ures := UR (count : N) (table : list (tyvar * list te)) | UErr (s : string) | UPanic.
Inductive ucase := UC (rule : string) (inputs : list sv) (res : ures).

Definition subset_te (a b : list te) : bool := forallb (fun e => existsb (te_eqb e) b) a.
Definition set_eq_te (a b : list te) : bool := subset_te a b && subset_te b a.

Definition rules_for (name : string) : list rule :=
  if String.eqb name "*" then default_rule_set else [rule_named name].

Definition check_rules (c : ucase) : N :=
  match c with
  | UC name inputs res =>
      let '(ts, st) := assign_vars inputs in
      match res with
      | UPanic => 12
      | UErr _ => 11
      | UR count tbl =>
          match infer_all (rules_for name) st with
          | Ok st' =>
              if negb (count =? next st') then 1
              else if negb (Nat.eqb (length tbl) (length (infs st'))) then 2
              else if forallb (fun p => match inferences_of st' (fst p) with
                                        | Some ms => set_eq_te ms (snd p)
                                        | None => false
                                        end) tbl then 0 else 2
          | _ => 3
          end
      end
  end.

(* ------------------------------------------------------------------------------------------------ abi *)
Inductive ares := AOk (l : list entry) | AErr (k : string) | APanic (m : string) | ABudget.
Inductive acase := AC (keys : list N) (js : list (tyvar * te)) (res : ares).

Definition slot_sv (k : N) : sv := Node T_StorageSlot [] [Known k].

Definition err_kind (e : abi_err) : string :=
  match e with
  | EUnificationFailure _ => "UnificationFailure"
  | EUnificationIncomplete _ => "UnificationIncomplete"
  | EInvalidInference _ _ => "InvalidInference"
  | EOutOfFuel => "OutOfFuel"
  end.

Definition e_index (e : entry) : N := fst (fst e).
Definition e_offset (e : entry) : N := snd (fst e).
Definition e_type (e : entry) : aty := snd e.
Fixpoint sorted_entries (l : list entry) : bool :=
  match l with
  | a :: ((b :: _) as r) =>
      ((e_index a <? e_index b) || ((e_index a =? e_index b) && (e_offset a <=? e_offset b))) && sorted_entries r
  | _ => true
  end.
Definition entry_in_slot (e : entry) : bool :=
  (e_offset e <? 256) && match aty_width (e_type e) with Some w => e_offset e + w <=? 256 | None => true end.

(* the classes of a prepared state: one resolved expression per variable with an inference *)
Definition classes_of (st : tcs) : list (tyvar * te) :=
  flat_map (fun p => match snd p with [e] => [(fst p, e)] | _ => [] end) (infs st).

Definition js_closed (n : N) (js : list (tyvar * te)) : bool :=
  forallb (fun j => (fst j <? n) && forallb (fun v => v <? n) (te_vars (snd j))) js.

Definition check_abi (c : acase) : N :=
  match c with
  | AC keys js res =>
      let st := snd (reg_list (map slot_sv keys) empty_tcs) in
      let closed := js_closed (next st) js in
      match apply_js js st with
      | Ok st' =>
          let model := layout_of_state st' in
          match res with
          | ABudget => 23                          (* trivial unification / abi did not finish *)
          | APanic _ => if closed then 20 else match model with Panic _ => 0 | _ => 3 end
          | AErr k => match model with Err e => if String.eqb (err_kind e) k then 0 else 2 | _ => 2 end
          | AOk l =>
              (* stage properties on the implementation's layout *)
              if negb (forallb (fun k => existsb (fun e => e_index e =? k) l) keys) then 21
              else if negb (sorted_entries l) then 24
              else if negb (forallb (fun kv => negb (wd_hyp (classes_of st') (snd kv))
                                                || forallb entry_in_slot (filter (fun e => e_index e =? fst kv) l))
                                    (flat_map (fun x => match const_slot_key x with Some k => [(k, tv_of x)] | None => [] end)
                                              (values st'))) then 22
              else match model with
                   | Ok m => if list_eqb entry_eqb m l then 0 else 1
                   | _ => 1
                   end
          end
      | _ => match res with APanic _ => if closed then 20 else 0 | _ => 3 end
      end
  end.

(* ------------------------------------------------------------------------------------------------ tc-classes *)
(* the classes reachable from every constant storage slot of a whole-pipeline run, with the returned layout *)
Inductive kcase := KC (class : N) (layout : list entry) (slots : list (N * tyvar * list (tyvar * option te))).

Definition some_classes (l : list (tyvar * option te)) : list (tyvar * te) :=
  flat_map (fun p => match snd p with Some e => [(fst p, e)] | None => [] end) l.

(* the model's abi_type_for on the dumped classes: every dumped variable has an expression; a class whose
   type_of failed has no data *)
Definition dumped_env (l : list (tyvar * option te)) : abi_env :=
  mk_env (fun v => match assoc_tv l v with Some (Some e) => Some (match e with Any => [] | _ => [e] end) | _ => None end)
         (fun v => true).

(* the hypotheses of abi_rows_in_slot, decided on the dumped classes: spans of the slot's own class start inside
   the slot, spans typed by a sized word end inside it; a sized-word class is at most 256 bits wide *)
Definition top_hyp (cls : list (tyvar * te)) (v0 : tyvar) : bool :=
  match assoc_tv cls v0 with
  | Some (Packed ts _) =>
      forallb (fun s => (s_off s <? 256) &&
                        match assoc_tv cls (s_typ s) with
                        | Some (Word (Some w) _) => s_off s + w <=? 256
                        | _ => true
                        end) ts
  | Some (Word (Some w) _) => w <=? 256
  | _ => true
  end.

Definition slot_code (layout : list entry) (s : N * tyvar * list (tyvar * option te)) : N :=
  let '(index, v0, dump) := s in
  let cls := some_classes dump in
  let rows := filter (fun e => e_index e =? index) layout in
  let model := abi_type_for abi_nested_add abi_nested_fit (dumped_env dump) (S (length dump)) v0 in
  let agrees := match model with
                | Ok a => list_eqb entry_eqb (fold_left layout_add (rows_of index a) []) rows
                | _ => false
                end in
  if forallb entry_in_slot rows then (if agrees then 0 else 5)
  else if abi_nested_fit then
    (* repaired text: nesting can no longer push a row out of the slot; a row beyond it is a violation, and it
       contradicts abi_rows_in_slot when the slot's own class satisfies that theorem's hypotheses *)
    (if top_hyp cls v0 then 77
     else if negb (forallb (fun e => e_offset e <? 256) rows) then 74 else 75)
  else if known_nested_spans cls v0 then 62          (* pinned text only: the class of former finding C12:K-nested *)
  else if wd_hyp cls v0 then 76                       (* contradicts abi_packed_offsets: model/impl mismatch *)
  else if negb (forallb (fun e => e_offset e <? 256) rows) then 74 else 75.

Definition worst (a b : N) : N :=
  let rank (x : N) := match x with 74 | 75 | 76 | 77 => 4 | 5 => 3 | 62 => 2 | 0 => 0 | _ => 1 end in
  if rank b <? rank a then a else b.

Definition c12_class_code (k : kcase) : N :=
  match k with
  | KC 0 layout slots => fold_left (fun acc s => worst acc (slot_code layout s)) slots 0
  | KC 2 _ _ => 79
  | KC _ _ _ => 0
  end.

(* ------------------------------------------------------------------------------------------------ orders (C02) *)
(* the same registered values, the rule set walked in two different orders: everything must be identical *)
Inductive rocase := RO (a b : ucase).

Definition table_eq (t1 t2 : list (tyvar * list te)) : bool :=
  Nat.eqb (length t1) (length t2) &&
  forallb (fun p => match assoc_tv t2 (fst p) with Some es => set_eq_te (snd p) es | None => false end) t1.

Definition check_rule_order (c : rocase) : N :=
  match c with
  | RO (UC _ _ (UR c1 t1)) (UC _ _ (UR c2 t2)) => if (c1 =? c2) && table_eq t1 t2 then 0 else 16
  | RO (UC _ _ UPanic) _ | RO _ (UC _ _ UPanic) => 12
  | _ => 11
  end.

(* the values registered and typed in two orders: the judgement tables must be renamings of each other.  The
   renaming is built from the model's typed trees (registered variables) and from the order in which the mapping
   rule allocates (fresh variables), then checked on the implementation's tables. *)
Inductive oucase := OU (inputs : list sv) (perm : list nat) (res1 res2 : ures).

Definition rename_span_c (rho : tyvar -> tyvar) (s : span) : span := mk_span (rho (s_typ s)) (s_off s) (s_sz s).
Definition rename_te_c (rho : tyvar -> tyvar) (e : te) : te :=
  match e with
  | Equal id => Equal (rho id)
  | FixedArray x l => FixedArray (rho x) l
  | Mapping k v => Mapping (rho k) (rho v)
  | DynamicArray x => DynamicArray (rho x)
  | Packed ts b => Packed (map (rename_span_c rho) ts) b
  | e => e
  end.

Definition allocates (x : tsv) : bool := match mapping_access_rule x 0 with Ok ro => ro_alloc ro | _ => false end.

Fixpoint index_of_var (w : tyvar) (l : list tyvar) : option nat :=
  match l with [] => None | v :: r => if v =? w then Some O else option_map S (index_of_var w r) end.

Definition assoc_or_id (l : list (tyvar * tyvar)) (w : tyvar) : tyvar := match assoc_tv l w with Some w' => w' | None => w end.

Definition check_rules_perm (c : oucase) : N :=
  match c with
  | OU inputs perm (UR c1 t1) (UR c2 t2) =>
      let vs' := map (fun i => nth i inputs (Node T_Value [0] [])) perm in
      let '(ts, st) := assign_vars inputs in
      let '(ts', st') := assign_vars vs' in
      let roots1 := map (fun i => nth i (map vtree ts) (VT 0 [])) perm in
      let reg_pairs := flat_map (fun p => vt_pairs (fst p) (snd p)) (combine roots1 (map vtree ts')) in
      let rho := assoc_or_id reg_pairs in
      let n := next st in
      let al := map tv_of (filter allocates (values st)) in
      let al' := map tv_of (filter allocates (values st')) in
      let fresh_pairs := flat_map (fun iv : nat * tyvar =>
                                     match index_of_var (rho (snd iv)) al' with
                                     | Some j => [(n + N.of_nat (fst iv), n + N.of_nat j)]
                                     | None => []
                                     end) (combine (seq 0 (length al)) al) in
      let rho_plus := assoc_or_id (reg_pairs ++ fresh_pairs) in
      if negb (c1 =? c2) then 17
      else if negb (Nat.eqb (length t1) (length t2)) then 17
      else if forallb (fun p => match assoc_tv t2 (rho_plus (fst p)) with
                                | Some es => set_eq_te (map (rename_te_c rho_plus) (snd p)) es
                                | None => false
                                end) t1 then 0 else 17
  | OU _ _ UPanic _ | OU _ _ _ UPanic => 12
  | _ => 11
  end.
