(* `unification::unify` (src/tc/unification.rs:39-174), `TypeChecker::type_of` (src/tc/mod.rs:457) and the
   part of `TypeCheckerState` they read (src/tc/state/mod.rs: `inferences`, `variables`, `infer`,
   `allocate_ty_var`, `tyvar_count`), on top of the verified union-find model (DisjointSet.v, C19).

   - `InferenceSet = HashSet<TypeExpression>` is a duplicate-free list (`iset`); `Combine::combine` is set
     union, `Combine::identity()` / `Default::default()` the empty set.
   - Every place where the Rust code iterates a hash collection takes its order from an explicit oracle
     (`orders`): the keys of the inference map (`state.variables()`, twice, same order), each variable's
     initial inference set, each class's inference set in each round, and the per-round sets of new type
     variables, equalities and judgements.  Theorems quantify over all oracles that return permutations;
     the correspondence run instantiates them with the order the hook `verif::order` imposes in the modes
     `Sorted` / `SortedReversed` (sort by the key given at the iteration point: the variable, the pair, or
     the `Debug` text of the expression -- `te_debug` below reproduces that text).
   - `merge` is Merge.v's, with the fresh-variable counter threaded through (`tyvar_count()` at the start).
   - The `loop` is fuelled: `Err URounds` is the explicit out-of-fuel result, distinct from every result
     of the Rust function.  The watchdog poll inside the loop is not part of this model (C13 owns the
     polled loops); this is `unify` with a watchdog that never says stop.
   - `unify_gen` is written once over the interface of the forest (`forest_ops`) and instantiated twice:
     with the concrete operations of DisjointSet.v (`unify`, THE model of the Rust function) and with the
     partition specification of DisjointSet.v (`a_unify`, used by the proofs; C19's simulation lemma
     carries every result over).
   Definitions only; proofs are in proofs/UnifyProofs.v. *)
From Coq Require Import String Ascii DecimalString.
From SLX Require Import Base VectorMap DisjointSet gen.Constants gen.WordUseTable TypeExpr Merge.
Open Scope N_scope.

(* ------------------------------------------------------------------------------------------ *)
(* InferenceSet *)
Definition iset := list te.
Definition te_mem (e : te) (l : iset) : bool := existsb (te_eqb e) l.
(* HashSet::insert *)
Definition iset_add (l : iset) (e : te) : iset := if te_mem e l then l else l ++ [e].
(* Combine for HashSet: `self.union(&other).cloned().collect()` *)
Definition iset_union (a b : iset) : iset := fold_left iset_add b a.
Definition iset_ident : iset := [].

(* DisjointSet::insert as it is in the repository: guarded (re-inserting a member is a no-op) *)
Definition insert_is_guarded : bool := true.

Inductive uerr :=
| URounds        (* the model's fuel for the `loop` ran out: NOT a result of the Rust function *)
| UFindFuel      (* DisjointSet.v's fuel for `find` ran out (excluded by C19 on every reachable forest) *)
| UImpossible.   (* `merge` returned the `Err` it does not have *)
Definition ures (A : Type) := outcome A uerr.

Definition ubind {A B} (x : ures A) (f : A -> ures B) : ures B :=
  match x with Ok a => f a | Err e => Err e | Panic p => Panic p end.
Notation "'do' x <- a ; b" := (ubind a (fun x => b)) (at level 200, x name, a at level 100, b at level 200).

Definition of_ds {A} (r : outcome A ds_err) : ures A :=
  match r with Ok a => Ok a | Err _ => Err UFindFuel | Panic p => Panic p end.

(* panic sites of `unify` itself *)
Definition site_expect_first : N := 1401.   (* `.expect("We know there is at least one item ...")` *)
Definition site_state_unwrap : N := 1402.   (* `self.inferences.get_mut(..).unwrap()` in `infer` *)

(* ------------------------------------------------------------------------------------------ *)
(* The interface of `UnificationForest` that `unify` and `type_of` use. *)
Record forest_ops (T : Type) := mk_forest {
  f_new    : T;                                           (* with_capacity *)
  f_insert : T -> tyvar -> ures T;
  f_union  : T -> tyvar -> tyvar -> ures T;
  f_add    : T -> tyvar -> iset -> ures T;                (* add_data *)
  f_set    : T -> tyvar -> iset -> ures T;                (* set_data *)
  f_get    : T -> tyvar -> ures (T * option iset);        (* get_data *)
  f_sets   : T -> ures (T * list (tyvar * iset))          (* sets *)
}.
Arguments f_new {T}. Arguments f_insert {T}. Arguments f_union {T}. Arguments f_add {T}.
Arguments f_set {T}. Arguments f_get {T}. Arguments f_sets {T}.

(* the real forest *)
Definition ds_forest : forest_ops (dsu iset) := {|
  f_new := ds_new iset;
  f_insert := fun s v => Ok (ds_insert iset insert_is_guarded s v);
  f_union := fun s a b => of_ds (ds_union iset iset_union iset_ident s a b);
  f_add := fun s v d => of_ds (ds_add_data iset iset_union iset_ident s v d);
  f_set := fun s v d => of_ds (ds_set_data iset s v d);
  f_get := fun s v => of_ds (ds_get_data iset s v);
  f_sets := fun s => Ok (ds_sets iset iset_ident s)
|}.

(* its specification: the partition model of DisjointSet.v (`a_step` on the same operations) *)
Definition a_insert (a : astate iset) (v : tyvar) : astate iset := a_touch iset a v.
Definition a_add (a : astate iset) (v : tyvar) (d : iset) : astate iset :=
  let a1 := a_touch iset a v in
  let r := a_rep iset a1 v in
  a_set_class_data iset a1 r (iset_union (or_ident iset iset_ident (fm_get r (a_data a1))) d).
Definition a_set (a : astate iset) (v : tyvar) (d : iset) : astate iset :=
  let a1 := a_touch iset a v in a_set_class_data iset a1 (a_rep iset a1 v) d.
Definition a_get (a : astate iset) (v : tyvar) : astate iset * option iset :=
  let a1 := a_touch iset a v in (a1, fm_get (a_rep iset a1 v) (a_data a1)).
Definition a_sets (a : astate iset) : astate iset * list (tyvar * iset) :=
  let '(dt, l) := a_sets_fold iset iset_ident (root_keys (a_tbl a)) (a_data a) in (mk_a (a_tbl a) dt, l).

Definition a_forest : forest_ops (astate iset) := {|
  f_new := a_new iset;
  f_insert := fun a v => Ok (a_insert a v);
  f_union := fun a x y => Ok (a_union iset iset_union iset_ident a x y);
  f_add := fun a v d => Ok (a_add a v d);
  f_set := fun a v d => Ok (a_set a v d);
  f_get := fun a v => Ok (a_get a v);
  f_sets := fun a => Ok (a_sets a)
|}.

(* ------------------------------------------------------------------------------------------ *)
(* TypeCheckerState, as far as unification reads it *)
Record tstate := mk_tstate {
  ts_inf  : list (tyvar * iset);   (* `inferences: HashMap<TypeVariable, InferenceSet>` *)
  ts_next : N                      (* `tyvar_source`: the next fresh variable = `tyvar_count()` *)
}.
(* `variables()`: the keys *)
Definition ts_vars (st : tstate) : list tyvar := map fst (ts_inf st).
(* `inferences(v)` *)
Definition ts_get (st : tstate) (v : tyvar) : iset :=
  match find (fun p => fst p =? v) (ts_inf st) with Some p => snd p | None => [] end.
Definition ts_registered (st : tstate) (v : tyvar) : bool := existsb (N.eqb v) (ts_vars st).

Definition ts_empty : tstate := mk_tstate [] 0.
(* `allocate_ty_var` *)
Definition ts_alloc (st : tstate) : tyvar * tstate :=
  (ts_next st, mk_tstate (ts_inf st ++ [(ts_next st, [])]) (ts_next st + 1)).
Definition ts_insert (st : tstate) (v : tyvar) (e : te) : tstate :=
  mk_tstate (map (fun p => if fst p =? v then (fst p, iset_add (snd p) e) else p) (ts_inf st)) (ts_next st).
(* `infer`: an equality is recorded on both sides, `v = v` is dropped *)
Definition ts_infer (st : tstate) (v : tyvar) (e : te) : outcome tstate unit :=
  match e with
  | Equal id =>
      if id =? v then Ok st
      else if negb (ts_registered st id) then Panic site_state_unwrap
      else if negb (ts_registered st v) then Panic site_state_unwrap
      else Ok (ts_insert (ts_insert st id (Equal v)) v e)
  | _ => if ts_registered st v then Ok (ts_insert st v e) else Panic site_state_unwrap
  end.

(* ------------------------------------------------------------------------------------------ *)
(* Iteration orders of the hash collections *)
Record orders := mk_orders {
  o_vars  : list tyvar -> list tyvar;                           (* tc.variables *)
  o_init  : tyvar -> iset -> list te;                           (* unify.initial_inferences *)
  o_class : nat -> tyvar -> iset -> list te;                    (* unify.class_inferences (round, root) *)
  o_newv  : nat -> list tyvar -> list tyvar;                    (* unify.new_ty_vars *)
  o_eqs   : nat -> list (tyvar * tyvar) -> list (tyvar * tyvar);(* unify.equalities *)
  o_judg  : nat -> list (tyvar * te) -> list (tyvar * te)       (* unify.judgements *)
}.

(* HashSet semantics of `all_equalities` / `all_judgements` / `all_new_ty_vars`: no duplicates *)
Fixpoint dedup {A} (eqb : A -> A -> bool) (l : list A) : list A :=
  match l with
  | [] => []
  | x :: r => if existsb (eqb x) r then dedup eqb r else x :: dedup eqb r
  end.
Definition pair_eqb (a b : tyvar * tyvar) : bool := (fst a =? fst b) && (snd a =? snd b).
Definition judg_eqb (a b : tyvar * te) : bool := (fst a =? fst b) && te_eqb (snd a) (snd b).

(* ------------------------------------------------------------------------------------------ *)
Section Unify.
  Context {T : Type}.
  Variable F : forest_ops T.
  Variable o : orders.

  (* `for var in vars { forest.insert(var) }` *)
  Fixpoint insert_all (s : T) (vars : list tyvar) : ures T :=
    match vars with
    | [] => Ok s
    | v :: r => do s1 <- f_insert F s v; insert_all s1 r
    end.

  (* `for Equality { left, right } in eqs { forest.union(&left, &right) }` *)
  Fixpoint union_all (s : T) (es : list (tyvar * tyvar)) : ures T :=
    match es with
    | [] => Ok s
    | (l, r) :: t => do s1 <- f_union F s l r; union_all s1 t
    end.

  (* `for Judgement { tv, expr } in js { forest.add_data(&tv, InferenceSet::from([expr])) }` *)
  Fixpoint add_all (s : T) (js : list (tyvar * te)) : ures T :=
    match js with
    | [] => Ok s
    | (v, e) :: t => do s1 <- f_add F s v [e]; add_all s1 t
    end.

  (* the body of the second `for type_var in state.variables()` loop, for one variable *)
  Fixpoint init_exprs (s : T) (v : tyvar) (l : list te) : ures T :=
    match l with
    | [] => Ok s
    | e :: r =>
        do s1 <- (match e with
                  | Equal id => f_union F s v id
                  | _ => f_add F s v [e]
                  end);
        init_exprs s1 v r
    end.

  Fixpoint init_vars (st : tstate) (s : T) (vars : list tyvar) : ures T :=
    match vars with
    | [] => Ok s
    | v :: r => do s1 <- init_exprs s v (o_init o v (ts_get st v)); init_vars st s1 r
    end.

  (* forest construction: insert every variable, then turn equalities into unions and everything else
     into data *)
  Definition init_forest (st : tstate) : ures T :=
    let vars := o_vars o (ts_vars st) in
    do s <- insert_all (f_new F) vars;
    init_vars st s vars.

  (* what one round accumulates: `all_equalities`, `all_judgements`, `all_new_ty_vars` (as the sequences
     of `extend` calls; the set semantics is applied when they are consumed), the fresh-variable counter
     and `made_progress` *)
  Record racc := mk_racc {
    r_eqs : list (tyvar * tyvar); r_judg : list (tyvar * te); r_newv : list tyvar; r_next : N; r_prog : bool }.

  (* `for expression in inferred_expressions { made_progress = true; merge(current, expression, ty_var, state) .. }` *)
  Fixpoint fold_class (cur : te) (rest : list te) (root : tyvar) (acc : racc) : ures (te * racc) :=
    match rest with
    | [] => Ok (cur, acc)
    | e :: r =>
        match merge cur e root (r_next acc) with
        | Ok m => fold_class (expr m) r root
                    (mk_racc (r_eqs acc ++ eqs m) (r_judg acc ++ judg m) (r_newv acc ++ newv m) (next m) true)
        | Err _ => Err UImpossible
        | Panic p => Panic p
        end
    end.

  (* `for (ty_var, inferences) in forest.sets() { .. forest.set_data(&ty_var, InferenceSet::from([current])) }` *)
  Fixpoint classes_loop (rnd : nat) (s : T) (sets : list (tyvar * iset)) (acc : racc) : ures (T * racc) :=
    match sets with
    | [] => Ok (s, acc)
    | (root, infs) :: t =>
        match infs with
        | [] => classes_loop rnd s t acc                      (* `if inferences.is_empty() { continue; }` *)
        | _ =>
            match o_class o rnd root infs with
            | [] => Panic site_expect_first
            | cur :: rest =>
                do ca <- fold_class cur rest root acc;
                do s1 <- f_set F s root [fst ca];
                classes_loop rnd s1 t (snd ca)
            end
        end
    end.

  (* one iteration of the `loop`; returns the forest, the counter and `made_progress` *)
  Definition round (rnd : nat) (s : T) (nxt : N) : ures (T * N * bool) :=
    do sl <- f_sets F s;
    do sa <- classes_loop rnd (fst sl) (snd sl) (mk_racc [] [] [] nxt false);
    let acc := snd sa in
    do s2 <- insert_all (fst sa) (o_newv o rnd (dedup N.eqb (r_newv acc)));
    do s3 <- union_all s2 (o_eqs o rnd (dedup pair_eqb (r_eqs acc)));
    do s4 <- add_all s3 (o_judg o rnd (dedup judg_eqb (r_judg acc)));
    Ok (s4, r_next acc, r_prog acc).

  (* `loop { .. if !made_progress { break; } }` *)
  Fixpoint unify_loop (fuel rnd : nat) (s : T) (nxt : N) : ures (T * N) :=
    match fuel with
    | O => Err URounds
    | S f =>
        do r <- round rnd s nxt;
        let '(s1, nxt1, progress) := r in
        if progress then unify_loop f (S rnd) s1 nxt1 else Ok (s1, nxt1)
    end.

  (* `unify`: the resulting forest (`state.set_result(forest)`) and the fresh-variable counter *)
  Definition unify_gen (fuel : nat) (st : tstate) : ures (T * N) :=
    do s0 <- init_forest st;
    unify_loop fuel 0 s0 (ts_next st).

  (* the state after `init` and `k` full rounds, whether or not the loop would have stopped earlier
     (used to describe the known class K2 and in the correspondence of non-terminating runs) *)
  Fixpoint rounds_from (k rnd : nat) (s : T) (nxt : N) : ures (T * N * bool) :=
    match k with
    | O => Ok (s, nxt, true)
    | S k' =>
        do r <- round rnd s nxt;
        let '(s1, nxt1, progress) := r in
        if progress then rounds_from k' (S rnd) s1 nxt1 else Ok (s1, nxt1, false)
    end.
  Definition after_rounds (k : nat) (st : tstate) : ures (T * N * bool) :=
    do s0 <- init_forest st; rounds_from k 0 s0 (ts_next st).

  (* `TypeChecker::type_of` on a resulting forest *)
  Inductive tof := TofType (e : te) | TofFailure | TofIncomplete (l : iset).
  Definition type_of (s : T) (v : tyvar) : ures (T * tof) :=
    do sd <- f_get F s v;
    Ok (fst sd, match snd sd with
                | None => TofFailure                       (* Error::UnificationFailure *)
                | Some [] => TofType Any
                | Some [e] => TofType e
                | Some l => TofIncomplete l                (* Error::UnificationIncomplete *)
                end).
End Unify.

Arguments mk_racc r_eqs r_judg r_newv r_next r_prog : assert.

(* THE model of `unification::unify` *)
Definition unify (fuel : nat) (o : orders) (st : tstate) : ures (dsu iset * N) := unify_gen ds_forest o fuel st.
(* the same algorithm over the partition specification *)
Definition a_unify (fuel : nat) (o : orders) (st : tstate) : ures (astate iset * N) := unify_gen a_forest o fuel st.

(* ------------------------------------------------------------------------------------------ *)
(* Observing a forest the way the harness does: every member with its root and its class's data. *)
Fixpoint observe_members (s : dsu iset) (vs : list tyvar) : ures (list (tyvar * tyvar * iset)) :=
  match vs with
  | [] => Ok []
  | v :: r =>
      do rs <- of_ds (ds_find_top iset s v);
      do sd <- of_ds (ds_get_data iset (snd rs) v);
      do rest <- observe_members (fst sd) r;
      Ok ((v, fst rs, match snd sd with Some d => d | None => [] end) :: rest)
  end.
Definition observe (s : dsu iset) : ures (list (tyvar * tyvar * iset)) := observe_members s (ds_values iset s).

(* ------------------------------------------------------------------------------------------ *)
(* The orders imposed by the hook `verif::order` in mode `Sorted` (stable sort by the key given at
   the iteration point) and `SortedReversed` (the same, reversed). *)

Definition dec (n : N) : string := NilZero.string_of_uint (N.to_uint n).

Definition tv_debug (v : tyvar) : string := "TypeVariable { id: " ++ dec v ++ " }".
Definition wuse_debug (u : wuse) : string :=
  match u with
  | UBytes => "Bytes" | UNumeric => "Numeric" | UUnsignedNumeric => "UnsignedNumeric"
  | USignedNumeric => "SignedNumeric" | UBool => "Bool" | UAddress => "Address"
  | USelector => "Selector" | UFunction => "Function"
  end.
Definition span_debug (s : span) : string :=
  "Span { typ: " ++ tv_debug (s_typ s) ++ ", offset: " ++ dec (s_off s) ++ ", size: " ++ dec (s_sz s) ++ " }".
Fixpoint commas (l : list string) : string :=
  match l with
  | [] => ""
  | [x] => x
  | x :: r => x ++ ", " ++ commas r
  end.
(* the text of an explanation as the harness / `merge` writes it *)
Definition reason_string (r : reason) : string :=
  match r with
  | RInput n => "input:" ++ dec n
  | _ => reason_text r
  end.
Definition quote (s : string) : string := String """"%char (s ++ String """"%char EmptyString).

(* `format!("{e:?}")` for the derived `Debug` of `TypeExpression` *)
Fixpoint te_debug (e : te) : string :=
  match e with
  | Any => "Any"
  | Equal i => "Equal { id: " ++ tv_debug i ++ " }"
  | Word w u =>
      "Word { width: " ++ (match w with Some x => "Some(" ++ dec x ++ ")" | None => "None" end)
      ++ ", usage: " ++ wuse_debug u ++ " }"
  | Bytes => "Bytes"
  | FixedArray x l => "FixedArray { element: " ++ tv_debug x ++ ", length: " ++ dec l ++ " }"
  | Mapping k v => "Mapping { key: " ++ tv_debug k ++ ", value: " ++ tv_debug v ++ " }"
  | DynamicArray x => "DynamicArray { element: " ++ tv_debug x ++ " }"
  | Packed ts st =>
      "Packed { types: [" ++ commas (map span_debug ts) ++ "], is_struct: "
      ++ (if st then "true" else "false") ++ " }"
  | Conflict cs rs =>
      "Conflict { conflicts: [" ++ commas (map te_debug cs) ++ "], reasons: ["
      ++ commas (map (fun r => quote (reason_string r)) rs) ++ "] }"
  end.

(* stable insertion sort by a `<=` on keys (`sort_by_key` is a stable sort) *)
Fixpoint ins_le {A} (le : A -> A -> bool) (x : A) (l : list A) : list A :=
  match l with [] => [x] | y :: r => if le y x then y :: ins_le le x r else x :: l end.
Definition sort_le {A} (le : A -> A -> bool) (l : list A) : list A := fold_left (fun acc x => ins_le le x acc) l [].

Definition sort_vars : list tyvar -> list tyvar := sort_le N.leb.
Definition sort_tes (l : list te) : list te :=
  map snd (sort_le (fun a b => String.leb (fst a) (fst b)) (map (fun e => (te_debug e, e)) l)).
Definition pairN_leb (a b : tyvar * tyvar) : bool := (fst a <? fst b) || ((fst a =? fst b) && (snd a <=? snd b)).
Definition sort_pairs : list (tyvar * tyvar) -> list (tyvar * tyvar) := sort_le pairN_leb.
Definition sort_judgs (l : list (tyvar * te)) : list (tyvar * te) :=
  map snd (sort_le (fun a b => (fst (fst a) <? fst (fst b))
                               || ((fst (fst a) =? fst (fst b)) && String.leb (snd (fst a)) (snd (fst b))))
             (map (fun j => ((fst j, te_debug (snd j)), j)) l)).

Definition orders_sorted : orders := {|
  o_vars := sort_vars;
  o_init := fun _ l => sort_tes l;
  o_class := fun _ _ l => sort_tes l;
  o_newv := fun _ l => sort_vars l;
  o_eqs := fun _ l => sort_pairs l;
  o_judg := fun _ l => sort_judgs l
|}.
Definition orders_sorted_rev : orders := {|
  o_vars := fun l => rev (sort_vars l);
  o_init := fun _ l => rev (sort_tes l);
  o_class := fun _ _ l => rev (sort_tes l);
  o_newv := fun _ l => rev (sort_vars l);
  o_eqs := fun _ l => rev (sort_pairs l);
  o_judg := fun _ l => rev (sort_judgs l)
|}.

(* mode `Seeded(seed)`: sort by the key, then a Fisher-Yates shuffle driven by splitmix64; the permutation is a
   function of the seed, the name of the iteration point and the number of items (src/verif.rs `order`) *)
Definition mask64 (x : N) : N := x mod two64.
Definition golden : N := 11400714819323198485.          (* 0x9e37_79b9_7f4a_7c15 *)
Definition mixc1 : N := 13787848793156543929.           (* 0xbf58_476d_1ce4_e5b9 *)
Definition mixc2 : N := 10723151780598845931.           (* 0x94d0_49bb_1331_11eb *)

(* `next()`: (the random number, the new state) *)
Definition mix_next (state : N) : N * N :=
  let s := mask64 (state + golden) in
  let z := mask64 (N.lxor s (N.shiftr s 30) * mixc1) in
  let z := mask64 (N.lxor z (N.shiftr z 27) * mixc2) in
  (N.lxor z (N.shiftr z 31), s).

Definition seed_state (seed len : N) (point : string) : N :=
  fold_left (fun st c => mask64 (st * 31 + N_of_ascii c)) (list_ascii_of_string point)
            (N.lxor seed (mask64 (len * golden))).

Fixpoint set_at {A} (l : list A) (i : nat) (x : A) : list A :=
  match l, i with
  | [], _ => []
  | _ :: t, O => x :: t
  | h :: t, S j => h :: set_at t j x
  end.
Definition swap_at {A} (l : list A) (i j : nat) : list A :=
  match nth_error l i, nth_error l j with
  | Some a, Some b => set_at (set_at l i b) j a
  | _, _ => l
  end.

(* `for i in (1..len).rev() { let j = next() % (i + 1); items.swap(i, j) }` *)
Fixpoint shuffle_down {A} (i : nat) (state : N) (l : list A) : list A :=
  match i with
  | O => l
  | S i' =>
      let '(r, st') := mix_next state in
      shuffle_down i' st' (swap_at l i (N.to_nat (r mod (N.of_nat i + 1))))
  end.
Definition seeded {A} (seed : N) (point : string) (sorted : list A) : list A :=
  shuffle_down (length sorted - 1) (seed_state seed (N.of_nat (length sorted)) point) sorted.

Definition orders_seeded (seed : N) : orders := {|
  o_vars := fun l => seeded seed "tc.variables" (sort_vars l);
  o_init := fun _ l => seeded seed "unify.initial_inferences" (sort_tes l);
  o_class := fun _ _ l => seeded seed "unify.class_inferences" (sort_tes l);
  o_newv := fun _ l => seeded seed "unify.new_ty_vars" (sort_vars l);
  o_eqs := fun _ l => seeded seed "unify.equalities" (sort_pairs l);
  o_judg := fun _ l => seeded seed "unify.judgements" (sort_judgs l)
|}.

(* ------------------------------------------------------------------------------------------ *)
(* The known class K2 (DESIGN.md section 4): a forest in which a fixed-width word of a usage that the
   `(Packed, Word)` arm pushes down (anything but Bytes / Numeric / UnsignedNumeric) shares a class with a
   packed encoding whose FIRST span starts at bit 0 and has exactly that width, and following such first
   spans from class to class (the class of the span's variable, which again holds such a packed
   encoding, ..) leads back into a class already passed.  `merge` then hands the word from class to
   class around the cycle for ever (one `Judgement(first_span.typ, word)` and one `add_data` per round),
   so `made_progress` never becomes false.  The recorded witness is the cycle of length one. *)
Definition pushes_down (u : wuse) : bool :=
  match u with UBytes | UNumeric | UUnsignedNumeric => false | _ => true end.

(* the variables a word of width `w` is handed to from a class holding `d` *)
Definition hops (d : iset) (w : N) : list tyvar :=
  flat_map (fun e => match e with
                     | Packed (sp :: _) _ => if (s_off sp =? 0) && (s_sz sp =? w) then [s_typ sp] else []
                     | _ => []
                     end) d.
Definition pushed_widths (d : iset) : list N :=
  flat_map (fun e => match e with
                     | Word (Some w) u => if pushes_down u then [w] else []
                     | _ => []
                     end) d.

Definition class_data (sets : list (tyvar * iset)) (r : tyvar) : iset :=
  match find (fun p => fst p =? r) sets with Some p => snd p | None => [] end.

(* the classes a word of width `w` is handed to from class `r` *)
Definition succs (rootof : tyvar -> tyvar) (sets : list (tyvar * iset)) (w : N) (r : tyvar) : list tyvar :=
  map rootof (hops (class_data sets r) w).

(* the classes reachable from `todo` along such hand-overs (depth first, every class expanded once) *)
Fixpoint reach (fuel : nat) (rootof : tyvar -> tyvar) (sets : list (tyvar * iset)) (w : N)
  (todo visited : list tyvar) : list tyvar :=
  match fuel with
  | O => visited
  | S f =>
      match todo with
      | [] => visited
      | x :: t =>
          if existsb (N.eqb x) visited then reach f rootof sets w t visited
          else reach f rootof sets w (succs rootof sets w x ++ t) (x :: visited)
      end
  end.

Definition root_of (s : dsu iset) (v : tyvar) : tyvar :=
  match ds_find_top iset s v with Ok (r, _) => r | _ => v end.

(* does some chain of hand-overs starting in class `r` re-enter a class it has passed?  i.e. is a class that
   lies on a cycle reachable from r *)
Definition hop_cycle (rootof : tyvar -> tyvar) (sets : list (tyvar * iset)) (w : N) (r : tyvar) : bool :=
  let fuel := S (length sets + length (flat_map snd sets)) in
  existsb (fun x => existsb (N.eqb x) (reach fuel rootof sets w (succs rootof sets w x) []))
          (reach fuel rootof sets w [r] []).

Definition k2_state (s : dsu iset) : bool :=
  let '(s1, sets) := ds_sets iset iset_ident s in
  existsb (fun p => existsb (fun w => hop_cycle (root_of s1) sets w (fst p)) (pushed_widths (snd p))) sets.

(* the class on judgement sets: running the rounds in the iteration orders `o`, the forest is such a state at
   the beginning of one of the first `k + 1` rounds (whether the word and the encoding ever share a class can
   depend on the order in which a class's evidence is folded) *)
Fixpoint k2_scan (o : orders) (k rnd : nat) (s : dsu iset) (nxt : N) : bool :=
  k2_state s ||
  match k with
  | O => false
  | S k' =>
      match round ds_forest o rnd s nxt with
      | Ok (s1, n1, true) => k2_scan o k' (S rnd) s1 n1
      | _ => false
      end
  end.
Definition k2_class_in (o : orders) (k : nat) (st : tstate) : bool :=
  match init_forest ds_forest o st with
  | Ok s0 => k2_scan o k 0 s0 (ts_next st)
  | _ => false
  end.
Definition k2_class (k : nat) (st : tstate) : bool := k2_class_in orders_sorted k st.

(* no `Packed` anywhere in a judgement set *)
Definition packed_free (st : tstate) : bool := forallb (fun p => forallb no_packed (snd p)) (ts_inf st).
