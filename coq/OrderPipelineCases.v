(* ./check C02: evaluating the fragment of props/C02_pipeline.v on the judgement sets the implementation dumps
   (harness `judgements`).  The dump lists the variables that HAVE judgements; the state the implementation unifies has
   an (empty) entry for every allocated variable, so the set is completed with empty entries for the unlisted
   variables below the largest variable named (`full_tstate`). *)
From SLX Require Import Base TypeExpr Merge Unify UnifyOrder OrderCases OrderUnifyCases NoPanic PipelineOrderDefs.
Open Scope N_scope.

Definition full_tstate (j : judgements) : tstate :=
  let n := ts_next (to_tstate j) in
  mk_tstate (map (fun v => (v, match find (fun p : N * list te => fst p =? v) j with Some p => snd p | None => [] end))
                 (vars_below n)) n.

(* 0 = inside order_fragment; 1 = outside order_free; 2 = order_free, not seen_safe; 3 = not well formed *)
Definition fragment_code (x : xjudgements) : N :=
  let st := full_tstate (conv_j x) in
  if negb (order_free st) then 1 else if negb (seen_safe st) then 2 else if negb (wf_b st) then 3 else 0.

Lemma fragment_code_spec x : fragment_code x = 0 <-> order_fragment (full_tstate (conv_j x)) = true.
Proof.
  unfold fragment_code, order_fragment.
  destruct (order_free _), (seen_safe _), (wf_b _); cbn; split; intros H; try reflexivity; discriminate H.
Qed.
