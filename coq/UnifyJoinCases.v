(* C15 at the unification stage, with the partition taken from the CONGRUENCE CLOSURE of the judgement set (UnifyOrder.cc:
   declared equalities + component equalities of constructed types; proved to be unify's partition on the order_free
   fragment, C02_unify_order_independent), not from the implementation's own forest: for every class of the closure whose
   collected evidence consists of words / Any only, each member must resolve to the lattice join of those words (a
   conflict iff the family has no upper bound).  A change that loses a component equality then shows up as evidence
   that was not joined.  Definitions only. *)
From Coq Require Import String.
From SLX Require Import Base gen.WordUseTable TypeExpr Merge MergeCases DisjointSet Unify UnifyOrder UnifyCases.
Open Scope N_scope.

Definition words_in (l : list te) : list wordev :=
  flat_map (fun t => match t with Word w u => [(w, u)] | _ => [] end) l.
Definition only_words (l : list te) : bool := forallb (fun e => is_word e || is_any e) l.

(* evidence of the closure class of v: the non-equality expressions of every variable related to v *)
Definition closure_evidence (st : tstate) (cl : astate unit) (v : tyvar) : list te :=
  flat_map (fun w => if same_in cl v w then filter (fun e => negb (is_equal e)) (ts_get st w) else []) (ts_vars st).

Definition expected_ok (ev : list te) (d : list xte) : bool :=
  match words_in ev with
  | [] => match ev with
          | [] => match d with [] => true | _ => false end
          | _ => match d with [x] => is_any (conv x) | _ => false end
          end
  | w :: l =>
      match wordev_join_all_s w l, d with
      | Some j, [x] => te_eqb (conv x) (word_of j)
      | None, [x] => is_conflict (conv x)
      | _, _ => false
      end
  end.

(* 0 ok / not applicable; 23: inside the order_free fragment a word-only closure class did not resolve to the join *)
Definition closure_join_code (c : ucase) : N :=
  match c with
  | UCase _ n0 inf (UOk _ _ rows) _ =>
      let st := state_of n0 inf in
      if negb (order_free st) then 0 else
      let cl := part_of (cc st) in
      if forallb (fun r : N * N * list xte =>
                    let v := fst (fst r) in
                    let ev := closure_evidence st cl v in
                    if only_words ev then
                      (* the data of v's class in the implementation's forest is carried by the row of v's root *)
                      expected_ok ev (match find (fun r2 : N * N * list xte => fst (fst r2) =? snd (fst r)) rows with
                                      | Some r2 => snd r2
                                      | None => []
                                      end)
                    else true) rows
      then 0 else 23
  | _ => 0
  end.

Definition closure_join_inside (c : ucase) : N :=
  match c with
  | UCase _ n0 inf (UOk _ _ _) _ => if order_free (state_of n0 inf) then 1 else 0
  | _ => 0
  end.
