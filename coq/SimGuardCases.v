(* C07 coverage statistic: on a searched program, how many of the model's retired paths lie INSIDE the guards of
   the simulation theorem (props/C07.v C07_path_sim), i.e. are decided by the theorem rather than by the search. *)
From Coq Require Import String.
From SLX Require Import Base gen.Constants gen.ValueSig gen.OpcodeTable SymVal Disasm Fold Evm VM SimGuards VmCases SimCases.
Open Scope N_scope.

Definition gfuel (bytes : list byte) : nat := (64 * length bytes + 1000)%nat.

(* 1000 * (paths whose whole lineage satisfies the guards) + (paths); 0 if the run does not finish within gfuel *)
Definition c07_guard_stats (c : vcase) : N :=
  match try_from (c_code c) with
  | Ok code =>
      let fuel := gfuel (c_code c) in
      let m0 := init_vm code (c_cfg c) in
      match run constant_fold fuel m0 with
      | RDone m =>
          1000 * N.of_nat (length (filter (fun p => guards_along code (c_cfg c) fuel m0 p) (v_paths m)))
          + N.of_nat (length (v_paths m))
      | _ => 0
      end
  | _ => 0
  end.

(* C08 coverage statistic: is the searched program INSIDE the hypotheses of the converse theorem
   (props/C08.v C08_reachable_offsets_executed / C08_code_51_impossible): the model run ends with an empty queue,
   every iteration satisfies step_guard2 (C07's guards + no lost fork), and the reference exploration completes.
   1 + (number of offsets in the reference CFG) if so, else 0. *)
Definition c08_converse_stats (c : vcase) : N :=
  match try_from (c_code c) with
  | Ok code =>
      let bytes := c_code c in
      let fuel := gfuel bytes in
      let m0 := init_vm code (c_cfg c) in
      match run constant_fold fuel m0 with
      | RDone m =>
          if (match v_queue m with [] => true | _ => false end) && guards_all bytes code (c_cfg c) fuel m0 then
            match explore bytes (64 * length bytes + 64)%nat [e_init] [] with
            | Some r => 1 + N.of_nat (length r)
            | None => 0
            end
          else 0
      | _ => 0
      end
  | _ => 0
  end.
