(* SymbolicValueData::constant_fold (src/vm/value/mod.rs) over the generic tree, driven by the
   table of arms that translator step T2 regenerates from `constant_folder` (gen/FoldTable.v).

   Rust: `self.clone().transform(constant_folder)`; `transform` applies the function top-down and
   takes the first `Some` as the result without revisiting it; every arm of `constant_folder`
   itself recurses into its operands with `transform_data(constant_folder)`.  Because Coq's guard
   checker does not accept passing `constant_folder` to the generic `SymVal.transform` from inside
   its own definition, `constant_fold` is written as one structural fixpoint and
   proofs/FoldProofs.v (`constant_fold_is_transform`) shows it equals `transform constant_folder`. *)
From SLX Require Import Base Word256 EvmSpec gen.ValueSig gen.KnownWordSel gen.FoldTable SymVal KnownWord.
Open Scope N_scope.

Fixpoint find_arm_in (l : list fold_arm) (t : tag) : option fold_arm :=
  match l with
  | [] => None
  | r :: l' => if tag_eqb (fa_tag r) t then Some r else find_arm_in l' t
  end.
(* Rust `match`: the first arm whose constructor matches *)
Definition find_arm (t : tag) : option fold_arm := find_arm_in fold_table t.

Fixpoint all_words (l : list sv) : option (list N) :=
  match l with
  | [] => Some []
  | x :: r => match as_word x, all_words r with
              | Some w, Some ws => Some (w :: ws)
              | _, _ => None
              end
  end.

(* operand `(p, folded)` of an arm: declared child p, after / before the recursive fold *)
Definition operand (args fargs : list sv) (u : nat * bool) : sv :=
  nth (fst u) (if snd u then fargs else args) (Val 0).

(* the body of one arm once its operands have been folded *)
Definition run_arm (r : fold_arm) (args fargs : list sv) : sv :=
  match all_words (map (operand args fargs) (fa_scrut r)) with
  | Some ws => Known (kw_apply (fa_op r) (map (fun j => nth j ws 0) (fa_operands r)))
  | None => Node (fa_fallback r) [] (map (operand args fargs) (fa_fb r))
  end.

(* an arm `SVD::C { f1, .., fn } => ..` matches exactly the nodes of constructor C; these constructors carry
   n child fields and no other payload.  (Trees of another shape cannot be built in Rust; the model treats
   them like constructors without an arm.) *)
Definition arm_matches (r : fold_arm) (a : list N) (args : list sv) : bool :=
  match a with [] => Nat.eqb (length args) (fa_arity r) | _ => false end.

Fixpoint constant_fold (v : sv) : sv :=
  match v with
  | Node t a args =>
      let fargs := map constant_fold args in
      match find_arm t with
      | Some r => if arm_matches r a args then run_arm r args fargs
                  else Node (transform_ctor t) a fargs
      | None => Node (transform_ctor t) a fargs
      end
  end.

(* `constant_folder` as a function handed to `transform` *)
Definition constant_folder (v : sv) : option sv :=
  match v with
  | Node t a args =>
      match find_arm t with
      | Some r => if arm_matches r a args then Some (run_arm r args (map constant_fold args)) else None
      | None => None
      end
  end.

(* ------------------------------------------------------------------------------------------
   The meaning of a value tree (independent of the fold table and of KnownWord): the 21 foldable
   constructors denote the Yellow-Paper operation on the denotations of their operands, read in
   field-declaration order with the meaning the field names give them (Subtract left right =
   left - right, Divide dividend divisor = dividend / divisor, Exp value exponent, shifts: shift
   then value); a KnownData leaf denotes its word; everything else is uninterpreted. *)

Definition un (f : N -> N) (a : list N) (ds : list N) : option N :=
  match a, ds with [], [x] => Some (f x) | _, _ => None end.
Definition bin (f : N -> N -> N) (a : list N) (ds : list N) : option N :=
  match a, ds with [], [x; y] => Some (f x y) | _, _ => None end.

Definition den_op (t : tag) (a : list N) (ds : list N) : option N :=
  match t with
  | T_KnownData => match a, ds with [w], [] => Some w | _, _ => None end
  | T_Add => bin spec_add a ds
  | T_Multiply => bin spec_mul a ds
  | T_Subtract => bin spec_sub a ds
  | T_Divide => bin spec_div a ds
  | T_SignedDivide => bin spec_sdiv a ds
  | T_Modulo => bin spec_mod a ds
  | T_SignedModulo => bin spec_smod a ds
  | T_Exp => bin spec_exp a ds
  | T_LessThan => bin spec_lt a ds
  | T_GreaterThan => bin spec_gt a ds
  | T_SignedLessThan => bin spec_slt a ds
  | T_SignedGreaterThan => bin spec_sgt a ds
  | T_Equals => bin spec_eq a ds
  | T_IsZero => un spec_iszero a ds
  | T_And => bin spec_and a ds
  | T_Or => bin spec_or a ds
  | T_Xor => bin spec_xor a ds
  | T_Not => un spec_not a ds
  | T_LeftShift => bin spec_shl a ds
  | T_RightShift => bin spec_shr a ds
  | T_ArithmeticRightShift => bin spec_sar a ds
  | _ => None
  end.

(* the 21 foldable constructors and their operand counts (hand-written, not taken from the table) *)
Definition foldable_tags : list tag :=
  [T_Add; T_Multiply; T_Subtract; T_Divide; T_SignedDivide; T_Modulo; T_SignedModulo; T_Exp;
   T_LessThan; T_GreaterThan; T_SignedLessThan; T_SignedGreaterThan; T_Equals; T_IsZero;
   T_And; T_Or; T_Xor; T_Not; T_LeftShift; T_RightShift; T_ArithmeticRightShift].
Definition foldable (t : tag) : bool := existsb (tag_eqb t) foldable_tags.
Definition op_arity (t : tag) : nat := match t with T_IsZero | T_Not => 1 | _ => 2 end.
(* the word an all-constant application of a foldable constructor must fold to *)
Definition spec_op (t : tag) (ws : list N) : N :=
  match den_op t [] ws with Some r => r | None => 0 end.

Section Den.
  (* uninterpreted meaning of every other constructor: tag, non-child payload, denotations of the children *)
  Variable env : tag -> list N -> list N -> N.
  Fixpoint den (v : sv) : N :=
    match v with
    | Node t a args =>
        let ds := map den args in
        match den_op t a ds with Some r => r | None => env t a ds end
    end.
End Den.

(* well-formed: every KnownData leaf carries a 256-bit word *)
Fixpoint wfb (v : sv) : bool :=
  match v with
  | Node t a args =>
      (if tag_eqb t T_KnownData then forallb in_rangeb a else true) && forallb wfb args
  end.
Definition wf (v : sv) : Prop := wfb v = true.
