(* C07: the decidable GUARDS of the simulation theorem (props/C07.v) -- model-level definitions, no proofs, so that
   the check can also evaluate them on the searched programs.
   - `classify`: which EVM instruction each opcode of the fragment is (constructor it builds, its byte, its
     Yellow-Paper function, operands in stack order); ADDMOD, MULMOD, SIGNEXTEND, BYTE (known class K4) and
     everything outside the fragment are KOther;
   - `instr_guard`: the side conditions of one instruction, on the state before it;
   - `step_guard`: one iteration of the machine on its head thread; `guards_along`: all iterations of a run that
     work on the lineage of one ghost path. *)
From SLX Require Import Base gen.Constants gen.ValueSig gen.OpcodeTable SymVal Micro Disasm Word256 EvmSpec Fold Evm VM Sim.
Open Scope N_scope.

(* "the built value is not culled" *)
Definition fits (cfg : limits) (v : sv) : bool := node_count v <=? size_limit cfg.


Inductive okind :=
| KBin (t : tag) (b : byte) (f : N -> N -> N)
| KUn (t : tag) (b : byte) (f : N -> N)
| KPop | KPc | KCodeSize | KPush0 | KJumpDest | KStop | KMStore | KMLoad | KSLoad | KSStore | KJump | KJumpI
| KHalt2 (t : tag) (b : byte) | KSelfDestruct
| KEnv (t : tag) (b : byte)      (* pushes a value that is not a constant of the path: the EVM word is unknown (None) *)
| KOther.

(* which EVM instruction an opcode of the fragment is: constructor it builds, its byte, its Yellow-Paper function
   (operands in stack order).  ADDMOD, MULMOD, SIGNEXTEND, BYTE (known class K4) and everything outside the
   fragment are KOther. *)
Definition classify (o : opname) : okind :=
  match o with
  | arithmetic_Add => KBin T_Add 1 spec_add
  | arithmetic_Mul => KBin T_Multiply 2 spec_mul
  | arithmetic_Sub => KBin T_Subtract 3 spec_sub
  | arithmetic_Div => KBin T_Divide 4 spec_div
  | arithmetic_SDiv => KBin T_SignedDivide 5 spec_sdiv
  | arithmetic_Mod => KBin T_Modulo 6 spec_mod
  | arithmetic_SMod => KBin T_SignedModulo 7 spec_smod
  | arithmetic_Exp => KBin T_Exp 10 xspec_exp
  | logic_Lt => KBin T_LessThan 16 spec_lt
  | logic_Gt => KBin T_GreaterThan 17 spec_gt
  | logic_SLt => KBin T_SignedLessThan 18 spec_slt
  | logic_SGt => KBin T_SignedGreaterThan 19 spec_sgt
  | logic_Eq => KBin T_Equals 20 spec_eq
  | logic_IsZero => KUn T_IsZero 21 spec_iszero
  | logic_And => KBin T_And 22 spec_and
  | logic_Or => KBin T_Or 23 spec_or
  | logic_Xor => KBin T_Xor 24 spec_xor
  | logic_Not => KUn T_Not 25 spec_not
  | logic_Shl => KBin T_LeftShift 27 xspec_shl
  | logic_Shr => KBin T_RightShift 28 xspec_shr
  | logic_Sar => KBin T_ArithmeticRightShift 29 xspec_sar
  | memory_Pop => KPop
  | control_PC => KPc
  | memory_CodeSize => KCodeSize
  | memory_Push0 => KPush0
  | control_JumpDest => KJumpDest
  | control_Stop => KStop
  | memory_MStore => KMStore
  | memory_MLoad => KMLoad
  | memory_SLoad => KSLoad
  | memory_SStore => KSStore
  | control_Jump => KJump
  | control_JumpI => KJumpI
  | control_Return => KHalt2 T_Return 243
  | control_Revert => KHalt2 T_Revert 253
  | environment_SelfDestruct => KSelfDestruct
  | environment_Address => KEnv T_Address 48
  | environment_Origin => KEnv T_Origin 50
  | environment_Caller => KEnv T_Caller 51
  | environment_CallValue => KEnv T_CallValue 52
  | environment_GasPrice => KEnv T_GasPrice 58
  | environment_CoinBase => KEnv T_CoinBase 65
  | environment_Timestamp => KEnv T_BlockTimestamp 66
  | environment_Number => KEnv T_BlockNumber 67
  | environment_Prevrandao => KEnv T_Prevrandao 68
  | environment_GasLimit => KEnv T_GasLimit 69
  | environment_ChainId => KEnv T_ChainId 70
  | environment_SelfBalance => KEnv T_SelfBalance 71
  | environment_BaseFee => KEnv T_BaseFee 72
  | environment_Gas => KEnv T_Gas 90
  | _ => KOther
  end.


(* ---- the guard of one step (decidable, about this step only) ---- *)
Definition depth_ok (st : vstate) : bool := Nat.ltb (length (stack st)) 1024.
Definition word_ok (o : N) : bool := (o mod 32 =? 0) && (o <? two64).
Definition offset_ok (a : sv) : bool :=
  match as_word (constant_fold a) with Some o => word_ok o | None => false end.
Definition sload_fits (cfg : limits) (st : vstate) (key : sv) : bool :=
  match alookup sv_eqb key (sto_known st) with
  | Some g => fits cfg (sload_wrap key (last g (Val 0)))
  | None => fits cfg (Node T_UnwrittenStorageValue [] [key])
            && fits cfg (Node T_SLoad [] [key; Node T_UnwrittenStorageValue [] [key]])
  end.

Definition op_guard (cfg : limits) (code : list instr) (st : vstate) (ip : N) (o : opname) : bool :=
  match classify o with
  | KBin t _ _ => match stack st with a :: b :: _ => fits cfg (Node t [] [a; b]) | _ => false end
  | KUn t _ _ => match stack st with a :: _ => fits cfg (Node t [] [a]) | _ => false end
  | KPop => match stack st with _ :: _ => true | _ => false end
  | KPc => depth_ok st && fits cfg (Known ip)
  | KCodeSize => depth_ok st && fits cfg (Known (N.of_nat (length code)))
  | KPush0 => depth_ok st && fits cfg (Known 0)
  | KJumpDest | KStop => true
  | KMStore => match stack st with a :: _ :: _ => offset_ok a | _ => false end
  | KMLoad => match stack st with a :: _ => offset_ok a | _ => false end
  | KSLoad => match stack st with k :: _ => is_known k && sload_fits cfg st k | _ => false end
  | KSStore => match stack st with k :: _ :: _ => is_known k | _ => false end
  | KJump => match stack st with t :: _ => match validate_jump constant_fold code t with inl _ => true | inr _ => false end
                              | _ => false end
  | KJumpI => match stack st with _ :: _ :: _ => true | _ => false end
  | KHalt2 _ _ => match stack st with _ :: _ :: _ => true | _ => false end
  | KSelfDestruct => match stack st with _ :: _ => true | _ => false end
  | KEnv t _ => depth_ok st && fits cfg (Node t [] [])
  | KOther => false
  end.

(* bytes at which the reference EVM halts normally whatever the state: INVALID and the bytes unassigned in the
   implementation's instruction set (the disassembler turns them into INVALID entries) *)
Definition evm_halts (b : byte) : bool :=
  (b =? 254)
  || existsb (N.eqb b) [12;13;14;15;30;31;33;34;35;36;37;38;39;40;41;42;43;44;45;46;47;73;74;75;76;77;78;79;92;93;94]
  || ((165 <=? b) && (b <=? 239)) || ((246 <=? b) && (b <=? 249)) || ((251 <=? b) && (b <=? 252)).

Definition instr_guard (cfg : limits) (code : list instr) (st : vstate) (ip : N) (i : instr) : bool :=
  match i with
  | INop => true
  | IOp o => op_guard cfg code st ip o
  | IPush n d => depth_ok st && fits cfg (Known (push_word d))
  | IDup n => depth_ok st && (n <=? N.of_nat (length (stack st)))
  | ISwap n => n <? N.of_nat (length (stack st))
  | IInvalid b => evm_halts b       (* INVALID and unassigned bytes end the path, like STOP *)
  | ILog _ => false
  end.


(* the instruction pointer at which the thread continues if it is not retired (JUMP: behind the JUMPDEST) *)
Definition next_ip (st : vstate) (ip : N) (i : instr) : N :=
  match i with
  | IOp o => match classify o with
             | KJump => match stack st with
                        | counter :: _ => match as_word (constant_fold counter) with Some w => w + 1 | None => ip + 1 end
                        | [] => ip + 1 end
             | _ => ip + 1 end
  | _ => ip + 1
  end.


(* ---- the guard of a step of the machine on its head thread ---- *)
Definition limits_guard (cfg : limits) (t : thread) (i : instr) : bool :=
  negb (iter_limit cfg <=? count_of (next_ip (tstate t) (tip t) i) (bump (tip t) (tvis t)))
  && negb (gas_limit cfg <? tgas t + instr_gas i).

Definition step_guard (code : list instr) (cfg : limits) (t : thread) : bool :=
  match nth_error code (N.to_nat (tip t)) with
  | Some i => instr_guard cfg code (tstate t) (tip t) i && limits_guard cfg t i
  | None => false
  end.


(* ---- a path and its lineage ---- *)
Fixpoint is_prefix (a p : list bool) : bool :=
  match a, p with
  | [], _ => true
  | x :: a', y :: p' => Bool.eqb x y && is_prefix a' p'
  | _ :: _, [] => false
  end.

(* the guards of all the iterations (among the first n from m) that work on a thread of the lineage of path p *)
Fixpoint guards_along (code : list instr) (cfg : limits) (n : nat) (m : vm) (p : list bool) : bool :=
  match n with
  | O => true
  | S n' =>
      match vm_step constant_fold m with
      | SRunning m' =>
          (match v_queue m with
           | t :: _ => if is_prefix (tpath t) p then step_guard code cfg t else true
           | [] => true end)
          && guards_along code cfg n' m' p
      | _ => true
      end
  end.


(* ---- C08, converse direction: no reachable code is skipped ----
   `fork_guard`: at a JUMPI the jump-taken outcome is not lost -- either the target validates and neither the
   iteration limit at the target nor the fork limit suppresses the fork, or the target does not validate and the
   reference EVM cannot take the jump either (the target denotes no word, or a word that is no valid destination).
   (A target that denotes a valid destination but does not constant-fold, e.g. one loaded from storage, fails it.) *)
Definition fork_guard (bytes : list byte) (code : list instr) (cfg : limits) (jt : list (N * N)) (t : thread) (i : instr) : bool :=
  if is_jumpi i then
    match stack (tstate t) with
    | counter :: _ :: _ =>
        match validate_jump constant_fold code counter with
        | inl tg => negb (iter_limit cfg <=? count_of tg (bump (tip t) (tvis t))) && negb (fork_limit cfg <=? count_of tg jt)
        | inr _ => match den counter with Some w => negb (valid_dest bytes w) | None => true end
        end
    | _ => true
    end
  else true.

(* a JUMP that ends the path in both machines: its target does not validate (the thread is retired with an error)
   and the reference EVM cannot take it either (stack underflow, no word, or a word that is no valid destination) *)
Definition dead_jump_guard (bytes : list byte) (code : list instr) (st : vstate) (i : instr) : bool :=
  match i with
  | IOp o =>
      match classify o with
      | KJump =>
          match stack st with
          | counter :: _ =>
              match validate_jump constant_fold code counter with
              | inl _ => false
              | inr _ => match den counter with Some w => negb (valid_dest bytes w) | None => true end
              end
          | [] => true
          end
      | _ => false
      end
  | _ => false
  end.

Definition step_guard2 (bytes : list byte) (code : list instr) (cfg : limits) (m : vm) (t : thread) : bool :=
  match nth_error code (N.to_nat (tip t)) with
  | Some i => (step_guard code cfg t && fork_guard bytes code cfg (v_jt m) t i) || dead_jump_guard bytes code (tstate t) i
  | None => false
  end.

(* every iteration among the first n from m satisfies the guards, whichever thread it works on *)
Fixpoint guards_all (bytes : list byte) (code : list instr) (cfg : limits) (n : nat) (m : vm) : bool :=
  match n with
  | O => true
  | S n' =>
      match vm_step constant_fold m with
      | SRunning m' =>
          (match v_queue m with t :: _ => step_guard2 bytes code cfg m t | [] => true end)
          && guards_all bytes code cfg n' m'
      | _ => true
      end
  end.
