(* A reference concrete EVM for the fragment of property C07 (and the control-flow oracle of C08),
   written from the Yellow Paper over the raw BYTES of the code, independently of the
   implementation's disassembler, opcode table and value representation.

   - words are `option N`: `Some w` a concrete 256-bit word, `None` a value that is not a constant
     (environment reads etc.; C07's programs never produce one, C08's may);
   - the outcome of a conditional jump is supplied by the path (a list of booleans), because the
     property compares the machines "along the same path";
   - memory is word-granular at the offsets the program uses (C07 only uses word-aligned accesses);
     absent = 0; storage absent = 0. *)
From SLX Require Import Base Word256 EvmSpec.
Open Scope N_scope.

Definition word := option N.

Record estate := mk_estate {
  e_pc : N;
  e_stack : list word;                 (* head = top *)
  e_mem : list (N * word);             (* byte offset of an aligned word -> value *)
  e_sto : list (N * word);             (* key -> current value *)
  e_hist : list (N * word) }.          (* every SSTORE of the path, oldest first *)

Definition e_init : estate := mk_estate 0 [] [] [] [].

Inductive eres :=
| ENext (s : estate)
| EHalt (s : estate)           (* STOP / RETURN / REVERT / SELFDESTRUCT / INVALID / unassigned byte / end of code *)
| EFault (s : estate)          (* exceptional halt: stack under/overflow, bad jump destination *)
| EBeyond (s : estate).        (* an instruction or operand outside the modelled fragment *)

(* ---- code ---- *)
Definition byte_at (code : list byte) (pc : N) : option byte :=
  if N.of_nat (length code) <=? pc then None else nth_error code (N.to_nat pc).

Definition is_push_byte (b : byte) : bool := (96 <=? b) && (b <=? 127).

(* valid jump destinations: a 0x5b byte that is not inside PUSH data (YP section 9.4.3) *)
Fixpoint jumpdests_from (skip : N) (pos : N) (bs : list byte) : list N :=
  match bs with
  | [] => []
  | b :: r => if 0 <? skip then jumpdests_from (skip - 1) (pos + 1) r
              else if b =? 91 then pos :: jumpdests_from 0 (pos + 1) r
              else jumpdests_from (if is_push_byte b then b - 95 else 0) (pos + 1) r
  end.
Definition valid_dest (code : list byte) (t : N) : bool := existsb (N.eqb t) (jumpdests_from 0 0 code).

Fixpoint be_word (bs : list byte) (acc : N) : N :=
  match bs with [] => acc | b :: r => be_word r (acc * 256 + b) end.

(* the n immediate bytes after pc, zero-padded on the right when the code ends early (YP: c[x] = STOP = 0 beyond the end) *)
Definition push_data (code : list byte) (pc n : N) : N :=
  let avail := firstn (N.to_nat n) (skipn (N.to_nat (pc + 1)) code) in
  be_word (avail ++ repeat 0 (N.to_nat n - length avail)) 0.

(* ---- helpers ---- *)
Definition lift2 (f : N -> N -> N) (a b : word) : word :=
  match a, b with Some x, Some y => Some (f x y) | _, _ => None end.
Definition lift1 (f : N -> N) (a : word) : word := option_map f a.
Definition lift3 (f : N -> N -> N -> N) (a b c : word) : word :=
  match a, b, c with Some x, Some y, Some z => Some (f x y z) | _, _, _ => None end.

Fixpoint alist_get (k : N) (l : list (N * word)) : option word :=
  match l with [] => None | (k', v) :: r => if k =? k' then Some v else alist_get k r end.
Fixpoint alist_set (k : N) (v : word) (l : list (N * word)) : list (N * word) :=
  match l with [] => [(k, v)] | (k', v') :: r => if k =? k' then (k', v) :: r else (k', v') :: alist_set k v r end.

Definition with_pc_stack (s : estate) (pc : N) (st : list word) : estate :=
  mk_estate pc st (e_mem s) (e_sto s) (e_hist s).

Fixpoint swap_k (k : nat) (top : word) (s : list word) : option (word * list word) :=
  match s, k with
  | [], _ => None
  | x :: r, O => Some (x, top :: r)
  | x :: r, S k' => match swap_k k' top r with Some (o, r') => Some (o, x :: r') | None => None end
  end.

Definition binop (s : estate) (f : N -> N -> N) : eres :=
  match e_stack s with
  | a :: b :: r => ENext (with_pc_stack s (e_pc s + 1) (lift2 f a b :: r))
  | _ => EFault s
  end.
Definition unop (s : estate) (f : N -> N) : eres :=
  match e_stack s with
  | a :: r => ENext (with_pc_stack s (e_pc s + 1) (lift1 f a :: r))
  | _ => EFault s
  end.
Definition ternop (s : estate) (f : N -> N -> N -> N) : eres :=
  match e_stack s with
  | a :: b :: c :: r => ENext (with_pc_stack s (e_pc s + 1) (lift3 f a b c :: r))
  | _ => EFault s
  end.
Definition push_val (s : estate) (w : word) (next : N) : eres :=
  if 1024 <? N.of_nat (length (e_stack s)) + 1 then EFault s else ENext (with_pc_stack s next (w :: e_stack s)).

(* instructions outside C07's fragment whose only effect on control flow is their stack arity: they pop
   `fst` words and push `snd` non-constant words (used by the control-flow oracle of C08) *)
Definition generic_arity (b : byte) : option (nat * nat) :=
  match b with
  | 32 => Some (2%nat, 1%nat)                                   (* SHA3 *)
  | 48 | 50 | 51 | 52 | 54 | 58 | 61 | 65 | 66 | 67 | 68 | 69 | 70 | 71 | 72 | 89 | 90 => Some (0%nat, 1%nat)
  | 49 | 53 | 59 | 63 | 64 => Some (1%nat, 1%nat)               (* BALANCE CALLDATALOAD EXTCODESIZE EXTCODEHASH BLOCKHASH *)
  | 55 | 57 | 62 => Some (3%nat, 0%nat)                         (* CALLDATACOPY CODECOPY RETURNDATACOPY *)
  | 60 => Some (4%nat, 0%nat)                                   (* EXTCODECOPY *)
  | 83 => Some (2%nat, 0%nat)                                   (* MSTORE8 *)
  | 160 => Some (2%nat, 0%nat) | 161 => Some (3%nat, 0%nat) | 162 => Some (4%nat, 0%nat) | 163 => Some (5%nat, 0%nat) | 164 => Some (6%nat, 0%nat)
  | 240 => Some (3%nat, 1%nat) | 241 | 242 => Some (7%nat, 1%nat) | 244 | 250 => Some (6%nat, 1%nat) | 245 => Some (4%nat, 1%nat)
  | _ => None
  end.

(* one instruction; `branch` = the path's decision at a JUMPI (true = jump) *)
Definition estep (code : list byte) (branch : bool) (s : estate) : eres :=
  match byte_at code (e_pc s) with
  | None => EHalt s
  | Some b =>
    match b with
    | 0 => EHalt s
    | 1 => binop s spec_add | 2 => binop s spec_mul | 3 => binop s spec_sub | 4 => binop s spec_div
    | 5 => binop s spec_sdiv | 6 => binop s spec_mod | 7 => binop s spec_smod
    | 8 => ternop s spec_addmod | 9 => ternop s spec_mulmod
    | 10 => binop s xspec_exp | 11 => binop s spec_signextend
    | 16 => binop s spec_lt | 17 => binop s spec_gt | 18 => binop s spec_slt | 19 => binop s spec_sgt
    | 20 => binop s spec_eq | 21 => unop s spec_iszero
    | 22 => binop s spec_and | 23 => binop s spec_or | 24 => binop s spec_xor | 25 => unop s spec_not
    | 26 => binop s spec_byte
    | 27 => binop s xspec_shl | 28 => binop s xspec_shr | 29 => binop s xspec_sar
    | 80 => match e_stack s with _ :: r => ENext (with_pc_stack s (e_pc s + 1) r) | [] => EFault s end
    | 81 => (* MLOAD *)
        match e_stack s with
        | Some o :: r =>
            if (o mod 32 =? 0) && (o <? two64) then
              ENext (with_pc_stack s (e_pc s + 1) (match alist_get o (e_mem s) with Some v => v | None => Some 0 end :: r))
            else EBeyond s
        | None :: _ => EBeyond s
        | [] => EFault s
        end
    | 82 => (* MSTORE *)
        match e_stack s with
        | Some o :: v :: r =>
            if (o mod 32 =? 0) && (o <? two64) then
              ENext (mk_estate (e_pc s + 1) r (alist_set o v (e_mem s)) (e_sto s) (e_hist s))
            else EBeyond s
        | None :: _ :: _ => EBeyond s
        | _ => EFault s
        end
    | 84 => (* SLOAD *)
        match e_stack s with
        | Some k :: r => ENext (with_pc_stack s (e_pc s + 1) (match alist_get k (e_sto s) with Some v => v | None => Some 0 end :: r))
        | None :: _ => EBeyond s
        | [] => EFault s
        end
    | 85 => (* SSTORE *)
        match e_stack s with
        | Some k :: v :: r => ENext (mk_estate (e_pc s + 1) r (e_mem s) (alist_set k v (e_sto s)) (e_hist s ++ [(k, v)]))
        | None :: _ :: _ => EBeyond s
        | _ => EFault s
        end
    | 86 => (* JUMP *)
        match e_stack s with
        | Some t :: r => if valid_dest code t then ENext (with_pc_stack s t r) else EFault (with_pc_stack s (e_pc s) r)
        | None :: _ => EBeyond s
        | [] => EFault s
        end
    | 87 => (* JUMPI *)
        match e_stack s with
        | t :: _ :: r =>
            if branch then
              match t with
              | Some t' => if valid_dest code t' then ENext (with_pc_stack s t' r) else EFault (with_pc_stack s (e_pc s) r)
              | None => EBeyond s
              end
            else ENext (with_pc_stack s (e_pc s + 1) r)
        | _ => EFault s
        end
    | 88 => push_val s (Some (e_pc s)) (e_pc s + 1)                         (* PC *)
    | 56 => push_val s (Some (N.of_nat (length code))) (e_pc s + 1)        (* CODESIZE *)
    | 91 => ENext (with_pc_stack s (e_pc s + 1) (e_stack s))               (* JUMPDEST *)
    | 95 => push_val s (Some 0) (e_pc s + 1)                               (* PUSH0 *)
    | 243 | 253 => match e_stack s with _ :: _ :: r => EHalt (with_pc_stack s (e_pc s) r) | _ => EFault s end   (* RETURN REVERT *)
    | 255 => match e_stack s with _ :: r => EHalt (with_pc_stack s (e_pc s) r) | _ => EFault s end              (* SELFDESTRUCT *)
    | 254 => EHalt s                                                                                             (* INVALID *)
    | _ =>
        if is_push_byte b then push_val s (Some (push_data code (e_pc s) (b - 95))) (e_pc s + 1 + (b - 95))
        else if (128 <=? b) && (b <=? 143) then   (* DUPn *)
          let n := N.to_nat (b - 128) in
          match nth_error (e_stack s) n with
          | Some v => push_val s v (e_pc s + 1)
          | None => EFault s
          end
        else if (144 <=? b) && (b <=? 159) then   (* SWAPn *)
          match e_stack s with
          | top :: rest => match swap_k (N.to_nat (b - 144)) top rest with
                           | Some (o, rest') => ENext (with_pc_stack s (e_pc s + 1) (o :: rest'))
                           | None => EFault s end
          | [] => EFault s
          end
        else match generic_arity b with
             | Some (k, r) =>
                 if Nat.ltb (length (e_stack s)) k then EFault s
                 else let st := repeat None r ++ skipn k (e_stack s) in
                      if 1024 <? N.of_nat (length st) then EFault s else ENext (with_pc_stack s (e_pc s + 1) st)
             | None => if existsb (N.eqb b) [12;13;14;15;30;31;33;34;35;36;37;38;39;40;41;42;43;44;45;46;47;73;74;75;76;77;78;79;92;93;94]
                       then EHalt s      (* unassigned (in the implementation's fork of the instruction set): INVALID *)
                       else if (165 <=? b) && (b <=? 239) || (246 <=? b) && (b <=? 249) || (251 <=? b) && (b <=? 252)
                       then EHalt s else EBeyond s
             end
    end
  end.

(* follows a path: the booleans are consumed at JUMPIs; stops after `fuel` instructions *)
Fixpoint erun (code : list byte) (fuel : nat) (path : list bool) (s : estate) : eres * list bool :=
  match fuel with
  | O => (ENext s, path)
  | S f =>
      let at_jumpi := match byte_at code (e_pc s) with Some 87 => true | _ => false end in
      let '(br, path') := if at_jumpi then match path with b :: r => (b, r) | [] => (false, []) end else (false, path) in
      match estep code br s with
      | ENext s' => erun code f path' s'
      | r => (r, path')
      end
  end.
