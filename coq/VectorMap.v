(* VectorMap (src/data/vector_map.rs): a dense `Vec<Option<V>>` indexed by the key's unique index, with a
   separately maintained `size` counter.  Faithful executable model + the abstract specification
   (an ordinary finite map, kept as an association list ordered by key, like a BTreeMap).

   Model conventions: keys are `usize` indices, modelled as N; positions inside the vector are nat.
   Not modelled: allocation (an insert at index k allocates k+1 slots: memory exhaustion for huge
   keys is outside the model), `capacity`, and the overflow check of `size += 1` (size <= data.len()
   <= isize::MAX by `vm_ok`, so it cannot fire).  `size -= 1` IS modelled: it panics on underflow
   (overflow-checks are on in every profile of Cargo.toml), so `vm_remove` returns an outcome. *)
From SLX Require Import Base.
Open Scope N_scope.

Definition SITE_VM_SIZE_UNDERFLOW : N := 1901.

Section VectorMap.
  Context {V : Type}.

  Record vmap := mk_vmap { vm_data : list (option V); vm_size : N }.

  (* VectorMap::new / with_capacity / default *)
  Definition vm_new : vmap := mk_vmap [] 0.

  (* `while index >= self.data.len() { self.data.push(None) }` *)
  Definition vm_extend (d : list (option V)) (i : nat) : list (option V) :=
    d ++ repeat None (S i - length d).

  Fixpoint set_nth (d : list (option V)) (i : nat) (x : option V) : list (option V) :=
    match d, i with
    | [], _ => []
    | _ :: t, O => x :: t
    | h :: t, S j => h :: set_nth t j x
    end.

  (* insert: `if self.data[index].replace(value).is_none() { self.size += 1 }` *)
  Definition vm_insert (m : vmap) (k : N) (v : V) : vmap :=
    let i := N.to_nat k in
    let d := vm_extend (vm_data m) i in
    match nth i d None with
    | None => mk_vmap (set_nth d i (Some v)) (vm_size m + 1)
    | Some _ => mk_vmap (set_nth d i (Some v)) (vm_size m)
    end.

  (* get / get_mut *)
  Definition vm_get (m : vmap) (k : N) : option V :=
    match nth_error (vm_data m) (N.to_nat k) with
    | Some o => o
    | None => None
    end.

  (* remove: `if index < len { let value = data[index].take(); if value.is_some() { size -= 1 }; value } else { None }` *)
  Definition vm_remove {E : Type} (m : vmap) (k : N) : outcome (vmap * option V) E :=
    let i := N.to_nat k in
    if Nat.ltb i (length (vm_data m)) then
      match nth i (vm_data m) None with
      | Some v =>
          if vm_size m =? 0 then Panic SITE_VM_SIZE_UNDERFLOW
          else Ok (mk_vmap (set_nth (vm_data m) i None) (vm_size m - 1), Some v)
      | None => Ok (m, None)
      end
    else Ok (m, None).

  Definition vm_len (m : vmap) : N := vm_size m.
  Definition vm_is_empty (m : vmap) : bool := vm_size m =? 0.

  (* max_key_index: `if self.is_empty() { None } else { Some(self.data.len() - 1) }` -- note: the length of
     the backing vector, which never shrinks, not the largest key that is currently present *)
  Definition vm_max_key_index (m : vmap) : option N :=
    if vm_is_empty m then None else Some (N.of_nat (length (vm_data m)) - 1).

  (* iter / iter_mut: enumerate, keep the occupied slots; increasing index order *)
  Fixpoint iter_from (i : N) (d : list (option V)) : list (N * V) :=
    match d with
    | [] => []
    | Some v :: t => (i, v) :: iter_from (i + 1) t
    | None :: t => iter_from (i + 1) t
    end.
  Definition vm_iter (m : vmap) : list (N * V) := iter_from 0 (vm_data m).

  (* indices / into_indices: `enumerate().filter_map(|(i, v)| v.as_ref().map(|_| i))` *)
  Fixpoint indices_from (i : N) (d : list (option V)) : list N :=
    match d with
    | [] => []
    | Some _ :: t => i :: indices_from (i + 1) t
    | None :: t => indices_from (i + 1) t
    end.
  Definition vm_indices (m : vmap) : list N := indices_from 0 (vm_data m).

  (* values / into_values: `iter().filter_map(Option::as_ref)` / `into_iter().flatten()` *)
  Fixpoint values_of (d : list (option V)) : list V :=
    match d with
    | [] => []
    | Some v :: t => v :: values_of t
    | None :: t => values_of t
    end.
  Definition vm_values (m : vmap) : list V := values_of (vm_data m).

  (* ------------------------------------------------------------------------------------------
     Abstract specification: an ordinary finite map, as an association list ordered by key. *)
  Definition fmap := list (N * V).

  Fixpoint fm_get (k : N) (l : fmap) : option V :=
    match l with
    | [] => None
    | (k', v) :: t => if k =? k' then Some v else fm_get k t
    end.

  (* insert-or-overwrite, keeping the key order *)
  Fixpoint fm_insert (k : N) (v : V) (l : fmap) : fmap :=
    match l with
    | [] => [(k, v)]
    | (k', v') :: t =>
        if k <? k' then (k, v) :: l
        else if k =? k' then (k, v) :: t
        else (k', v') :: fm_insert k v t
    end.

  Definition fm_remove (k : N) (l : fmap) : fmap := filter (fun p => negb (fst p =? k)) l.

  Definition fm_len (l : fmap) : N := N.of_nat (length l).

  (* ------------------------------------------------------------------------------------------
     Operation histories. *)
  Inductive vop :=
  | VInsert (k : N) (v : V)
  | VGet (k : N)          (* get and get_mut *)
  | VRemove (k : N)
  | VIter.                (* iter/iter_mut, indices/into_indices, values/into_values *)

  Inductive vout :=
  | VoUnit
  | VoOpt (o : option V)
  | VoIter (pairs : list (N * V)) (idx : list N) (vals : list V).

  (* what is observed after every operation: its result, then len(), is_empty(), max_key_index() *)
  Record vobs := mk_vobs { vo_out : vout; vo_len : N; vo_empty : bool; vo_maxk : option N }.

  Definition vm_observe (m : vmap) (o : vout) : vobs :=
    mk_vobs o (vm_len m) (vm_is_empty m) (vm_max_key_index m).

  Definition vm_step {E : Type} (m : vmap) (op : vop) : outcome (vmap * vobs) E :=
    match op with
    | VInsert k v => let m' := vm_insert m k v in Ok (m', vm_observe m' VoUnit)
    | VGet k => Ok (m, vm_observe m (VoOpt (vm_get m k)))
    | VRemove k =>
        match vm_remove m k with
        | Ok (m', r) => Ok (m', vm_observe m' (VoOpt r))
        | Err e => Err e
        | Panic s => Panic s
        end
    | VIter => Ok (m, vm_observe m (VoIter (vm_iter m) (vm_indices m) (vm_values m)))
    end.

  Fixpoint vm_run_from {E : Type} (m : vmap) (ops : list vop) : outcome (vmap * list vobs) E :=
    match ops with
    | [] => Ok (m, [])
    | op :: t =>
        match vm_step m op with
        | Ok (m', o) =>
            match vm_run_from m' t with
            | Ok (m'', os) => Ok (m'', o :: os)
            | Err e => Err e
            | Panic s => Panic s
            end
        | Err e => Err e
        | Panic s => Panic s
        end
    end.
  Definition vm_run {E : Type} (ops : list vop) : outcome (vmap * list vobs) E := vm_run_from vm_new ops.

  (* the specification's side; the largest key present plays the role of max_key_index (compared
     separately: the implementation's max_key_index is NOT that, see VecMapProofs/DsuProofs) *)
  Definition fm_max_key (l : fmap) : option N :=
    fold_left (fun acc p => match acc with None => Some (fst p) | Some a => Some (N.max a (fst p)) end) l None.

  Definition fm_observe (l : fmap) (o : vout) : vobs :=
    mk_vobs o (fm_len l) (match l with [] => true | _ => false end) (fm_max_key l).

  Definition fm_step (l : fmap) (op : vop) : fmap * vobs :=
    match op with
    | VInsert k v => let l' := fm_insert k v l in (l', fm_observe l' VoUnit)
    | VGet k => (l, fm_observe l (VoOpt (fm_get k l)))
    | VRemove k => let l' := fm_remove k l in (l', fm_observe l' (VoOpt (fm_get k l)))
    | VIter => (l, fm_observe l (VoIter l (map fst l) (map snd l)))
    end.

  Fixpoint fm_run_from (l : fmap) (ops : list vop) : fmap * list vobs :=
    match ops with
    | [] => (l, [])
    | op :: t => let '(l', o) := fm_step l op in let '(l'', os) := fm_run_from l' t in (l'', o :: os)
    end.
  Definition fm_run (ops : list vop) : fmap * list vobs := fm_run_from [] ops.

  (* everything of an observation that the property speaks about (contents, presence, length) *)
  Definition obs_core (o : vobs) : vout * N * bool := (vo_out o, vo_len o, vo_empty o).
End VectorMap.

Arguments vmap V : clear implicits.
Arguments fmap V : clear implicits.
Arguments vop V : clear implicits.
Arguments vout V : clear implicits.
Arguments vobs V : clear implicits.
