(* The fragment of judgement sets on which unification is independent of every hash-iteration order (C02) and
   local (C11), as DECIDABLE predicates, plus the vocabulary of the theorems in props/C02_unify.v and
   props/C11_unify.v.  Definitions only; proofs are in proofs/UnifyOrderProofs.v.

   The idea.  Without packed encodings, `unify` computes a congruence closure: the classes are the least
   equivalence that contains the declared equalities and is closed under "two constructed types of the same
   kind in one class have their components in one class" -- PROVIDED no class mixes kinds, because a conflict
   (or an absorbing DynamicArray / Bytes) swallows constructed evidence before or after its components were
   equated depending on the fold order (C16's K1/K2).  `order_free` computes that closure statically and checks
   that every class of it is homogeneous. *)
From SLX Require Import Base VectorMap DisjointSet gen.Constants gen.WordUseTable TypeExpr Merge Unify.
Open Scope N_scope.

(* ---- the judgement set as lists ---- *)
Definition pairs_of_eq (v : tyvar) (l : list te) : list (tyvar * tyvar) :=
  flat_map (fun e => match e with Equal id => [(v, id)] | _ => [] end) l.
(* the declared equalities (= UnifyProofs.declared_eqs) *)
Definition decl_eqs (st : tstate) : list (tyvar * tyvar) :=
  flat_map (fun v => pairs_of_eq v (ts_get st v)) (ts_vars st).
(* the evidence: (variable, non-equality expression) *)
Definition ev_list (st : tstate) : list (tyvar * te) :=
  flat_map (fun v => map (fun e => (v, e)) (filter (fun e => negb (is_equal e)) (ts_get st v))) (ts_vars st).

Definition is_ctor (e : te) : bool :=
  match e with Mapping _ _ | FixedArray _ _ | DynamicArray _ => true | _ => false end.
Definition ctor_ev (st : tstate) : list (tyvar * te) := filter (fun p => is_ctor (snd p)) (ev_list st).

(* the component equalities two constructed types of the same kind demand *)
Definition comp_pairs (e1 e2 : te) : list (tyvar * tyvar) :=
  match e1, e2 with
  | Mapping k1 v1, Mapping k2 v2 => [(k1, k2); (v1, v2)]
  | FixedArray x1 l1, FixedArray x2 l2 => if l1 =? l2 then [(x1, x2)] else []
  | DynamicArray x1, DynamicArray x2 => [(x1, x2)]
  | _, _ => []
  end.

(* evidence that may share a class: Any goes with everything; otherwise words with words, mappings with
   mappings, fixed arrays of one length, dynamic arrays with dynamic arrays.  Dynamic bytes, packed encodings
   and conflicts given as evidence are outside the fragment. *)
Definition kind_ok (e1 e2 : te) : bool :=
  match e1, e2 with
  | Any, Any => true
  | Any, (Word _ _ | Mapping _ _ | FixedArray _ _ | DynamicArray _) => true
  | (Word _ _ | Mapping _ _ | FixedArray _ _ | DynamicArray _), Any => true
  | Word _ _, Word _ _ => true
  | Mapping _ _, Mapping _ _ => true
  | FixedArray _ l1, FixedArray _ l2 => l1 =? l2
  | DynamicArray _, DynamicArray _ => true
  | _, _ => false
  end.

(* ---- partitions of the variables, by the verified partition model of C19 (data = unit) ---- *)
Definition part := astate unit.
Definition p_union (a : part) (p : tyvar * tyvar) : part := a_union unit (fun _ _ => tt) tt a (fst p) (snd p).
Definition part_of (ps : list (tyvar * tyvar)) : part := fold_left p_union ps (a_new unit).
Definition same_in (a : part) (x y : tyvar) : bool := a_rep unit a x =? a_rep unit a y.

(* ---- the congruence closure, computed ---- *)
Definition just_pairs (st : tstate) (a : part) : list (tyvar * tyvar) :=
  flat_map (fun p1 => flat_map (fun p2 => if same_in a (fst p1) (fst p2) then comp_pairs (snd p1) (snd p2) else [])
                        (ctor_ev st)) (ctor_ev st).
Definition cc_step (st : tstate) (ps : list (tyvar * tyvar)) : list (tyvar * tyvar) :=
  decl_eqs st ++ just_pairs st (part_of ps).
(* closed: every demanded component equality already holds *)
Definition closed_b (st : tstate) (ps : list (tyvar * tyvar)) : bool :=
  let a := part_of ps in forallb (fun p => same_in a (fst p) (snd p)) (just_pairs st a).
Fixpoint cc_iter (st : tstate) (n : nat) (ps : list (tyvar * tyvar)) : list (tyvar * tyvar) :=
  if closed_b st ps then ps else
  match n with
  | O => ps
  | S n' => cc_iter st n' (cc_step st ps)
  end.
Definition cc (st : tstate) : list (tyvar * tyvar) := cc_iter st (length (ts_vars st) + 2) (decl_eqs st).

(* homogeneous: all the evidence of one class may share a class *)
Definition homog_b (st : tstate) (ps : list (tyvar * tyvar)) : bool :=
  let a := part_of ps in
  forallb (fun p1 => forallb (fun p2 => negb (same_in a (fst p1) (fst p2)) || kind_ok (snd p1) (snd p2)) (ev_list st))
          (ev_list st).

(* THE fragment *)
Definition order_free (st : tstate) : bool :=
  packed_free st && closed_b st (cc st) && homog_b st (cc st).

(* its sub-fragment without constructed types: only equalities, words and Any *)
Definition words_only (st : tstate) : bool :=
  forallb (fun p => forallb (fun e => is_equal e || is_word e || is_any e) (snd p)) (ts_inf st).

(* ---- the congruence closure, as a relation ---- *)
Inductive CC (st : tstate) : tyvar -> tyvar -> Prop :=
| cc_decl x y : In (x, y) (decl_eqs st) -> CC st x y
| cc_comp x e1 y e2 p : In (x, e1) (ev_list st) -> In (y, e2) (ev_list st) -> CC st x y ->
    In p (comp_pairs e1 e2) -> CC st (fst p) (snd p)
| cc_refl x : CC st x x
| cc_sym x y : CC st x y -> CC st y x
| cc_trans x y z : CC st x y -> CC st y z -> CC st x z.

(* ---- what two runs are compared on ---- *)
(* what `get_data` returns for a variable: nothing / the empty set (a class without evidence), or one type;
   equal up to the choice of class representatives inside types and up to what a conflict says *)
Definition data_rel (R : tyvar -> tyvar -> Prop) (d1 d2 : option iset) : Prop :=
  match d1, d2 with
  | (None | Some []), (None | Some []) => True
  | Some [t1], Some [t2] => te_rel R t1 t2
  | _, _ => False
  end.
(* the same on `type_of`'s answers (UnificationFailure = no data entry; Any = an empty one) *)
Definition tof_rel (R : tyvar -> tyvar -> Prop) (t1 t2 : @tof) : Prop :=
  match t1, t2 with
  | TofType a, TofType b => te_rel R a b
  | TofFailure, TofFailure => True
  | TofFailure, TofType Any | TofType Any, TofFailure => True
  | _, _ => False
  end.

(* ---- C11: two judgement sets side by side ---- *)
Definition ts_app (st1 st2 : tstate) : tstate :=
  mk_tstate (ts_inf st1 ++ ts_inf st2) (N.max (ts_next st1) (ts_next st2)).
(* every variable a judgement set mentions: its registered variables and everything inside their expressions *)
Definition mentioned (st : tstate) : list tyvar :=
  ts_vars st ++ flat_map (fun p => flat_map te_vars (snd p)) (ts_inf st).
Definition disjoint_b (l1 l2 : list tyvar) : bool := forallb (fun x => negb (existsb (N.eqb x) l2)) l1.
