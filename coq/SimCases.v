(* C07 / C08 evaluated on the implementation's output: every retired state of the real VM against the
   reference EVM along the path the model assigns to that state (ghost `tpath`). *)
From Coq Require Import String.
From SLX Require Import Base gen.Constants gen.ValueSig gen.OpcodeTable SymVal Disasm Word256 EvmSpec Evm VM Sim QuickFold VmCases.
Open Scope N_scope.

Definition efuel (bytes : list byte) : nat := (4 * length bytes + 16)%nat.

(* 0 = match or not comparable; 41.. = mismatch *)
Definition state_vs_path (bytes : list byte) (st : vstate) (p : list bool) : N :=
  match erun bytes (efuel bytes) p e_init with
  | (EHalt e, _) => match_state st e
  | _ => 0
  end.
Definition comparable (bytes : list byte) (p : list bool) : bool :=
  match erun bytes (efuel bytes) p e_init with (EHalt _, _) => true | _ => false end.

Definition known_c07 (bytes : list byte) (st : vstate) (p : list bool) : bool :=
  existsb (fun b => existsb (N.eqb b) [8; 9; 11; 26]) (executed bytes (efuel bytes) p e_init)
  || negb (match sto_sym st with [] => true | _ => false end).

Fixpoint first_nonzero (l : list N) : N := match l with [] => 0 | 0 :: r => first_nonzero r | x :: _ => x end.

Definition c07_code (c : vcase) : N :=
  match try_from (c_code c), c_run c with
  | Ok code, XRun ok errs states jt retired queued polls =>
      let bytes := c_code c in
      let paths := v_paths (result_vm (model_run code (c_cfg c))) in
      if Nat.eqb (length states) (length paths) then
        first_nonzero (map (fun sp => match state_vs_path bytes (fst (fst sp)) (snd sp) with
                                      | 0 => 0
                                      | n => if known_c07 bytes (fst (fst sp)) (snd sp) then 60 else n end)
                           (combine states paths))
      else
        (* the implementation explored a different set of paths than the model: every state must still
           match the reference EVM along SOME path, and every path must be matched *)
        if forallb (fun st => existsb (fun p => state_vs_path bytes (fst st) p =? 0) paths) states then 0 else 46
  | _, XPanic _ => 47
  | _, _ => 0
  end.

Definition check_c07 (c : vcase) : N := match c07_code c with 0 => corr_code c | n => n end.

(* number of retired states that were compared with a halting concrete path (coverage statistic) *)
Definition c07_compared (c : vcase) : N :=
  match try_from (c_code c), c_run c with
  | Ok code, XRun _ _ states _ _ _ _ =>
      let paths := v_paths (result_vm (model_run code (c_cfg c))) in
      N.of_nat (length (filter (comparable (c_code c)) paths))
  | _, _ => 0
  end.
