(* C07 / C08 evaluated on the implementation's output: every retired state of the real VM against the
   reference EVM along the path the model assigns to that state (ghost `tpath`). *)
From Coq Require Import String.
From SLX Require Import Base gen.Constants gen.ValueSig gen.OpcodeTable SymVal Disasm Word256 EvmSpec Evm VM Sim VmCases.
Open Scope N_scope.

Definition efuel (bytes : list byte) : nat := (4 * length bytes + 16)%nat.

(* 0 = match or not comparable; 41.. = mismatch *)
Definition state_vs_path (bytes : list byte) (st : vstate) (p : list bool) : N :=
  match erun bytes (efuel bytes) p e_init with
  | (EHalt e, _) => match_state st e
  | _ => 0
  end.
Definition comparable (bytes : list byte) (p : list bool) : bool :=
  match erun bytes (efuel bytes) p e_init with (EHalt _, _) => true | _ => false end.

Definition known_c07 (bytes : list byte) (st : vstate) (p : list bool) : bool :=
  existsb (fun b => existsb (N.eqb b) [8; 9; 11; 26]) (executed bytes (efuel bytes) p e_init)
  || negb (match sto_sym st with [] => true | _ => false end).

(* K5: the code ends in a PUSH whose immediates run past the end, and the concrete path executes it (the
   disassembler turns such a PUSH into INVALID, the EVM pushes the zero-padded word and stops). *)
Fixpoint truncated_tail (fuel : nat) (bytes : list byte) (pc : N) : bool :=
  match fuel with
  | O => false
  | S f =>
      match nth_error bytes (N.to_nat pc) with
      | None => false
      | Some b =>
          if (0x60 <=? b) && (b <=? 0x7f) then
            let n := b - 0x5f in
            if N.of_nat (length bytes) <? pc + 1 + n then true else truncated_tail f bytes (pc + 1 + n)
          else truncated_tail f bytes (pc + 1)
      end
  end.
Definition known5_c07 (bytes : list byte) (p : list bool) : bool :=
  truncated_tail (S (length bytes)) bytes 0
  && match rev (executed bytes (efuel bytes) p e_init) with
     | b :: _ => (0x60 <=? b) && (b <=? 0x7f)
     | [] => false
     end.

Fixpoint first_nonzero (l : list N) : N := match l with [] => 0 | 0 :: r => first_nonzero r | x :: _ => x end.

Definition c07_code (c : vcase) : N :=
  match try_from (c_code c), c_run c with
  | Ok code, XRun ok errs states jt retired queued polls =>
      let bytes := c_code c in
      let paths := v_paths (result_vm (model_run code (c_cfg c))) in
      if Nat.eqb (length states) (length paths) then
        first_nonzero (map (fun sp => match state_vs_path bytes (fst (fst sp)) (snd sp) with
                                      | 0 => 0
                                      | n => if known_c07 bytes (fst (fst sp)) (snd sp) then 60
                                             else if known5_c07 bytes (snd sp) then 62 else n end)
                           (combine states paths))
      else
        (* the implementation explored a different set of paths than the model: every state must still
           match the reference EVM along SOME path, and every path must be matched *)
        if forallb (fun st => existsb (fun p => state_vs_path bytes (fst st) p =? 0) paths) states then 0 else 46
  | _, XPanic _ => 47
  | _, _ => 0
  end.

Definition check_c07 (c : vcase) : N := match c07_code c with 0 => corr_code c | n => n end.

(* number of retired states that were compared with a halting concrete path (coverage statistic) *)
Definition c07_compared (c : vcase) : N :=
  match try_from (c_code c), c_run c with
  | Ok code, XRun _ _ states _ _ _ _ =>
      let paths := v_paths (result_vm (model_run code (c_cfg c))) in
      N.of_nat (length (filter (comparable (c_code c)) paths))
  | _, _ => 0
  end.

(* ---- C08: executed offsets vs the control-flow graph of the reference EVM ---- *)
Definition succs (r : eres) : list estate := match r with ENext s => [s] | _ => [] end.
Definition is_beyond (r : eres) : bool := match r with EBeyond _ => true | _ => false end.

(* all offsets the reference EVM can execute when both outcomes of every JUMPI are possible;
   None when the exploration budget runs out (loops) or an instruction outside the oracle is met *)
Fixpoint explore (code : list byte) (fuel : nat) (work : list estate) (seen : list N) : option (list N) :=
  match fuel with
  | O => match work with [] => Some seen | _ => None end
  | S f =>
      match work with
      | [] => Some seen
      | s :: rest =>
          match byte_at code (e_pc s) with
          | None => explore code f rest seen
          | Some b =>
              let r1 := estep code false s in
              if is_beyond r1 then None
              else if b =? 87 then
                let r2 := estep code true s in
                if is_beyond r2 then None else explore code f (succs r2 ++ succs r1 ++ rest) (e_pc s :: seen)
              else explore code f (succs r1 ++ rest) (e_pc s :: seen)
          end
      end
  end.

(* offsets a JUMP lands on: the JUMPDEST itself is stepped over, not executed, by design of Jump::execute *)
Fixpoint landings (code : list byte) (fuel : nat) (work : list estate) (acc : list N) : list N :=
  match fuel with
  | O => acc
  | S f =>
      match work with
      | [] => acc
      | s :: rest =>
          match byte_at code (e_pc s) with
          | None => landings code f rest acc
          | Some b =>
              let r1 := estep code false s in
              let acc' := if b =? 86 then match r1 with ENext s' => e_pc s' :: acc | _ => acc end else acc in
              if b =? 87 then landings code f (succs (estep code true s) ++ succs r1 ++ rest) acc'
              else landings code f (succs r1 ++ rest) acc'
          end
      end
  end.

Definition mem_N (x : N) (l : list N) : bool := existsb (N.eqb x) l.

Definition c08_code (c : vcase) : N :=
  match c_run c with
  | XRun ok errs states jt retired queued polls =>
      let bytes := c_code c in
      let fuel := (64 * length bytes + 64)%nat in
      match explore bytes fuel [e_init] [] with
      | None => 0
      | Some reach =>
          (* push immediates are Nop entries the machine steps through; they are not instruction offsets *)
          let imm := immediates 0 bytes in
          let is_instr := fun o => negb (nth (N.to_nat o) imm false) in
          let visited := filter is_instr (flat_map (fun st => map fst (filter (fun p => negb (snd p =? 0)) (snd st))) states) in
          if negb (forallb (fun o => mem_N o reach) visited) then 50
          else let land := landings bytes fuel [e_init] [] in
               if negb (forallb (fun o => mem_N o visited || mem_N o land) reach) then 51 else 0
      end
  | XPanic _ => 52
  | _ => 0
  end.

Definition check_c08 (c : vcase) : N := match c08_code c with 0 => corr_code c | n => n end.
Definition c08_explored (c : vcase) : N :=
  match explore (c_code c) (64 * length (c_code c) + 64)%nat [e_init] [] with Some r => 1 + N.of_nat (length r) | None => 0 end.

(* ---- C17 against the reference: a bad jump the concrete EVM can reach must surface in strict mode ---- *)
Definition is_fault (r : eres) : bool := match r with EFault _ => true | _ => false end.

(* Some true: exploring both outcomes of every JUMPI, the reference EVM reaches a JUMP / taken JUMPI with enough
   operands that faults (bad destination); None: budget exhausted (loops) or outside the oracle *)
Fixpoint bad_jump_reachable (code : list byte) (fuel : nat) (work : list estate) : option bool :=
  match fuel with
  | O => match work with [] => Some false | _ => None end
  | S f =>
      match work with
      | [] => Some false
      | s :: rest =>
          match byte_at code (e_pc s) with
          | None => bad_jump_reachable code f rest
          | Some b =>
              let r1 := estep code false s in
              if is_beyond r1 then None
              else if b =? 86 then
                if is_fault r1 && (1 <=? N.of_nat (length (e_stack s))) then Some true
                else bad_jump_reachable code f (succs r1 ++ rest)
              else if b =? 87 then
                let r2 := estep code true s in
                if is_beyond r2 then None
                else if is_fault r2 && (2 <=? N.of_nat (length (e_stack s))) then Some true
                else bad_jump_reachable code f (succs r2 ++ succs r1 ++ rest)
              else bad_jump_reachable code f (succs r1 ++ rest)
          end
      end
  end.

Definition generous (l : limits) : bool :=
  (30000000 <=? gas_limit l) && (10 <=? iter_limit l) && (50 <=? fork_limit l).

(* 38: the reference reaches a bad jump, yet strict mode reported no error at all;
   39: permissive mode's analysis differs from strict although no path has a bad jump and strict succeeded -- covered by 36 *)
Definition c17_ref_code (c : c17case) : N :=
  match k_strict c with
  | XRun ok1 _ _ _ _ _ _ =>
      if ok1 && generous (k_lim c) then
        match bad_jump_reachable (k_code c) (64 * length (k_code c) + 64)%nat [e_init] with
        | Some true => 38
        | _ => 0
        end
      else 0
  | _ => 0
  end.

Definition check_c17r (c : c17case) : N := match c17_ref_code c with 0 => check_c17 c | n => n end.
Definition c17_ref_decided (c : c17case) : N :=
  if generous (k_lim c) then
    match bad_jump_reachable (k_code c) (64 * length (k_code c) + 64)%nat [e_init] with
    | Some true => 2 | Some false => 1 | None => 0 end
  else 0.

(* ---- C17 against the reference, per fault: every fault the concrete EVM reaches must be listed in strict mode ---- *)
(* all (offset, is_jump_fault) at which the reference EVM faults when both outcomes of every JUMPI are explored:
   is_jump_fault = a JUMP / taken JUMPI with enough operands and a bad destination; otherwise a stack fault.
   None: budget exhausted (loops) or outside the oracle. *)
Fixpoint ref_faults_w (code : list byte) (fuel : nat) (work : list (estate * list N)) (acc : list (N * bool))
  : option (list (N * bool)) :=
  match fuel with
  | O => match work with [] => Some acc | _ => None end
  | S f =>
      match work with
      | [] => Some acc
      | (s, seen) :: rest =>
          match byte_at code (e_pc s) with
          | None => ref_faults_w code f rest acc
          | Some b =>
              (* the same instruction twice on one path: a loop; the symbolic machine cuts loops by its visit limit, the
                 reference does not -- undecided *)
              if existsb (N.eqb (e_pc s)) seen then None else
              let seen' := e_pc s :: seen in
              let r1 := estep code false s in
              if is_beyond r1 then None
              else
                let depth := N.of_nat (length (e_stack s)) in
                let acc1 := if is_fault r1 then (e_pc s, (b =? 86) && (1 <=? depth)) :: acc else acc in
                let next := fun r => map (fun x => (x, seen')) (succs r) in
                if b =? 87 then
                  let r2 := estep code true s in
                  if is_beyond r2 then None
                  else
                    let acc2 := if is_fault r2 && negb (is_fault r1) then (e_pc s, 2 <=? depth) :: acc1 else acc1 in
                    ref_faults_w code f (next r2 ++ next r1 ++ rest) acc2
                else ref_faults_w code f (next r1 ++ rest) acc1
          end
      end
  end.
Definition ref_faults (code : list byte) (fuel : nat) (work : list estate) (acc : list (N * bool)) : option (list (N * bool)) :=
  ref_faults_w code fuel (map (fun s => (s, [])) work) acc.

Definition stack_err_idx (k : N) : bool := (k =? 1) || (k =? 2).

(* 39: a fault the reference reaches is missing from strict mode's error list (same offset, same class of error) *)
Definition c17_ref_faults_code (c : c17case) : N :=
  match k_strict c with
  | XRun _ e1 _ _ _ _ _ =>
      if generous (k_lim c) then
        match ref_faults (k_code c) (64 * length (k_code c) + 64)%nat [e_init] [] with
        | Some fs =>
            if forallb (fun f : N * bool => existsb (fun e : N * N => (fst e =? fst f) &&
                                                   (if snd f then jump_err_idx (snd e) else stack_err_idx (snd e))) e1) fs
            then 0 else 39
        | None => 0
        end
      else 0
  | _ => 0
  end.

Definition check_c17r2 (c : c17case) : N :=
  match c17_ref_faults_code c with 0 => check_c17r c | n => n end.

(* ---- C03 (gas) against the reference: a thread's gas account is the gas of its WHOLE path from the start ---- *)
From SLX Require Import SimTrace.

(* a lower bound of what the symbolic machine must have charged along path p: the minimum gas of every instruction the
   reference EVM executes on that path except JUMPDESTs (a JUMP's landing is stepped over), except JUMPIs (the thread
   forked for the taken branch copies the account before the JUMPI itself is charged) and except the last one *)
Definition path_gas_lower (bytes : list byte) (code : list instr) (p : list bool) : N :=
  let pcs := removelast (epcs bytes (efuel bytes) p e_init) in
  fold_left (fun acc pc => match nth_error code (N.to_nat pc) with
                           | Some (IOp o) => if (op_byte o =? 91) || (op_byte o =? 87) then acc else acc + instr_gas (IOp o)
                           | Some i => acc + instr_gas i
                           | None => acc
                           end) pcs 0.

(* 26: a retired thread's gas account is below the gas of its own path (e.g. lost at a fork) *)
Definition c03_gas_code (c : vcase) : N :=
  match try_from (c_code c), c_run c with
  | Ok code, XRun _ _ states _ retired _ _ =>
      let bytes := c_code c in
      let paths := v_paths (result_vm (model_run code (c_cfg c))) in
      if Nat.eqb (length retired) (length paths) && (N.of_nat (length bytes) <? 4096) then
        if forallb (fun rp : (N * N) * list bool =>
                      negb (comparable bytes (snd rp))
                      || (gas_limit (c_cfg c) <? snd (fst rp))          (* retired by the gas limit: the path was cut *)
                      (* retired anywhere else than where the reference path halts (visit / fork limits): not compared *)
                      || negb (last (epcs bytes (efuel bytes) (snd rp) e_init) 0 =? fst (fst rp))
                      || (path_gas_lower bytes code (snd rp) <=? snd (fst rp)))
                   (combine retired paths)
        then 0 else 26
      else 0
  | _, _ => 0
  end.

Definition check_c03g (c : vcase) : N := match c03_gas_code c with 0 => check_c03 c | n => n end.


(* loop-aware form of code 38 (bad_jump_reachable above explores loops for as long as its fuel lasts, which the symbolic
   machine's visit limit does not): decided through ref_faults, undecided as soon as a path repeats an instruction *)
Definition c17_ref_code_lf (c : c17case) : N :=
  match k_strict c with
  | XRun ok1 _ _ _ _ _ _ =>
      if ok1 && generous (k_lim c) then
        match ref_faults (k_code c) (64 * length (k_code c) + 64)%nat [e_init] [] with
        | Some fs => if existsb (fun f : N * bool => snd f) fs then 38 else 0
        | None => 0
        end
      else 0
  | _ => 0
  end.
Definition check_c17r3 (c : c17case) : N :=
  match c17_ref_faults_code c with
  | 0 => match c17_ref_code_lf c with 0 => check_c17 c | n => n end
  | n => n
  end.
Definition c17_ref_decided_lf (c : c17case) : N :=
  if generous (k_lim c) then
    match ref_faults (k_code c) (64 * length (k_code c) + 64)%nat [e_init] [] with
    | Some fs => if existsb (fun f : N * bool => snd f) fs then 2 else 1
    | None => 0 end
  else 0.
