(* C20 -- the JSON form of layout entries.

   Model of `StorageSlot` / `AbiType` / `StructElement` (src/layout.rs, src/tc/abi.rs), of the code that
   `#[derive(Serialize, Deserialize)]` generates for them, of how serde_json 1.0 drives that code
   (externally tagged enums, objects or positional arrays for structs, unknown keys ignored, duplicate keys
   rejected, absent `Option` fields read as `None`, the recursion limit of 128), and of the hand-written
   0x-prefixed 64-digit hex codec of `U256Wrapper` (src/utility.rs) on top of ethnum's `from_str_hex`.

   The model works on a JSON *value* (this AST); the text layer of serde_json (escaping, number
   tokens, whitespace) is outside it.  Tag and key strings come from gen/JsonNames.v, which the translator
   (tools/tr_json.py) regenerates from the derive attributes on every run -- separately for the
   serialising and the deserialising side.  serde, serde_json and ethnum are modelled, not verified. *)
From Coq Require Import String Ascii.
From SLX Require Import Base gen.JsonNames.
Open Scope N_scope.

(* ------------------------------------------------------------------------------------------ JSON *)

Inductive json :=
| JNull
| JBool (b : bool)
| JNum (n : N)              (* a number token serde_json reads as u64: plain digits, value < 2^64 *)
| JNumX                     (* every other number token: sign, fraction, exponent, or >= 2^64 *)
| JStr (s : string)         (* the string after un-escaping, as UTF-8 bytes *)
| JArr (l : list json)
| JObj (fs : list (string * json)).   (* fields in document order, duplicates kept *)

Definition bstr (l : list N) : string := string_of_list_ascii (map ascii_of_N l).

(* nesting depth: the number of arrays/objects around the innermost value *)
Fixpoint jdepth (j : json) : nat :=
  match j with
  | JArr l => S (fold_right (fun x acc => Nat.max (jdepth x) acc) O l)
  | JObj fs => S (fold_right (fun kv acc => Nat.max (jdepth (snd kv)) acc) O fs)
  | _ => O
  end.

(* ---------------------------------------------------------------------------- the Rust data types *)

Inductive abi :=
| TAny
| TNumber (size : option N)
| TUInt (size : option N)
| TInt (size : option N)
| TAddress
| TSelector
| TFunction
| TBool
| TArray (size : N) (tp : abi)
| TBytes (length : option N)
| TBits (length : option N)
| TDynArray (tp : abi)
| TDynBytes
| TMapping (key_type value_type : abi)
| TStruct (elements : list (N * abi))            (* StructElement { offset, typ } *)
| TInfiniteType
| TConflictedType (conflicts reasons : list string).

Record slot := mk_slot { s_index : N; s_offset : N; s_typ : abi }.

(* the range facts the Rust types enforce: U256 < 2^256, usize < 2^64 *)
Definition wf_opt (o : option N) : Prop := match o with None => True | Some n => n < two64 end.
Fixpoint wf_abi (t : abi) : Prop :=
  match t with
  | TNumber s | TUInt s | TInt s | TBytes s | TBits s => wf_opt s
  | TArray n tp => n < two256 /\ wf_abi tp
  | TDynArray tp => wf_abi tp
  | TMapping k v => wf_abi k /\ wf_abi v
  | TStruct es => (fix all (l : list (N * abi)) : Prop :=
                    match l with [] => True | e :: r => (fst e < two64 /\ wf_abi (snd e)) /\ all r end) es
  | _ => True
  end.
Definition wf_slot (s : slot) : Prop := s_index s < two256 /\ s_offset s < two64 /\ wf_abi (s_typ s).

(* ------------------------------------------------------------------------ the 256-bit hex codec *)

Definition hex_char (d : N) : ascii := ascii_of_N (if d <? 10 then 48 + d else 87 + d).

Fixpoint to_digits (n : nat) (x : N) : list N :=       (* n hex digits, most significant first *)
  match n with O => [] | S k => to_digits k (x / 16) ++ [x mod 16] end.

(* "0x" ++ hex::encode(value.to_be_bytes()) *)
Definition to_hex (x : N) : string :=
  String "0"%char (String "x"%char (string_of_list_ascii (map hex_char (to_digits 64 x)))).

(* char::to_digit(16): both cases *)
Definition digit_val (c : ascii) : option N :=
  let n := N_of_ascii c in
  if (48 <=? n) && (n <=? 57) then Some (n - 48)
  else if (97 <=? n) && (n <=? 102) then Some (n - 87)
  else if (65 <=? n) && (n <=? 70) then Some (n - 55)
  else None.

(* the digit loop of ethnum's from_str_radix: unchecked for <= 64 digits (cannot overflow), checked
   beyond; in both cases the result is an error exactly when the running value leaves 256 bits *)
Fixpoint parse_digits (s : string) (acc : N) : option N :=
  match s with
  | EmptyString => Some acc
  | String c r =>
      match digit_val c with
      | None => None
      | Some d => let a := acc * 16 + d in if a <? two256 then parse_digits r a else None
      end
  end.

(* U256::from_str_hex: optional '+', then a mandatory lower-case "0x", then at least one digit *)
Definition of_hex (s : string) : option N :=
  match s with
  | EmptyString => None
  | String c r =>
      let unsigned :=
        if Ascii.eqb c "+"%char then match r with EmptyString => None | _ => Some r end
        else Some s in     (* a '-' stays in front of the prefix test and fails it *)
      match unsigned with
      | Some (String "0"%char (String "x"%char ds)) =>
          match ds with EmptyString => None | _ => parse_digits ds 0 end
      | _ => None
      end
  end.

(* --------------------------------------------------------------------------------- serialisation *)

(* serde writes the fields of a struct in declaration order; `perm` lists, in declaration order, the
   positions of the fields in the model's order *)
Definition permute {A} (perm : list nat) (l : list A) : list A :=
  flat_map (fun i => match nth_error l i with Some x => [x] | None => [] end) perm.
Definition mk_obj (perm : list nat) (kv : list (string * json)) : json := JObj (permute perm kv).

Definition j_opt (o : option N) : json := match o with None => JNull | Some n => JNum n end.
Definition j_variant (tag : string) (body : json) : json := JObj [(tag, body)].

Fixpoint abi_to_json (t : abi) : json :=
  match t with
  | TAny => JStr ts_Any
  | TAddress => JStr ts_Address
  | TSelector => JStr ts_Selector
  | TFunction => JStr ts_Function
  | TBool => JStr ts_Bool
  | TDynBytes => JStr ts_DynBytes
  | TInfiniteType => JStr ts_InfiniteType
  | TNumber s => j_variant ts_Number (mk_obj perm_Number [(fs_Number_size, j_opt s)])
  | TUInt s => j_variant ts_UInt (mk_obj perm_UInt [(fs_UInt_size, j_opt s)])
  | TInt s => j_variant ts_Int (mk_obj perm_Int [(fs_Int_size, j_opt s)])
  | TBytes s => j_variant ts_Bytes (mk_obj perm_Bytes [(fs_Bytes_length, j_opt s)])
  | TBits s => j_variant ts_Bits (mk_obj perm_Bits [(fs_Bits_length, j_opt s)])
  | TArray n tp =>
      j_variant ts_Array (mk_obj perm_Array [(fs_Array_size, JStr (to_hex n)); (fs_Array_tp, abi_to_json tp)])
  | TDynArray tp => j_variant ts_DynArray (mk_obj perm_DynArray [(fs_DynArray_tp, abi_to_json tp)])
  | TMapping k v =>
      j_variant ts_Mapping
        (mk_obj perm_Mapping [(fs_Mapping_key_type, abi_to_json k); (fs_Mapping_value_type, abi_to_json v)])
  | TStruct es =>
      j_variant ts_Struct
        (mk_obj perm_Struct
           [(fs_Struct_elements,
             JArr ((fix elems (l : list (N * abi)) : list json :=
                      match l with
                      | [] => []
                      | (o, t') :: r =>
                          mk_obj perm_StructElement
                            [(fs_StructElement_offset, JNum o); (fs_StructElement_typ, abi_to_json t')]
                          :: elems r
                      end) es))])
  | TConflictedType cs rs =>
      j_variant ts_ConflictedType
        (mk_obj perm_ConflictedType
           [(fs_ConflictedType_conflicts, JArr (map JStr cs)); (fs_ConflictedType_reasons, JArr (map JStr rs))])
  end.

Definition to_json (s : slot) : json :=
  mk_obj perm_StorageSlot
    [(fs_StorageSlot_index, JStr (to_hex (s_index s)));
     (fs_StorageSlot_offset, JNum (s_offset s));
     (fs_StorageSlot_typ, abi_to_json (s_typ s))].

(* ------------------------------------------------------------------------------- deserialisation *)

(* the visit_map code serde derives: a known key may occur once; other keys are skipped *)
Inductive fres := FAbsent | FOne (v : json) | FDup.
Definition lookup_all (k : string) (fs : list (string * json)) : list json :=
  flat_map (fun kv => if String.eqb (fst kv) k then [snd kv] else []) fs.
Definition field (k : string) (fs : list (string * json)) : fres :=
  match lookup_all k fs with [] => FAbsent | [v] => FOne v | _ => FDup end.

(* a field whose type is not Option: must be present *)
Definition req {A} (p : json -> option A) (r : fres) : option A :=
  match r with FOne v => p v | _ => None end.

Definition of_usize (j : json) : option N :=
  match j with JNum n => if n <? two64 then Some n else None | _ => None end.
Definition of_opt_usize (j : json) : option (option N) :=
  match j with JNull => Some None | _ => option_map Some (of_usize j) end.
(* an Option<usize> field: absent reads as None *)
Definition optf (r : fres) : option (option N) :=
  match r with FAbsent => Some None | FOne v => of_opt_usize v | FDup => None end.

Definition of_u256 (j : json) : option N := match j with JStr s => of_hex s | _ => None end.

Fixpoint all_some {A} (l : list (option A)) : option (list A) :=
  match l with
  | [] => Some []
  | Some x :: r => option_map (cons x) (all_some r)
  | None :: _ => None
  end.

(* serde_json keeps a budget of nestings it is still willing to enter (`remaining_depth`, 128 at the
   start; entering an array or object decrements it and fails when it reaches 0).  `f` below is that
   budget minus one: entering needs f >= 1 and continues with f - 1. *)

(* deserialize_struct: an object (fields by key) or an array (fields by position, exact length) *)
Definition enter (perm : list nat) (de_names : list string) (f : nat) (b : json)
  : option (list (string * json)) :=
  match f with
  | O => None
  | S _ =>
      match b with
      | JObj fs => Some fs
      | JArr vs =>
          let names := permute perm de_names in
          if Nat.eqb (List.length vs) (List.length names) then Some (combine names vs) else None
      | _ => None
      end
  end.

(* Vec<String> read at budget f *)
Definition strs_of (f : nat) (j : json) : option (list string) :=
  match f, j with
  | S _, JArr l => all_some (map (fun x => match x with JStr s => Some s | _ => None end) l)
  | _, _ => None
  end.

Inductive vtag :=
| VAny | VNumber | VUInt | VInt | VAddress | VSelector | VFunction | VBool | VArray | VBytes | VBits
| VDynArray | VDynBytes | VMapping | VStruct | VInfiniteType | VConflictedType.

Definition de_tags : list (string * vtag) :=
  [(td_Any, VAny); (td_Number, VNumber); (td_UInt, VUInt); (td_Int, VInt); (td_Address, VAddress);
   (td_Selector, VSelector); (td_Function, VFunction); (td_Bool, VBool); (td_Array, VArray);
   (td_Bytes, VBytes); (td_Bits, VBits); (td_DynArray, VDynArray); (td_DynBytes, VDynBytes);
   (td_Mapping, VMapping); (td_Struct, VStruct); (td_InfiniteType, VInfiniteType);
   (td_ConflictedType, VConflictedType)].

Fixpoint vtag_in (l : list (string * vtag)) (s : string) : option vtag :=
  match l with
  | [] => None
  | (k, v) :: r => if String.eqb k s then Some v else vtag_in r s
  end.
Definition vtag_of : string -> option vtag := vtag_in de_tags.

Definition unit_abi (v : vtag) : option abi :=
  match v with
  | VAny => Some TAny | VAddress => Some TAddress | VSelector => Some TSelector | VFunction => Some TFunction
  | VBool => Some TBool | VDynBytes => Some TDynBytes | VInfiniteType => Some TInfiniteType
  | _ => None
  end.

(* struct variants with one Option<usize> field *)
Definition body_size (perm : list nat) (fd : string) (C : option N -> abi) (f1 : nat) (body : json)
  : option abi :=
  match enter perm [fd] f1 body with
  | Some fs => option_map C (optf (field fd fs))
  | None => None
  end.

(* StructElement read at budget f3, its `typ` by `rec4` (AbiType at budget f3 - 1) *)
Definition elem_of (rec4 : json -> option abi) (f3 : nat) (e : json) : option (N * abi) :=
  match enter perm_StructElement [fd_StructElement_offset; fd_StructElement_typ] f3 e with
  | Some fs =>
      match req of_usize (field fd_StructElement_offset fs), req rec4 (field fd_StructElement_typ fs) with
      | Some o, Some t => Some (o, t)
      | _, _ => None
      end
  | None => None
  end.

(* Vec<StructElement> read at budget f2 *)
Definition elems_of (rec4 : json -> option abi) (f2 : nat) (j : json) : option (list (N * abi)) :=
  match f2, j with
  | S f3, JArr l => all_some (map (elem_of rec4 f3) l)
  | _, _ => None
  end.

(* the body of a struct variant, read at budget f1; rec2 = AbiType at budget f1 - 1,
   rec4 = AbiType at budget f1 - 3 *)
Definition struct_variant (v : vtag) (rec2 rec4 : json -> option abi) (f1 : nat) (body : json)
  : option abi :=
  match v with
  | VNumber => body_size perm_Number fd_Number_size TNumber f1 body
  | VUInt => body_size perm_UInt fd_UInt_size TUInt f1 body
  | VInt => body_size perm_Int fd_Int_size TInt f1 body
  | VBytes => body_size perm_Bytes fd_Bytes_length TBytes f1 body
  | VBits => body_size perm_Bits fd_Bits_length TBits f1 body
  | VArray =>
      match enter perm_Array [fd_Array_size; fd_Array_tp] f1 body with
      | Some fs =>
          match req of_u256 (field fd_Array_size fs), req rec2 (field fd_Array_tp fs) with
          | Some n, Some t => Some (TArray n t)
          | _, _ => None
          end
      | None => None
      end
  | VDynArray =>
      match enter perm_DynArray [fd_DynArray_tp] f1 body with
      | Some fs => option_map TDynArray (req rec2 (field fd_DynArray_tp fs))
      | None => None
      end
  | VMapping =>
      match enter perm_Mapping [fd_Mapping_key_type; fd_Mapping_value_type] f1 body with
      | Some fs =>
          match req rec2 (field fd_Mapping_key_type fs), req rec2 (field fd_Mapping_value_type fs) with
          | Some k, Some x => Some (TMapping k x)
          | _, _ => None
          end
      | None => None
      end
  | VStruct =>
      match enter perm_Struct [fd_Struct_elements] f1 body with
      | Some fs => option_map TStruct (req (elems_of rec4 (Nat.pred f1)) (field fd_Struct_elements fs))
      | None => None
      end
  | VConflictedType =>
      match enter perm_ConflictedType [fd_ConflictedType_conflicts; fd_ConflictedType_reasons] f1 body with
      | Some fs =>
          match req (strs_of (Nat.pred f1)) (field fd_ConflictedType_conflicts fs),
                req (strs_of (Nat.pred f1)) (field fd_ConflictedType_reasons fs) with
          | Some cs, Some rs => Some (TConflictedType cs rs)
          | _, _ => None
          end
      | None => None
      end
  | _ => None
  end.

(* AbiType (externally tagged): a bare string names a unit variant; an object must have exactly one
   entry `tag: body`; a unit variant in that form wants `null`; a struct variant wants an object or array *)
Fixpoint abi_of (f : nat) (j : json) {struct f} : option abi :=
  match j with
  | JStr s => match vtag_of s with Some v => unit_abi v | None => None end
  | JObj ((tag, body) :: nil) =>
      match f with
      | O => None
      | S f1 =>
          match vtag_of tag with
          | None => None
          | Some v =>
              match unit_abi v with
              | Some u => match body with JNull => Some u | _ => None end
              | None =>
                  let rec2 := match f1 with S f2 => abi_of f2 | O => fun _ => None end in
                  let rec4 := match f1 with S (S (S f4)) => abi_of f4 | _ => fun _ => None end in
                  struct_variant v rec2 rec4 f1 body
              end
          end
      end
  | _ => None
  end.

(* StorageSlot read at budget f *)
Definition slot_of (f : nat) (j : json) : option slot :=
  match enter perm_StorageSlot [fd_StorageSlot_index; fd_StorageSlot_offset; fd_StorageSlot_typ] f j with
  | Some fs =>
      match req of_u256 (field fd_StorageSlot_index fs),
            req of_usize (field fd_StorageSlot_offset fs),
            req (abi_of (Nat.pred f)) (field fd_StorageSlot_typ fs) with
      | Some i, Some o, Some t => Some (mk_slot i o t)
      | _, _, _ => None
      end
  | None => None
  end.

(* serde_json::from_str with its default recursion limit (remaining_depth = 128) *)
Definition default_budget : nat := 127.
Definition of_json (j : json) : option slot := slot_of default_budget j.
Definition abi_of_json (j : json) : option abi := abi_of default_budget j.
(* the same deserialiser with the limit switched off (Deserializer::disable_recursion_limit) *)
Definition of_json_nolimit (j : json) : option slot := slot_of (jdepth j) j.

(* nesting depth of the JSON the serialiser writes for a type / a slot *)
Fixpoint abi_jdepth (t : abi) : nat :=
  match t with
  | TNumber _ | TUInt _ | TInt _ | TBytes _ | TBits _ => 2
  | TArray _ tp | TDynArray tp => 2 + abi_jdepth tp
  | TMapping k v => 2 + Nat.max (abi_jdepth k) (abi_jdepth v)
  | TStruct es =>
      3 + (fix mx (l : list (N * abi)) : nat :=
             match l with [] => O | e :: r => Nat.max (S (abi_jdepth (snd e))) (mx r) end) es
  | TConflictedType _ _ => 3
  | _ => O
  end.
Definition slot_jdepth (s : slot) : nat := S (abi_jdepth (s_typ s)).

(* constructor nesting of a type (what a user would call its depth) *)
Fixpoint abi_nest (t : abi) : nat :=
  match t with
  | TNumber _ | TUInt _ | TInt _ | TBytes _ | TBits _ | TConflictedType _ _ => 1
  | TArray _ tp | TDynArray tp => S (abi_nest tp)
  | TMapping k v => S (Nat.max (abi_nest k) (abi_nest v))
  | TStruct es =>
      S ((fix mx (l : list (N * abi)) : nat :=
            match l with [] => O | e :: r => Nat.max (abi_nest (snd e)) (mx r) end) es)
  | _ => O
  end.

(* the two sides of every name agree (needed by the round trip; checked by computation) *)
Definition names_agree : bool := forallb (fun p => String.eqb (fst p) (snd p)) name_pairs.
