(* Correspondence + property evaluation for the `json` suites (C20).

   A valid case carries a slot (printed from the real Rust value) and what the real code did with it:
   the hex word serde wrote for the index alone and what reading it back gave, the JSON serde_json wrote
   for the whole slot (parsed into the AST), what serde_json::from_str::<StorageSlot> made of that text,
   whether that compared equal (PartialEq) and whether it serialises to the same text again.
   A malformed case carries a JSON value and what the real deserialiser of the named type did with it.

   check_case: 0 = fine; 1..9 = model and implementation disagree; >= 10 = the implementation's own
   results violate C20 (evaluated without the model of serde). *)
From Coq Require Import String Ascii.
From SLX Require Import Base gen.JsonNames Json.
Open Scope N_scope.

Inductive bres := BSlot (s : slot) | BAbi (t : abi) | BU256 (n : N) | BErr | BPanic.

Inductive vres :=
| VSerFail
| VOk (hex : string) (hex_back : option N) (j : json) (back : bres) (eq : bool) (same_text : bool).
Record vcase := mk_vcase { v_slot : slot; v_res : vres }.

Inductive mkind := KSlot | KAbi | KU256.
Record mcase := mk_mcase { m_kind : mkind; m_json : json; m_res : bres }.

Inductive case := CV (c : vcase) | CM (c : mcase).

(* ------------------------------------------------------------------------------------ equalities *)

Definition opt_eqb (a b : option N) : bool :=
  match a, b with None, None => true | Some x, Some y => x =? y | _, _ => false end.

Fixpoint abi_eqb (a b : abi) : bool :=
  match a, b with
  | TAny, TAny | TAddress, TAddress | TSelector, TSelector | TFunction, TFunction | TBool, TBool
  | TDynBytes, TDynBytes | TInfiniteType, TInfiniteType => true
  | TNumber x, TNumber y | TUInt x, TUInt y | TInt x, TInt y | TBytes x, TBytes y | TBits x, TBits y => opt_eqb x y
  | TArray n x, TArray m y => (n =? m) && abi_eqb x y
  | TDynArray x, TDynArray y => abi_eqb x y
  | TMapping k x, TMapping l y => abi_eqb k l && abi_eqb x y
  | TStruct xs, TStruct ys =>
      (fix go (xs ys : list (N * abi)) : bool :=
         match xs, ys with
         | [], [] => true
         | (o, x) :: xs', (p, y) :: ys' => (o =? p) && abi_eqb x y && go xs' ys'
         | _, _ => false
         end) xs ys
  | TConflictedType c r, TConflictedType d s => list_eqb String.eqb c d && list_eqb String.eqb r s
  | _, _ => false
  end.

Definition slot_eqb (a b : slot) : bool :=
  (s_index a =? s_index b) && (s_offset a =? s_offset b) && abi_eqb (s_typ a) (s_typ b).

Fixpoint json_eqb (a b : json) : bool :=
  match a, b with
  | JNull, JNull | JNumX, JNumX => true
  | JBool x, JBool y => Bool.eqb x y
  | JNum x, JNum y => x =? y
  | JStr x, JStr y => String.eqb x y
  | JArr x, JArr y =>
      (fix go (x y : list json) : bool :=
         match x, y with
         | [], [] => true
         | p :: x', q :: y' => json_eqb p q && go x' y'
         | _, _ => false
         end) x y
  | JObj x, JObj y =>
      (fix go (x y : list (string * json)) : bool :=
         match x, y with
         | [], [] => true
         | (k, p) :: x', (l, q) :: y' => String.eqb k l && json_eqb p q && go x' y'
         | _, _ => false
         end) x y
  | _, _ => false
  end.

(* object fields sorted by key (stable), recursively: the order of the fields of an object is not part
   of the comparison between the model's JSON and serde's *)
Fixpoint ins_field (kv : string * json) (l : list (string * json)) : list (string * json) :=
  match l with
  | [] => [kv]
  | x :: r => if String.leb (fst kv) (fst x) then kv :: l else x :: ins_field kv r
  end.
Fixpoint jnorm (j : json) : json :=
  match j with
  | JArr l => JArr (map jnorm l)
  | JObj fs => JObj (fold_right ins_field [] (map (fun kv => (fst kv, jnorm (snd kv))) fs))
  | _ => j
  end.
Definition json_same (a b : json) : bool := json_eqb (jnorm a) (jnorm b).

(* ------------------------------------------------------- the property on the implementation's output *)

Definition is_hex (c : ascii) : bool := match digit_val c with Some _ => true | None => false end.
(* "0x" followed by exactly 64 hexadecimal digits *)
Definition hex_shape (s : string) : bool :=
  match s with
  | String "0"%char (String "x"%char ds) =>
      Nat.eqb (String.length ds) 64 && forallb is_hex (list_ascii_of_string ds)
  | _ => false
  end.
Definition hex_value (s : string) : N :=
  match s with
  | String _ (String _ ds) =>
      fold_left (fun acc c => acc * 16 + match digit_val c with Some d => d | None => 0 end)
                (list_ascii_of_string ds) 0
  | _ => 0
  end.

Definition bres_of_slot (o : option slot) : bres := match o with Some s => BSlot s | None => BErr end.
Definition bres_of_abi (o : option abi) : bres := match o with Some s => BAbi s | None => BErr end.
Definition bres_of_u256 (o : option N) : bres := match o with Some s => BU256 s | None => BErr end.

(* 0 same; 5 accept/reject differs; 6 values differ; 7 wrong kind of result *)
Definition bres_cmp (model impl : bres) : N :=
  match model, impl with
  | BErr, BErr => 0
  | BSlot a, BSlot b => if slot_eqb a b then 0 else 6
  | BAbi a, BAbi b => if abi_eqb a b then 0 else 6
  | BU256 a, BU256 b => if a =? b then 0 else 6
  | BErr, (BSlot _ | BAbi _ | BU256 _) | (BSlot _ | BAbi _ | BU256 _), BErr => 5
  | _, _ => 7
  end.

Definition check_vcase (c : vcase) : N :=
  let s := v_slot c in
  match v_res c with
  | VSerFail => 10
  | VOk hex hb j back eq same =>
      if negb (hex_shape hex) then 11
      else if negb (hex_value hex =? s_index s) then 12
      else if negb (match hb with Some n => n =? s_index s | None => false end) then 13
      else
        match back with
        | BPanic => 14
        | BErr => if (127 <? jdepth j)%nat then 15 else 16
        | BSlot b =>
            if negb (s_index b =? s_index s) then 13
            else if negb eq then 17
            else if negb (slot_eqb b s && same) then 18
            (* the implementation is fine on this input; now the model against it *)
            else if negb (String.eqb (to_hex (s_index s)) hex) then 3
            else if negb (match of_hex hex, hb with Some a, Some b' => a =? b' | None, None => true | _, _ => false end) then 4
            else if negb (json_same (to_json s) j) then 1
            else if negb (N.eqb (bres_cmp (bres_of_slot (of_json j)) back) 0) then 2
            else 0
        | _ => 7
        end
  end.

(* for the cases of the known class (15) the model must predict the rejection too *)
Definition check_vcase_model_only (c : vcase) : N :=
  match v_res c with
  | VOk hex hb j back eq same =>
      if negb (json_same (to_json (v_slot c)) j) then 1
      else if negb (N.eqb (bres_cmp (bres_of_slot (of_json j)) back) 0) then 2
      else 0
  | VSerFail => 0
  end.

Definition check_mcase (c : mcase) : N :=
  match m_res c with
  | BPanic => 14
  | impl =>
      let model := match m_kind c with
                   | KSlot => bres_of_slot (of_json (m_json c))
                   | KAbi => bres_of_abi (abi_of_json (m_json c))
                   | KU256 => bres_of_u256 (of_u256 (m_json c))
                   end in
      bres_cmp model impl
  end.

Definition check_case (c : case) : N :=
  match c with CV v => check_vcase v | CM m => check_mcase m end.
(* second opinion on the valid cases: model against implementation regardless of the property verdict *)
Definition check_case_model (c : case) : N :=
  match c with CV v => check_vcase_model_only v | CM m => check_mcase m end.
