(* Model of StorageLayout::add (src/layout.rs): push, then a STABLE sort by the key the translator read
   from the source on this run (gen/LayoutKey.v).  `slice::sort_by_key` is modelled, not verified. *)
From Coq Require Import String.
From SLX Require Import Base gen.LayoutKey AbiT.
Open Scope N_scope.

Definition field_val (f : string) (e : entry) : N :=
  if String.eqb f "index" then fst (fst e) else if String.eqb f "offset" then snd (fst e) else 0.

(* lexicographic strict order on the key fields *)
Fixpoint key_lt (fields : list string) (a b : entry) : bool :=
  match fields with
  | [] => false
  | f :: r => (field_val f a <? field_val f b) || ((field_val f a =? field_val f b) && key_lt r a b)
  end.

(* stable insertion: the new element goes after every element whose key is not greater *)
Fixpoint insert_stable (fields : list string) (e : entry) (l : list entry) : list entry :=
  match l with
  | [] => [e]
  | x :: r => if key_lt fields e x then e :: x :: r else x :: insert_stable fields e r
  end.
Definition stable_sort (fields : list string) (l : list entry) : list entry :=
  fold_left (fun acc e => insert_stable fields e acc) l [].

Definition layout_add (l : list entry) (e : entry) : list entry := stable_sort layout_key_fields (l ++ [e]).
Definition layout_of (es : list entry) : list entry := fold_left layout_add es [].
