(* Correspondence + property evaluation for the C09 suites.  Each case carries an input and what the REAL
   code returned for it (harness/src/cmd_knownword.rs, cmd_fold.rs).  The property predicate is evaluated
   on the implementation's own output against the INDEPENDENT oracle (EvmSpec, `ref_fold` below); the model
   (KnownWord.v, Fold.v) is only consulted afterwards, for the correspondence obligation.
     0      fine
     1..9   model and implementation disagree (or the input is not a valid case)
     >= 10  the implementation's output violates C09 *)
From SLX Require Import Base Word256 EvmSpec gen.ValueSig gen.KnownWordSel gen.FoldTable SymVal KnownWord Fold.
Open Scope N_scope.

(* ------------------------------------------------------------------ suite `knownword` *)

Record kcase := mk_kcase { k_op : kwop; k_a : N; k_b : N; k_res : option N }.

(* the EVM operation each KnownWord operator stands for (receiver a, argument b -> stack order), executable *)
Definition kw_oracle (o : kwop) (a b : N) : N :=
  match o with
  | K_add => spec_add a b | K_mul => spec_mul a b | K_sub => spec_sub a b
  | K_div => spec_div a b | K_rem => spec_mod a b
  | K_signed_div => spec_sdiv a b | K_signed_rem => spec_smod a b
  | K_exp => xspec_exp a b
  | K_lt => spec_lt a b | K_gt => spec_gt a b | K_signed_lt => spec_slt a b | K_signed_gt => spec_sgt a b
  | K_eq => spec_eq a b | K_from_eq => spec_eq a b | K_is_zero => spec_iszero a
  | K_bitand => spec_and a b | K_bitor => spec_or a b | K_bitxor => spec_xor a b | K_not => spec_not a
  | K_shl => xspec_shl b a | K_shr => xspec_shr b a | K_sar => xspec_sar b a
  end.

(* debug = the harness was built with debug_assertions (ethnum's shift / overflow assertions on) *)
Definition check_kcase_gen (debug : bool) (c : kcase) : N :=
  let a := k_a c in
  let b := k_b c in
  if negb (in_rangeb a && in_rangeb b) then 9
  else match k_res c with
       | None => 11                                              (* the operator panicked *)
       | Some r =>
           if negb (r =? kw_oracle (k_op c) a b) then 10         (* wrong constant *)
           else if debug && kw_panics (k_op c) [a; b] then 2     (* model predicts a panic that did not happen *)
           else if negb (r =? kw_apply (k_op c) [a; b]) then 1   (* model computes another value *)
           else 0
       end.
Definition check_kcase := check_kcase_gen true.
Definition check_kcase_release := check_kcase_gen false.

(* ------------------------------------------------------------------ suite `fold` *)

Inductive fres := FOk (out : sv) (size : N) (out2 : sv) | FPanic.
Record fcase := mk_fcase { f_in : sv; f_res : fres }.

(* executable Yellow-Paper meaning of a foldable constructor applied to words *)
Definition xden_op (t : tag) (a : list N) (ds : list N) : option N :=
  match t with
  | T_Exp => bin xspec_exp a ds
  | T_LeftShift => bin xspec_shl a ds
  | T_RightShift => bin xspec_shr a ds
  | T_ArithmeticRightShift => bin xspec_sar a ds
  | _ => den_op t a ds
  end.

(* reference folder, written from the property statement alone: no arm table, no KnownWord *)
Fixpoint ref_fold (v : sv) : sv :=
  match v with
  | Node t a args =>
      let fargs := map ref_fold args in
      match a, all_words fargs with
      | [], Some ws => match xden_op t [] ws with Some r => Known r | None => Node t a fargs end
      | _, _ => Node t a fargs
      end
  end.

(* a concrete valuation of the non-arithmetic constructors, derived from a seed *)
Definition mix (seed : N) (t : tag) (a ds : list N) : N :=
  fold_left (fun acc x => wrap (acc * 6364136223846793005 + x + 1442695040888963407))
            (tag_idx t :: N.of_nat (length a) :: a ++ ds) seed.

Section XDen.
  Variable env : tag -> list N -> list N -> N.
  Fixpoint xden (v : sv) : N :=
    match v with
    | Node t a args =>
        let ds := map xden args in
        match xden_op t a ds with Some r => r | None => env t a ds end
    end.
End XDen.

Definition check_fcase (seed1 seed2 : N) (c : fcase) : N :=
  let i := f_in c in
  if negb (wfb i) then 9
  else match f_res c with
       | FPanic => 11                                                           (* the fold panicked *)
       | FOk out size out2 =>
           if negb ((xden (mix seed1) out =? xden (mix seed1) i) && (xden (mix seed2) out =? xden (mix seed2) i))
           then 10                                                              (* the meaning changed *)
           else if negb (sv_eqb out (ref_fold i)) then 12                       (* operator / operand positions / unfolded constant *)
           else if negb (sv_eqb out2 out) then 13                               (* folding again changes the result *)
           else if negb (size =? node_count out) then 3                         (* recorded size differs from the tree's *)
           else if negb (sv_eqb out (constant_fold i)) then 1                   (* model folds differently *)
           else 0
       end.

(* both suites behind one entry point *)
Inductive c09case := KCase (c : kcase) | KCaseRelease (c : kcase) | FCase (seed1 seed2 : N) (c : fcase).
Definition check_case (c : c09case) : N :=
  match c with
  | KCase k => check_kcase k
  | KCaseRelease k => check_kcase_release k
  | FCase s1 s2 f => check_fcase s1 s2 f
  end.
