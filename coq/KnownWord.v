(* The implementation's 256-bit operators AS WRITTEN in src/vm/value/known.rs (DESIGN.md 2.1):
   each `kw_*` is the Gallina term that translator step T4 selected for the current text of the
   corresponding Rust function (gen/KnownWordSel.v); nothing here is adjusted by hand, so a change
   of a body in /repo changes these definitions on the next run.
   `kw_apply` / `kw_panics` dispatch on the operation named by a constant_folder arm. *)
From SLX Require Import Base Word256 gen.KnownWordSel.
Open Scope N_scope.

(* receiver `a` (self), argument `b` (rhs) *)
Definition kw_add := sel_add.
Definition kw_mul := sel_mul.
Definition kw_sub := sel_sub.
Definition kw_div := sel_div.
Definition kw_rem := sel_rem.
Definition kw_signed_div := sel_signed_div.
Definition kw_signed_rem := sel_signed_rem.
Definition kw_exp := sel_exp.
Definition kw_lt := sel_lt.
Definition kw_gt := sel_gt.
Definition kw_signed_lt := sel_signed_lt.
Definition kw_signed_gt := sel_signed_gt.
Definition kw_eq := sel_eq.
Definition kw_from_eq := sel_from_eq.          (* KnownWord::from(a == b) *)
Definition kw_is_zero := sel_is_zero.
Definition kw_and := sel_bitand.
Definition kw_or := sel_bitor.
Definition kw_xor := sel_bitxor.
Definition kw_not := sel_not.
Definition kw_shl := sel_shl.                  (* self << rhs: self is the VALUE, rhs the shift *)
Definition kw_shr := sel_shr.
Definition kw_sar := sel_sar.

Definition arg0 (l : list N) : N := nth 0 l 0.
Definition arg1 (l : list N) : N := nth 1 l 0.

(* release-build value *)
Definition kw_apply (o : kwop) (l : list N) : N :=
  let a := arg0 l in
  let b := arg1 l in
  match o with
  | K_signed_div => kw_signed_div a b
  | K_signed_rem => kw_signed_rem a b
  | K_exp => kw_exp a b
  | K_lt => kw_lt a b
  | K_gt => kw_gt a b
  | K_signed_lt => kw_signed_lt a b
  | K_signed_gt => kw_signed_gt a b
  | K_eq => kw_eq a b
  | K_is_zero => kw_is_zero a
  | K_sar => kw_sar a b
  | K_add => kw_add a b
  | K_mul => kw_mul a b
  | K_sub => kw_sub a b
  | K_div => kw_div a b
  | K_rem => kw_rem a b
  | K_bitand => kw_and a b
  | K_bitor => kw_or a b
  | K_bitxor => kw_xor a b
  | K_not => kw_not a
  | K_shl => kw_shl a b
  | K_shr => kw_shr a b
  | K_from_eq => kw_from_eq a b
  end.

(* does the debug build (debug_assertions, the profile of `cargo test`) panic? *)
Definition kw_panics (o : kwop) (l : list N) : bool :=
  let a := arg0 l in
  let b := arg1 l in
  match o with
  | K_signed_div => sel_signed_div_panics a b
  | K_signed_rem => sel_signed_rem_panics a b
  | K_exp => sel_exp_panics a b
  | K_lt => sel_lt_panics a b
  | K_gt => sel_gt_panics a b
  | K_signed_lt => sel_signed_lt_panics a b
  | K_signed_gt => sel_signed_gt_panics a b
  | K_eq => sel_eq_panics a b
  | K_is_zero => sel_is_zero_panics a
  | K_sar => sel_sar_panics a b
  | K_add => sel_add_panics a b
  | K_mul => sel_mul_panics a b
  | K_sub => sel_sub_panics a b
  | K_div => sel_div_panics a b
  | K_rem => sel_rem_panics a b
  | K_bitand => sel_bitand_panics a b
  | K_bitor => sel_bitor_panics a b
  | K_bitxor => sel_bitxor_panics a b
  | K_not => sel_not_panics a
  | K_shl => sel_shl_panics a b
  | K_shr => sel_shr_panics a b
  | K_from_eq => sel_from_eq_panics a b
  end.
