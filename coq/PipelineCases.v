(* Cases of the PIPELINE correspondence suite: what the WHOLE analysis of the implementation returned on a program
   (harness/src/cmd_pipeline.rs: the real entry points of `Extractor::analyze`, and the same stages through the
   staged API with a dump after each stage), compared with `Pipeline.analyze_trace` on the same bytes, the same
   configuration, the slot table the implementation exports and the keccak values the harness computed.

   check_case:   0  same outcome (layout / kind of failure), same number of watchdog polls, same stage reached, every
                    dumped stage agrees
                 1  different kind of outcome or stage reached although no dumped stage disagrees, or the staged run of
                    the implementation ends differently from its own `analyze` run
                 2  the values handed to the type checker differ      (VM + all_values + unique)
                 3  the lifted values differ                          (the nine passes)
                 4  the number of type variables after assign_vars differs
                 5  the inference sets after infer differ             (the 16 rules)
                 6  all dumped stages agree, the final result does not (unify / abi_type_for / layout)
                 7  same outcome, but a different number of watchdog polls (a polled loop is modelled wrongly)
                 8  the keccak oracle of the harness misses a byte string the model hashes
                 9  halting differs (model out of fuel, implementation finished -- or the other way round)
                55  an intermediate stage differs (the final results agree), but the program is outside the scope of the
                    sorted hook: a state has two storage keys (or symbolic memory offsets) with the same sort key,
                    whose order is the hash map's;  56  the same, and the final results differ
                57  the implementation's unification needed more rounds than the fuel the cases are evaluated with (32):
                    not compared (the list-based model is too slow on such blow-ups)
                >= 10 (below 50)  an end-to-end property, evaluated on the implementation's own output, fails: see
                    `prop_from` and `check_modes` *)
From Coq Require Import String.
From SLX Require Import Base Word256 gen.Constants gen.ValueSig gen.PassOrder SymVal Disasm VM Fold PassesSlots
  PassesSlotsCases TypeExpr Register Rules Unify AbiT Layout Abi TcCases Pipeline.
Open Scope string_scope.
Open Scope list_scope.
Open Scope N_scope.

(* class: 0 = layout, 1 = structured error (stage 0 disassembly / 1 execution / 2 type checker, location, kind),
   2 = panic, 3 = wall-clock allowance exceeded (treated as non-termination) *)
Inductive xres := XR (class : N) (layout : list entry) (errors : list (N * N * string)) (polls : N).
Definition xr_class (x : xres) : N := match x with XR c _ _ _ => c end.
Definition xr_layout (x : xres) : list entry := match x with XR _ l _ _ => l end.
Definition xr_errors (x : xres) : list (N * N * string) := match x with XR _ _ e _ => e end.
Definition xr_polls (x : xres) : N := match x with XR _ _ _ p => p end.

Record xdump := mk_xdump {
  xd_full : bool;                                   (* false: the stage dumps were left out of the case *)
  xd_values : option (list sv);
  xd_lifted : option (list sv);
  xd_vars : option N;
  xd_infs : option (N * list (N * list te));       (* tyvar_count, the non-empty inference sets by variable *)
  xd_final : xres }.

Inductive pcase := PC (mode : order_mode) (bytes : list byte) (cfg : config) (oracle : list (list byte * N)) (real : xres) (dump : xdump).

(* ---- names of the error kinds as cmd_analyze.rs::error_terms prints them ---- *)
Definition exec_err_name (e : exec_err) : string :=
  match e with
  | EInstructionPointerOutOfBounds => "InstructionPointerOutOfBounds" | EStackDepthExceeded => "StackDepthExceeded"
  | ENoSuchStackFrame => "NoSuchStackFrame" | ENoSuchThread => "NoSuchThread" | EInvalidStep => "InvalidStep"
  | EInvalidOffsetForJump => "InvalidOffsetForJump" | EInvalidJumpTarget => "InvalidJumpTarget"
  | ENonExistentJumpTarget => "NonExistentJumpTarget" | ENoConcreteJumpDestination => "NoConcreteJumpDestination"
  | EGasLimitExceeded => "GasLimitExceeded" | ENotJumpTarget => "NotJumpTarget" | ENotJumpSource => "NotJumpSource"
  | EStoppedByWatchdog => "StoppedByWatchdog"
  end.
Definition dis_err_name (e : dis_err) : string :=
  match e with
  | EmptyBytecode => "EmptyBytecode" | BytecodeTooLarge => "BytecodeTooLarge" | InvalidPushSize _ => "InvalidPushSize"
  | InvalidStackItem _ => "InvalidStackItem" | InvalidTopicCount _ => "InvalidTopicCount"
  end.
Definition abi_err_name (e : abi_err) : string :=
  match e with
  | EUnificationFailure _ => "UnificationFailure" | EUnificationIncomplete _ => "UnificationIncomplete"
  | EInvalidInference _ _ => "InvalidInference" | EOutOfFuel => "OutOfFuel"
  end.

Definition err3_eqb (a b : N * N * string) : bool :=
  (fst (fst a) =? fst (fst b)) && (snd (fst a) =? snd (fst b)) && String.eqb (snd a) (snd b).
Definition xres_eqb (a b : xres) : bool :=
  match a, b with
  | XR c l e p, XR c' l' e' p' =>
      (c =? c') && list_eqb entry_eqb l l' && list_eqb err3_eqb e e' && ((p =? p') || negb ((c =? 0) || (c =? 1)))
  end.

(* does the model's result describe what the implementation returned?  (outcome, and -- whenever the run ended in a
   layout or a structured error -- the number of watchdog polls made, which also fixes the stage a stop landed in) *)
Definition outcome_matches (r : pipeline_result) (x : xres) : bool :=
  match r, x with
  | PLayout l, XR 0 l' _ _ => list_eqb entry_eqb l l'
  | PErrDisasm e, XR 1 _ errs _ =>
      match errs with [(0, _, k)] => String.eqb k (dis_err_name e) | _ => false end
  | PErrVm es, XR 1 _ errs _ => list_eqb err3_eqb (map (fun e => (1, fst e, exec_err_name (snd e))) es) errs
  | PErrStopped _, XR 1 _ errs _ => match errs with [(2, _, k)] => String.eqb k "StoppedByWatchdog" | _ => false end
  | PErrAbi e, XR 1 _ errs _ => match errs with [(2, _, k)] => String.eqb k (abi_err_name e) | _ => false end
  | PErrLift, XR 1 _ errs _ => forallb (fun e => fst (fst e) =? 2) errs
  | PErrInfer, XR 1 _ errs _ => forallb (fun e => fst (fst e) =? 2) errs
  | PPanic _, XR 2 _ _ _ => true
  | PFuelUnify, XR 3 _ _ _ => true            (* class K2: unification halts on neither side *)
  | _, _ => false
  end.
Definition polls_match (polls : N) (x : xres) : bool :=
  match x with XR 0 _ _ p | XR 1 _ _ p => p =? polls | _ => true end.
Definition result_matches (tr : ptrace) (x : xres) : bool :=
  outcome_matches (t_result tr) x && polls_match (t_polls tr) x.

(* ---- the keccak oracle covers what the proxy pass can hash (mirror of cmd_pipeline.rs::preimages) ---- *)
Fixpoint proxy_queries (v : sv) : list (list byte) :=
  match v with
  | Node t a args =>
      (match t, args with
       | T_Sha3, [Node T_KnownData [w] []] => [be_bytes w]
       | T_Sha3, [Node T_Concat _ values] =>
           match all_words (map constant_fold values) with Some ws => [words_bytes ws] | None => [] end
       | _, _ => []
       end) ++ flat_map proxy_queries args
  end.
Definition oracle_ok (table : list (N * N)) (o : list (list byte * N)) (values : list sv) : bool :=
  forallb (fun q => existsb (fun p => list_eqb N.eqb (fst p) q) o)
          (flat_map (fun v => proxy_queries v ++ proxy_queries (hashed_slots table v)) values).

(* ---- stage by stage ---- *)
(* the model's inference table, non-empty sets only, ascending by variable *)
Definition model_infs (i : list (tyvar * list te)) : list (tyvar * list te) :=
  sort_le (fun a b => fst a <=? fst b) (filter (fun p => match snd p with [] => false | _ => true end) i).
Definition infs_eqb (a b : list (tyvar * list te)) : bool :=
  list_eqb (fun p q => (fst p =? fst q) && set_eq_te (snd p) (snd q)) a b.

Definition opt_cmp {A B} (eqb : A -> B -> bool) (a : option A) (b : option B) (code : N) (k : N) : N :=
  match a, b with
  | Some x, Some y => if eqb x y then k else code
  | _, _ => k
  end.
Definition both_some {A B} (a : option A) (b : option B) : bool :=
  match a, b with Some _, Some _ => true | _, _ => false end.

Definition is_some {A} (o : option A) : bool := match o with Some _ => true | None => false end.
(* which stage the run reached: the same dumps are present on both sides *)
Definition same_stage (tr : ptrace) (d : xdump) : bool :=
  negb (xd_full d) ||
  (Bool.eqb (is_some (t_values tr)) (is_some (xd_values d)) && Bool.eqb (is_some (t_lifted tr)) (is_some (xd_lifted d))
   && Bool.eqb (is_some (t_vars tr)) (is_some (xd_vars d)) && Bool.eqb (is_some (t_infs tr)) (is_some (xd_infs d))).

Definition stage_code (tr : ptrace) (d : xdump) : N :=
  opt_cmp (list_eqb sv_eqb) (t_values tr) (xd_values d) 2
  (opt_cmp (list_eqb sv_eqb) (t_lifted tr) (xd_lifted d) 3
  (opt_cmp N.eqb (t_vars tr) (xd_vars d) 4
  (opt_cmp (fun a b => (fst a =? fst b) && infs_eqb (model_infs (snd a)) (snd b)) (t_infs tr) (xd_infs d) 5 0))).

Definition fuel_result (r : pipeline_result) : bool :=
  match r with PFuelVm | PFuelUnify | PFuelFind => true | _ => false end.

Definition raw_code (table : list (N * N)) (c : pcase) (tr : ptrace) : N :=
  match c with
  | PC mode bytes cfg o real d =>
      let r := t_result tr in
      if negb (oracle_ok table o (match t_values tr with Some vs => vs | None => [] end)) then 8
      else match stage_code tr d with
           | 0 =>
               if result_matches tr real then
                 (if negb (xres_eqb real (xd_final d)) then 1 else if same_stage tr d then 0 else 1)
               else if match r, real with PFuelUnify, XR 0 _ _ _ | PFuelUnify, XR 1 _ _ _ => true | _, _ => false end then 57
               else if fuel_result r || match real with XR 3 _ _ _ => true | _ => false end then 9
               else if outcome_matches r real then 7          (* same outcome, another number of polls *)
               else if both_some (t_infs tr) (xd_infs d) then 6 else 1
           | n => n
           end
  end.

Definition class_of (tr : ptrace) : N :=
  (if t_determined tr then 0 else 10) +
  match t_result tr with
  | PLayout _ => 0
  | PErrDisasm _ | PErrVm _ | PErrLift | PErrStopped _ | PErrInfer | PErrAbi _ => 1
  | PPanic _ => 2
  | PFuelUnify => 3
  | PFuelVm | PFuelFind | PModelBug => 4
  end.

(* a difference on a program whose order the hook does not determine: 55 when the final results agree all the same
   (only intermediate orders differ), 56 when the final results differ *)
Definition code_of (table : list (N * N)) (c : pcase) (tr : ptrace) : N :=
  match raw_code table c tr with
  | 0 => 0
  | 8 => 8
  | 57 => 57
  | n => if t_determined tr then n
         else match c with PC _ _ _ _ real _ => if result_matches tr real then 55 else 56 end
  end.

(* ---- the slot table, indexed ----
   `hashed_slots` looks every constant of every value up in the 10 000-entry table by linear search.  The analysis
   after the VM only depends on the table through the constants that occur in the collected values
   (proofs/PipelineProofs.v `analyze_tc_table_agree`), so the cases are evaluated with the sub-table of those
   constants, found through a binary trie over the low bits of the hash (built once per coqc process; bucket order =
   table order, so the first match is the same: `index_lookup_correct`). *)
Inductive trie := TLeaf (b : list (N * N)) | TNode (l r : trie).

Fixpoint tinsert (d : nat) (k : N) (e : N * N) (t : trie) : trie :=
  match d with
  | O => match t with TLeaf b => TLeaf (b ++ [e]) | TNode _ _ => t end
  | S d' =>
      let '(l, r) := match t with TNode l r => (l, r) | TLeaf _ => (TLeaf [], TLeaf []) end in
      if N.odd k then TNode l (tinsert d' (N.div2 k) e r) else TNode (tinsert d' (N.div2 k) e l) r
  end.

Fixpoint tbucket (d : nat) (k : N) (t : trie) : list (N * N) :=
  match d, t with
  | O, TLeaf b => b
  | S d', TNode l r => if N.odd k then tbucket d' (N.div2 k) r else tbucket d' (N.div2 k) l
  | _, _ => []
  end.

Definition index_depth : nat := 14.
Definition build_index (table : list (N * N)) : trie :=
  fold_left (fun t e => tinsert index_depth (fst e) e t) table (TLeaf []).
Definition index_lookup (idx : trie) (w : N) : option N := lookup_in (tbucket index_depth w idx) w.

Fixpoint dedupN (seen l : list N) : list N :=
  match l with
  | [] => []
  | x :: r => if existsb (N.eqb x) seen then dedupN seen r else x :: dedupN (x :: seen) r
  end.

(* the entries of the table for the constants of the values *)
Definition relevant_table (idx : trie) (values : list sv) : list (N * N) :=
  flat_map (fun w => match index_lookup idx w with Some i => [(w, i)] | None => [] end)
           (dedupN [] (flat_map all_consts values)).

(* the fuel the cases are evaluated with: 32 rounds of unification (class 57 beyond that; class K2 never halts) *)
Definition check_fuels : fuels := mk_fuels (2 ^ 40)%positive 32%nat.

(* the part every evaluation of a case shares: the VM phase and the sub-table for its values *)
Definition phase_of (idx : trie) (c : pcase) : vm_phase * list (N * N) :=
  match c with
  | PC mode bytes cfg o _ _ =>
      match vm_phase_of check_fuels bytes cfg with
      | VmFail r polls => (VmFail r polls, [])
      | VmOk stored polls => (VmOk stored polls, relevant_table idx (unique (all_values mode stored)))
      end
  end.

Definition trace_from (c : pcase) (pt : vm_phase * list (N * N)) : ptrace :=
  match c, fst pt with
  | PC mode bytes cfg o _ _, VmFail r polls => no_trace polls r
  | PC mode bytes cfg o _ _, VmOk stored polls =>
      analyze_tc (oracle_keccak o) (snd pt) mode check_fuels cfg (order_determined stored) stored polls
  end.

Definition trace_of (idx : trie) (c : pcase) : ptrace * list (N * N) :=
  let pt := phase_of idx c in (trace_from c pt, snd pt).

(* ---- the end-to-end properties, evaluated on the implementation's OWN layout (codes >= 10) ----
   10  the layout is not sorted by (slot index, bit offset)                                  (pipeline_layout_sorted)
   11  no SLOAD / SSTORE instruction in the stream, yet a non-empty layout                   (pipeline_storage_free_empty)
   12  a literal storage key (outside the hash table) of a retired state of the MODEL's VM run has no row
                                                                                             (pipeline_literal_key_row) *)
Definition storage_free_code (bytes : list byte) : bool :=
  match try_from bytes with Ok code => forallb (fun i => negb (is_storage_op i)) code | _ => false end.

Definition literal_keys (stored : list (vstate * list (N * N))) : list N :=
  flat_map (fun s => flat_map (fun p => match as_word (fst p) with Some w => [w] | None => [] end) (sto_known (fst s))) stored.

(* 13  the watchdog had turned to stop (the run made more polls than the stop index) yet the run did not end with the
       StoppedByWatchdog error                                                                 (pipeline_stop_is_error)
   14  more than poll_every + 1 polls were made after the watchdog had turned                  (pipeline_stops_within_bound) *)
Definition watchdog_code (cfg : config) (x : xres) : N :=
  match stop_at cfg, x with
  | Some k, XR cls _ errs p =>
      if (cls =? 0) || (cls =? 1) then
        if (k <? p) && negb ((cls =? 1) && existsb (fun e => String.eqb (snd e) "StoppedByWatchdog") errs) then 13
        else if k + poll_every cfg + 1 <? p then 14 else 0
      else 0
  | None, _ => 0
  end.

Definition prop_from (c : pcase) (pt : vm_phase * list (N * N)) : N :=
  match c with
  | PC mode bytes cfg o real _ =>
      match watchdog_code cfg real with
      | 0 =>
          match real with
          | XR 0 l _ _ =>
              if negb (sorted_entries l) then 10
              else if storage_free_code bytes && negb (match l with [] => true | _ => false end) then 11
              else match fst pt with
                   | VmOk stored _ =>
                       if forallb (fun w => match lookup_in (snd pt) w with
                                            | Some _ => true
                                            | None => existsb (fun e => e_index e =? w) l
                                            end) (literal_keys stored)
                       then 0 else 12
                   | VmFail _ _ => 0
                   end
          | _ => 0
          end
      | n => n
      end
  end.

Definition check_case (idx : trie) (c : pcase) : N :=
  let pt := phase_of idx c in
  match prop_from c pt with
  | 0 => code_of (snd pt) c (trace_from c pt)
  | n => n
  end.

(* the same, with the coverage class of an agreeing case reported as 1000 + class:
   class = 0 layout, 1 error, 2 panic, 3 out of fuel (unification), 4 other fuel, and 10 + that when
   the order of the collected values was not determined by the hook *)
Definition check_case_cov (idx : trie) (c : pcase) : N :=
  let pt := phase_of idx c in
  match prop_from c pt with
  | 0 => let tr := trace_from c pt in
         match code_of (snd pt) c tr with 0 => 1000 + class_of tr | n => n end
  | n => n
  end.

(* ---- C17: the same program in strict and in permissive mode ----
   15  strict mode returned a layout, permissive mode did not return the same layout   (pipeline_strict_success_same_as_permissive)
   16  a VM error reported in permissive mode is not among those of strict mode        (pipeline_permissive_errors_subset) *)
Inductive mcase := MC (mode : order_mode) (bytes : list byte) (L : limits) (oracle : list (list byte * N)) (strict perm : xres).

Definition modes_prop (s p : xres) : N :=
  match s, p with
  | XR 0 l _ _, XR 0 l' _ _ => if list_eqb entry_eqb l l' then 0 else 15
  | XR 0 _ _ _, XR 1 _ _ _ => 15
  | XR 1 _ es _, XR 1 _ ep _ =>
      if forallb (fun e => negb (fst (fst e) =? 1) || existsb (err3_eqb e) es) ep then 0 else 16
  | XR 1 _ es _, XR 0 _ _ _ => if existsb (fun e => negb (fst (fst e) =? 1)) es then 16 else 0
  | _, _ => 0
  end.

Definition check_modes (idx : trie) (c : mcase) : N :=
  match c with
  | MC mode bytes L o strict perm =>
      match modes_prop strict perm with
      | 0 =>
          match check_case idx (PC mode bytes (mk_config' L false) o strict (mk_xdump false None None None None strict)) with
          | 0 => check_case idx (PC mode bytes (mk_config' L true) o perm (mk_xdump false None None None None perm))
          | n => n
          end
      | n => n
      end
  end.

(* ---- the Display text used as sort key: (value, format!("{value}")) ---- *)
Definition check_display (p : sv * string) : N :=
  if negb (display_exact (fst p)) then 0
  else if String.eqb (sv_display (fst p)) (snd p) then 0 else 8.
