(* Correspondence + property evaluation for the suites of C18.

   `scase`  (harness command sv-size): a script that builds values through the real RSV::new (per-step
            limit), constant_fold, transform_data and TCSV::new, with every register printed WITH the
            size recorded at every node and with the node count obtained by walking children().
   `vcase`  (harness command vm-sizes): what the real VM left in its final states for a program, a
            value_size_limit and an iteration limit.

   check_* : 0 = fine; 1..9 = the model and the implementation disagree (or the case is malformed);
             >= 10 = the property predicate, evaluated on the implementation's own output, fails:
               10  some node records a size different from the number of nodes it contains
               11  a value built by a limit-carrying constructor has more than `limit` nodes
               12  a value was replaced by an opaque value although the tree it would have been has
                   at most `limit` nodes
               13  walking children() finds a different number of nodes than the declared fields hold
               14  the virtual machine panicked
   Scope of `at most limit nodes` in VM runs: the values an instruction leaves at top level -- stack entries,
   memory offsets and generations, storage keys and generations, recorded and logged values.  The
   StorageWrite wrappers that stores_as_values() builds when the result is collected (at most 2*limit+1
   nodes) are only checked for true sizes. *)
From Coq Require Import String.
From SLX Require Import Base gen.ValueSig gen.SizeAnchors SymVal SizedVal.
Open Scope N_scope.

Inductive tmode := TId | TRepl (t : tag) (j : nat).
Inductive step :=
| SNew (limit : option N) (t : tag) (attrs : list N) (kids : list nat)
| SFold (i : nat)
| STrans (i : nat) (m : tmode)
| STc (i : nat).
Inductive sres := SRes (regs : list (ssv * N)).
Record scase := mk_scase { sc_steps : list step; sc_res : sres }.

Definition FRESH : N := 1000000.
Definition dummy : ssv := SNode T_Value [0] 1 [].
Definition fw0 (_ : tag) (_ : list N) : N := 0.

(* the tree rebuilt node by node through TCSV::new *)
Fixpoint tc_rebuild (v : ssv) : ssv :=
  match v with SNode t a _ args => tcsv_new (SData t a (map tc_rebuild args)) end.

Definition exec (s : step) (regs : list ssv) : ssv :=
  match s with
  | SNew limit t a kids => rsv_new limit FRESH (SData t a (map (fun i => nth i regs dummy) kids))
  | SFold i => constant_fold fw0 (nth i regs dummy)
  | STrans i TId => transform_data (fun _ => None) (nth i regs dummy)
  | STrans i (TRepl t j) =>
      transform_data (fun d => if tag_eqb (d_tag d) t then Some (data_of (nth j regs dummy)) else None) (nth i regs dummy)
  | STc i => tc_rebuild (nth i regs dummy)
  end.

Fixpoint run_steps (steps : list step) (regs : list ssv) : list ssv :=
  match steps with [] => regs | s :: r => run_steps r (regs ++ [exec s regs]) end.

(* equality up to: the words of constants (the model does not do KnownWord arithmetic) and the identity
   of fresh opaque values (random uuids, printed as numbers >= 1000000) *)
Definition mask_attrs (t : tag) (a : list N) : list N :=
  match t with
  | T_KnownData => []
  | T_Value => map (fun x => N.min x FRESH) a
  | _ => a
  end.

Fixpoint ssv_eqb (x y : ssv) : bool :=
  match x, y with
  | SNode t1 a1 s1 l1, SNode t2 a2 s2 l2 =>
      tag_eqb t1 t2 && list_eqb N.eqb (mask_attrs t1 a1) (mask_attrs t2 a2) && (s1 =? s2) &&
      ((fix go (p q : list ssv) : bool :=
          match p, q with
          | [], [] => true
          | u :: p', v :: q' => ssv_eqb u v && go p' q'
          | _, _ => false
          end) l1 l2)
  end.

(* Some n: every node below and including v records its true node count, which is n at v *)
Fixpoint true_size (v : ssv) : option N :=
  match v with
  | SNode _ _ s args =>
      match (fix go (l : list ssv) : option N :=
               match l with
               | [] => Some 0
               | x :: r => match true_size x, go r with Some a, Some b => Some (a + b) | _, _ => None end
               end) args with
      | Some k => if s =? 1 + k then Some s else None
      | None => None
      end
  end.
Definition sizes_true (v : ssv) : bool := match true_size v with Some _ => true | None => false end.

Fixpoint arities_ok (v : ssv) : bool :=
  match v with SNode t _ _ args => arity_ok t (length args) && forallb arities_ok args end.

Definition is_fresh_value (v : ssv) : bool :=
  match v with SNode T_Value [id] _ [] => FRESH <=? id | _ => false end.

Definition count (v : ssv) : N := node_count (erase v).

(* the size-limit half of the property, step by step, on the implementation's registers *)
Fixpoint check_steps (steps : list step) (impl : list ssv) (k : nat) : N :=
  match steps with
  | [] => 0
  | s :: r =>
      let here :=
        match s with
        | SNew (Some l) _ _ kids =>
            let v := nth k impl dummy in
            let cand := 1 + sum_N (map (fun i => count (nth i impl dummy)) kids) in
            if N.max l 1 <? count v then 11
            else if is_fresh_value v && (cand <=? l) then 12
            else 0
        | _ => 0
        end in
      if here =? 0 then check_steps r impl (S k) else here
  end.

Definition check_scase (c : scase) : N :=
  match sc_res c with
  | SRes regs =>
      let impl := map fst regs in
      if negb (Nat.eqb (length impl) (length (sc_steps c))) then 2
      else if negb (forallb arities_ok impl) then 3
      else if negb (forallb sizes_true impl) then 10
      else if negb (forallb (fun p => count (fst p) =? snd p) regs) then 13
      else
        let code := check_steps (sc_steps c) impl 0 in
        if negb (code =? 0) then code
        else if list_eqb ssv_eqb (run_steps (sc_steps c) []) impl then 0 else 1
  end.

(* ------------------------------------------------------------------------------------------------ *)
Inductive vstatus := VOk | VErrs (n : N) | VPanic (msg : string).
Record vrow := mk_vrow { vr_origin : N; vr_tag : tag; vr_recorded : N; vr_count : N }.
Record vcase := mk_vcase {
  vc_limit : N; vc_family : N; vc_status : vstatus; vc_nodes : N; vc_max_recorded : N;
  vc_bad : list vrow;       (* nodes whose recorded size differs from the children() walk *)
  vc_over : list vrow;      (* top-level values with more than max(limit,1) nodes, with their origin *)
  vc_stack : list ssv;      (* final stack of the last state, bottom first (chain families) *)
  vc_trees : list ssv;      (* every top-level value produced by an instruction, when small *)
  vc_wrappers : list ssv }. (* the StorageWrite wrappers of stores_as_values(), when small *)

(* origins: 0 stack, 1 memory, 2 storage keys/generations, 4 recorded, 5 logged are produced by instructions;
   3 = stores_as_values() wrappers, 6 = ExecutionResult::all_values() (which contains those wrappers) *)
Definition in_scope (origin : N) : bool := negb ((origin =? 3) || (origin =? 6)).

(* chain programs leave v0, v1, .. on the stack where v(i+1) is `op` applied to v(i):
   family 1: Multiply(v, v); 2: Add(v, const); 3: Sha3(Concat [v]); 4: a unary operator *)
Definition candidate (family c : N) : N :=
  match family with 1 => 2 * c + 1 | 2 => c + 2 | 3 => c + 2 | _ => c + 1 end.

Fixpoint check_chain (family limit : N) (st : list ssv) : N :=
  match st with
  | v :: ((w :: _) as r) =>
      let cand := candidate family (count v) in
      let here :=
        if is_fresh_value w then (if cand <=? limit then 12 else 0)
        else if negb (count w =? cand) then 4
        else if N.max limit 1 <? count w then 11 else 0 in
      if here =? 0 then check_chain family limit r else here
  | _ => 0
  end.

Definition check_vcase (c : vcase) : N :=
  match vc_status c with
  | VPanic _ => 14
  | _ =>
      let l := N.max (vc_limit c) 1 in
      if negb (match vc_bad c with [] => true | _ => false end) then 10
      else if negb (forallb sizes_true (vc_stack c ++ vc_trees c ++ vc_wrappers c)) then 10
      else if existsb (fun r => in_scope (vr_origin r) && (l <? vr_count r)) (vc_over c) then 11
      else if existsb (fun u => l <? recorded u) (vc_stack c ++ vc_trees c) then 11
      else if existsb (fun u => 2 * l + 1 <? recorded u) (vc_wrappers c) then 11
      else if vc_family c =? 0 then 0 else check_chain (vc_family c) (vc_limit c) (vc_stack c)
  end.
