(* 256-bit machine words as `N` modulo 2^256 (DESIGN.md 2.1): two's-complement view, the truncating
   conversions of the Rust code (`as_u32`, `as_usize`, `u32::try_from`), and models of the ethnum
   U256 / I256 primitives that src/vm/value/known.rs is written with.

   Definitions only (plus the `Arguments ... : simpl never` hygiene); lemmas are in
   proofs/Word256Proofs.v.

   The ethnum primitives are *modelled, not verified* (trusted base): each `u256_*` / `i256_*`
   function states what the ethnum 1.5.3 function of the same name computes, together with a
   `*_panics` predicate for the debug build where that differs from the release build. *)
From SLX Require Import Base.
Open Scope N_scope.

Arguments N.add : simpl never.
Arguments N.sub : simpl never.
Arguments N.mul : simpl never.
Arguments N.div : simpl never.
Arguments N.modulo : simpl never.
Arguments N.pow : simpl never.
Arguments N.shiftl : simpl never.
Arguments N.shiftr : simpl never.
Arguments N.land : simpl never.
Arguments N.lor : simpl never.
Arguments N.lxor : simpl never.
Arguments N.ldiff : simpl never.
Arguments N.ones : simpl never.
Arguments N.testbit : simpl never.
Arguments N.ltb : simpl never.
Arguments N.leb : simpl never.
Arguments N.eqb : simpl never.
Arguments Z.add : simpl never.
Arguments Z.sub : simpl never.
Arguments Z.mul : simpl never.
Arguments Z.div : simpl never.
Arguments Z.modulo : simpl never.
Arguments Z.quot : simpl never.
Arguments Z.rem : simpl never.
Arguments Z.pow : simpl never.
Arguments Z.shiftr : simpl never.
Arguments Z.of_N : simpl never.
Arguments Z.to_N : simpl never.
Arguments Z.ltb : simpl never.
Arguments Z.eqb : simpl never.

(* ------------------------------------------------------------------ the word type *)

Definition W : N := 2 ^ 256.                 (* modulus *)
Definition HALF : N := 2 ^ 255.              (* first negative bit pattern *)
Definition MAXW : N := 2 ^ 256 - 1.          (* U256::MAX, also -1 *)
Definition Wz : Z := (2 ^ 256)%Z.
Definition HALFz : Z := (2 ^ 255)%Z.
Definition MINz : Z := (- 2 ^ 255)%Z.        (* I256::MIN *)

Definition in_range (n : N) : Prop := n < W.
Definition in_rangeb (n : N) : bool := n <? W.
(* the low 256 bits (= n mod 2^256, Word256Proofs.wrap_mod); a mask, so that it evaluates in linear time *)
Definition wrap (n : N) : N := N.land n (N.ones 256).

(* two's complement: `I256::from_ne_bytes(x.to_ne_bytes())` and back *)
Definition to_signed (x : N) : Z := if x <? HALF then Z.of_N x else (Z.of_N x - Wz)%Z.
Definition of_signed (z : Z) : N := Z.to_N (z mod Wz).

(* truncating conversions *)
Definition as_u32 (n : N) : N := n mod two32.          (* U256::as_u32 *)
Definition as_usize (n : N) : N := n mod two64.        (* U256::as_usize, 64-bit target *)
Definition as_u128 (n : N) : N := n mod 2 ^ 128.
Definition try_u32 (n : N) : option N := if n <=? two32 - 1 then Some n else None.   (* u32::try_from(U256) *)
Definition try_usize (n : N) : option N := if n <=? two64 - 1 then Some n else None.

Definition bool_word (b : bool) : N := if b then 1 else 0.

(* checked usize arithmetic: `overflow-checks = true` in every profile of /repo's Cargo.toml *)
Definition usize_add (site : N) (a b : N) : outcome N unit := if a + b <? two64 then Ok (a + b) else Panic site.
Definition usize_mul (site : N) (a b : N) : outcome N unit := if a * b <? two64 then Ok (a * b) else Panic site.
Definition usize_sub (site : N) (a b : N) : outcome N unit := if b <=? a then Ok (a - b) else Panic site.

(* ------------------------------------------------------------------ ethnum::U256 *)

Definition u256_wrapping_add (a b : N) : N := wrap (a + b).
Definition u256_wrapping_sub (a b : N) : N := wrap (a + (W - wrap b)).
Definition u256_wrapping_mul (a b : N) : N := wrap (a * b).
(* `/` and `%` (and wrapping_div / wrapping_rem, which are `self / rhs`, `self % rhs`) panic on a zero divisor *)
Definition u256_div (a b : N) : N := a / b.
Definition u256_rem (a b : N) : N := a mod b.
Definition u256_divrem_panics (b : N) : bool := b =? 0.
(* wrapping_pow(self, exp: u32): a^e with every product truncated to 256 bits (square and multiply, so that it
   evaluates for exponents up to 2^32; Word256Proofs.u256_wrapping_pow_spec: = (a ^ e) mod 2^256) *)
Fixpoint pow_wrap_pos (a : N) (e : positive) : N :=
  match e with
  | xH => wrap a
  | xO e' => let h := pow_wrap_pos a e' in wrap (h * h)
  | xI e' => let h := pow_wrap_pos a e' in wrap (a * wrap (h * h))
  end.
Definition u256_wrapping_pow (a e : N) : N := match e with N0 => 1 | Npos p => pow_wrap_pos a p end.
Definition u256_and (a b : N) : N := N.land a b.
Definition u256_or (a b : N) : N := N.lor a b.
Definition u256_xor (a b : N) : N := N.lxor a b.
Definition u256_not (a : N) : N := N.lxor a (N.ones 256).      (* both limbs complemented *)

(* `x << s` / `x >> s` with s : u32.  Debug build (debug_assertions): panics when s > 0xff.
   Release build: the intrinsic is called with s unchanged; for s >= 128 it computes from
   the low (high) limb shifted by `s & 0x7f` (src/intrinsics/native/shl.rs, shr.rs). *)
Definition u256_shift_panics (s : N) : bool := 255 <? s.
Definition u256_shl_u32 (a s : N) : N :=
  if s <? 256 then wrap (N.shiftl a s)
  else (((a mod 2 ^ 128) * 2 ^ (s mod 128)) mod 2 ^ 128) * 2 ^ 128.
Definition u256_shr_u32 (a s : N) : N :=
  if s <? 256 then N.shiftr a s
  else (a / 2 ^ 128) / 2 ^ (s mod 128).
(* `x << y` / `x >> y` with y : U256: release converts with as_u32; debug converts with
   u32::try_from(y).unwrap_or(u32::MAX), i.e. panics exactly when y > 0xff *)
Definition u256_shl_u256 (a y : N) : N := u256_shl_u32 a (as_u32 y).
Definition u256_shr_u256 (a y : N) : N := u256_shr_u32 a (as_u32 y).

(* ------------------------------------------------------------------ ethnum::I256 (values in Z) *)

(* wrapping_div / wrapping_rem: overflowing_div(...).0; MIN / -1 = MIN, MIN % -1 = 0; otherwise
   truncating division (`/`, `%`), which panics on a zero divisor *)
Definition i256_wrapping_div (x y : Z) : Z :=
  if ((x =? MINz) && (y =? -1))%Z then x else Z.quot x y.
Definition i256_wrapping_rem (x y : Z) : Z :=
  if ((x =? MINz) && (y =? -1))%Z then 0%Z else Z.rem x y.
Definition i256_divrem_panics (y : Z) : bool := (y =? 0)%Z.
(* arithmetic `x >> s`, s : u32; release for s >= 256: (hi >> 127, hi >> (s & 0x7f)) *)
Definition i256_sar_u32 (x : Z) (s : N) : Z :=
  if s <? 256 then Z.shiftr x (Z.of_N s)
  else Z.shiftr x (Z.of_N (128 + s mod 128)).
Definition i256_sar_u256 (x : Z) (y : N) : Z := i256_sar_u32 x (as_u32 y).
