(* Shared conventions of the model (DESIGN.md 2.1). *)
From Coq Require Export List NArith ZArith Bool Lia.
Export ListNotations.

(* Every fallible Rust operation returns a three-way outcome, so that panic freedom is a
   statement about the model rather than an assumption. *)
Inductive outcome (A E : Type) : Type :=
| Ok (a : A)
| Err (e : E)
| Panic (site : N).
Arguments Ok {A E} a.
Arguments Err {A E} e.
Arguments Panic {A E} site.

Definition is_ok {A E} (o : outcome A E) : bool := match o with Ok _ => true | _ => false end.
Definition is_panic {A E} (o : outcome A E) : bool := match o with Panic _ => true | _ => false end.

Definition byte := N.

Fixpoint list_eqb {A} (eqb : A -> A -> bool) (a b : list A) : bool :=
  match a, b with
  | [], [] => true
  | x :: a', y :: b' => eqb x y && list_eqb eqb a' b'
  | _, _ => false
  end.

Lemma list_eqb_refl {A} (eqb : A -> A -> bool) (Hr : forall x, eqb x x = true) l : list_eqb eqb l l = true.
Proof. induction l; simpl; auto. rewrite Hr, IHl. reflexivity. Qed.

Lemma list_eqb_N_eq a b : list_eqb N.eqb a b = true <-> a = b.
Proof.
  revert b; induction a as [|x a IH]; destruct b as [|y b]; simpl; split; try congruence; try discriminate; auto.
  - intros H. apply andb_true_iff in H as [H1 H2]. apply N.eqb_eq in H1. apply IH in H2. congruence.
  - intros [= -> ->]. rewrite N.eqb_refl. apply IH. reflexivity.
Qed.

Definition two32 : N := 4294967296.
Definition two64 : N := 18446744073709551616.
Definition two256 : N := 2 ^ 256.
