(* Property predicates of C04 / C05 / C06 / C11 / C12 evaluated on what the whole analysis returned
   (harness/src/cmd_analyze.rs), against ground truth supplied by the generators. *)
From Coq Require Import String.
From SLX Require Import Base gen.Constants gen.ValueSig SymVal Disasm VM AbiT VmCases.
Open Scope N_scope.

Definition e_index (e : entry) : N := fst (fst e).
Definition e_offset (e : entry) : N := snd (fst e).
Definition e_type (e : entry) : aty := snd e.
Definition aty_name (a : aty) : string := match a with AT n _ _ => n end.
Definition is_named (s : string) (a : aty) : bool := String.eqb (aty_name a) s.

(* ---- C12: ordered, inside the slot ---- *)
Fixpoint sorted_entries (l : list entry) : bool :=
  match l with
  | a :: ((b :: _) as r) =>
      ((e_index a <? e_index b) || ((e_index a =? e_index b) && (e_offset a <=? e_offset b))) && sorted_entries r
  | _ => true
  end.
Definition entry_in_slot (e : entry) : bool :=
  (e_offset e <? 256) && match aty_width (e_type e) with Some w => e_offset e + w <=? 256 | None => true end.

Definition c12_code (x : xa) : N :=
  match xa_class x with
  | 0 => if negb (sorted_entries (xa_layout x)) then 73
         else if negb (forallb (fun e => e_offset e <? 256) (xa_layout x)) then 74
         else if negb (forallb entry_in_slot (xa_layout x)) then 75 else 0
  | 2 => 79
  | _ => 0
  end.

(* ---- C04: ground truth ---- *)
Inductive gvar :=
| GWord (slot : N) | GAddr (slot : N)
| GMap (slot : N) (key_is_addr : list bool) (val_is_addr : bool)
| GDyn (slot : N)
| GPacked (slot : N) (fields : list (N * N)).      (* (bit offset, bit size) *)

Definition is_160 (a : aty) : bool := match aty_width a with Some 160 => true | _ => false end.

Fixpoint map_shape (keys : list bool) (val_addr : bool) (a : aty) : bool :=
  match keys with
  | [] => if val_addr then is_160 a else negb (is_named "Mapping" a) && negb (is_named "ConflictedType" a)
  | k :: ks =>
      match a with
      | AT "Mapping" _ [kt; vt] => (if k then is_160 kt else true) && map_shape ks val_addr vt
      | _ => false
      end
  end.

Definition find_entry (l : list entry) (slot off : N) : option aty :=
  option_map e_type (find (fun e => (e_index e =? slot) && (e_offset e =? off)) l).

Definition gvar_ok (l : list entry) (g : gvar) : bool :=
  match g with
  | GWord s => match find_entry l s 0 with
               | Some a => negb (is_named "Mapping" a || is_named "DynArray" a || is_named "ConflictedType" a)
               | None => false end
  | GAddr s => match find_entry l s 0 with Some a => is_160 a | None => false end
  | GMap s ks v => match find_entry l s 0 with Some a => map_shape ks v a | None => false end
  | GDyn s => match find_entry l s 0 with Some (AT "DynArray" _ _) => true | _ => false end
  | GPacked s fs => forallb (fun f => match find_entry l s (fst f) with
                                      | Some a => match aty_width a with Some w => w =? snd f | None => false end
                                      | None => false end) fs
  end.

Record c04case := mk_c04case { g_vars : list gvar; g_res : xa }.
Definition check_c04 (c : c04case) : N :=
  match xa_class (g_res c) with
  | 0 => if forallb (gvar_ok (xa_layout (g_res c))) (g_vars c) then 0 else 80
  | 1 => 81      (* the analysis of compiler-style code failed *)
  | 2 => 82
  | _ => 83
  end.

(* ---- C05 / C06: slots vs the storage accesses the VM really made ---- *)
Fixpoint known_leaves (v : sv) : list N :=
  match v with
  | Node T_KnownData [w] [] => [w]
  | Node _ _ args => flat_map known_leaves args
  end.

Definition storage_keys (st : vstate) : list sv := map fst (sto_known st) ++ map fst (sto_sym st).
Definition storage_values (st : vstate) : list sv := flat_map snd (sto_known st) ++ flat_map snd (sto_sym st).

Record c056case := mk_c056case {
  s_run : xrun; s_res : xa;
  s_preimages : list (N * N);     (* (keccak(i), i) for the small slot numbers whose hash occurs as a constant *)
  s_strings : list N }.           (* keccak of the all-constant hashed data occurring in key trees (proxy-slot pattern) *)

Definition all_states (r : xrun) : list vstate := match r with XRun _ _ sts _ _ _ _ => map fst sts | _ => [] end.

(* constants attributable to executed storage accesses: leaves of key trees, plus table preimages *)
Definition attributable (c : c056case) : list N :=
  let ks := flat_map (fun st => flat_map known_leaves (storage_keys st)) (all_states (s_run c)) in
  ks ++ map snd (filter (fun p => existsb (N.eqb (fst p)) ks) (s_preimages c)) ++ s_strings c
     ++ flat_map (fun h => map (fun k => (h + k) mod 2 ^ 256) ks) (s_strings c).

Definition no_storage_executed (c : c056case) : bool :=
  forallb (fun st => match sto_known st, sto_sym st with [], [] => true | _, _ => false end) (all_states (s_run c)).

(* a slot that only occurs inside hash-shaped parts of stored / loaded VALUES (finding K3) *)
Fixpoint in_sha3 (inside : bool) (w : N) (v : sv) : bool :=
  match v with
  | Node T_KnownData [x] [] => inside && (x =? w)
  | Node T_Sha3 _ args => existsb (in_sha3 true w) args
  | Node _ _ args => existsb (in_sha3 inside w) args
  end.
Definition from_value_hash (c : c056case) (w : N) : bool :=
  existsb (fun st => existsb (in_sha3 false w) (storage_values st ++ recorded st ++ stack st)) (all_states (s_run c)).

Definition c05_code (c : c056case) : N :=
  match xa_class (s_res c) with
  | 0 =>
      let slots := map e_index (xa_layout (s_res c)) in
      if no_storage_executed c then (match slots with [] => 0 | _ => 70 end)
      else
        let att := attributable c in
        match filter (fun s => negb (existsb (N.eqb s) att)) slots with
        | [] => 0
        | bad => if forallb (from_value_hash c) bad then 61 else 71
        end
  | 2 => 78
  | _ => 0
  end.

(* every literal key (other than the hash of a small slot number) of an explored path has an entry *)
Definition c06_code (c : c056case) : N :=
  match xa_class (s_res c) with
  | 0 =>
      let slots := map e_index (xa_layout (s_res c)) in
      let lits := flat_map (fun st => flat_map (fun k => match as_word k with Some w => [w] | None => [] end)
                                                (map fst (sto_known st))) (all_states (s_run c)) in
      let lits := filter (fun w => negb (existsb (fun p => fst p =? w) (s_preimages c))) lits in
      if forallb (fun w => existsb (N.eqb w) slots) lits then 0 else 72
  | 2 => 78
  | _ => 0
  end.

(* the same with the ground truth taken from the MODEL's run of the program (tied to the code by the VM
   correspondence suites and the translated opcode bodies), not from the implementation's own states: a change
   that makes the implementation forget an access is then seen as a missing entry.  73: a literal key of a path
   the model explores has no entry; 0 when the model's run does not finish normally. *)
Definition model_literal_keys (bytes : list byte) (cfg : config) : list N :=
  match try_from bytes with
  | Ok code =>
      match model_run code cfg with
      | RDone m => flat_map (fun st => flat_map (fun k => match as_word k with Some w => [w] | None => [] end)
                                               (map fst (sto_known (fst st)))) (v_stored m)
      | _ => []
      end
  | _ => []
  end.

(* C05, syntactic form (the hypothesis of pipeline_storage_free_empty, read off the BYTES by the specification's own token
   walk, independent of the opcode table of the implementation): no SLOAD (0x54) and no SSTORE (0x55) at an instruction
   position, yet a non-empty layout -> 70 *)
Fixpoint has_storage_opcode (fuel : nat) (bs : list byte) : bool :=
  match fuel with
  | O => false
  | S f =>
      match bs with
      | [] => false
      | b :: rest =>
          if (0x60 <=? b) && (b <=? 0x7f) then has_storage_opcode f (skipn (N.to_nat (b - 0x5f)) rest)
          else if (b =? 0x54) || (b =? 0x55) then true
          else has_storage_opcode f rest
      end
  end.

Definition c05_syntactic_code (bytes : list byte) (c : c056case) : N :=
  match xa_class (s_res c) with
  | 0 => if negb (has_storage_opcode (S (length bytes)) bytes) then (match xa_layout (s_res c) with [] => 0 | _ => 70 end) else 0
  | _ => 0
  end.

Definition model_states (bytes : list byte) (cfg : config) : option (list vstate) :=
  match try_from bytes with
  | Ok code => match model_run code cfg with RDone m => Some (map fst (v_stored m)) | _ => None end
  | _ => None
  end.

(* C05 with the ground truth from the MODEL's run: which storage accesses were executed, and with which key trees,
   is read off the model's retired states, not off the implementation's (a change that makes the implementation
   execute dead code, or invent accesses, is then seen as a phantom slot).  0 when the model's run does not finish. *)
Definition c05m_code (bytes : list byte) (cfg : config) (c : c056case) : N :=
  match (match c05_code c with 0 => c05_syntactic_code bytes c | n => n end) with
  | 0 =>
      match xa_class (s_res c), model_states bytes cfg with
      | 0, Some sts =>
          let slots := map e_index (xa_layout (s_res c)) in
          let none_executed := forallb (fun st => match sto_known st, sto_sym st with [], [] => true | _, _ => false end) sts in
          if none_executed then (match slots with [] => 0 | _ => 70 end)
          else
            let ks := flat_map (fun st => flat_map known_leaves (storage_keys st)) sts in
            let att := ks ++ map snd (filter (fun p => existsb (N.eqb (fst p)) ks) (s_preimages c)) ++ s_strings c
                          ++ flat_map (fun h => map (fun k => (h + k) mod 2 ^ 256) ks) (s_strings c) in
            match filter (fun s => negb (existsb (N.eqb s) att)) slots with
            | [] => 0
            | bad => if forallb (fun w => existsb (fun st => existsb (in_sha3 false w) (storage_values st ++ recorded st ++ stack st)) sts) bad
                     then 61 else 71
            end
      | _, _ => 0
      end
  | n => n
  end.

Definition c06m_code (bytes : list byte) (cfg : config) (c : c056case) : N :=
  match c06_code c with
  | 0 =>
      match xa_class (s_res c) with
      | 0 =>
          let slots := map e_index (xa_layout (s_res c)) in
          let lits := filter (fun w => negb (existsb (fun p => fst p =? w) (s_preimages c))) (model_literal_keys bytes cfg) in
          if forallb (fun w => existsb (N.eqb w) slots) lits then 0 else 73
      | _ => 0
      end
  | n => n
  end.
Definition c06m_keys (bytes : list byte) (cfg : config) (c : c056case) : N :=
  N.of_nat (length (model_literal_keys bytes cfg)).

(* ---- C11: locality and renaming ---- *)
Definition layout_eqb (a b : list entry) : bool := list_eqb entry_eqb a b.
Definition rename_entries (rho : list (N * N)) (l : list entry) : list entry :=
  map (fun e => (match alookup N.eqb (e_index e) rho with Some n => n | None => e_index e end, e_offset e, e_type e)) l.
Fixpoint insert_entry (e : entry) (l : list entry) : list entry :=
  match l with
  | [] => [e]
  | x :: r => if (e_index e <? e_index x) || ((e_index e =? e_index x) && (e_offset e <? e_offset x)) then e :: x :: r
              else x :: insert_entry e r
  end.
Definition sort_entries (l : list entry) : list entry := fold_left (fun acc e => insert_entry e acc) l [].

Record c11case := mk_c11case { u_a : xa; u_b : xa; u_ab : xa; u_rho : list (N * N); u_renamed : xa }.
Definition check_c11 (c : c11case) : N :=
  if (xa_class (u_a c) =? 2) || (xa_class (u_b c) =? 2) || (xa_class (u_ab c) =? 2) || (xa_class (u_renamed c) =? 2) then 78
  (* a fragment whose analysis fails on its own although it succeeds once unrelated code is added: the unrelated
     code influenced it (class 1 = structured error; budget exhaustion, class 3, is not compared) *)
  else if (xa_class (u_ab c) =? 0) && ((xa_class (u_a c) =? 1) || (xa_class (u_b c) =? 1)) then 79
  else if negb ((xa_class (u_a c) =? 0) && (xa_class (u_b c) =? 0)) then 0
  else if negb (xa_class (u_ab c) =? 0) then 76
  else if negb (layout_eqb (xa_layout (u_ab c)) (sort_entries (xa_layout (u_a c) ++ xa_layout (u_b c)))) then 76
  else if negb (xa_class (u_renamed c) =? 0) then 77
  else if negb (layout_eqb (xa_layout (u_renamed c)) (sort_entries (rename_entries (u_rho c) (xa_layout (u_a c))))) then 77
  else 0.
