(* The generic symbolic-value tree (DESIGN.md 2.1).  One constructor `Node tag attrs args`:
   - tag    : the Rust enum variant (gen/ValueSig.v, regenerated from src/vm/value/mod.rs)
   - attrs  : the non-child payload in declaration order (Uuid -> small id, KnownWord -> its value,
              usize, Option<usize> -> [0] | [1; p], PackedSpan -> offset, size per span)
   - args   : the child values in declaration order (Vec fields expanded in place)
   instruction_pointer / provenance are not part of equality in the Rust type and are dropped. *)
From Coq Require Import String.
From SLX Require Import Base gen.ValueSig.
Open Scope N_scope.

Inductive sv := Node (t : tag) (attrs : list N) (args : list sv).

Section SvInd.
  Variable P : sv -> Prop.
  Hypothesis H : forall t a args, Forall P args -> P (Node t a args).
  Fixpoint sv_ind' (v : sv) : P v :=
    match v with
    | Node t a args =>
        H t a args ((fix go (l : list sv) : Forall P l :=
                       match l with [] => Forall_nil P | x :: r => Forall_cons x (sv_ind' x) (go r) end) args)
    end.
End SvInd.

Definition Known (w : N) : sv := Node T_KnownData [w] [].
Definition Val (id : N) : sv := Node T_Value [id] [].
Definition node0 (t : tag) : sv := Node t [] [].
Definition node1 (t : tag) (a : sv) : sv := Node t [] [a].
Definition node2 (t : tag) (a b : sv) : sv := Node t [] [a; b].

Definition sv_tag (v : sv) : tag := match v with Node t _ _ => t end.
Definition sv_attrs (v : sv) : list N := match v with Node _ a _ => a end.
Definition sv_args (v : sv) : list sv := match v with Node _ _ l => l end.

Definition as_word (v : sv) : option N :=
  match v with Node T_KnownData [w] [] => Some w | _ => None end.

Fixpoint sum_N (l : list N) : N := match l with [] => 0 | x :: r => x + sum_N r end.

Fixpoint node_count (v : sv) : N :=
  match v with Node _ _ args => 1 + sum_N (map node_count args) end.

Fixpoint sv_depth (v : sv) : nat :=
  match v with Node _ _ args => S (fold_right Nat.max 0%nat (map sv_depth args)) end.

Fixpoint sv_eqb (a b : sv) : bool :=
  match a, b with
  | Node t1 a1 l1, Node t2 a2 l2 =>
      tag_eqb t1 t2 && list_eqb N.eqb a1 a2 &&
      ((fix go (x y : list sv) : bool :=
          match x, y with
          | [], [] => true
          | p :: x', q :: y' => sv_eqb p q && go x' y'
          | _, _ => false
          end) l1 l2)
  end.

(* children(): the order in which the Rust `children()` lists the child fields may differ from the
   declaration order (Create2); gen/ValueSig.v carries both. *)
Definition declared_children (t : tag) : list string :=
  map fst (filter (fun p => is_childish (snd p)) (tag_fields t)).

Fixpoint index_of (s : string) (l : list string) : nat :=
  match l with [] => 0%nat | x :: r => if String.eqb x s then 0%nat else S (index_of s r) end.

Definition field_perm (fields : list string) (t : tag) : option (list nat) :=
  if list_eqb String.eqb fields (declared_children t) then None
  else Some (map (fun s => index_of s (declared_children t)) fields).

Definition permute (p : option (list nat)) (args : list sv) : list sv :=
  match p with None => args | Some ix => map (fun i => nth i args (Val 0)) ix end.

Definition children (v : sv) : list sv :=
  match v with Node t _ args => permute (field_perm (children_fields t) t) args end.

(* all sub-terms, pre-order *)
Fixpoint subterms (v : sv) : list sv :=
  match v with Node _ _ args => v :: flat_map subterms args end.

(* generic bottom-less transform: apply f at the first opportunity (top-down), do not revisit its result *)
Section Transform.
  Variable f : sv -> option sv.
  Fixpoint transform (v : sv) : sv :=
    match f v with
    | Some r => r
    | None => match v with Node t a args => Node (transform_ctor t) a (map transform args) end
    end.
End Transform.
