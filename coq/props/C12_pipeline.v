(* C12 end to end on the composed model (the in-slot half).  Only statements, `exact lemma` and Print Assumptions.

   props/Pipeline.v `pipeline_layout_sorted` is the ordering half for every program.  This file is the in-slot half: a run of
   the composed analysis that returns a layout inferred a judgement set (`tstate_of st`), unified it (forest s, counter n) and
   built every row by one `abi_type_for` call.  If that judgement set lies inside the slot (`tstate_in 256`, decidable) and
   sized words inside spans have room in the classes unify left (`room_ok`), every row starts inside its slot and known
   widths end inside it -- for every byte string, configuration, keccak function, slot table, order mode and fuel.
   Neither hypothesis can be dropped for all programs: mapping projections put struct members at offsets >= 256 of a NESTED
   type (outside tstate_in 256, harmless for the rows: abi_rows_in_slot), and the packed-encoding rule states no width for a
   span's variable (room_ok).  The C12 check decides both per run on the implementation's dumped classes. *)
From Coq Require Import String.
From SLX Require Import Base gen.Constants SymVal Disasm VM TypeExpr Merge Unify Register AbiT Layout Abi Pipeline.
From SLX.proofs Require Import UnifyInSlot PipelineInSlot.
Open Scope N_scope.

Theorem pipeline_rows_in_slot : forall keccak table mode fu bytes cfg l,
  analyze_model_fuel keccak table mode fu bytes cfg = PLayout l ->
  exists st s n,
    unify (f_rounds fu) (orders_of mode) (tstate_of st) = Ok (s, n) /\
    (tstate_in 256 (tstate_of st) = true -> room_ok (env_of_forest s n) -> forall e, In e l -> entry_in_slot_P e).
Proof. exact pipeline_rows_in_slot_lemma. Qed.

(* every row of the layout loop's result is a row of one abi_type_for call on a constant-slot value *)
Theorem layout_rows_come_from_abi : forall nested_add fit env fuel vals layout L x,
  build_layout nested_add fit env fuel vals layout = Ok L -> In x L ->
  In x layout \/ exists v index a, In v vals /\ const_slot_key v = Some index /\
                    abi_type_for nested_add fit env fuel (tv_of v) = Ok a /\ In x (rows_of index a).
Proof. exact build_layout_rows. Qed.

(* both hypotheses are decidable on a concrete run (room_okb is room_ok decided over the allocated variables) ... *)
Theorem room_ok_decidable : forall s n, room_okb s n = true -> room_ok (env_of_forest s n).
Proof. exact room_okb_sound. Qed.

(* ... and satisfiable: `sstore(0, caller); sstore(1, sload(0) & (2^160 - 1))` -- the judgement set the run infers lies inside the
   slot, the classes unify leaves have room, and the layout has the two rows the theorem speaks about *)
Example pipeline_rows_in_slot_hyps_met :
  let p := [51;95;85;115;255;255;255;255;255;255;255;255;255;255;255;255;255;255;255;255;255;255;255;255;95;84;22;96;1;85;0] in
  let tr := analyze_trace (fun _ => 0) [] MSorted default_fuels p (mk_config 30000000 10 50 250 394 false 100 None) in
  t_result tr = PLayout [(0, 0, AT "Address" [] []); (1, 0, AT "Address" [] [])] /\
  match t_infs tr with
  | Some (nx, inf) =>
      tstate_in 256 (mk_tstate inf nx) = true /\
      match unify (f_rounds default_fuels) (orders_of MSorted) (mk_tstate inf nx) with
      | Ok (s, n) => room_okb s n = true
      | _ => False
      end
  | None => False
  end.
Proof. vm_compute. repeat split; reflexivity. Qed.

Print Assumptions pipeline_rows_in_slot.
Print Assumptions room_ok_decidable.
Print Assumptions layout_rows_come_from_abi.
