(* C12 end to end on the composed model (the in-slot half).  Only statements, `exact lemma` and Print Assumptions.

   props/Pipeline.v `pipeline_layout_sorted` is the ordering half for every program.  This file is the in-slot half: a run of
   the composed analysis that returns a layout inferred a judgement set (`tstate_of st`), unified it (forest s, counter n) and
   built every row by one `abi_type_for` call.  If that judgement set lies inside the slot (`tstate_in 256`, decidable) and
   sized words inside spans have room in the classes unify left (`room_ok`), every row starts inside its slot and known
   widths end inside it -- for every byte string, configuration, keccak function, slot table, order mode and fuel.
   Neither hypothesis can be dropped for all programs: mapping projections put struct members at offsets >= 256 of a NESTED
   type (outside tstate_in 256, harmless for the rows: abi_rows_in_slot), and the packed-encoding rule states no width for a
   span's variable (room_ok).  The C12 check decides both per run on the implementation's dumped classes. *)
From SLX Require Import Base gen.Constants TypeExpr Merge Unify Register AbiT Layout Abi Pipeline.
From SLX.proofs Require Import UnifyInSlot PipelineInSlot.
Open Scope N_scope.

Theorem pipeline_rows_in_slot : forall keccak table mode fu bytes cfg l,
  analyze_model_fuel keccak table mode fu bytes cfg = PLayout l ->
  exists st s n,
    unify (f_rounds fu) (orders_of mode) (tstate_of st) = Ok (s, n) /\
    (tstate_in 256 (tstate_of st) = true -> room_ok (env_of_forest s n) -> forall e, In e l -> entry_in_slot_P e).
Proof. exact pipeline_rows_in_slot_lemma. Qed.

(* every row of the layout loop's result is a row of one abi_type_for call on a constant-slot value *)
Theorem layout_rows_come_from_abi : forall nested_add fit env fuel vals layout L x,
  build_layout nested_add fit env fuel vals layout = Ok L -> In x L ->
  In x layout \/ exists v index a, In v vals /\ const_slot_key v = Some index /\
                    abi_type_for nested_add fit env fuel (tv_of v) = Ok a /\ In x (rows_of index a).
Proof. exact build_layout_rows. Qed.

Print Assumptions pipeline_rows_in_slot.
Print Assumptions layout_rows_come_from_abi.
