(* C02, end to end on the type checker: on the decidable fragment `order_fragment` (PipelineOrderDefs.v) the layout does not
   depend on
     - the order in which the lifted values are REGISTERED (assign_vars numbers the type variables in visiting order),
     - the order of the RULE SET,
     - the hash orders inside unification::unify,
     - the order of the layout loop over the constant storage slots,
   and, with the lifting in front, on the order in which the values are COLLECTED from the retired VM states.

   Vocabulary: PipelineE2EDefs.v (`tc_front`, `tc_run`, `analyze_gen`: the type checker with every one of these order points a
   parameter; `pipeline_sorted_is_gen`: `Pipeline.analyze_plain` under MSorted is `analyze_gen` under the sorted choices).
   `results_agree` (PipelineOrderDefs.v): both runs return layouts that are permutations of each other -- equal as lists as soon
   as no two different rows share a (slot, offset) key (both are sorted by key) -- or both fail.

   The hypothesis is stated on ONE run only: the judgement set it hands to unification lies in `order_fragment` and the rounds
   suffice (|type variables| + 2).  It transfers to the other run: `order_fragment` is invariant under a bijective renaming of
   the type variables (`order_fragment_renaming_invariant`), and the conclusion includes it for the second run.

   How the renaming gets through the back half.  props/C02_register.v: a permuted registration is a bijective renaming rho of
   the type variables, and the judgement SETS correspond (`In e (jset s1 w) <-> In (rename_te rho e) (jset s2 (rho w))`); a
   permuted rule set gives the same sets.  `ren rho rho' st1 st2` packages that.  unification::unify is NOT shown equivariant
   operation by operation (no pulled-back iteration order is built); on the fragment its result is characterised by
   props/C02_unify.v whatever the orders -- the classes are the congruence closure, word classes resolve to the join of the
   evidence, constructed classes to a constructed type over related components -- and that characterisation is invariant
   under `ren` (`congruence_closure_renaming`, `back_half_renaming_invariant`).  abi_type_for on the renamed class table
   returns the same AbiValue (`abi_type_for_renaming`, AbiType mentions no type variable); the constant storage slots and
   their keys correspond (`const_slot_key (rename_tsv rho x) = const_slot_key x`).

   What remains outside.  (1) The visiting order of the values INSIDE `infer` (`for value in self.values()`): the
   registration theorems cover `infer_all`, which visits the values in registration order; another visiting order changes
   which fresh variable the mapping rule hands to which value.  `pipeline_sorted_vs_mode` therefore compares the sorted run
   with a run in which every order point of a mode m EXCEPT that one follows m.  (2) Everything before `all_values`: the VM
   is deterministic (no hash iteration), `all_values` under two modes are permutations of each other (`all_values_order`).
   (3) Outside `order_fragment` the statement is false: props/C02_pipeline.v `pipeline_order_dependent_refuted`.

   Only statements, `exact lemma`, Print Assumptions; proofs: proofs/PipelineRename.v, PipelineE2E.v, AbiRename.v. *)
From Coq Require Import String Permutation.
From SLX Require Import Base gen.Constants gen.ValueSig gen.WordUseTable gen.RulesSig SymVal TypeExpr Merge VectorMap DisjointSet
  Register Rules Unify UnifyOrder AbiT Layout Abi NoPanic Pipeline PipelineOrderDefs PipelineE2EDefs.
From SLX.proofs Require Import UnifyProofs UnifyOrderProofs RegisterProofs RulesProofs RuleOrderProofs RegisterOrderProofs
  InferOrderProofs AbiOrder AbiRename PipelineOrder PipelineRename PipelineE2E.
Open Scope N_scope.

(* ---- THE statement: lifted values in any order, rules in any order, any hooks, any slot order ---- *)
Theorem pipeline_value_and_rule_order_independent : forall vals vals' names1 names2 o1 o2 arr1 arr2 rounds,
  Permutation vals vals' -> Permutation names1 default_rules -> Permutation names2 default_rules ->
  orders_ok o1 -> orders_ok o2 -> (forall l, Permutation (arr1 l) l) -> (forall l, Permutation (arr2 l) l) ->
  (forall s, tc_front names1 vals = Ok s ->
     order_fragment (tstate_of s) = true /\ (length (ts_vars (tstate_of s)) + 2 <= rounds)%nat) ->
  results_agree (tc_run names1 o1 arr1 rounds vals) (tc_run names2 o2 arr2 rounds vals') /\
  (forall s', tc_front names2 vals' = Ok s' -> order_fragment (tstate_of s') = true).
Proof. exact pipeline_value_and_rule_order_independent_lemma. Qed.
Print Assumptions pipeline_value_and_rule_order_independent.

(* ---- with the lifting in front: the values collected in any order, for every keccak and slot table ---- *)
Theorem pipeline_collection_order_independent : forall keccak table names1 names2 o1 o2 arr1 arr2 rounds c1 c2,
  Permutation c1 c2 -> Permutation names1 default_rules -> Permutation names2 default_rules ->
  orders_ok o1 -> orders_ok o2 -> (forall l, Permutation (arr1 l) l) -> (forall l, Permutation (arr2 l) l) ->
  (forall acc s, fold_e (lift_body keccak table) (unique c1) ([], false) = inl (acc, false) -> tc_front names1 (rev acc) = Ok s ->
     order_fragment (tstate_of s) = true /\ (length (ts_vars (tstate_of s)) + 2 <= rounds)%nat) ->
  results_agree (analyze_gen keccak table names1 o1 arr1 rounds c1) (analyze_gen keccak table names2 o2 arr2 rounds c2).
Proof. exact pipeline_collection_order_independent_lemma. Qed.
Print Assumptions pipeline_collection_order_independent.

(* ---- the composed model ---- *)
Theorem pipeline_sorted_is_gen : forall keccak table fu stored,
  analyze_plain keccak table MSorted fu stored =
  analyze_gen keccak table sorted_rules orders_sorted (fun l => l) (f_rounds fu) (all_values MSorted stored).
Proof. exact analyze_plain_is_gen. Qed.
Print Assumptions pipeline_sorted_is_gen.

Theorem all_values_order : forall m1 m2 stored, Permutation (all_values m1 stored) (all_values m2 stored).
Proof. exact all_values_perm. Qed.
Print Assumptions all_values_order.

(* the sorted run of the composed model against a run whose collection, rule, unification and layout orders follow ANY mode m
   (the values inside `infer` still visited in registration order) *)
Theorem pipeline_sorted_vs_mode : forall keccak table m fu stored,
  (forall acc s, fold_e (lift_body keccak table) (unique (all_values MSorted stored)) ([], false) = inl (acc, false) ->
     tc_front sorted_rules (rev acc) = Ok s ->
     order_fragment (tstate_of s) = true /\ (length (ts_vars (tstate_of s)) + 2 <= f_rounds fu)%nat) ->
  results_agree (analyze_plain keccak table MSorted fu stored)
                (analyze_gen keccak table (arrange m "tc.rules" sorted_rules) (orders_of m) (tc_values m) (f_rounds fu) (all_values m stored)).
Proof. exact pipeline_sorted_vs_mode_lemma. Qed.
Print Assumptions pipeline_sorted_vs_mode.

(* ---- the ingredients ---- *)
(* the congruence closure commutes with a renaming *)
Theorem congruence_closure_renaming : forall rho rho' st1 st2, ren rho rho' st1 st2 ->
  forall x y, CC st1 x y -> CC st2 (rho x) (rho y).
Proof. exact CC_ren. Qed.
Print Assumptions congruence_closure_renaming.

(* the fragment is invariant under a renaming (order_free, seen_safe, wf_b all transfer) *)
Theorem order_fragment_renaming_invariant : forall rho rho' st1 st2, ren rho rho' st1 st2 ->
  NoDup (ts_vars st1) -> NoDup (ts_vars st2) -> order_fragment st1 = true -> order_fragment st2 = true.
Proof. exact frag_ren. Qed.
Print Assumptions order_fragment_renaming_invariant.

(* abi_type_for on two class tables over different variable spaces *)
Theorem abi_type_for_renaming : forall nested_add fit env1 env2 (R : tyvar -> tyvar -> Prop),
  (forall x y, R x y -> has_expr env1 x = has_expr env2 y) ->
  (forall x y, R x y -> hdrel R (ty_data env1 x) (ty_data env2 y)) ->
  (forall x y u1 u2 e, R x y -> R u1 u2 -> ty_data env1 x = Some [e] -> ty_data env1 u1 = Some [e] ->
     is_type_constructor e = true -> ty_data env2 y = ty_data env2 u2) ->
  (forall x y u1 u2 e, R x y -> R u1 u2 -> ty_data env2 y = Some [e] -> ty_data env2 u2 = Some [e] ->
     is_type_constructor e = true -> ty_data env1 x = ty_data env1 u1) ->
  forall fuel x y, R x y ->
  out_rel eq (abi_type_for nested_add fit env1 fuel x) (abi_type_for nested_add fit env2 fuel y).
Proof. exact abi_type_for_rel_het. Qed.
Print Assumptions abi_type_for_renaming.

(* the constant storage slots and their keys correspond *)
Theorem const_slot_key_renaming : forall rho x, const_slot_key (rename_tsv rho x) = const_slot_key x.
Proof. exact const_slot_key_rename. Qed.
Print Assumptions const_slot_key_renaming.

(* unification + layout loop on two judgement sets, the second the first renamed *)
Theorem back_half_renaming_invariant : forall s1 s2 rho rho' o1 o2 arr1 arr2 rounds,
  ren rho rho' (tstate_of s1) (tstate_of s2) ->
  NoDup (map fst (infs s1)) -> NoDup (map fst (infs s2)) ->
  Permutation (filter is_const_slot (Register.values s2)) (map (rename_tsv rho) (filter is_const_slot (Register.values s1))) ->
  order_fragment (tstate_of s1) = true -> orders_ok o1 -> orders_ok o2 ->
  (forall l, Permutation (arr1 l) l) -> (forall l, Permutation (arr2 l) l) ->
  (length (ts_vars (tstate_of s1)) + 2 <= rounds)%nat ->
  results_agree (back_run o1 arr1 rounds s1) (back_run o2 arr2 rounds s2) /\ order_fragment (tstate_of s2) = true.
Proof. exact back_ren_agree. Qed.
Print Assumptions back_half_renaming_invariant.

(* ---- non-vacuity: three values (a read of slot 1, a write to slot 5, a write of a sum to slot 1) registered in opposite
   orders, the rule set reversed, the hooks and the slot order reversed: the judgement set is inside the fragment, the type
   variables are numbered differently (the judgements of variable 10 of one run are those of variable 4 of the other), and
   both runs return the same two rows ---- *)
Example C02_e2e_hyps_met :
  Permutation [ex_b; ex_c; ex_d] [ex_d; ex_c; ex_b] /\ Permutation (rev default_rules) default_rules /\
  (exists s, tc_front default_rules [ex_b; ex_c; ex_d] = Ok s /\ order_fragment (tstate_of s) = true /\
             (length (ts_vars (tstate_of s)) + 2 <= 30)%nat /\ jset s 10 = [Word None UNumeric; Equal 1]) /\
  (exists s', tc_front (rev default_rules) [ex_d; ex_c; ex_b] = Ok s' /\ jset s' 4 = [Word None UNumeric; Equal 1]) /\
  tc_run default_rules orders_sorted (fun l => l) 30 [ex_b; ex_c; ex_d] =
    PLayout [(1, 0, AT "Number" [0] []); (5, 0, a_any)] /\
  tc_run (rev default_rules) orders_sorted_rev (@rev tsv) 30 [ex_d; ex_c; ex_b] =
    PLayout [(1, 0, AT "Number" [0] []); (5, 0, a_any)].
Proof. exact e2e_example_ok. Qed.
