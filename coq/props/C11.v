(* C11 -- see tools/p_c11.py: the property predicate is defined in LayoutCases.v and evaluated inside Coq
   on the implementation's output; stage theorems are in the VM and lifting-pass developments. *)
From Coq Require Import String Permutation.
From SLX Require Import Base gen.ValueSig SymVal VM AbiT VmCases LayoutCases.
Open Scope N_scope.

(* sorting the concatenation of two layouts is insensitive to the order of the two fragments' entries
   only up to permutation; the check therefore compares against the canonical sorted union *)
Theorem C11_union_is_sorted_permutation : forall a b,
  Permutation (sort_entries (a ++ b)) (a ++ b).
Proof.
  intros a b. unfold sort_entries.
  assert (Hi : forall e l, Permutation (insert_entry e l) (e :: l)).
  { intros e l. induction l as [|x l IH]; cbn; [reflexivity|]. destruct (_ || _); [reflexivity|].
    rewrite IH. apply perm_swap. }
  assert (G : forall l acc, Permutation (fold_left (fun acc e => insert_entry e acc) l acc) (acc ++ l)).
  { induction l as [|x l IH]; intros acc; cbn [fold_left]; [now rewrite app_nil_r|].
    rewrite IH, Hi. cbn. apply Permutation_cons_app. reflexivity. }
  apply (G (a ++ b) []).
Qed.

Print Assumptions C11_union_is_sorted_permutation.
