(* TC_STAGES -- the stage theorems that C01 (no panic), C06 (no missed slots), C11 (locality), C12 (entries inside
   the slot) and C04 need from the middle of the type checker: registration (coq/Register.v), the 16 inference
   rules (coq/Rules.v) and abi_type_for with the layout loop (coq/Abi.v).  Statements only; every proof is one
   `exact`.  The models are tied to the code by tools/tr_rules.py (tables, anchors) and the correspondence suites
   of tools/p_tc_stages.py. *)
From Coq Require Import String Permutation.
From SLX Require Import Base Word256 gen.Constants gen.ValueSig gen.WordUseTable gen.RulesSig SymVal TypeExpr AbiT Layout
  Register Rules Abi TcCases.
From SLX Require Import proofs.RegisterProofs proofs.RulesProofs proofs.AbiProofs proofs.TcStagesProofs.
Open Scope N_scope.

(* ====================================================================== registration *)

(* is_stable_typed decides "the tree contains a Value, CallData or StorageSlot" (the constructor list is read
   from the source on every run) *)
Theorem is_stable_is_spec : forall v, is_stable v = true <-> stable_spec v.
Proof. exact is_stable_spec. Qed.

(* iterating children() (as the code does) or the declared arguments (as the model does) is the same test *)
Theorem is_stable_children_order : forall t a args, (t = T_Create2 -> length args = 3%nat) ->
  existsb is_stable (children (Node t a args)) = existsb is_stable args.
Proof. exact is_stable_children. Qed.

(* register_covers_subterms: after assign_vars every sub-term of every registered value has a typed copy in the
   expression table, with a type variable below the counter and an inference set (so `infer` cannot hit its unwrap) *)
Theorem register_covers_subterms : forall vs,
  let '(ts, st) := assign_vars vs in
  inv st /\ map erase ts = vs /\
  (forall t y, In t ts -> In y (tsubterms t) ->
     in_exprs st y /\ In (tv_of y) (map fst (infs st)) /\ tv_of y < next st) /\
  (forall v s, In v vs -> In s (subterms v) -> exists y, in_exprs st y /\ erase y = s).
Proof. exact register_covers_subterms_lemma. Qed.

(* register_stable_shared: two occurrences of the same stably typed value are the same typed node (same variable,
   same variables below) ... *)
Theorem register_stable_shared : forall vs,
  let '(ts, st) := assign_vars vs in
  forall x y, In x (flat_map tsubterms ts) -> In y (flat_map tsubterms ts) ->
    is_stable (erase x) = true -> erase x = erase y -> x = y.
Proof. exact register_stable_shared_lemma. Qed.

(* ... and a value without stable part only gets variables that did not exist before its registration *)
Theorem register_unstable_fresh : forall v st, inv st -> is_stable v = false ->
  forall y, In y (tsubterms (fst (reg v st))) -> next st <= tv_of y.
Proof. exact reg_unstable_fresh. Qed.

(* register_disjoint (C11): two registered values without a common stably typed sub-term share no type variable *)
Theorem register_disjoint : forall vs,
  let '(ts, st) := assign_vars vs in
  forall i j v1 v2 t1 t2, i <> j ->
    nth_error vs i = Some v1 -> nth_error vs j = Some v2 ->
    nth_error ts i = Some t1 -> nth_error ts j = Some t2 ->
    (forall s, In s (subterms v1) -> In s (subterms v2) -> is_stable s = false) ->
    forall w, In w (map tv_of (tsubterms t1)) -> In w (map tv_of (tsubterms t2)) -> False.
Proof. exact register_disjoint_lemma. Qed.

(* register_order: the full statement (registering a permutation of the values renames the type variables
   bijectively) is `register_order_statement` in proofs/RegisterProofs.v; it is NOT proved.  Proved part: on the
   stably typed sub-values the renaming exists, is well defined and injective, for any two lists with the same
   stable sub-values (in particular permutations).  The full property is evaluated on the implementation by
   `TcCases.check_order`. *)
Theorem register_order_partial : forall vs vs',
  (forall s, is_stable s = true -> (exists v, In v vs /\ In s (subterms v)) <-> (exists v, In v vs' /\ In s (subterms v))) ->
  let st := snd (assign_vars vs) in let st' := snd (assign_vars vs') in
  let rho := stable_renaming st st' in
  (forall x x', in_exprs st x -> in_exprs st' x' -> is_stable (erase x) = true -> erase x = erase x' -> rho (tv_of x) = tv_of x') /\
  (forall x y, In x (flat_map tsubterms (fst (assign_vars vs))) -> In y (flat_map tsubterms (fst (assign_vars vs))) ->
     is_stable (erase x) = true -> is_stable (erase y) = true -> rho (tv_of x) = rho (tv_of y) -> tv_of x = tv_of y).
Proof. exact register_order_partial_lemma. Qed.

(* ====================================================================== inference rules *)

(* the rule set is the sixteen rules below, in this order (read from rule/mod.rs on every run) *)
Theorem default_rules_are : default_rules =
  ["ArithmeticOperationRule"; "BitShiftRule"; "BooleanOpsRule"; "CallDataRule"; "CreateContractRule"; "DynamicArrayWriteRule";
   "EnvironmentCodesRule"; "ExternalCallRule"; "HashRule"; "MappingAccessRule"; "MaskedWordRule"; "OffsetSizeRule";
   "PackedEncodingRule"; "SLoadIsInnerTypesRule"; "StorageKeyRule"; "StorageWriteRule"]%string.
Proof. exact default_rules_are_expected. Qed.

(* rules_total: no rule ever fails, whatever the value (no Err, no overflow panic inside the rule) *)
Theorem rules_total : forall r, In r default_rule_set -> forall x fresh, exists ro, r x fresh = Ok ro.
Proof. exact rules_total_lemma. Qed.

(* rules_no_panic x16: applying the rule to a registered value never hits the `unwrap`s of `state.infer` *)
Definition rule_no_panic (name : string) : Prop :=
  forall x st, winv st -> In (tv_of x, x) (exprs st) -> exists st', apply_rule (rule_named name) x st = Ok st'.

Theorem rules_no_panic_ArithmeticOperationRule : rule_no_panic "ArithmeticOperationRule".
Proof. exact (rule_no_panic_named _ good_ArithmeticOperationRule). Qed.
Theorem rules_no_panic_BitShiftRule : rule_no_panic "BitShiftRule".
Proof. exact (rule_no_panic_named _ good_BitShiftRule). Qed.
Theorem rules_no_panic_BooleanOpsRule : rule_no_panic "BooleanOpsRule".
Proof. exact (rule_no_panic_named _ good_BooleanOpsRule). Qed.
Theorem rules_no_panic_CallDataRule : rule_no_panic "CallDataRule".
Proof. exact (rule_no_panic_named _ good_CallDataRule). Qed.
Theorem rules_no_panic_CreateContractRule : rule_no_panic "CreateContractRule".
Proof. exact (rule_no_panic_named _ good_CreateContractRule). Qed.
Theorem rules_no_panic_DynamicArrayWriteRule : rule_no_panic "DynamicArrayWriteRule".
Proof. exact (rule_no_panic_named _ good_DynamicArrayWriteRule). Qed.
Theorem rules_no_panic_EnvironmentCodesRule : rule_no_panic "EnvironmentCodesRule".
Proof. exact (rule_no_panic_named _ good_EnvironmentCodesRule). Qed.
Theorem rules_no_panic_ExternalCallRule : rule_no_panic "ExternalCallRule".
Proof. exact (rule_no_panic_named _ good_ExternalCallRule). Qed.
Theorem rules_no_panic_HashRule : rule_no_panic "HashRule".
Proof. exact (rule_no_panic_named _ good_HashRule). Qed.
Theorem rules_no_panic_MappingAccessRule : rule_no_panic "MappingAccessRule".
Proof. exact (rule_no_panic_named _ good_MappingAccessRule). Qed.
Theorem rules_no_panic_MaskedWordRule : rule_no_panic "MaskedWordRule".
Proof. exact (rule_no_panic_named _ good_MaskedWordRule). Qed.
Theorem rules_no_panic_OffsetSizeRule : rule_no_panic "OffsetSizeRule".
Proof. exact (rule_no_panic_named _ good_OffsetSizeRule). Qed.
Theorem rules_no_panic_PackedEncodingRule : rule_no_panic "PackedEncodingRule".
Proof. exact (rule_no_panic_named _ good_PackedEncodingRule). Qed.
Theorem rules_no_panic_SLoadIsInnerTypesRule : rule_no_panic "SLoadIsInnerTypesRule".
Proof. exact (rule_no_panic_named _ good_SLoadIsInnerTypesRule). Qed.
Theorem rules_no_panic_StorageKeyRule : rule_no_panic "StorageKeyRule".
Proof. exact (rule_no_panic_named _ good_StorageKeyRule). Qed.
Theorem rules_no_panic_StorageWriteRule : rule_no_panic "StorageWriteRule".
Proof. exact (rule_no_panic_named _ good_StorageWriteRule). Qed.

(* the whole of TypeChecker::infer after assign_vars: Ok, and no registered value is removed *)
Theorem infer_no_panic : forall vs,
  exists st', infer_all default_rule_set (snd (assign_vars vs)) = Ok st' /\
              (forall p, In p (exprs (snd (assign_vars vs))) -> In p (exprs st')) /\
              (forall x, In x (values (snd (assign_vars vs))) -> In x (values st')).
Proof. exact infer_no_panic_lemma. Qed.

(* rule_keeps_slot (C06): a constant storage slot occurring anywhere in a registered value is still among the
   values after the rules ran, and the `constant storage slots` filter of `unify` selects it with its key *)
Theorem rule_keeps_slot : forall vs c, (exists v, In v vs /\ In (slot_sv c) (subterms v)) ->
  exists st', infer_all default_rule_set (snd (assign_vars vs)) = Ok st' /\
    exists x, In x (values st') /\ erase x = slot_sv c /\ const_slot_key x = Some c.
Proof. exact rule_keeps_slot_lemma. Qed.

(* ====================================================================== abi_type_for, layout loop *)

(* abi_terminates: the `seen` cut makes abi_type_for total -- with fuel = number of classes + 1 the out-of-fuel
   value is never returned, whatever the class table (cyclic classes end in InfiniteType) *)
Theorem abi_terminates : forall env dom, (forall v, ty_data env v <> None -> In v dom) ->
  forall v, abi_type_for abi_nested_add abi_nested_fit env (S (length dom)) v <> Err EOutOfFuel.
Proof. exact (abi_terminates_gen abi_nested_add abi_nested_fit gen_add_no_err). Qed.

(* abi_no_panic: if every variable with data has an expression and the expressions only mention such variables
   (what registration, the rules and `merge`'s allocate_ty_var maintain) abi_type_for and the layout loop never
   panic.  Rests on the nested-offset sum being the saturating one (`gen_add_total`). *)
Theorem abi_no_panic : forall env dom,
  (forall v, In v dom -> has_expr env v = true) ->
  (forall v e, In v dom -> type_of env v = Ok e -> forall w, In w (te_vars e) -> In w dom) ->
  forall fuel vals layout, (forall x, In x vals -> In (tv_of x) dom) ->
  forall p, build_layout abi_nested_add abi_nested_fit env fuel vals layout <> Panic p.
Proof. intros env dom H1 H2 fuel vals layout H3. exact (build_layout_no_panic abi_nested_add abi_nested_fit gen_add_total env dom H1 H2 fuel vals layout H3). Qed.

(* the pinned text `ofs + offset` panics on a closed class table (witness behind the repair in 66cf5b5) *)
Theorem abi_no_panic_pinned_refuted : exists cls fuel v, abi_type_for (usize_add 9103) false (env_cls cls) fuel v = Panic 9103.
Proof. exists overflow_witness, 4%nat, 1. exact overflow_witness_panics. Qed.

(* abi_packed_offsets (C12): under the span discipline -- a width `wd` for every class reachable through Packed
   spans from the queried class such that: the queried class fits 256 bits; spans are non-empty, lie inside their
   class, and the class of a span's type fits INTO THE SPAN; sized words fit their class -- every reported row
   starts inside the slot and ends inside it when its width is known.  Nested packed offsets accumulate. *)
Theorem abi_packed_offsets : forall env wd v0, discipline env wd v0 ->
  forall fuel index a, abi_type_for abi_nested_add abi_nested_fit env fuel v0 = Ok a ->
  forall e, In e (rows_of index a) ->
    fst (fst e) = index /\ snd (fst e) < WORD_SIZE_BITS /\
    match aty_width (snd e) with Some w => snd (fst e) + w <= WORD_SIZE_BITS | None => True end.
Proof. exact (abi_packed_offsets_gen abi_nested_add abi_nested_fit gen_add_exact). Qed.

(* the executable discipline check used by the suites implies the discipline *)
Theorem wd_hyp_sound : forall env cls v0, agrees env cls -> wd_hyp cls v0 = true -> discipline env (wd_min cls) v0.
Proof. exact wd_hyp_sound_lemma. Qed.

(* abi_rows_in_slot (C12, repaired text: a nested encoding is flattened only when all its elements stay inside the
   word its span starts in).  Hypotheses ONLY about the queried class itself, nothing about nested classes:
     - if it is a Packed class, every span starts inside the slot (offset < 256) and a span whose own type is a
       sized word ends inside it (offset + width <= 256);
     - if it is a sized word, the width is at most 256.
   Then every reported row starts inside the slot and known widths end inside it -- for struct and non-struct
   classes alike.  (The hypotheses are what the passes' in-slot theorems give for lifted sub-words / packed spans,
   preserved by Packed x Packed re-partitioning whose new boundaries lie among the old ones; that words of
   different widths never merge into a wider sized word is merge's Word x Word arm.) *)
Theorem abi_rows_in_slot : forall env fuel v0 index a,
  (forall ts b s, type_of env v0 = Ok (Packed ts b) -> In s ts ->
     s_off s < 256 /\ forall w u, type_of env (s_typ s) = Ok (Word (Some w) u) -> s_off s + w <= 256) ->
  (forall w u, type_of env v0 = Ok (Word (Some w) u) -> w <= 256) ->
  abi_type_for abi_nested_add abi_nested_fit env fuel v0 = Ok a ->
  forall e, In e (rows_of index a) ->
    fst (fst e) = index /\ snd (fst e) < WORD_SIZE_BITS /\
    match aty_width (snd e) with Some w => snd (fst e) + w <= WORD_SIZE_BITS | None => True end.
Proof. exact (abi_rows_in_slot_gen abi_nested_add gen_add_exact). Qed.

(* abi_nested_in_word (repaired text, ALL class tables, no discipline): every pair a Packed class hands to its
   parent sits at the start of one of its own spans or -- when it comes out of a nested encoding -- d bits after
   it and inside the 256-bit word that span starts in, with its known width.  For struct encodings (mapping values,
   is_struct) this is what holds: rows stay inside the word of their struct member. *)
Theorem abi_nested_in_word : forall env fuel v seen ts b ps sn,
  type_of env v = Ok (Packed ts b) -> (forall s, In s ts -> s_off s < two64) ->
  abi_impl abi_nested_add abi_nested_fit env fuel v seen PPacked = Ok (APacked ps, sn) ->
  Forall (fun p => exists s, In s ts /\ origin s p) ps.
Proof. exact (abi_nested_in_word_gen abi_nested_add gen_add_exact). Qed.

Theorem origin_in_same_word : forall s p, origin s p -> snd p / 256 = s_off s / 256.
Proof. exact origin_same_word. Qed.

(* the width function of the guard (AbiType::bit_width, table read from src/tc/abi.rs) implies the width the
   in-slot predicates use *)
Theorem bit_width_fits : forall a start,
  match bit_width a with None => true | Some w => usize_sat_add start w <=? WORD_SIZE_BITS end = true ->
  match aty_width a with Some w => start + w <= 256 | None => True end.
Proof. exact fits_width. Qed.

(* C12_nested_pinned_refuted (former finding C12:K-nested): with the PINNED text (no guard) every individual span
   ends inside the slot, the discipline fails (a 128-bit span whose type was equated with a full-width class),
   and a row is reported at bit 256 ... *)
Theorem C12_nested_pinned_refuted : exists cls v0 fuel ty,
  single_spans_ok cls v0 = true /\ known_nested_spans cls v0 = true /\
  abi_type_for abi_nested_add false (env_cls cls) fuel v0 = Ok (APacked [(AT "Any" [] [], 128); (ty, 256)]).
Proof.
  exists nested_witness, 1, 5%nat. destruct nested_witness_pinned_facts as (A & _ & B & ty & C). exists ty. auto.
Qed.

(* ... and the same classes under the repaired text: the span keeps one row (Any, 128), everything inside the slot *)
Theorem C12_nested_repaired :
  abi_type_for abi_nested_add abi_nested_fit (env_cls nested_witness) 5 1
  = Ok (APacked [(AT "Bytes" [1; 16] [], 0); (AT "Any" [] [], 128)]).
Proof. exact nested_witness_repaired. Qed.

(* layout_row_per_const_slot + index_full_width (C06): the loop keeps earlier rows and adds, for every constant
   storage slot among the values, at least one row whose index is the 256-bit key itself *)
Theorem layout_row_per_const_slot : forall env fuel vals layout L,
  build_layout abi_nested_add abi_nested_fit env fuel vals layout = Ok L ->
  (forall e, In e layout -> In e L) /\
  (forall x c, In x vals -> const_slot_key x = Some c -> exists off ty, In (c, off, ty) L).
Proof. exact (layout_row_per_const_slot_gen abi_nested_add abi_nested_fit). Qed.

(* the chain for C06: a constant slot in any registered value gets a row, whatever unification produced (env),
   provided the layout loop sees at least the values that were there after inference *)
Theorem const_slot_row : forall vs c env fuel L, (exists v, In v vs /\ In (slot_sv c) (subterms v)) ->
  exists st', infer_all default_rule_set (snd (assign_vars vs)) = Ok st' /\
    (forall vals, (forall x, In x (values st') -> In x vals) ->
       build_layout abi_nested_add abi_nested_fit env fuel vals [] = Ok L -> exists off ty, In (c, off, ty) L).
Proof. exact const_slot_row_lemma. Qed.

(* hypotheses are satisfiable: a two-level packed slot (address at bit 0, a 64-bit class holding two 32-bit
   fields at bit 160) satisfies the discipline, and abi_type_for reports the accumulated offsets *)
Example discipline_met :
  let cls := [(1, Packed [mk_span 3 0 160; mk_span 5 160 64] false); (3, Word (Some 160) UAddress);
              (5, Packed [mk_span 7 0 32; mk_span 9 32 32] false); (7, Word (Some 32) UBytes); (9, Word (Some 32) UNumeric)] in
  wd_hyp cls 1 = true /\
  abi_type_for abi_nested_add abi_nested_fit (env_cls cls) 6 1 =
    Ok (APacked [(AT "Address" [] [], 0); (AT "Bytes" [1; 4] [], 160); (AT "Number" [1; 32] [], 192)]).
Proof. vm_compute. split; reflexivity. Qed.

Print Assumptions is_stable_is_spec.
Print Assumptions is_stable_children_order.
Print Assumptions register_covers_subterms.
Print Assumptions register_stable_shared.
Print Assumptions register_unstable_fresh.
Print Assumptions register_disjoint.
Print Assumptions register_order_partial.
Print Assumptions default_rules_are.
Print Assumptions rules_total.
Print Assumptions rules_no_panic_CallDataRule.
Print Assumptions rules_no_panic_MappingAccessRule.
Print Assumptions infer_no_panic.
Print Assumptions rule_keeps_slot.
Print Assumptions abi_terminates.
Print Assumptions abi_no_panic.
Print Assumptions abi_no_panic_pinned_refuted.
Print Assumptions abi_packed_offsets.
Print Assumptions wd_hyp_sound.
Print Assumptions abi_rows_in_slot.
Print Assumptions abi_nested_in_word.
Print Assumptions origin_in_same_word.
Print Assumptions bit_width_fits.
Print Assumptions C12_nested_pinned_refuted.
Print Assumptions C12_nested_repaired.
Print Assumptions layout_row_per_const_slot.
Print Assumptions const_slot_row.

(* ====================================================================== shapes (support for C04) *)
Theorem abi_word_shape : forall nested_add fit env f v seen par width usage t,
  type_of env v = Ok (Word width usage) -> has_expr env v = true -> word_abi (Word width usage) width usage = Ok t ->
  abi_impl nested_add fit env (S f) v seen par = Ok (AType t, Word width usage :: seen).
Proof. exact abi_word_reported. Qed.

Theorem abi_mapping_shape : forall nested_add fit env f v seen par k val,
  type_of env v = Ok (Mapping k val) -> has_expr env v = true -> existsb (te_eqb (Mapping k val)) seen = false ->
  abi_impl nested_add fit env (S f) v seen par =
    sub_type (fun v0 sn => abi_impl nested_add fit env f v0 sn POther) k (Mapping k val :: seen) (fun ktp sn1 =>
    sub_type (fun v0 sn => abi_impl nested_add fit env f v0 sn POther) val sn1 (fun vtp sn2 =>
      Ok (AType (AT "Mapping" [] [ktp; vtp]), sn2))).
Proof. exact abi_mapping_reported. Qed.

Theorem abi_dynarray_shape : forall nested_add fit env f v seen par el,
  type_of env v = Ok (DynamicArray el) -> has_expr env v = true -> existsb (te_eqb (DynamicArray el)) seen = false ->
  abi_impl nested_add fit env (S f) v seen par =
    sub_type (fun v0 sn => abi_impl nested_add fit env f v0 sn POther) el (DynamicArray el :: seen) (fun tp sn =>
      Ok (AType (AT "DynArray" [] [tp]), sn)).
Proof. exact abi_dynarray_reported. Qed.

(* an address-typed class is reported as a 20-byte quantity *)
Example address_is_160 : word_abi (Word (Some 160) UAddress) (Some 160) UAddress = Ok (AT "Address" [] [])
                         /\ aty_width (AT "Address" [] []) = Some 160.
Proof. split; reflexivity. Qed.

Print Assumptions abi_word_shape.
Print Assumptions abi_mapping_shape.
Print Assumptions abi_dynarray_shape.
