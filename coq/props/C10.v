(* C10 -- Disassembly is total, lossless and keeps byte offsets.
   Only statements, `exact lemma`, and Print Assumptions live here. *)
From SLX Require Import Base gen.Constants gen.OpcodeTable Disasm proofs.DisasmProofs proofs.DisasmExtra.
Open Scope N_scope.

(* Every non-empty string of bytes (values < 256) of at most 2^32 bytes disassembles through
   InstructionStream::try_from (which includes the library's own re-encoding assertion) into
   exactly the token-at-a-time reading of the string. *)
Theorem C10_total : forall bs, bs <> [] -> bytes_ok bs -> N.of_nat (length bs) <= two32 ->
  try_from bs = Ok (spec (length bs) bs).
Proof. exact C10_total_proof. Qed.

(* one entry per input byte, and re-encoding gives back the input byte for byte *)
Theorem C10_lossless : forall bs is, bytes_ok bs -> N.of_nat (length bs) <= two32 ->
  try_from bs = Ok is -> length is = length bs /\ enc_all is = bs.
Proof. exact C10_lossless_proof. Qed.

(* position by position: push immediates are Nop (complete push) or Invalid (truncated push) entries,
   never instructions; every other byte is the instruction the table assigns to it; a PUSH byte is a
   PushN of that width or, when truncated by any number of bytes including all, Invalid. *)
Theorem C10_positions : forall bs is, bytes_ok bs -> N.of_nat (length bs) <= two32 ->
  try_from bs = Ok is -> Forall2 pos_ok (combine bs (immediates 0 bs)) is.
Proof. exact C10_positions_proof. Qed.

Theorem C10_push_data_never_jumpdest : forall bs is i, bytes_ok bs -> N.of_nat (length bs) <= two32 ->
  try_from bs = Ok is -> nth_error (immediates 0 bs) i = Some true ->
  exists x, nth_error is i = Some x /\ is_filler x = true /\ x <> IOp control_JumpDest.
Proof. exact C10_push_data_proof. Qed.

Theorem C10_unassigned_invalid : forall bs is i b, bytes_ok bs -> N.of_nat (length bs) <= two32 ->
  try_from bs = Ok is -> nth_error bs i = Some b -> nth_error (immediates 0 bs) i = Some false ->
  assigned b = false -> nth_error is i = Some (IInvalid b).
Proof. exact C10_unassigned_proof. Qed.

Theorem C10_bare_trailing_push : forall b, b < 256 -> is_push b = true -> try_from [b] = Ok [IInvalid b].
Proof. exact C10_bare_push_proof. Qed.

(* the table itself round-trips: all 256 byte values, by complete enumeration *)
Theorem C10_table_roundtrip : forall b, b < 256 ->
  (is_push b = true /\ pushn_byte (b - PUSH_OPCODE_BASE_VALUE) = b /\ 1 <= b - PUSH_OPCODE_BASE_VALUE <= 32)
  \/ (is_push b = false /\ exists i, decode1 b = Ok i /\ encode i = [b]).
Proof. exact C10_table_proof. Qed.

(* losslessness as injectivity: two different byte strings never give the same stream *)
Theorem C10_injective : forall bs bs' is, bytes_ok bs -> bytes_ok bs' ->
  N.of_nat (length bs) <= two32 -> N.of_nat (length bs') <= two32 ->
  try_from bs = Ok is -> try_from bs' = Ok is -> bs = bs'.
Proof. exact C10_injective_proof. Qed.

(* the JUMPDEST entries of the stream (what jump targets are validated against) are EXACTLY the 0x5b bytes that
   are not push data: none is invented, none is lost *)
Theorem C10_jumpdest_exact : forall bs is i, bytes_ok bs -> N.of_nat (length bs) <= two32 ->
  try_from bs = Ok is ->
  (nth_error is i = Some (IOp control_JumpDest) <->
   nth_error bs i = Some 91 /\ nth_error (immediates 0 bs) i = Some false).
Proof. exact C10_jumpdest_exact_proof. Qed.

(* a Nop entry stands only at a push-data position (no real instruction is ever decoded as the filler) *)
Theorem C10_nop_only_push_data : forall bs is i, bytes_ok bs -> N.of_nat (length bs) <= two32 ->
  try_from bs = Ok is -> nth_error is i = Some INop -> nth_error (immediates 0 bs) i = Some true.
Proof. exact C10_nop_only_push_data_proof. Qed.

(* non-vacuity: the hypotheses are met by a concrete non-trivial string (PUSH2 cut short, JUMPDEST in data) *)
Example C10_hyps_met : let bs := [96; 91; 0; 97; 91] in
  bs <> [] /\ bytes_ok bs /\ N.of_nat (length bs) <= two32 /\
  try_from bs = Ok [IPush 1 [91]; INop; IOp control_Stop; IInvalid 97; IInvalid 91].
Proof. cbv zeta. split; [discriminate|]. split; [repeat constructor|]. split; [vm_compute; discriminate|vm_compute; reflexivity]. Qed.

Print Assumptions C10_total.
Print Assumptions C10_lossless.
Print Assumptions C10_positions.
Print Assumptions C10_push_data_never_jumpdest.
Print Assumptions C10_unassigned_invalid.
Print Assumptions C10_bare_trailing_push.
Print Assumptions C10_table_roundtrip.
Print Assumptions C10_injective.
Print Assumptions C10_jumpdest_exact.
Print Assumptions C10_nop_only_push_data.
