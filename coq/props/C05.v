(* C05 -- see tools/p_c05.py: the property predicate is defined in LayoutCases.v and evaluated inside Coq
   on the implementation's output; stage theorems are in the VM and lifting-pass developments. *)
From Coq Require Import String.
From SLX Require Import Base gen.ValueSig SymVal VM AbiT VmCases LayoutCases.
Open Scope N_scope.

(* the attributable set contains every constant of every key tree of every retired state *)
Theorem C05_attributable_contains_key_constants : forall c st k w,
  In st (all_states (s_run c)) -> In k (storage_keys st) -> In w (known_leaves k) -> In w (attributable c).
Proof.
  intros c st k w H1 H2 H3. unfold attributable. apply in_or_app. left.
  apply in_flat_map. exists st. split; [exact H1|]. apply in_flat_map. exists k. auto.
Qed.

(* a program whose retired states hold no storage entry at all can only pass with an empty layout *)
Theorem C05_no_storage_requires_empty_layout : forall c,
  xa_class (s_res c) = 0 -> no_storage_executed c = true -> c05_code c = 0 -> xa_layout (s_res c) = [].
Proof.
  intros c Hc Hn H. unfold c05_code in H. rewrite Hc, Hn in H.
  destruct (xa_layout (s_res c)) as [|e l]; [reflexivity|]. cbn in H. discriminate.
Qed.

Print Assumptions C05_attributable_contains_key_constants.
Print Assumptions C05_no_storage_requires_empty_layout.
