(* C09 -- Simplifying a symbolic expression never changes what it denotes.
   Only statements, `exact lemma`, and Print Assumptions live here.

   `kw_*`            : the KnownWord operators as selected by translator step T4 from the current
                       text of src/vm/value/known.rs (gen/KnownWordSel.v via KnownWord.v);
   `spec_*`          : Yellow-Paper semantics, written independently (EvmSpec.v);
   `constant_fold`   : SymbolicValueData::constant_fold driven by the arm table that step T2
                       regenerates from `constant_folder` (gen/FoldTable.v via Fold.v);
   `den env`         : the meaning of a value tree -- the 21 foldable constructors by EvmSpec, every
                       other constructor through the uninterpreted `env`;
   `wf`              : every KnownData leaf holds a word < 2^256. *)
From SLX Require Import Base Word256 EvmSpec gen.ValueSig gen.KnownWordSel gen.FoldTable SymVal KnownWord Fold.
From SLX Require Import proofs.EvmSpecProofs proofs.KnownWordProofs proofs.FoldProofs.
Open Scope N_scope.

(* ---- each of the 21 operators computes the EVM operation, for ALL 256-bit operands ---- *)
(* receiver `a` = self, argument `b` = rhs of the Rust operator *)

Theorem impl_add_eq_spec : forall a b, a < 2 ^ 256 -> b < 2 ^ 256 -> kw_add a b = spec_add a b.
Proof. exact KnownWordProofs.impl_add_eq_spec. Qed.
Theorem impl_mul_eq_spec : forall a b, a < 2 ^ 256 -> b < 2 ^ 256 -> kw_mul a b = spec_mul a b.
Proof. exact KnownWordProofs.impl_mul_eq_spec. Qed.
Theorem impl_sub_eq_spec : forall a b, a < 2 ^ 256 -> b < 2 ^ 256 -> kw_sub a b = spec_sub a b.
Proof. exact KnownWordProofs.impl_sub_eq_spec. Qed.
(* x / 0 = 0 *)
Theorem impl_div_eq_spec : forall a b, a < 2 ^ 256 -> b < 2 ^ 256 -> kw_div a b = spec_div a b.
Proof. exact KnownWordProofs.impl_div_eq_spec. Qed.
(* x sdiv 0 = 0, MIN sdiv -1 = MIN, truncation toward zero *)
Theorem impl_sdiv_eq_spec : forall a b, a < 2 ^ 256 -> b < 2 ^ 256 -> kw_signed_div a b = spec_sdiv a b.
Proof. exact KnownWordProofs.impl_sdiv_eq_spec. Qed.
(* x mod 0 = 0 *)
Theorem impl_mod_eq_spec : forall a b, a < 2 ^ 256 -> b < 2 ^ 256 -> kw_rem a b = spec_mod a b.
Proof. exact KnownWordProofs.impl_mod_eq_spec. Qed.
(* x smod 0 = 0, sign of the dividend *)
Theorem impl_smod_eq_spec : forall a b, a < 2 ^ 256 -> b < 2 ^ 256 -> kw_signed_rem a b = spec_smod a b.
Proof. exact KnownWordProofs.impl_smod_eq_spec. Qed.
(* exponents of any size, in particular >= 2^32 *)
Theorem impl_exp_eq_spec : forall a b, a < 2 ^ 256 -> b < 2 ^ 256 -> kw_exp a b = spec_exp a b.
Proof. exact KnownWordProofs.impl_exp_eq_spec. Qed.
Theorem impl_lt_eq_spec : forall a b, a < 2 ^ 256 -> b < 2 ^ 256 -> kw_lt a b = spec_lt a b.
Proof. exact KnownWordProofs.impl_lt_eq_spec. Qed.
Theorem impl_gt_eq_spec : forall a b, a < 2 ^ 256 -> b < 2 ^ 256 -> kw_gt a b = spec_gt a b.
Proof. exact KnownWordProofs.impl_gt_eq_spec. Qed.
Theorem impl_slt_eq_spec : forall a b, a < 2 ^ 256 -> b < 2 ^ 256 -> kw_signed_lt a b = spec_slt a b.
Proof. exact KnownWordProofs.impl_slt_eq_spec. Qed.
Theorem impl_sgt_eq_spec : forall a b, a < 2 ^ 256 -> b < 2 ^ 256 -> kw_signed_gt a b = spec_sgt a b.
Proof. exact KnownWordProofs.impl_sgt_eq_spec. Qed.
(* the Equals arm folds with `KnownWord::from(a == b)` *)
Theorem impl_eq_eq_spec : forall a b, a < 2 ^ 256 -> b < 2 ^ 256 -> kw_from_eq a b = spec_eq a b.
Proof. exact KnownWordProofs.impl_eq_eq_spec. Qed.
(* ... and KnownWord::eq agrees *)
Theorem impl_eq_method_eq_spec : forall a b, a < 2 ^ 256 -> b < 2 ^ 256 -> kw_eq a b = spec_eq a b.
Proof. exact KnownWordProofs.impl_eq_method_eq_spec. Qed.
Theorem impl_iszero_eq_spec : forall a, a < 2 ^ 256 -> kw_is_zero a = spec_iszero a.
Proof. exact KnownWordProofs.impl_iszero_eq_spec. Qed.
Theorem impl_and_eq_spec : forall a b, a < 2 ^ 256 -> b < 2 ^ 256 -> kw_and a b = spec_and a b.
Proof. exact KnownWordProofs.impl_and_eq_spec. Qed.
Theorem impl_or_eq_spec : forall a b, a < 2 ^ 256 -> b < 2 ^ 256 -> kw_or a b = spec_or a b.
Proof. exact KnownWordProofs.impl_or_eq_spec. Qed.
Theorem impl_xor_eq_spec : forall a b, a < 2 ^ 256 -> b < 2 ^ 256 -> kw_xor a b = spec_xor a b.
Proof. exact KnownWordProofs.impl_xor_eq_spec. Qed.
Theorem impl_not_eq_spec : forall a, a < 2 ^ 256 -> kw_not a = spec_not a.
Proof. exact KnownWordProofs.impl_not_eq_spec. Qed.
(* shifts: the Rust receiver is the VALUE, its argument the SHIFT; the EVM takes (shift, value).
   Any shift amount, in particular >= 256 and >= 2^32 *)
Theorem impl_shl_eq_spec : forall v s, v < 2 ^ 256 -> s < 2 ^ 256 -> kw_shl v s = spec_shl s v.
Proof. exact KnownWordProofs.impl_shl_eq_spec. Qed.
Theorem impl_shr_eq_spec : forall v s, v < 2 ^ 256 -> s < 2 ^ 256 -> kw_shr v s = spec_shr s v.
Proof. exact KnownWordProofs.impl_shr_eq_spec. Qed.
Theorem impl_sar_eq_spec : forall v s, v < 2 ^ 256 -> s < 2 ^ 256 -> kw_sar v s = spec_sar s v.
Proof. exact KnownWordProofs.impl_sar_eq_spec. Qed.

(* none of the operations panics on any pair of words (debug build: ethnum's shift and overflow assertions on) *)
Theorem fold_ops_no_panic : forall o a b, a < 2 ^ 256 -> b < 2 ^ 256 -> kw_panics o [a; b] = false.
Proof. exact FoldProofs.fold_ops_no_panic. Qed.

(* ---- the fold ---- *)

(* constant_fold is `transform constant_folder`: top-down, first match wins, arms recurse themselves *)
Theorem constant_fold_is_transform : forall t, constant_fold t = transform constant_folder t.
Proof. exact FoldProofs.constant_fold_is_transform. Qed.

(* folding never changes what an expression denotes, whatever the non-arithmetic constructors mean *)
Theorem fold_sound : forall env t, wf t -> den env (constant_fold t) = den env t.
Proof. exact FoldProofs.fold_sound. Qed.

(* an operator applied to constants only becomes exactly the Yellow-Paper word; an operator that still has a
   non-constant operand stays the SAME operator with the SAME operands in the SAME positions, each folded *)
Theorem fold_shape : forall t args,
  foldable t = true -> length args = op_arity t -> Forall wf args ->
  constant_fold (Node t [] args) =
  match all_words (map constant_fold args) with
  | Some ws => Known (spec_op t ws)
  | None => Node t [] (map constant_fold args)
  end.
Proof. exact FoldProofs.fold_shape. Qed.

Theorem fold_idem : forall t, constant_fold (constant_fold t) = constant_fold t.
Proof. exact FoldProofs.fold_idem. Qed.

(* folded constants are words *)
Theorem fold_wf : forall t, wf t -> wf (constant_fold t).
Proof. exact FoldProofs.fold_wf. Qed.

(* the executable oracle used by the search equals the Yellow-Paper formulas *)
Theorem xspec_exp_eq : forall a b, xspec_exp a b = spec_exp a b.
Proof. exact EvmSpecProofs.xspec_exp_eq. Qed.
Theorem xspec_shl_eq : forall s v, xspec_shl s v = spec_shl s v.
Proof. exact EvmSpecProofs.xspec_shl_eq. Qed.
Theorem xspec_shr_eq : forall s v, v < 2 ^ 256 -> xspec_shr s v = spec_shr s v.
Proof. exact EvmSpecProofs.xspec_shr_eq. Qed.
Theorem xspec_sar_eq : forall s v, v < 2 ^ 256 -> xspec_sar s v = spec_sar s v.
Proof. exact EvmSpecProofs.xspec_sar_eq. Qed.

Print Assumptions impl_add_eq_spec.
Print Assumptions impl_mul_eq_spec.
Print Assumptions impl_sub_eq_spec.
Print Assumptions impl_div_eq_spec.
Print Assumptions impl_sdiv_eq_spec.
Print Assumptions impl_mod_eq_spec.
Print Assumptions impl_smod_eq_spec.
Print Assumptions impl_exp_eq_spec.
Print Assumptions impl_lt_eq_spec.
Print Assumptions impl_gt_eq_spec.
Print Assumptions impl_slt_eq_spec.
Print Assumptions impl_sgt_eq_spec.
Print Assumptions impl_eq_eq_spec.
Print Assumptions impl_eq_method_eq_spec.
Print Assumptions impl_iszero_eq_spec.
Print Assumptions impl_and_eq_spec.
Print Assumptions impl_or_eq_spec.
Print Assumptions impl_xor_eq_spec.
Print Assumptions impl_not_eq_spec.
Print Assumptions impl_shl_eq_spec.
Print Assumptions impl_shr_eq_spec.
Print Assumptions impl_sar_eq_spec.
Print Assumptions fold_ops_no_panic.
Print Assumptions constant_fold_is_transform.
Print Assumptions fold_sound.
Print Assumptions fold_shape.
Print Assumptions fold_idem.
Print Assumptions fold_wf.
Print Assumptions xspec_exp_eq.
Print Assumptions xspec_shl_eq.
Print Assumptions xspec_shr_eq.
Print Assumptions xspec_sar_eq.

(* Non-vacuity: a well-formed tree mixing constants at the edges of the word range, opaque leaves and a
   non-foldable constructor.  2^255 sdiv (2^256-1) is MIN / -1 = MIN; 1 << 256 = 0; 2^(2^32) = 0;
   the Subtract keeps its symbolic left operand on the left; CallData (not foldable) is rebuilt around
   its folded children. *)
Example C09_nonvacuous :
  let t := Node T_CallData [7]
             [ node2 T_Subtract (Val 3) (node2 T_SignedDivide (Known (2 ^ 255)) (Known (2 ^ 256 - 1)));
               node2 T_Add (node2 T_LeftShift (Known 256) (Known 1)) (node2 T_Exp (Known 2) (Known (2 ^ 32))) ] in
  wf t /\
  constant_fold t = Node T_CallData [7] [ node2 T_Subtract (Val 3) (Known (2 ^ 255)); Known 0 ] /\
  constant_fold t <> t.
Proof. split; [reflexivity|]. split; [vm_compute; reflexivity|]. vm_compute. discriminate. Qed.
