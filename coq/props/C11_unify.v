(* C11 (unification stage) -- evidence about unrelated values does not influence each other: the unification
   of two variable-disjoint judgement sets side by side is the disjoint union of their unifications.
   Only statements, `exact lemma`, and Print Assumptions live here.

   `ts_app st1 st2`: the two judgement lists one after the other; `mentioned st`: every variable a judgement
   set mentions (registered or inside an expression); `order_free`: the fragment of props/C02_unify.v, on which
   the iteration orders do not matter -- so the statement holds for ANY three orders (whole, part 1, part 2),
   in particular for the restrictions of the whole's order to the parts.  `order_free` of the whole is a
   hypothesis of its own (a decidable check: the closure computation is fuelled). *)
From SLX Require Import Base VectorMap DisjointSet gen.Constants gen.WordUseTable TypeExpr Merge Unify UnifyOrder.
From SLX Require Import proofs.DsuProofs proofs.UnifyProofs proofs.UnifyOrderProofs.
Open Scope N_scope.

(* All three runs return; two variables of one part share a class in the whole iff they do in the part alone;
   variables of different parts never share a class; and every variable of a part gets the same data in the
   whole as in the part alone (same word / both conflicts / same constructed type up to class representatives). *)
Theorem C11_unify_disjoint_union : forall st1 st2 o o1 o2 fuel,
  disjoint_b (mentioned st1) (mentioned st2) = true ->
  order_free st1 = true -> order_free st2 = true -> order_free (ts_app st1 st2) = true ->
  orders_ok o -> orders_ok o1 -> orders_ok o2 ->
  (length (ts_vars st1) + length (ts_vars st2) + 2 <= fuel)%nat ->
  exists s s1 s2 n,
    unify fuel o (ts_app st1 st2) = Ok (s, n) /\ unify fuel o1 st1 = Ok (s1, ts_next st1) /\ unify fuel o2 st2 = Ok (s2, ts_next st2) /\
    (forall x y, In x (mentioned st1) -> (same_class s x y <-> same_class s1 x y)) /\
    (forall x y, In x (mentioned st2) -> (same_class s x y <-> same_class s2 x y)) /\
    (forall x y, In x (mentioned st1) -> In y (mentioned st2) -> ~ same_class s x y) /\
    (forall x, In x (mentioned st1) -> exists s' s1' d d1,
         ds_get_data iset s x = Ok (s', d) /\ ds_get_data iset s1 x = Ok (s1', d1) /\ data_rel (CC (ts_app st1 st2)) d d1) /\
    (forall x, In x (mentioned st2) -> exists s' s2' d d2,
         ds_get_data iset s x = Ok (s', d) /\ ds_get_data iset s2 x = Ok (s2', d2) /\ data_rel (CC (ts_app st1 st2)) d d2).
Proof.
  intros st1 st2 o o1 o2 fuel Hd H1 H2 H Ho Ho1 Ho2 Hf.
  exact (unify_disjoint_union_proof st1 st2 Hd H1 H2 H o o1 o2 fuel Ho Ho1 Ho2 Hf).
Qed.

(* the congruence closure itself is local, for ALL variable-disjoint judgement sets (no fragment needed) *)
Theorem C11_closure_disjoint_union : forall st1 st2, disjoint_b (mentioned st1) (mentioned st2) = true ->
  (forall x y, In x (mentioned st1) -> (CC (ts_app st1 st2) x y <-> CC st1 x y)) /\
  (forall x y, In x (mentioned st2) -> (CC (ts_app st1 st2) x y <-> CC st2 x y)) /\
  (forall x y, In x (mentioned st1) -> In y (mentioned st2) -> ~ CC (ts_app st1 st2) x y).
Proof.
  intros st1 st2 H. split; [exact (CC_app_l st1 st2 H)|]. split; [exact (CC_app_r st1 st2 H)|exact (CC_app_sep st1 st2 H)].
Qed.

(* Packed encodings: the fresh type variables of `merge` come from one global counter, so the NAMES of the span
   variables in a resolved packed type depend on the other fragment -- on its registered variables (3,4,5 become
   13,14,15) and on how many fresh variables its own merges take first (13,14 become 16,17); the shape
   (offsets, sizes) is the same in this witness.  Locality of packed types can only hold up to a renaming of
   fresh variables; that statement is not proved. *)
Theorem C11_unify_packed_fresh_names_refuted :
  disjoint_b (mentioned wit_p1) (mentioned wit_p2) = true /\
  span_vars_of (data_of orders_sorted wit_p1 0) = [3; 4; 5] /\
  span_vars_of (data_of orders_sorted (ts_app wit_p1 wit_p2) 0) = [13; 14; 15] /\
  span_vars_of (data_of orders_sorted wit_p2 10) = [13; 14] /\
  span_vars_of (data_of orders_sorted (ts_app wit_p1 wit_p2) 10) = [16; 17] /\
  shape_of (data_of orders_sorted wit_p1 0) = shape_of (data_of orders_sorted (ts_app wit_p1 wit_p2) 0) /\
  shape_of (data_of orders_sorted wit_p2 10) = shape_of (data_of orders_sorted (ts_app wit_p1 wit_p2) 10).
Proof. exact unify_packed_fresh_names_refuted_proof. Qed.

(* non-vacuity: two variable-disjoint judgement sets with mappings, arrays and words; all three fragment checks hold *)
Example C11_unify_hyps_met :
  let st1 := mk_tstate [(0, [Equal 1; Mapping 2 4]); (1, [Equal 0; Mapping 3 5]); (2, [Word (Some 8) UBool]); (3, [Word None UBytes]);
                        (4, [Mapping 2 4]); (5, [])] 6 in
  let st2 := mk_tstate [(10, [DynamicArray 11; Equal 12]); (11, [Word (Some 160) UAddress]); (12, [Equal 10; DynamicArray 13]); (13, [])] 14 in
  disjoint_b (mentioned st1) (mentioned st2) = true /\ order_free st1 = true /\ order_free st2 = true /\
  order_free (ts_app st1 st2) = true.
Proof. repeat split; vm_compute; reflexivity. Qed.

Print Assumptions C11_unify_disjoint_union.
Print Assumptions C11_closure_disjoint_union.
Print Assumptions C11_unify_packed_fresh_names_refuted.
