(* C12 -- returned layouts are ordered and every entry lies inside its 256-bit slot.
   Ordering: a theorem about the model of StorageLayout::add whose sort key is read from the source on
   every run.  Inside-the-slot: the lifting passes only create sub-words / shifted values / packed spans
   that fit in 256 bits (stage lemmas in props/PassesPacking.v once merged); the invariant through
   unification and abi_type_for is evaluated on the implementation's layouts (tools/p_c12.py): partial. *)
From Coq Require Import String Permutation.
From SLX Require Import Base gen.LayoutKey AbiT Layout proofs.LayoutProofs proofs.LayoutExtra LayoutCases.
Open Scope N_scope.

(* whatever entries are added, in whatever order: the layout is sorted by (slot index, bit offset) ... *)
Theorem C12_layout_sorted : forall es, sorted_io (layout_of es).
Proof. exact layout_sorted. Qed.

(* ... and contains exactly the entries that were added (nothing lost, nothing duplicated) *)
Theorem C12_layout_is_permutation : forall es, Permutation (layout_of es) es.
Proof. exact layout_perm. Qed.

(* the executable check applied to the implementation's layouts decides that same relation *)
Theorem C12_checker_decides_sorted : forall l, sorted_entries l = true <-> sorted_io l.
Proof. exact sorted_entries_iff. Qed.

(* the layout is canonical: it depends only on WHICH rows were added, not on the order of the `add` calls, whenever no two
   different rows share one (slot index, bit offset) key; without that the stable sort keeps insertion order (witness) *)
Theorem C12_layout_canonical : forall es es', Permutation es es' ->
  (forall a b, In a es -> In b es -> fst a = fst b -> a = b) -> layout_of es = layout_of es'.
Proof. exact layout_canonical_proof. Qed.

Theorem C12_layout_of_sorted_id : forall es,
  (forall a b, In a es -> In b es -> fst a = fst b -> a = b) -> layout_of (layout_of es) = layout_of es.
Proof. exact layout_of_sorted_id_proof. Qed.

Theorem C12_layout_canonical_needs_functional_keys_refuted :
  exists es es', Permutation es es' /\ layout_of es <> layout_of es'.
Proof. exact layout_canonical_needs_functional_keys_proof. Qed.

Example C12_hyps_met :
  layout_of [(5, 8, AT "Bool" [] []); (2, 0, AT "Any" [] []); (5, 0, AT "Address" [] [])]
  = [(2, 0, AT "Any" [] []); (5, 0, AT "Address" [] []); (5, 8, AT "Bool" [] [])].
Proof. vm_compute. reflexivity. Qed.

Print Assumptions C12_layout_sorted.
Print Assumptions C12_layout_is_permutation.
Print Assumptions C12_checker_decides_sorted.
Print Assumptions C12_layout_canonical.
Print Assumptions C12_layout_of_sorted_id.
Print Assumptions C12_layout_canonical_needs_functional_keys_refuted.
