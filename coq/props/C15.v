(* C15 (merge-level half) -- Compatible evidence joins to its most specific type; contradictions conflict.
   Only statements, `exact lemma`, Print Assumptions and non-vacuity examples live here.

   The usage table (`wuse_merge`, `wuse_size`, `is_definitely_signed`) is regenerated from
   `WordUse::merge` etc. on every run (translator T3); the lattice laws are checked by exhaustive case
   analysis over the generated table.  `None` is the top element (incompatible). *)
From Coq Require Import Permutation.
From SLX Require Import Base gen.Constants gen.WordUseTable TypeExpr Merge
  proofs.MergeEquivProofs proofs.MergeLatticeProofs proofs.MergeProofs proofs.MergeGeneralProofs.
Open Scope N_scope.

(* ---- the usage table generated from WordUse::merge IS the hand-written specification of compatible usages (Merge.v
   wuse_join_spec: bytes below everything, numeric below unsigned / signed / address, unsigned below address, everything else
   incomparable): compatible usages join to the more specific one, incompatible ones have no join.  Re-proved against the
   table of every run; the searches evaluate the specification's join on the implementation's results. ---- *)
Theorem C15_usage_table_is_spec : forall a b, wuse_merge a b = wuse_join_spec a b.
Proof. intros a b. destruct a, b; reflexivity. Qed.

Theorem C15_word_join_is_spec : forall x l, wordev_join_all x l = wordev_join_all_s x l.
Proof.
  intros x l. unfold wordev_join_all, wordev_join_all_s. generalize (Some x). induction l as [|y l IH]; intros a; cbn [fold_left]; [reflexivity|].
  rewrite <- IH. f_equal. destruct a as [z|]; [|reflexivity]. unfold wordev_join_top, wordev_join, wordev_join_s.
  rewrite C15_usage_table_is_spec. reflexivity.
Qed.

(* ---- usages: a bounded join-semilattice (idempotent, commutative, associative, top = conflict) ---- *)
Theorem wuse_merge_semilattice :
  (forall a, wuse_merge a a = Some a)
  /\ (forall a b, wuse_merge a b = wuse_merge b a)
  /\ (forall a b c, ujoin (ujoin a b) c = ujoin a (ujoin b c))
  /\ (forall a, ujoin None a = None /\ ujoin a None = None).
Proof.
  exact (conj wuse_merge_idem (conj wuse_merge_comm (conj ujoin_assoc ujoin_top))).
Qed.

(* the induced order is a partial order and `wuse_merge` is its least upper bound; the result is the
   top element exactly when the two usages have no common refinement *)
Theorem wuse_merge_is_lub :
  (forall a, wuse_le a a = true)
  /\ (forall a b, wuse_le a b = true -> wuse_le b a = true -> a = b)
  /\ (forall a b c, wuse_le a b = true -> wuse_le b c = true -> wuse_le a c = true)
  /\ (forall a b c, wuse_merge a b = Some c -> wuse_le a c = true /\ wuse_le b c = true)
  /\ (forall a b d, wuse_le a d = true -> wuse_le b d = true ->
        exists c, wuse_merge a b = Some c /\ wuse_le c d = true)
  /\ (forall a b, wuse_merge a b = None <-> (forall d, wuse_le a d && wuse_le b d = false)).
Proof.
  exact (conj wuse_le_refl (conj wuse_le_antisym (conj wuse_le_trans
          (conj wuse_merge_ub (conj wuse_merge_least wuse_merge_top))))).
Qed.

(* ---- widths: the flat lattice ---- *)
Theorem width_merge_flat_lattice :
  (forall a, width_merge a a = Some a)
  /\ (forall a b, width_merge a b = width_merge b a)
  /\ (forall a b c, wjoin (width_merge a b) (Some c) = wjoin (Some a) (width_merge b c))
  /\ (forall a b, width_le a b = true <-> width_merge a b = Some b)
  /\ (forall a b, width_merge a b = None <-> exists x y, a = Some x /\ b = Some y /\ x <> y).
Proof.
  exact (conj width_merge_idem (conj width_merge_comm (conj width_merge_assoc
          (conj width_le_spec width_merge_top)))).
Qed.

(* ---- word evidence: folding `merge` over any list of words yields the lattice join ---- *)
(* the join of a family does not depend on the order in which it is listed *)
Theorem wordev_join_order_independent : forall x l y l', Permutation (x :: l) (y :: l') ->
  wordev_join_all x l = wordev_join_all y l'.
Proof. exact wordev_join_all_perm. Qed.

(* it is the least upper bound in the information order, and it is the top element only when the
   family has no upper bound at all *)
Theorem wordev_join_is_lub :
  (forall x l j, wordev_join_all x l = Some j -> forall y, In y (x :: l) -> wordev_le y j = true)
  /\ (forall x l d, (forall y, In y (x :: l) -> wordev_le y d = true) ->
        exists j, wordev_join_all x l = Some j /\ wordev_le j d = true).
Proof. exact (conj wordev_join_all_ub wordev_join_all_least). Qed.

(* two words are incompatible exactly when they carry two different known widths or usages without a
   common refinement *)
Theorem wordev_join_top_characterised : forall a b, wordev_join a b = None <->
  (exists x y, fst a = Some x /\ fst b = Some y /\ x <> y)
  \/ (forall d, wuse_le (snd a) d && wuse_le (snd b) d = false).
Proof. exact wordev_join_top_iff. Qed.

Theorem word_merge_is_join : forall (x : wordev) (l : list wordev) p n,
  exists e, merge_fold (word_of x) (map word_of l) p n = Some e /\
    match wordev_join_all x l with
    | Some j => e = word_of j
    | None => is_conflict e = true
    end.
Proof. exact word_merge_is_join_proof. Qed.

(* ---- Any, conflicts, constructor mismatches ---- *)
Theorem any_identity : forall a p n, is_equal a = false -> is_conflict a = false ->
  merge a Any p n = m_expression a n /\ merge Any a p n = m_expression a n.
Proof. exact any_identity_proof. Qed.

Theorem any_identity_conflict : forall cs rs p n,
  exists cs1 rs1 cs2 rs2, merge (Conflict cs rs) Any p n = m_expression (Conflict cs1 rs1) n
                          /\ merge Any (Conflict cs rs) p n = m_expression (Conflict cs2 rs2) n.
Proof. exact any_identity_conflict_proof. Qed.

(* conflicts absorb and accumulate *)
Theorem conflict_absorbs : forall cs rs b p n, is_equal b = false ->
  (exists cs' rs', merge (Conflict cs rs) b p n = m_expression (Conflict cs' rs') n /\ incl cs cs' /\ incl rs rs')
  /\ (exists cs' rs', merge b (Conflict cs rs) p n = m_expression (Conflict cs' rs') n /\ incl cs cs' /\ incl rs rs').
Proof. exact conflict_absorbs_proof. Qed.

(* a mapping against an array, dynamic bytes or a sized word; a fixed array against a dynamic array,
   dynamic bytes or a sized word *)
Theorem ctor_mismatch_conflicts : forall a b p n, ctor_mismatch a b = true ->
  exists cs rs, merge a b p n = m_expression (Conflict cs rs) n.
Proof. exact ctor_mismatch_conflicts_proof. Qed.

(* ---- three pieces of evidence: a contradiction between two of them is never silently dropped,
   whatever the grouping -- outside the known class K1 (an array-like type absorbing two words) ---- *)
Theorem contradiction_kept_outside_known : forall a b c p n,
  no_packed a = true -> no_packed b = true -> no_packed c = true -> K1 a b c = false ->
  contradicts a b || contradicts a c || contradicts b c = true ->
  conflict_or_panic (merge3L a b c p n) /\ conflict_or_panic (merge3R a b c p n).
Proof. exact contradiction_kept_outside_known_proof. Qed.

(* inside the class the claim is false of the pinned implementation: Bool(8) and Address(160)
   contradict each other, yet the resolved type is the dynamic array *)
Theorem C15_contradiction_refuted :
  exists a b c, contradicts a b = true /\ K1 a b c = true /\
    exists r, merge3R a b c 0 0 = Ok r /\ is_conflict (c_expr r) = false.
Proof. exact C15_contradiction_refuted_proof. Qed.

(* ---- non-vacuity ---- *)
(* a compatible family: bytes20, unknown-width number, address -> address of 160 bits, in any order *)
Example C15_join_example :
  wordev_join_all (Some 160, UBytes) [(None, UNumeric); (Some 160, UAddress)] = Some (Some 160, UAddress) /\
  merge_fold (Word (Some 160) UBytes) [Word None UNumeric; Word (Some 160) UAddress] 0 0
    = Some (Word (Some 160) UAddress) /\
  merge_fold (Word (Some 160) UAddress) [Word None UNumeric; Word (Some 160) UBytes] 0 0
    = Some (Word (Some 160) UAddress).
Proof. vm_compute. repeat split; reflexivity. Qed.

(* an incompatible family *)
Example C15_top_example :
  wordev_join_all (Some 8, UBool) [(Some 160, UAddress)] = None /\
  wordev_join_all (None, USignedNumeric) [(None, UBytes); (None, UUnsignedNumeric)] = None /\
  ctor_mismatch (Mapping 0 1) (DynamicArray 2) = true /\
  contradicts (Mapping 0 1) (Word (Some 8) UBool) = true /\
  K1 (Mapping 0 1) (Word (Some 8) UBool) (DynamicArray 2) = false.
Proof. vm_compute. repeat split; reflexivity. Qed.

Print Assumptions wuse_merge_semilattice.
Print Assumptions wuse_merge_is_lub.
Print Assumptions width_merge_flat_lattice.
Print Assumptions wordev_join_order_independent.
Print Assumptions wordev_join_is_lub.
Print Assumptions wordev_join_top_characterised.
Print Assumptions word_merge_is_join.
Print Assumptions any_identity.
Print Assumptions any_identity_conflict.
Print Assumptions conflict_absorbs.
Print Assumptions ctor_mismatch_conflicts.
Print Assumptions contradiction_kept_outside_known.
Print Assumptions C15_contradiction_refuted.
Print Assumptions C15_usage_table_is_spec.
Print Assumptions C15_word_join_is_spec.
