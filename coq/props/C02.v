(* C02 -- determinism under hash iteration order.
   The only place where iteration order can reach the result is the fold of `merge` over a class's
   evidence (and the order in which values are collected, which only renames type variables).  What is a
   theorem today: merge is commutative for ALL expressions, and over the property's finite evidence
   domain all six fold orders of three pieces of evidence agree outside the known non-associativity
   class (finding K1/K2), which is tight.  The whole-pipeline statement is decided by forcing the
   iteration orders of the real code (hook H1: natural x N, reversed, sorted, sorted-reversed, seeded
   permutations) and classifying every observed order dependence with the Coq predicate of
   OrderCases.v.  Partial. *)
From Coq Require Import String.
From SLX Require Import Base gen.Constants gen.WordUseTable TypeExpr Merge MergeCases OrderCases props.C16.
Open Scope N_scope.

Theorem C02_merge_commutative : forall a b p n, merge2 a b p n ≈ merge2 b a p n.
Proof. exact merge_comm. Qed.

Theorem C02_three_evidence_orders_agree_outside_known : forall a b c,
  In a evidence_domain -> In b evidence_domain -> In c evidence_domain ->
  KnownNonAssoc a b c = false -> forall p n,
  merge3L a b c p n ≈ merge3L a c b p n /\ merge3L a b c p n ≈ merge3L b a c p n /\
  merge3L a b c p n ≈ merge3L b c a p n /\ merge3L a b c p n ≈ merge3L c a b p n /\
  merge3L a b c p n ≈ merge3L c b a p n.
Proof. exact C16_fold_order_finite_outside_known. Qed.

(* the judgement set of the 21-byte witness program `5f5f52 33 60205f20 5f35 01 55 33 5f55 5f35 15 5f55 00` is in
   the known class: the class {2,3,8} carries DynamicArray, Address(160) and Bool(8) *)
Example C02_witness_in_known_class :
  order_class_code
    [(2, [DynamicArray 14; Equal 3; Equal 8]); (3, [Equal 2; Word (Some 160) UAddress]);
     (8, [Equal 2; Word (Some 8) UBool]); (14, [Equal 15]); (15, [Equal 14; Word (Some 160) UAddress])] = 1.
Proof. vm_compute. reflexivity. Qed.

Print Assumptions C02_merge_commutative.
Print Assumptions C02_three_evidence_orders_agree_outside_known.
