(* C14 -- Unification ends with one equality-free type per variable and honours equalities
   (+ the unification half of C03: termination, and its refutation -- known finding K2).
   Only statements, `exact lemma`, and Print Assumptions live here.

   Model: coq/Unify.v.  `unify fuel o st` is `unification::unify` on the typing state `st` with `fuel`
   iterations of the `loop` (`Err URounds` = out of fuel, never a result of the Rust function) and the
   iteration orders `o` of all hash collections; `orders_ok o` says that every order is a permutation of the
   collection it enumerates.  The forest is the concrete union-find structure of C19 (parent vector with path
   compression); results are stated through its own operations `ds_get_data` / `ds_find_top` (what
   `DisjointSet::get_data` / `find` return) and through `type_of` (`TypeChecker::type_of`). *)
From SLX Require Import Base VectorMap DisjointSet gen.Constants gen.WordUseTable TypeExpr Merge Unify.
From SLX Require Import proofs.DsuProofs proofs.MergeFactsProofs proofs.UnifyProofs.
Open Scope N_scope.

(* Whenever unify returns, the class of EVERY value (member of the forest or not) holds at most one type
   expression, and none of them is an equality. *)
Theorem C14_unify_post : forall fuel o st s n, orders_ok o -> unify fuel o st = Ok (s, n) ->
  forall v, exists s' d, ds_get_data iset s v = Ok (s', d) /\
    match d with
    | None => True
    | Some l => (length l <= 1)%nat /\ Forall (fun e => is_equal e = false) l
    end.
Proof. exact unify_post_proof. Qed.

(* The same as `type_of` reports it: a single type (Any for a class without evidence), never
   UnificationIncomplete, never an equality; UnificationFailure only for a class without a data entry. *)
Theorem C14_type_of_post : forall fuel o st s n, orders_ok o -> unify fuel o st = Ok (s, n) ->
  forall v, exists s' t, type_of ds_forest s v = Ok (s', t) /\
    match t with
    | TofType e => is_equal e = false
    | TofFailure => True
    | TofIncomplete _ => False
    end.
Proof. exact type_of_post_proof. Qed.

(* Variables declared equal -- directly or through any chain of declared equalities, in either direction --
   have the same root in the resulting forest.  `Conn` is C19's equivalence closure of a list of pairs;
   `declared_eqs st` lists (v, id) for every `Equal id` in the inference set of a registered variable v. *)
Theorem C14_eq_same_class : forall fuel o st s n x y, orders_ok o -> unify fuel o st = Ok (s, n) ->
  Conn (declared_eqs st) x y ->
  exists r sx sy, ds_find_top iset s x = Ok (r, sx) /\ ds_find_top iset s y = Ok (r, sy).
Proof. exact eq_same_class_proof. Qed.

(* When constructed types meet.  A variable x of the judgement set was given constructed evidence e (a
   mapping, a fixed array, a dynamic array).  Then x's class resolves to exactly one type t, and t is a
   conflict (the evidence was contradictory) or a type of the same kind -- for a fixed array: of the same
   length -- whose component variables are in the classes of e's component variables (`same_class`: same
   root).  A dynamic array may instead have been absorbed into dynamic bytes (see C14_ctor_components_bytes_refuted). *)
Theorem C14_ctor_components_unified : forall fuel o st s n x e, orders_ok o -> unify fuel o st = Ok (s, n) ->
  In x (ts_vars st) -> In e (ts_get st x) -> is_equal e = false ->
  exists s' t, ds_get_data iset s x = Ok (s', Some [t]) /\
    match e with
    | Mapping k v => is_conflict t = true \/ exists k' v', t = Mapping k' v' /\ same_class s k k' /\ same_class s v v'
    | FixedArray el l => is_conflict t = true \/ exists el', t = FixedArray el' l /\ same_class s el el'
    | DynamicArray el => is_conflict t = true \/ t = Bytes \/ exists el', t = DynamicArray el' /\ same_class s el el'
    | _ => True
    end.
Proof. exact ctor_components_unified_proof. Qed.

(* Hence two pieces of constructed evidence of the same kind anywhere in one class (x and y have the same
   root): unless the class is a conflict, two mappings have their keys in one class and their values in one
   class; two fixed arrays have the same length and their elements in one class; two dynamic arrays have
   their elements in one class unless the class resolved to dynamic bytes. *)
Theorem C14_ctor_pair_unified : forall fuel o st s n x y e1 e2, orders_ok o -> unify fuel o st = Ok (s, n) ->
  In x (ts_vars st) -> In e1 (ts_get st x) -> In y (ts_vars st) -> In e2 (ts_get st y) ->
  is_equal e1 = false -> is_equal e2 = false -> same_class s x y ->
  exists s' t, ds_get_data iset s x = Ok (s', Some [t]) /\
    match e1, e2 with
    | Mapping k1 v1, Mapping k2 v2 => is_conflict t = true \/ (same_class s k1 k2 /\ same_class s v1 v2)
    | FixedArray x1 l1, FixedArray x2 l2 => is_conflict t = true \/ (l1 = l2 /\ same_class s x1 x2)
    | DynamicArray x1, DynamicArray x2 => is_conflict t = true \/ t = Bytes \/ same_class s x1 x2
    | _, _ => True
    end.
Proof. exact ctor_pair_unified_proof. Qed.

(* The exception is real (known finding K1, the class `UnifyCases.bytes_hides_arrays`): the class of variable 0
   with the evidence {Bytes, DynamicArray 1, DynamicArray 2} resolves to Bytes and the variables 1 and 2 stay in
   different classes -- under another fold order the two arrays would meet and be unified. *)
Theorem C14_ctor_components_bytes_refuted :
  exists st s n, unify 5 orders_sorted st = Ok (s, n) /\
    In (DynamicArray 1) (ts_get st 0) /\ In (DynamicArray 2) (ts_get st 0) /\
    (exists s', ds_get_data iset s 0 = Ok (s', Some [Bytes])) /\ root_of s 1 <> root_of s 2.
Proof. exact ctor_components_bytes_refuted_proof. Qed.

(* `merge` never returns an equality and never emits one as a judgement ... *)
Theorem C14_merge_never_returns_equal : forall a b p n m,
  is_equal a = false -> is_equal b = false -> merge a b p n = Ok m ->
  is_equal (expr m) = false /\ Forall (fun j => is_equal (snd j) = false) (judg m).
Proof.
  intros a b p n m Ha Hb E. pose proof (merge_no_equal a b p n Ha Hb) as H. rewrite E in H. exact H.
Qed.

(* ... and its two `Equal` panics are unreachable from unify: the only panic unify can end in is the `usize`
   overflow of `span.offset + span.size` in the (Packed, Packed) arm (site 3; a C01 matter). *)
Theorem C14_equal_panics_unreachable : forall fuel o st p, orders_ok o -> unify fuel o st = Panic p ->
  p = site_usize_overflow /\ p <> site_equal_left /\ p <> site_equal_right.
Proof.
  intros fuel o st p Ho E. rewrite (unify_panic_proof fuel o st p Ho E). repeat split; discriminate.
Qed.

(* C03, type-checker half, outside the known class: without packed encodings unification of a judgement set
   over n variables stops within n + 2 rounds, for every iteration order; no fresh variable is created. *)
Theorem C03_unify_terminates_packed_free : forall o st fuel, orders_ok o -> packed_free st = true ->
  (length (ts_vars st) + 2 <= fuel)%nat -> exists s, unify fuel o st = Ok (s, ts_next st).
Proof. exact unify_terminates_packed_free_proof. Qed.

(* C03 / C14 REFUTED in general (known finding K2).  `Loop o s n`: a round started on the forest s gives back
   exactly s, with made_progress = true -- an invariant, so the loop never ends. *)
Theorem C03_loop_is_invariant : forall o s n, Loop o s n ->
  forall rnd, exists s' n', round ds_forest o rnd s n = Ok (s', n', true) /\ Loop o s' n'.
Proof. exact loop_invariant. Qed.

Theorem C03_loop_diverges : forall o s n, Loop o s n ->
  forall fuel rnd, unify_loop ds_forest o fuel rnd s n = Err URounds.
Proof. exact loop_diverges. Qed.

(* The judgement set that reaches unify on the 36-byte program 335f5573ff..ff5f54166001556001545f5500 is, after
   two rounds, in such a state (class 13 = { Packed[Span(V14, 0, 160)], Word<Address,160> } with find V14 = 13);
   unify runs out of every fuel; and the set lies in the decidable class K2 (Unify.k2_class). *)
Theorem C14_unify_loop_refuted :
  exists st, k2_class 2 st = true /\ reaches_loop 2 st /\ forall fuel, unify fuel orders_sorted st = Err URounds.
Proof. exact unify_loop_refuted_proof. Qed.

(* the smallest member of the class: one variable with the evidence Packed[Span(V0, 0, 160)] and Word<Address,160> *)
Theorem C14_unify_loop_refuted_small :
  k2_class 0 k2_witness_small = true /\ reaches_loop 0 k2_witness_small /\
  forall fuel, unify fuel orders_sorted k2_witness_small = Err URounds.
Proof. exact unify_loop_refuted_small_proof. Qed.

(* the orders the correspondence run uses (hook H1, modes Sorted / SortedReversed / Seeded) are permutations,
   so every theorem above applies to the runs that are compared with the implementation *)
Theorem C14_sorted_orders_ok : orders_ok orders_sorted /\ orders_ok orders_sorted_rev.
Proof. exact sorted_orders_ok. Qed.

Theorem C14_seeded_orders_ok : forall seed, orders_ok (orders_seeded seed).
Proof. exact seeded_orders_ok. Qed.

(* non-vacuity: a judgement set with equalities, a mapping whose value is itself, and word evidence spread over
   equated variables is unified by the model in two rounds; 0 and 1 end in one class *)
Example C14_hyps_met :
  let st := mk_tstate [(0, [Equal 1; Mapping 2 0]); (1, [Equal 0; Mapping 2 1]); (2, [Word None UBytes; Equal 3]);
                       (3, [Equal 2; Word (Some 160) UAddress])] 4 in
  orders_ok orders_sorted /\
  match unify 5 orders_sorted st with
  | Ok (s, n) => n = 4 /\ root_of s 0 = root_of s 1 /\ root_of s 2 = root_of s 3
  | _ => False
  end.
Proof. split; [apply sorted_orders_ok|]. vm_compute. repeat split. Qed.

Print Assumptions C14_unify_post.
Print Assumptions C14_type_of_post.
Print Assumptions C14_eq_same_class.
Print Assumptions C14_ctor_components_unified.
Print Assumptions C14_ctor_pair_unified.
Print Assumptions C14_ctor_components_bytes_refuted.
Print Assumptions C14_merge_never_returns_equal.
Print Assumptions C14_equal_panics_unreachable.
Print Assumptions C03_unify_terminates_packed_free.
Print Assumptions C03_loop_is_invariant.
Print Assumptions C03_loop_diverges.
Print Assumptions C14_unify_loop_refuted.
Print Assumptions C14_unify_loop_refuted_small.
Print Assumptions C14_sorted_orders_ok.
Print Assumptions C14_seeded_orders_ok.
