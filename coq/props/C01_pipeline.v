(* C01, end to end on the composed model: `Pipeline.analyze_model` (disassembly -> VM -> all_values -> nine passes ->
   assign_vars -> 16 rules -> unify -> abi_type_for -> layout) never returns `PPanic`, for EVERY byte string, every
   configuration whose watchdog polling interval is at least 1, every keccak function, slot table, iteration-order mode
   and fuel.  No other validity condition on the configuration is needed (limits may be 0, the value-size limit may be
   anything); `1 <= poll_every` cannot be dropped (`pipeline_poll_zero_panics`).

   The invariants that cross the stage boundaries (vocabulary: NoPanic.v), one theorem per boundary:
     C01_try_from_no_panic          InstructionStream::try_from incl. the re-encoding assertion, any length
     vm_values_wellformed           VM -> lift: no SubWord / Shifted / Packed node in anything all_values collects
     lifted_spans_bounded           lift -> assign_vars: the nine passes do not panic on such values, and every SubWord / Packed
                                    node they produce has offset + size <= 256 (so `Shift of non-sub-word` is unreachable and
                                    the spans the rules read are small)
     registered_state_closed        infer -> unify: the judgement set is `tstate_ok`: every span has offset + size <= usize::MAX
                                    (SubWord / Packed payloads <= 256; the mapping projection offset * 256 + 256 < 2^64 by the
                                    guard of fix 66cf5b5), every word width <= usize::MAX (constants, SubWord sizes, the saturating
                                    call-data product), and every variable named is below the counter
     merge_keeps_span_bound         `merge` keeps all that on its result and on the judgements it pushes down ((Packed, Packed)
                                    preserves the largest span end; (Packed, Word) creates [0, width)), under the counter it returns
     merge_usize_overflow_unreachable   hence `span.offset + span.size` cannot overflow
     unify_preserves_span_bound     unify -> abi: `unify` never panics on a `tstate_ok` set, and leaves class data of that kind
     final_state_closed             the class table `abi_type_for` reads is closed under the returned counter (abi_no_panic's hypothesis)
   Only statements, `exact lemma`, Print Assumptions; proofs: proofs/NoPanicVmLift.v, NoPanicTc.v, NoPanicUnify.v, PipelineNoPanic.v. *)
From Coq Require Import String.
From SLX Require Import Base gen.Constants gen.ValueSig gen.OpcodeTable gen.RulesSig SymVal Disasm VM Fold PassesSlots PassesPacking
  TypeExpr Merge DisjointSet Register Rules Unify AbiT Layout Abi Pipeline NoPanic.
From SLX.proofs Require Import DisasmProofs UnifyProofs NoPanicVmLift NoPanicTc NoPanicUnify PipelineNoPanic.
Open Scope N_scope.

(* ---- the end-to-end statement ---- *)
Theorem pipeline_no_panic : forall keccak table mode fu bytes (cfg : config),
  bytes_ok bytes -> 1 <= poll_every cfg ->
  forall site, analyze_model_fuel keccak table mode fu bytes cfg <> PPanic site.
Proof. exact pipeline_no_panic_lemma. Qed.
Print Assumptions pipeline_no_panic.

Theorem pipeline_no_panic_trace : forall keccak table mode fu bytes (cfg : config),
  bytes_ok bytes -> 1 <= poll_every cfg ->
  forall site, t_result (analyze_trace keccak table mode fu bytes cfg) <> PPanic site.
Proof. exact pipeline_no_panic_trace_lemma. Qed.
Print Assumptions pipeline_no_panic_trace.

(* `analyze_model` = the sorted iteration orders, default fuels *)
Theorem pipeline_no_panic_sorted : forall keccak table bytes (cfg : config),
  bytes_ok bytes -> 1 <= poll_every cfg -> forall site, analyze_model keccak table bytes cfg <> PPanic site.
Proof. exact pipeline_no_panic_sorted_lemma. Qed.
Print Assumptions pipeline_no_panic_sorted.

(* the statement, named *)
Theorem pipeline_no_panic_statement_holds : pipeline_no_panic_statement.
Proof. exact pipeline_no_panic_lemma. Qed.
Print Assumptions pipeline_no_panic_statement_holds.

(* the hypothesis on the configuration is needed: `counter % poll_every()` with a polling interval of 0 *)
Theorem pipeline_poll_zero_panics : forall keccak table mode fu bytes code (cfg : config),
  try_from bytes = Ok code -> poll_every cfg = 0 ->
  analyze_model_fuel keccak table mode fu bytes cfg = PPanic SITE_POLL_ZERO.
Proof. exact pipeline_poll_zero_panics_lemma. Qed.
Print Assumptions pipeline_poll_zero_panics.

(* the type-checking half alone, for whatever retired states satisfy the VM's invariant (this is the theorem to re-compose
   when `analyze_tc` grows) *)
Theorem analyze_tc_never_panics : forall keccak table mode fu (cfg : config) det stored polls,
  Forall (fun x => no_lifted x = true) (unique (all_values mode stored)) ->
  forall site, t_result (analyze_tc keccak table mode fu cfg det stored polls) <> PPanic site.
Proof. exact analyze_tc_no_panic. Qed.
Print Assumptions analyze_tc_never_panics.

(* ---- one theorem per stage boundary ---- *)
Theorem C01_try_from_no_panic : forall bs, bytes_ok bs -> forall site, try_from bs <> Panic site.
Proof. exact try_from_no_panic. Qed.
Print Assumptions C01_try_from_no_panic.

Theorem vm_values_wellformed : forall mode code cfg p m,
  run_p constant_fold p (init_vm code cfg) = RDone m ->
  Forall (fun x => no_lifted x = true) (unique (all_values mode (v_stored m))).
Proof. exact vm_values_wellformed_lemma. Qed.
Print Assumptions vm_values_wellformed.

Theorem lifted_spans_bounded : forall keccak table v,
  no_lifted v = true ->
  (forall s, lift_value keccak table v <> Panic s) /\
  (forall v', lift_value keccak table v = Ok v' -> spans_small v' = true).
Proof. exact lifted_spans_bounded_lemma. Qed.
Print Assumptions lifted_spans_bounded.

(* every slot pass and constant folding keep any node predicate that holds of all nodes other than SubWord / Shifted / Packed *)
Theorem slot_passes_keep_lifted_nodes : forall P, LN P -> forall keccak table v, nodes_ok P v = true ->
  nodes_ok P (hashed_slots table v) = true /\ nodes_ok P (proxy_slots keccak v) = true /\ nodes_ok P (mapping_index v) = true /\
  nodes_ok P (dyn_array v) = true /\ nodes_ok P (storage_slots v) = true /\ nodes_ok P (mapping_offset v) = true /\
  nodes_ok P (constant_fold v) = true.
Proof. exact slot_passes_keep_lifted_nodes_lemma. Qed.
Print Assumptions slot_passes_keep_lifted_nodes.

Theorem registered_state_closed : forall mode lifted xs st',
  Forall (fun v => spans_small v = true) lifted ->
  (forall x, In x xs -> In x (tc_values mode (Register.values (snd (assign_vars lifted))))) ->
  infer_values (pipeline_rules mode) xs (snd (assign_vars lifted)) = Ok st' ->
  tinv st' /\ tstate_ok (tstate_of st') = true.
Proof. exact registered_state_closed_lemma. Qed.
Print Assumptions registered_state_closed.

(* what each of the sixteen rules emits on a registered node whose own payload is small *)
Theorem rules_emit_bounded_closed : Forall rule_bounded default_rule_set.
Proof. exact default_rules_bounded. Qed.
Print Assumptions rules_emit_bounded_closed.

Theorem merge_keeps_span_bound : forall a b p n m,
  is_equal a = false -> te_ok n a = true -> is_equal b = false -> te_ok n b = true -> merge a b p n = Ok m ->
  n <= Merge.next m /\ te_ok (Merge.next m) (expr m) = true /\ Forall (fun j => te_ok (Merge.next m) (snd j) = true) (judg m).
Proof. exact merge_keeps_span_bound_lemma. Qed.
Print Assumptions merge_keeps_span_bound.

Theorem merge_usize_overflow_unreachable : forall a b p n m s,
  is_equal a = false -> te_ok n a = true -> is_equal b = false -> te_ok n b = true -> merge a b p m <> Panic s.
Proof. exact merge_usize_overflow_unreachable_lemma. Qed.
Print Assumptions merge_usize_overflow_unreachable.

Theorem unify_preserves_span_bound : forall fuel o st, orders_ok o -> tstate_ok st = true ->
  match unify fuel o st with
  | Ok (s, n) => ts_next st <= n /\ exists a, fsim s a /\ ASP (Pn n) a
  | Err _ => True
  | Panic _ => False
  end.
Proof. exact unify_preserves_span_bound_lemma. Qed.
Print Assumptions unify_preserves_span_bound.

Theorem final_state_closed : forall s n a, fsim s a -> ASP (Pn n) a ->
  (forall v, In v (vars_below n) -> has_expr (env_of_forest s n) v = true) /\
  (forall v e, In v (vars_below n) -> Abi.type_of (env_of_forest s n) v = Ok e ->
     forall w, In w (te_vars e) -> In w (vars_below n)).
Proof. exact final_state_closed_lemma. Qed.
Print Assumptions final_state_closed.

(* the invariant is tight where it matters: a span that ends beyond usize::MAX does make `merge` panic *)
Theorem merge_overflow_needs_bound :
  te_bounded (Packed [mk_span 1 usize_max 8] false) = false /\
  merge (Packed [mk_span 1 usize_max 8] false) (Packed [mk_span 2 0 8] false) 0 3 = Panic site_usize_overflow.
Proof. exact merge_overflow_needs_bound_lemma. Qed.
Print Assumptions merge_overflow_needs_bound.

(* the hypotheses are met by a non-trivial program: two members (projections 1 and 2) of a struct in a mapping keyed by the
   caller -- the mapping rule's spans at bit 256 and 512 meet in one class and go through the (Packed, Packed) arm *)
Definition c01_cfg : config := mk_config 30000000 10 50 250 394 false 100 None.
Definition c01_prog : list byte := [51;95;82;96;3;96;32;82;96;64;95;32;128;96;1;1;84;80;96;2;1;84;80;0].
Example pipeline_no_panic_hyps_met :
  bytes_ok c01_prog /\ 1 <= poll_every c01_cfg /\
  analyze_model (fun _ => 0) [] c01_prog c01_cfg =
    PLayout [(3, 0, AT "Mapping" [] [AT "Address" [] [];
                                      AT "Struct" [0; 256; 512] [AT "Bytes" [1; 32] []; AT "Any" [] []; AT "Any" [] []]])] /\
  match t_infs (analyze_trace (fun _ => 0) [] MSorted default_fuels c01_prog c01_cfg) with
  | Some (n, infs) => tstate_ok (mk_tstate infs n) = true /\ negb (packed_free (mk_tstate infs n)) = true
  | None => False
  end.
Proof.
  split; [repeat constructor|]. split; [vm_compute; discriminate|]. split; [vm_compute; reflexivity|]. vm_compute. split; reflexivity.
Qed.
