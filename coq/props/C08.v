(* C08 -- control flow is followed exactly as the EVM allows, and both branches are taken.
   Theorems about the model of the VM (every program, all limits, every folding function) and about the
   disassembled stream; the subset / equality of executed offsets against the EVM control-flow graph is
   evaluated by the reference EVM of Evm.v on the implementation's visit counters (tools/p_c08.py);
   the inclusion THEOREM along each path (`C08_executed_offsets_reachable`) is a corollary of C07's simulation
   (proofs/VmSim.v) for threads whose steps satisfy C07's guards; the CONVERSE inclusion
   (`C08_reachable_offsets_executed`: no reachable code is skipped) is proved in proofs/VmExplore.v for runs all of
   whose iterations satisfy those guards and lose no fork (SimGuards.guards_all). *)
From SLX Require Import Base gen.Constants gen.OpcodeTable SymVal Disasm VM Word256 EvmSpec Fold Evm Sim SimTrace SimGuards VmCases SimCases
                        proofs.DisasmProofs proofs.VmBounds proofs.VmControl proofs.VmSim proofs.VmExplore.
Open Scope N_scope.

(* a jump (JUMP or the forked half of JUMPI) is only ever taken to a target t such that the value on the
   stack constant-folds to exactly the word t -- no truncation: t itself is < 2^32 -- t lies inside the
   code and the instruction at t is JUMPDEST *)
Theorem C08_jump_target_exact : forall fold code counter t,
  validate_jump fold code counter = inl t ->
  as_word (fold counter) = Some t /\ t < two32 /\ t < N.of_nat (length code) /\
  nth_error code (N.to_nat t) = Some (IOp control_JumpDest).
Proof. exact validate_jump_exact. Qed.

Theorem C08_jump_requests_validated : forall fold code c c' e t,
  exec_jump fold code c = (c', e, CJump t) ->
  exists counter s, stack (o_st c) = counter :: s /\ validate_jump fold code counter = inl t /\ e = None.
Proof. exact exec_jump_target. Qed.

Theorem C08_fork_requests_validated : forall fold code cfg vis jt c c' e se t jt',
  exec_jumpi fold cfg code vis jt c = (c', e, se, CFork t, jt') ->
  exists counter cond s, stack (o_st c) = counter :: cond :: s /\ validate_jump fold code counter = inl t.
Proof. exact exec_jumpi_target. Qed.

(* ... and in a disassembled stream a JUMPDEST entry sits on a 0x5b byte that is an instruction boundary,
   never push data; this is also exactly the reference EVM's own notion of a valid destination *)
Theorem C08_jumpdest_is_boundary : forall bs is t,
  bytes_ok bs -> N.of_nat (length bs) <= two32 -> try_from bs = Ok is ->
  nth_error is t = Some (IOp control_JumpDest) ->
  nth_error bs t = Some 91 /\ nth_error (immediates 0 bs) t = Some false.
Proof. exact jumpdest_entry_is_boundary. Qed.

Theorem C08_reference_valid_dest : forall bs t,
  valid_dest bs t = true <->
  nth_error bs (N.to_nat t) = Some 91 /\ nth_error (immediates 0 bs) (N.to_nat t) = Some false.
Proof. exact valid_dest_iff. Qed.

(* both outcomes of a conditional jump with a valid target are explored while the limits allow *)
Theorem C08_both_branches : forall fold code m m' t rest i counter cond s target,
  vm_step fold m = SRunning m' -> v_code m = code -> v_queue m = t :: rest ->
  nth_error code (N.to_nat (tip t)) = Some i -> is_jumpi i = true ->
  stack (tstate t) = counter :: cond :: s ->
  validate_jump fold code counter = inl target ->
  count_of target (bump (tip t) (tvis t)) < iter_limit (v_cfg m) -> count_of target (v_jt m) < fork_limit (v_cfg m) ->
  (exists th, In th (v_queue m') /\ tip th = target /\ tpath th = tpath t ++ [true] /\ fork_point (tstate th) = tip t) /\
  ((exists th, In th (v_queue m') /\ tip th = tip t + 1 /\ tpath th = tpath t ++ [false]) \/
   (exists st, v_stored m' = v_stored m ++ [st])).
Proof. exact jumpi_both_branches. Qed.

(* STOP, RETURN, REVERT, SELFDESTRUCT, INVALID and unassigned bytes end the path *)
Theorem C08_halting_ends_path : forall fold code m m' t rest i,
  vm_step fold m = SRunning m' -> v_code m = code -> v_queue m = t :: rest ->
  nth_error code (N.to_nat (tip t)) = Some i -> halting i = true ->
  v_queue m' = rest /\ exists st, v_stored m' = v_stored m ++ [st].
Proof. exact halting_retires. Qed.

(* every instruction offset executed (visit counter > 0, not push data) by a thread that the machine retires with
   ghost path p, all of whose steps satisfied the guards of C07, is executed by the reference EVM along p
   (`epcs` = the program counters of `erun`, the halting instruction included); in particular it is reachable in the
   EVM control-flow graph.  (The JUMPDEST a JUMP lands on is executed by the EVM only: the symbolic machine steps
   over it.) *)
Theorem C08_executed_offsets_reachable : forall bytes code (cfg : config),
  bytes_ok bytes -> N.of_nat (length bytes) <= two32 -> try_from bytes = Ok code ->
  forall n p, guards_along code cfg n (init_vm code cfg) p = true ->
  forall i sv, nth_error (v_stored (result_state (run constant_fold n (init_vm code cfg)))) i = Some sv ->
               nth_error (v_paths (result_state (run constant_fold n (init_vm code cfg)))) i = Some p ->
  exists fuel e, erun bytes fuel p e_init = (EHalt e, []) /\
    forall o, 0 < count_of o (snd sv) -> nth (N.to_nat o) (immediates 0 bytes) false = false ->
              In o (epcs bytes fuel p e_init).
Proof. exact executed_offsets_reachable. Qed.

(* ---- the converse: no reachable code is skipped.
   `ereach bytes e_init e`: the reference EVM reaches state e when both outcomes of every JUMPI are possible.
   Hypotheses (all decidable on the model run): the run of the model VM ends (RDone) with an empty queue, and EVERY
   iteration satisfied `step_guard2` = the guards of C07's simulation (instruction in the fragment, no culling, no
   stack fault, aligned constant memory offsets, literal storage keys, validated JUMP target, the thread not
   retired by the iteration or gas limit) plus `fork_guard`: at a JUMPI whose target validates, neither the
   iteration limit at the target nor the fork limit suppresses the fork; at a JUMPI whose target does not validate,
   the reference EVM cannot take the jump either.  Alternatively the iteration is a JUMP that neither machine can take
   (`dead_jump_guard`: the target does not validate and denotes no valid destination): the path ends on both sides.
   Conclusion: the offset of every reachable state that executes an instruction has a positive visit counter in
   some retired state and is not push data -- or it is the JUMPDEST a reachable JUMP lands on (which the symbolic
   machine steps over by design of Jump::execute). ---- *)
Theorem C08_reachable_state_executed : forall bytes code,
  bytes_ok bytes -> N.of_nat (length bytes) <= two32 -> try_from bytes = Ok code ->
  forall (cfg : config) n mf, run constant_fold n (init_vm code cfg) = RDone mf -> v_queue mf = [] ->
  guards_all bytes code cfg n (init_vm code cfg) = true ->
  forall e, ereach bytes e_init e -> byte_at bytes (e_pc e) <> None ->
  ((exists sv, In sv (v_stored mf) /\ 0 < count_of (e_pc e) (snd sv)) /\ imm_false bytes (e_pc e)) \/ landing bytes (e_pc e).
Proof. exact reachable_state_executed. Qed.

(* the same in the terms of the check: every offset of the reference exploration (SimCases.explore, both JUMPI
   outcomes) is among the visited instruction offsets of the retired states or among SimCases.landings -- exactly the
   predicate whose failure is code 51 of SimCases.c08_code (`visited_offsets` is the expression c08_code evaluates) *)
Theorem C08_reachable_offsets_executed : forall bytes code (cfg : config),
  bytes_ok bytes -> N.of_nat (length bytes) <= two32 -> try_from bytes = Ok code ->
  forall n mf, run constant_fold n (init_vm code cfg) = RDone mf -> v_queue mf = [] ->
  guards_all bytes code cfg n (init_vm code cfg) = true ->
  forall fuel reach, explore bytes fuel [e_init] [] = Some reach ->
  forallb (fun o => mem_N o (visited_offsets bytes (v_stored mf)) || mem_N o (landings bytes fuel [e_init] [])) reach = true.
Proof. exact reachable_offsets_executed. Qed.

Theorem C08_code_51_impossible : forall bytes code (cfg : config),
  bytes_ok bytes -> N.of_nat (length bytes) <= two32 -> try_from bytes = Ok code ->
  forall n mf, run constant_fold n (init_vm code cfg) = RDone mf -> v_queue mf = [] ->
  guards_all bytes code cfg n (init_vm code cfg) = true ->
  forall ok errs jt retired queued polls,
  c08_code (mk_vcase bytes cfg (XRun ok errs (v_stored mf) jt retired queued polls)) <> 51.
Proof. exact c08_code_not_51. Qed.

(* the worklist algorithms of the check are sound / complete for the graph *)
Theorem C08_explore_sound : forall bytes f work seen reach, explore bytes f work seen = Some reach ->
  forall o, In o reach ->
  In o seen \/ exists s e, In s work /\ ereach bytes s e /\ byte_at bytes (e_pc e) <> None /\ e_pc e = o.
Proof. exact explore_sound. Qed.

(* Outside the hypotheses the converse is FALSE, on a jump target that is a constant of the path but does not
   constant-fold: sstore(0, L); if (1) goto sload(0); stop; L: jumpdest; push 1; stop
     60 0c 60 00 55  60 01 60 00 54 57  00  5b 60 01 00
   the reference EVM takes the jump to offset 12; the symbolic machine sees the target SLoad{0, 12}, cannot fold it,
   does not fork, and never executes offsets 12, 13, 15 (fork_guard is false at the JUMPI). *)
Definition c08_cfg : config := mk_config 30000000 10 50 100000 394 false 100 None.
Theorem C08_converse_refuted : exists bytes code mf reach,
  try_from bytes = Ok code /\ run constant_fold 300 (init_vm code c08_cfg) = RDone mf /\ v_queue mf = [] /\
  explore bytes 300 [e_init] [] = Some reach /\
  forallb (fun o => mem_N o (visited_offsets bytes (v_stored mf)) || mem_N o (landings bytes 300 [e_init] [])) reach = false /\
  guards_all bytes code c08_cfg 300 (init_vm code c08_cfg) = false.
Proof.
  exists [96;12;96;0;85; 96;1;96;0;84;87; 0; 91;96;1;0]. do 3 eexists.
  split; [vm_compute; reflexivity|]. split; [vm_compute; reflexivity|]. split; [vm_compute; reflexivity|].
  split; [vm_compute; reflexivity|]. split; vm_compute; reflexivity.
Qed.

(* Non-vacuity of the converse: a program with a JUMPI both of whose outcomes are explored meets all hypotheses
     sstore(3,7); if (1) goto L; sstore(3,9); stop;  L: mstore(0, sload(3)); x = mload(0); pop(x + x); stop *)
Example C08_converse_hyps_met :
  let bytes := [96;7;96;3;85; 96;1;96;16;87; 96;9;96;3;85;0; 91;96;3;84;96;0;82;96;0;81;128;1;80;0] in
  exists code mf reach,
    try_from bytes = Ok code /\ run constant_fold 300 (init_vm code c08_cfg) = RDone mf /\ v_queue mf = [] /\
    v_paths mf = [[false]; [true]] /\
    guards_all bytes code c08_cfg 300 (init_vm code c08_cfg) = true /\
    explore bytes 300 [e_init] [] = Some reach /\ length reach = 21%nat.
Proof.
  cbv zeta. do 3 eexists. split; [vm_compute; reflexivity|]. split; [vm_compute; reflexivity|].
  split; [vm_compute; reflexivity|]. split; [vm_compute; reflexivity|]. split; [vm_compute; reflexivity|].
  split; vm_compute; reflexivity.
Qed.

Example C08_hyps_met :
  validate_jump (fun v => v) [IPush 1 [3]; INop; IOp control_Jump; IOp control_JumpDest] (Known 3) = inl 3
  /\ validate_jump (fun v => v) [IPush 1 [3]; INop; IOp control_Jump; IOp control_JumpDest] (Known (two32 + 3)) = inr EInvalidOffsetForJump
  /\ halting (IOp environment_SelfDestruct) = true.
Proof. repeat split; vm_compute; reflexivity. Qed.

Print Assumptions C08_jump_target_exact.
Print Assumptions C08_jump_requests_validated.
Print Assumptions C08_fork_requests_validated.
Print Assumptions C08_jumpdest_is_boundary.
Print Assumptions C08_reference_valid_dest.
Print Assumptions C08_both_branches.
Print Assumptions C08_halting_ends_path.
Print Assumptions C08_executed_offsets_reachable.
Print Assumptions C08_reachable_state_executed.
Print Assumptions C08_reachable_offsets_executed.
Print Assumptions C08_code_51_impossible.
Print Assumptions C08_explore_sound.
Print Assumptions C08_converse_refuted.
