(* C08 -- control flow is followed exactly as the EVM allows, and both branches are taken.
   Theorems about the model of the VM (every program, all limits, every folding function) and about the
   disassembled stream; the subset / equality of executed offsets against the EVM control-flow graph is
   evaluated by the reference EVM of Evm.v on the implementation's visit counters (tools/p_c08.py);
   the inclusion THEOREM along each path (`C08_executed_offsets_reachable`) is a corollary of C07's simulation
   (proofs/VmSim.v) for threads whose steps satisfy C07's guards. *)
From SLX Require Import Base gen.Constants gen.OpcodeTable SymVal Disasm VM Word256 EvmSpec Fold Evm SimTrace SimGuards
                        proofs.DisasmProofs proofs.VmBounds proofs.VmControl proofs.VmSim.
Open Scope N_scope.

(* a jump (JUMP or the forked half of JUMPI) is only ever taken to a target t such that the value on the
   stack constant-folds to exactly the word t -- no truncation: t itself is < 2^32 -- t lies inside the
   code and the instruction at t is JUMPDEST *)
Theorem C08_jump_target_exact : forall fold code counter t,
  validate_jump fold code counter = inl t ->
  as_word (fold counter) = Some t /\ t < two32 /\ t < N.of_nat (length code) /\
  nth_error code (N.to_nat t) = Some (IOp control_JumpDest).
Proof. exact validate_jump_exact. Qed.

Theorem C08_jump_requests_validated : forall fold code c c' e t,
  exec_jump fold code c = (c', e, CJump t) ->
  exists counter s, stack (o_st c) = counter :: s /\ validate_jump fold code counter = inl t /\ e = None.
Proof. exact exec_jump_target. Qed.

Theorem C08_fork_requests_validated : forall fold code cfg vis jt c c' e se t jt',
  exec_jumpi fold cfg code vis jt c = (c', e, se, CFork t, jt') ->
  exists counter cond s, stack (o_st c) = counter :: cond :: s /\ validate_jump fold code counter = inl t.
Proof. exact exec_jumpi_target. Qed.

(* ... and in a disassembled stream a JUMPDEST entry sits on a 0x5b byte that is an instruction boundary,
   never push data; this is also exactly the reference EVM's own notion of a valid destination *)
Theorem C08_jumpdest_is_boundary : forall bs is t,
  bytes_ok bs -> N.of_nat (length bs) <= two32 -> try_from bs = Ok is ->
  nth_error is t = Some (IOp control_JumpDest) ->
  nth_error bs t = Some 91 /\ nth_error (immediates 0 bs) t = Some false.
Proof. exact jumpdest_entry_is_boundary. Qed.

Theorem C08_reference_valid_dest : forall bs t,
  valid_dest bs t = true <->
  nth_error bs (N.to_nat t) = Some 91 /\ nth_error (immediates 0 bs) (N.to_nat t) = Some false.
Proof. exact valid_dest_iff. Qed.

(* both outcomes of a conditional jump with a valid target are explored while the limits allow *)
Theorem C08_both_branches : forall fold code m m' t rest i counter cond s target,
  vm_step fold m = SRunning m' -> v_code m = code -> v_queue m = t :: rest ->
  nth_error code (N.to_nat (tip t)) = Some i -> is_jumpi i = true ->
  stack (tstate t) = counter :: cond :: s ->
  validate_jump fold code counter = inl target ->
  count_of target (bump (tip t) (tvis t)) < iter_limit (v_cfg m) -> count_of target (v_jt m) < fork_limit (v_cfg m) ->
  (exists th, In th (v_queue m') /\ tip th = target /\ tpath th = tpath t ++ [true] /\ fork_point (tstate th) = tip t) /\
  ((exists th, In th (v_queue m') /\ tip th = tip t + 1 /\ tpath th = tpath t ++ [false]) \/
   (exists st, v_stored m' = v_stored m ++ [st])).
Proof. exact jumpi_both_branches. Qed.

(* STOP, RETURN, REVERT, SELFDESTRUCT, INVALID and unassigned bytes end the path *)
Theorem C08_halting_ends_path : forall fold code m m' t rest i,
  vm_step fold m = SRunning m' -> v_code m = code -> v_queue m = t :: rest ->
  nth_error code (N.to_nat (tip t)) = Some i -> halting i = true ->
  v_queue m' = rest /\ exists st, v_stored m' = v_stored m ++ [st].
Proof. exact halting_retires. Qed.

(* every instruction offset executed (visit counter > 0, not push data) by a thread that the machine retires with
   ghost path p, all of whose steps satisfied the guards of C07, is executed by the reference EVM along p
   (`epcs` = the program counters of `erun`, the halting instruction included); in particular it is reachable in the
   EVM control-flow graph.  (The JUMPDEST a JUMP lands on is executed by the EVM only: the symbolic machine steps
   over it.) *)
Theorem C08_executed_offsets_reachable : forall bytes code (cfg : config),
  bytes_ok bytes -> N.of_nat (length bytes) <= two32 -> try_from bytes = Ok code ->
  forall n p, guards_along code cfg n (init_vm code cfg) p = true ->
  forall i sv, nth_error (v_stored (result_state (run constant_fold n (init_vm code cfg)))) i = Some sv ->
               nth_error (v_paths (result_state (run constant_fold n (init_vm code cfg)))) i = Some p ->
  exists fuel e, erun bytes fuel p e_init = (EHalt e, []) /\
    forall o, 0 < count_of o (snd sv) -> nth (N.to_nat o) (immediates 0 bytes) false = false ->
              In o (epcs bytes fuel p e_init).
Proof. exact executed_offsets_reachable. Qed.

Example C08_hyps_met :
  validate_jump (fun v => v) [IPush 1 [3]; INop; IOp control_Jump; IOp control_JumpDest] (Known 3) = inl 3
  /\ validate_jump (fun v => v) [IPush 1 [3]; INop; IOp control_Jump; IOp control_JumpDest] (Known (two32 + 3)) = inr EInvalidOffsetForJump
  /\ halting (IOp environment_SelfDestruct) = true.
Proof. repeat split; vm_compute; reflexivity. Qed.

Print Assumptions C08_jump_target_exact.
Print Assumptions C08_jump_requests_validated.
Print Assumptions C08_fork_requests_validated.
Print Assumptions C08_jumpdest_is_boundary.
Print Assumptions C08_reference_valid_dest.
Print Assumptions C08_both_branches.
Print Assumptions C08_halting_ends_path.
Print Assumptions C08_executed_offsets_reachable.
