(* PASSES_PACKING -- the packing lifting passes sub_word, mul_shifted, packed_encoding (support for C04 and C12).
   Only statements, `exact lemma`, and Print Assumptions live here.

   `sub_word`, `mul_shifted`, `packed_encoding`, `packing3`
                     : the faithful model of the three passes and their composition in the default order
                       (coq/PassesPacking.v); the fit checks inside them are the terms tools/tr_packing.py reads out of
                       src/tc/lift/*.rs on every run (gen/PackingAnchors.v), so these theorems are re-checked against
                       the checks as they are written NOW;
   `*_pinned`        : the same passes with the terms of the pinned snapshot ccf401a;
   `get_region`      : SubWordValue::get_region on a folded mask constant (bit scan over KnownWord::bits_le);
   `subwords_in_slot`, `shifteds_in_slot`, `packeds_in_slot`, `lifted_in_slot`
                     : EVERY SubWord node has size > 0 and offset + size <= 256; every Shifted node offset < 256; every
                       Packed node spans that are ordered, pairwise disjoint and end at or below bit 256;
   `shifted_wf`      : every Shifted node wraps a SubWord;  `no_lifted`: no SubWord / Shifted / Packed node at all (every
                       tree the VM produces);  `wfb`: every KnownData leaf holds a word < 2^256;
   `field_tree v fs` : v is an or-tree of any shape whose leaves are the fields fs, each `x & (2^n - 1)` shifted in by a
                       multiplication with 2^o (either operand order), by `<< o`, or not at all (coq/PackingIdioms.v). *)
From SLX Require Import Base Word256 PackingArith gen.ValueSig SymVal Fold PassesPacking PackingIdioms.
From SLX Require Import proofs.PassesPackingProofs.
Open Scope N_scope.

(* ---- the bit-level lemma over all masks ---- *)

Theorem get_region_spec : forall o n, 0 < n -> o + n <= 256 -> get_region ((2 ^ n - 1) * 2 ^ o) = Some (o, n).
Proof. exact PassesPackingProofs.get_region_spec. Qed.

(* for ANY word, contiguous mask or not: the answer is the lowest run of one bits *)
Theorem get_region_sound : forall w o n,
  get_region w = Some (o, n) ->
  0 < n /\ o + n <= 256 /\
  (forall i, i < o -> N.testbit w i = false) /\
  (forall i, o <= i -> i < o + n -> N.testbit w i = true) /\
  (o + n < 256 -> N.testbit w (o + n) = false).
Proof. exact PassesPackingProofs.get_region_sound. Qed.

Theorem get_region_none : forall w, get_region w = None <-> (forall i, i < 256 -> N.testbit w i = false).
Proof. exact PassesPackingProofs.get_region_none. Qed.

(* the contiguous masks are exactly the words for which the answer describes the whole mask *)
Theorem get_region_contiguous_iff : forall w o n,
  w < 2 ^ 256 ->
  (get_region w = Some (o, n) /\ (forall i, o + n <= i -> N.testbit w i = false))
  <-> (0 < n /\ o + n <= 256 /\ w = (2 ^ n - 1) * 2 ^ o).
Proof. exact PassesPackingProofs.get_region_contiguous_iff. Qed.

(* the inverted mask of a read-modify-write: the kept low part, or everything above the lowest field *)
Theorem get_region_cleared : forall o n,
  0 < n -> o + n <= 256 -> (o = 0 -> n < 256) ->
  get_region (MAXW - (2 ^ n - 1) * 2 ^ o) = Some (if o =? 0 then (n, 256 - n) else (0, o)).
Proof. exact PassesPackingProofs.get_region_cleared. Qed.

(* the subtraction `WORD_SIZE_BITS - offset` in get_region cannot underflow *)
Theorem get_region_no_panic : forall w, get_region_o w = Ok (get_region w).
Proof. exact PassesPackingProofs.get_region_o_ok. Qed.

(* which_power_of_2: a result is a position inside the word, every power of two is recognised, the loop's fuel is enough *)
Theorem which_power_of_2_bound : forall n k,
  which_power_of_2 n = Some k -> k <= 256 /\ 2 ^ k <= n /\ (n < 2 ^ 256 -> k < 256).
Proof. exact PassesPackingProofs.which_power_of_2_bound. Qed.
Theorem which_power_of_2_pow2 : forall k, k < 256 -> which_power_of_2 (2 ^ k) = Some k.
Proof. exact PassesPackingProofs.which_power_of_2_pow2. Qed.

(* ---- C12's stage lemma: what the passes create lies inside the slot ---- *)

(* sub_word is total, and every SubWord node it creates has size > 0 and offset + size <= 256 *)
Theorem subword_in_slot : forall v,
  exists v', sub_word v = Ok v' /\ (subwords_in_slot v = true -> subwords_in_slot v' = true).
Proof. exact PassesPackingProofs.subword_in_slot. Qed.

(* every Shifted node mul_shifted creates has offset < 256 and wraps a SubWord *)
Theorem shifted_in_slot : forall v,
  (wfb v = true -> shifteds_in_slot v = true -> shifteds_in_slot (mul_shifted v) = true)
  /\ (shifted_wf v = true -> shifted_wf (mul_shifted v) = true).
Proof. exact PassesPackingProofs.shifted_in_slot. Qed.

(* every Packed node packed_encoding creates has ordered, non-overlapping spans with offset + size <= 256 *)
Theorem packed_spans_in_slot : forall v v',
  packed_encoding v = Ok v' -> packeds_in_slot v = true -> packeds_in_slot v' = true.
Proof. exact PassesPackingProofs.packed_spans_in_slot. Qed.

(* the three passes in the default order *)
Theorem packing3_in_slot : forall v,
  wfb v = true -> shifted_wf v = true -> lifted_in_slot v = true ->
  exists v', packing3 v = Ok v' /\ lifted_in_slot v' = true /\ shifted_wf v' = true /\ wfb v' = true.
Proof. exact PassesPackingProofs.packing3_in_slot. Qed.

(* ... in particular on everything the VM produces *)
Theorem packing3_in_slot_vm : forall v,
  wfb v = true -> no_lifted v = true -> exists v', packing3 v = Ok v' /\ lifted_in_slot v' = true /\ shifted_wf v' = true.
Proof. exact PassesPackingProofs.packing3_in_slot_vm. Qed.

(* ---- panic freedom ---- *)

(* sub_word (and mul_shifted, a total function without panic sites) on ANY tree; packed_encoding and the composition on any
   tree whose Shifted nodes wrap SubWords -- e.g. any tree without Shifted nodes *)
Theorem packing_no_panic : forall v,
  is_ok (sub_word v) = true
  /\ (shifted_wf v = true -> is_ok (packed_encoding v) = true)
  /\ (shifted_wf v = true -> is_ok (packing3 v) = true).
Proof. exact PassesPackingProofs.packing_no_panic. Qed.

(* `panic!("Shift of non-sub-word")` is unreachable after the real pass order (sub_word, then mul_shifted, then
   packed_encoding) for every tree that entered sub_word without an ill-formed Shifted node -- every VM tree *)
Theorem shift_of_non_subword_unreachable : forall v v1,
  shifted_wf v = true -> sub_word v = Ok v1 ->
  shifted_wf (mul_shifted v1) = true /\ forall s, packed_encoding (mul_shifted v1) <> Panic s.
Proof. exact PassesPackingProofs.shift_of_non_subword_unreachable. Qed.

(* the hypothesis is needed for the pass on its own: `panic!("Shift of non-sub-word")` *)
Theorem packed_encoding_panics_on_ill_formed_shifted :
  is_panic (packed_encoding (Node T_StorageWrite [] [Known 0; Node T_Shifted [3] [Val 1]])) = true.
Proof. exact PassesPackingProofs.packed_encoding_panics_on_ill_formed_shifted. Qed.

(* ---- C04: masks and packings are recovered exactly ---- *)

Theorem address_mask : forall x,
  plain_source x = true ->
  exists x', sub_word (Node T_And [] [x; Known (2 ^ 160 - 1)]) = Ok (Node T_SubWord [0; 160] [x'])
          /\ sub_word (Node T_And [] [Known (2 ^ 160 - 1); x]) = Ok (Node T_SubWord [0; 160] [x']).
Proof. exact PassesPackingProofs.address_mask. Qed.

Theorem subword_mask_lift : forall x o n,
  plain_source x = true -> 0 < n -> o + n <= 256 ->
  exists x', sub_word (Node T_And [] [x; Known ((2 ^ n - 1) * 2 ^ o)]) = Ok (Node T_SubWord [o; n] [x'])
          /\ sub_word (Node T_And [] [Known ((2 ^ n - 1) * 2 ^ o); x]) = Ok (Node T_SubWord [o; n] [x']).
Proof. exact PassesPackingProofs.subword_mask_lift. Qed.

(* any number of fields at ANY ordered, disjoint bit positions inside the word (so: 2-6 fields at any byte boundaries),
   every shift-in style, any shape of the or-tree *)
Theorem lift_packed_fields : forall key v fs,
  field_tree v fs -> fields_ok fs ->
  exists key' kids,
    packing3 (Node T_StorageWrite [] [key; v]) = Ok (Node T_StorageWrite [] [key'; Node T_Packed (span_attrs fs) kids])
    /\ Forall2 (fun f k => exists x', k = Node T_SubWord [0; snd f] [x']) fs kids.
Proof. exact PassesPackingProofs.lift_packed_fields. Qed.

(* read-modify-write of one field with an inverted mask *)
Theorem lift_packed_rmw : forall key prev st ml mlc (seg_first : bool) o n x,
  plain_source x = true -> style_ok st o -> 0 < n -> o + n <= 256 -> (o = 0 -> n < 256) ->
  let seg := shift_in st o (masked ml x n) in
  let old := cleared mlc key prev o n in
  exists key' x',
    packing3 (Node T_StorageWrite [] [key; Node T_Or [] (if seg_first then [seg; old] else [old; seg])])
    = Ok (Node T_StorageWrite [] [key'; Node T_Packed [o; n] [Node T_SubWord [0; n] [x']]]).
Proof. exact PassesPackingProofs.lift_packed_rmw. Qed.

(* ---- the pinned texts are refuted (F7, F8, F10) ---- *)

(* (sload(0) >> 300) & 0xff, bytecode 5f5461012c1c60ff1660015500: a sub-word at bit 300 *)
Theorem subword_in_slot_pinned_refuted :
  exists v v', no_lifted v = true /\ wfb v = true /\ sub_word_pinned v = Ok v' /\ subwords_in_slot v' = false.
Proof. exact PassesPackingProofs.subword_in_slot_pinned_refuted. Qed.
Theorem sub_word_pinned_panics :
  exists v, no_lifted v = true /\ wfb v = true /\ is_panic (sub_word_pinned v) = true.
Proof. exact PassesPackingProofs.sub_word_pinned_panics. Qed.
Theorem packed_spans_in_slot_pinned_refuted :
  exists v v', no_lifted v = true /\ wfb v = true /\ packing3_pinned v = Ok v' /\ packeds_in_slot v' = false.
Proof. exact PassesPackingProofs.packed_spans_in_slot_pinned_refuted. Qed.
Theorem packed_encoding_pinned_panics :
  exists v, shifted_wf v = true /\ wfb v = true /\ is_panic (packed_encoding_pinned v) = true.
Proof. exact PassesPackingProofs.packed_encoding_pinned_panics. Qed.
Theorem lift_packed_fields_pinned_refuted :
  exists v fs, field_tree v fs /\ fields_ok fs /\
    packing3_pinned (Node T_StorageWrite [] [Known 0; v])
    = Ok (Node T_StorageWrite [] [Known 0; Node T_Or [] [Node T_SubWord [0; 8] [Val 1];
            Node T_LeftShift [] [Known 8; Node T_SubWord [0; 16] [Val 2]]]]).
Proof. exact PassesPackingProofs.lift_packed_fields_pinned_refuted. Qed.

(* non-vacuity: a packed word split 8/24/160/64 in mixed styles meets the hypotheses, and this is what comes out *)
Example lift_packed_hyps_met :
  let v := Node T_Or [] [Node T_Or [] [shift_in St_none 0 (masked false (Val 1) 8); shift_in St_mul_r 8 (masked true (Val 2) 24)];
                         Node T_Or [] [shift_in St_shl 32 (masked false (Node T_Caller [] []) 160); shift_in St_mul_l 192 (masked false (Val 4) 64)]] in
  let fs := ([(0, 8)] ++ [(8, 24)]) ++ ([(32, 160)] ++ [(192, 64)]) in
  field_tree v fs /\ fields_ok fs /\
  packing3 (Node T_StorageWrite [] [Known 77; v])
  = Ok (Node T_StorageWrite [] [Known 77; Node T_Packed [0; 8; 8; 24; 32; 160; 192; 64]
         [Node T_SubWord [0; 8] [Val 1]; Node T_SubWord [0; 24] [Val 2]; Node T_SubWord [0; 160] [Node T_Caller [] []];
          Node T_SubWord [0; 64] [Val 4]]]).
Proof.
  cbv zeta. split; [|split].
  - repeat apply ft_or; apply ft_leaf; cbn; auto.
  - split; [reflexivity|repeat constructor].
  - vm_compute. reflexivity.
Qed.

Print Assumptions get_region_spec.
Print Assumptions get_region_sound.
Print Assumptions get_region_none.
Print Assumptions get_region_contiguous_iff.
Print Assumptions get_region_cleared.
Print Assumptions get_region_no_panic.
Print Assumptions which_power_of_2_bound.
Print Assumptions which_power_of_2_pow2.
Print Assumptions subword_in_slot.
Print Assumptions shifted_in_slot.
Print Assumptions packed_spans_in_slot.
Print Assumptions packing3_in_slot.
Print Assumptions packing3_in_slot_vm.
Print Assumptions packing_no_panic.
Print Assumptions shift_of_non_subword_unreachable.
Print Assumptions packed_encoding_panics_on_ill_formed_shifted.
Print Assumptions address_mask.
Print Assumptions subword_mask_lift.
Print Assumptions lift_packed_fields.
Print Assumptions lift_packed_rmw.
Print Assumptions subword_in_slot_pinned_refuted.
Print Assumptions sub_word_pinned_panics.
Print Assumptions packed_spans_in_slot_pinned_refuted.
Print Assumptions packed_encoding_pinned_panics.
Print Assumptions lift_packed_fields_pinned_refuted.
