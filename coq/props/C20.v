(* C20 -- Layouts survive a JSON round trip with exact 256-bit slot indices.
   Only statements, `exact lemma`, and Print Assumptions live here.

   `to_json`/`slot_of`/`of_json` model what #[derive(Serialize, Deserialize)] generates for StorageSlot,
   AbiType and StructElement and how serde_json drives it; `to_hex`/`of_hex` model the U256Wrapper
   codec on top of hex::encode and ethnum's from_str_hex.  Tag and key strings are regenerated from the
   Rust sources on every run (gen/JsonNames.v), separately for the two directions.  serde, serde_json,
   hex and ethnum are modelled, not verified; the model is tied to them by the correspondence run. *)
From Coq Require Import String.
From SLX Require Import Base gen.JsonNames Json proofs.JsonProofs.
Open Scope N_scope.

(* the index word: 0x + 64 digits, read back exactly for every 256-bit value *)
Theorem hex_roundtrip : forall n, n < 2 ^ 256 -> of_hex (to_hex n) = Some n.
Proof. exact hex_roundtrip_proof. Qed.
Print Assumptions hex_roundtrip.

Theorem hex_length : forall n, String.length (to_hex n) = 66%nat.
Proof. exact hex_length_proof. Qed.
Print Assumptions hex_length.

(* every type, nested to any depth: the derived reader inverts the derived writer as long as the
   reader's nesting budget covers the document (f = serde_json's remaining_depth - 1) *)
Theorem abi_roundtrip : forall t, wf_abi t -> forall f, (abi_jdepth t <= f)%nat ->
  abi_of f (abi_to_json t) = Some t.
Proof. exact abi_roundtrip_proof. Qed.
Print Assumptions abi_roundtrip.

Theorem json_roundtrip_lim : forall s f, wf_slot s -> (slot_jdepth s <= f)%nat ->
  slot_of f (to_json s) = Some s.
Proof. exact json_roundtrip_lim_proof. Qed.
Print Assumptions json_roundtrip_lim.

(* the budget a document needs is exactly its nesting depth *)
Theorem jdepth_slot : forall s, jdepth (to_json s) = slot_jdepth s.
Proof. exact jdepth_slot_proof. Qed.
Print Assumptions jdepth_slot.

(* the round trip law for ALL well-formed entries (no depth bound), for the reader with the recursion
   limit switched off *)
Theorem json_roundtrip : forall s, wf_slot s -> of_json_nolimit (to_json s) = Some s.
Proof. exact json_roundtrip_proof. Qed.
Print Assumptions json_roundtrip.

(* serde_json::from_str as the library's users get it (recursion limit 128): the law holds exactly for
   the documents of depth <= 127, in particular for every type nested at most 31 constructors deep ... *)
Theorem json_roundtrip_default : forall s, wf_slot s -> (jdepth (to_json s) <= 127)%nat ->
  of_json (to_json s) = Some s.
Proof. exact json_roundtrip_default_proof. Qed.
Print Assumptions json_roundtrip_default.

Theorem json_roundtrip_shallow : forall s, wf_slot s -> (abi_nest (s_typ s) <= 31)%nat ->
  of_json (to_json s) = Some s.
Proof. exact json_roundtrip_shallow_proof. Qed.
Print Assumptions json_roundtrip_shallow.

(* ... and fails beyond: 64 nested dynamic arrays are written but rejected on the way back
   (known finding; class = documents deeper than 127) *)
Theorem json_roundtrip_default_refuted : exists s, wf_slot s /\ of_json (to_json s) = None.
Proof. exact json_roundtrip_default_refuted_proof. Qed.
Print Assumptions json_roundtrip_default_refuted.

(* the generated names agree between the two directions (a one-sided rename breaks this and the
   lemmas above) *)
Theorem names_agree_ok : names_agree = true.
Proof. exact names_agree_true. Qed.
Print Assumptions names_agree_ok.

(* non-vacuity: a six-level type with every kind of payload, at the top of the index range *)
Definition example_slot : slot :=
  mk_slot (2 ^ 256 - 1) 255
    (TMapping TAddress
       (TArray (2 ^ 256 - 1)
          (TStruct [(0, TUInt (Some 128));
                    (128, TDynArray (TMapping (TBytes (Some 32))
                                       (TStruct [(0, TConflictedType ["a ""quoted"" word"; "b"] ["because"]);
                                                 (8, TInfiniteType); (16, TNumber None)])))]))).

Example example_roundtrip :
  wf_slot example_slot /\ abi_nest (s_typ example_slot) = 7%nat /\
  of_json (to_json example_slot) = Some example_slot /\
  String.length (to_hex (s_index example_slot)) = 66%nat.
Proof.
  split; [vm_compute; repeat split|].
  split; [vm_compute; reflexivity|]. split; vm_compute; reflexivity.
Qed.
