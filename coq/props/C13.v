(* C13 -- the watchdog can stop analysis at any poll and is polled as often as promised.
   Theorems about the VM model (main loop and the bulk-copy loops inside opcode bodies), for every
   program, configuration and constant-folding function.  The polled loops of the later stages are
   inventoried from the source on every run (gen/PollSites.v) and exercised by the stop-at-every-poll
   search of tools/p_c13.py. *)
From Coq Require Import String.
From SLX Require Import Base gen.Constants gen.OpcodeTable gen.PollSites SymVal Disasm VM proofs.VmBounds proofs.VmWatchdog.
From SLX Require Import PolledLoop proofs.PolledLoopProofs.
Open Scope N_scope.

(* a watchdog that never says stop has no influence: two machines that differ only in the polling interval
   (and the number of polls made so far) stay equal in everything else, and neither is ever stopped *)
Theorem C13_never_stop_same : forall fold n a b, vm_peq a b -> result_peq (run fold n a) (run fold n b).
Proof. exact never_stop_same. Qed.

(* once the stream has turned to "stop", the next poll of the main loop ends the run at once, with the
   error located at the current instruction ... *)
Theorem C13_stop_at_poll : forall fold m k t rest i,
  stop_at (v_cfg m) = Some k -> k <= v_polls m -> v_counter m mod poll_every (v_cfg m) = 0 ->
  v_queue m = t :: rest -> nth_error (v_code m) (N.to_nat (tip t)) = Some i ->
  exists m', vm_step fold m = SStopped (tip t) m'.
Proof. exact vm_step_stops. Qed.

(* ... and that poll comes within one polling interval of main-loop iterations: the run returns (stopped, or
   no thread left) -- it never goes on to deliver states built after the stop *)
Theorem C13_stops_within_interval : forall fold m k,
  stop_at (v_cfg m) = Some k -> k <= v_polls m -> 1 <= poll_every (v_cfg m) ->
  exists d, N.of_nat d < poll_every (v_cfg m) /\
            match run fold (S d) m with ROutOfFuel _ => False | _ => True end.
Proof. exact stops_within. Qed.

(* polls track work: after any number of iterations, iterations <= polls * interval *)
Theorem C13_poll_rate : forall fold n m, 1 <= poll_every (v_cfg m) ->
  v_counter m <= v_polls m * poll_every (v_cfg m) ->
  let m' := match run fold n m with RDone x | RStopped _ x | ROutOfFuel x => x end in
  v_counter m' <= v_polls m' * poll_every (v_cfg m').
Proof. exact poll_accounting. Qed.

(* polls are never "un-made" by an opcode body (bulk copies only add polls) *)
Theorem C13_polls_monotone : forall fold cfg code vis jt ip i c c' e se k jt',
  exec_instr fold cfg code vis jt ip i c = (c', e, se, k, jt') -> o_polls c <= o_polls c'.
Proof. exact exec_instr_polls. Qed.

(* the inventory of polled loops read from the source on this run: the eleven loops of all stages *)
Theorem C13_polled_loops_inventory : List.length poll_sites = 11%nat.
Proof. vm_compute. reflexivity. Qed.

(* ---- the polling scheme of the later stages' loops (PolledLoop.v; the translator checks on every run that each of
   the eleven polled loops has this shape, including that the counter advances on EVERY iteration) ---- *)

(* never told to stop: the loop's result is the plain fold of its body whatever the interval, the counter advanced
   once per item, and the polls made are exactly the poll points *)
Theorem C13_loop_never_stop : forall (A St : Type) (body : A -> St -> option St) k items c p s,
  match ploop body k items c (mk_wdog p None) s, plain body items s with
  | LDone s' c' w', Some s'' => s' = s'' /\ c' = c + N.of_nat (length items)
                                /\ polls w' = p + poll_points k (length items) c /\ stop_from w' = None
  | LFailed _, None => True
  | _, _ => False
  end.
Proof. exact @never_stop_result. Qed.

(* a watchdog that has turned to stop ends the loop at the next poll point, before that item's body runs, with
   exactly one more poll *)
Theorem C13_loop_stops_at_next_poll : forall (A St : Type) (body : A -> St -> option St) k items c p j s,
  j <= p ->
  (exists i, (i < length items)%nat /\ (c + N.of_nat i) mod k = 0
             /\ (forall i', (i' < i)%nat -> (c + N.of_nat i') mod k <> 0)
             /\ plain body (firstn i items) s <> None) ->
  exists w, ploop body k items c (mk_wdog p (Some j)) s = LStopped w /\ polls w = p + 1.
Proof. exact @stops_at_next_poll_point. Qed.

(* polls track the work: n iterations at interval k make between n div k and n div k + 1 polls, from any counter *)
Theorem C13_loop_poll_rate : forall k n c, 0 < k -> N.of_nat n / k <= poll_points k n c <= N.of_nat n / k + 1.
Proof. exact poll_points_bounds. Qed.

Example C13_loop_hyps_met :
  ploop (fun (x : N) (s : N) => Some (s + x)) 3 [1; 2; 3; 4; 5; 6; 7] 0 (mk_wdog 0 (Some 1)) 0 = LStopped (mk_wdog 2 (Some 1))
  /\ poll_points 3 7 0 = 3.
Proof. vm_compute. split; reflexivity. Qed.

Example C13_hyps_met :
  let m := init_vm [IOp control_JumpDest; IOp control_Stop] (mk_config 30000000 10 50 250 394 false 1 (Some 0)) in
  stop_at (v_cfg m) = Some 0 /\ 0 <= v_polls m /\ 1 <= poll_every (v_cfg m) /\
  match run (fun v => v) 1 m with RStopped 0 _ => True | _ => False end.
Proof. cbv zeta. split; [reflexivity|]. split; [cbn; lia|]. split; [cbn; lia|]. vm_compute. exact Logic.I. Qed.

Print Assumptions C13_never_stop_same.
Print Assumptions C13_stop_at_poll.
Print Assumptions C13_stops_within_interval.
Print Assumptions C13_poll_rate.
Print Assumptions C13_polls_monotone.
Print Assumptions C13_polled_loops_inventory.
Print Assumptions C13_loop_never_stop.
Print Assumptions C13_loop_stops_at_next_poll.
Print Assumptions C13_loop_poll_rate.
