(* C03, end to end on the composed model: with enough fuel `Pipeline.analyze_model_fuel` never returns one of the model's
   own out-of-fuel results (`PFuelVm`, `PFuelUnify`, `PFuelFind`, `PErrAbi EOutOfFuel`) -- it returns a layout, a
   structured error of the implementation, or a watchdog stop.

   THE FUEL RECORD (`fuels` = {f_vm : positive; f_rounds : nat}) that suffices for a program whose judgement set is
   packed-free:
     Npos (f_vm fu) > (1 + F * len) * (I * len + 1)      F = fork limit, I = iteration limit, len = number of
                                                              instructions (VmBounds.step_bound; props/C03.v
                                                              C03_execute_terminates: the main loop of VM::execute)
     f_rounds fu >= |variables of the judgement set| + 2      (props/C03 unification half,
                                                              UnifyProofs.unify_terminates_packed_free_proof)
   The fuel of `find` is internal to DisjointSet.v and always sufficient; abi_type_for runs with `number of allocated
   variables + 1` (TcStages.abi_terminates), so neither is a parameter.
   Hypotheses on the input: the bytes are bytes, at most 2^32 of them (so that a successful disassembly is not empty),
   iteration limit >= 1 (C03's hypothesis).  Outside the packed-free fragment unification need not reach a fixed point
   (props/C03: unify_loop_refuted), which is why the hypothesis is on the judgement set.
   Only statements, `exact lemma`, Print Assumptions; proofs: proofs/PipelineHalts.v. *)
From Coq Require Import String.
From SLX Require Import Base gen.Constants gen.ValueSig SymVal Disasm VM Fold TypeExpr Merge DisjointSet Register Unify AbiT Layout Abi
  NoPanic Pipeline PipelineOrderDefs.
From SLX.proofs Require Import DisasmProofs VmBounds UnifyProofs PipelineHalts.
Open Scope N_scope.

Theorem pipeline_halts : forall keccak table mode fu bytes (cfg : config),
  bytes_ok bytes -> N.of_nat (length bytes) <= two32 -> 1 <= iter_limit cfg ->
  (forall code, try_from bytes = Ok code -> step_bound code cfg < Npos (f_vm fu)) ->
  (forall stored polls st', vm_phase_of fu bytes cfg = VmOk stored polls -> front_plain keccak table mode stored = inl st' ->
     packed_free (tstate_of st') = true /\ (length (ts_vars (tstate_of st')) + 2 <= f_rounds fu)%nat) ->
  out_of_fuel (analyze_model_fuel keccak table mode fu bytes cfg) = false.
Proof. exact pipeline_halts_lemma. Qed.
Print Assumptions pipeline_halts.

(* the type-checking half alone, for whatever the VM retired *)
Theorem pipeline_tc_halts : forall keccak table mode fu stored,
  (forall st', front_plain keccak table mode stored = inl st' ->
     packed_free (tstate_of st') = true /\ (length (ts_vars (tstate_of st')) + 2 <= f_rounds fu)%nat) ->
  out_of_fuel (analyze_plain keccak table mode fu stored) = false.
Proof. exact analyze_plain_no_fuel. Qed.
Print Assumptions pipeline_tc_halts.

(* the VM half alone: no out-of-fuel result before the type checker *)
Theorem pipeline_vm_halts : forall fu bytes (cfg : config),
  bytes_ok bytes -> N.of_nat (length bytes) <= two32 -> 1 <= iter_limit cfg ->
  (forall code, try_from bytes = Ok code -> step_bound code cfg < Npos (f_vm fu)) ->
  forall r polls, vm_phase_of fu bytes cfg = VmFail r polls -> out_of_fuel r = false.
Proof. exact vm_phase_no_fuel. Qed.
Print Assumptions pipeline_vm_halts.

(* non-vacuity: PUSH1 1; PUSH0; SSTORE; STOP under the default limits and the default fuels (2^40 steps, 64 rounds):
   every hypothesis holds and the result is a layout *)
Example C03_pipeline_hyps_met :
  let bytes := [96; 1; 95; 85; 0] in
  let cfg := mk_config 30000000 5 10 250 394 false 100 None in
  let keccak := fun _ : list byte => 0 in
  bytes_ok bytes /\ N.of_nat (length bytes) <= two32 /\ 1 <= iter_limit cfg /\
  (exists code, try_from bytes = Ok code /\ step_bound code cfg < Npos (f_vm default_fuels)) /\
  (exists stored polls st', vm_phase_of default_fuels bytes cfg = VmOk stored polls /\
     front_plain keccak [] MSorted stored = inl st' /\
     packed_free (tstate_of st') = true /\ (length (ts_vars (tstate_of st')) + 2 <= f_rounds default_fuels)%nat) /\
  is_layout (analyze_model keccak [] bytes cfg) = true.
Proof. exact halts_example_ok. Qed.
