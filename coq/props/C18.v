(* C18 -- Symbolic values stay within the size limit and report their true size.
   Only statements, `exact lemma`, and Print Assumptions live here.

   `ssv` is a value with the size RECORDED at every node; `erase` forgets the recorded sizes and
   `node_count` counts the nodes that are really there.  `rsv_new`, `tcsv_new`, `constant_fold`,
   `transform_data` use the expressions the translator read from RSV::new, TCSV::new,
   SymbolicValue::constant_fold, SymbolicValue::transform_data on this run (gen/SizeAnchors.v), and
   `child_size` follows the per-constructor field list read from child_size() (gen/ValueSig.v). *)
From Coq Require Import String Permutation.
From SLX Require Import Base gen.ValueSig gen.SizeAnchors SymVal SizedVal SizeCases proofs.SizeProofs proofs.SizeCasesProofs.
Open Scope N_scope.

(* (a) for each of the constructors, children(), child_size() and transform() enumerate exactly the
   declared child-carrying fields (each once), and transform() rebuilds the same constructor *)
Theorem C18_sig_agree : forall t : tag,
  NoDup (declared_names t) /\
  Permutation (children_fields t) (declared_names t) /\
  Permutation (child_size_fields t) (declared_names t) /\
  Permutation (transform_fields t) (declared_names t) /\
  transform_ctor t = t.
Proof. exact sig_agree_proof. Qed.

(* (b) every value that can be built -- bottom-up through RSV::new (any limit, also None) or TCSV::new,
   followed by any sequence of constant_fold / transform_data with functions that themselves return
   well-sized payloads -- records at EVERY node the number of nodes below and including it.
   `fw` is the arithmetic of KnownWord (irrelevant to sizes, hence arbitrary). *)
Theorem C18_size_true : forall (fw : tag -> list N -> N) (v : ssv), Built fw v ->
  forall u, In u (ssubterms v) -> recorded u = node_count (erase u).
Proof. exact size_true_proof. Qed.

(* the invariant behind (b) is preserved by each operation separately *)
Theorem C18_rsv_new_well_sized : forall limit fresh d, data_ok d = true -> well_sized (rsv_new limit fresh d) = true.
Proof. exact rsv_new_ws. Qed.
Theorem C18_tcsv_new_well_sized : forall d, data_ok d = true -> well_sized (tcsv_new d) = true.
Proof. exact tcsv_new_ws. Qed.
Theorem C18_constant_fold_well_sized : forall fw v, well_sized v = true -> well_sized (constant_fold fw v) = true.
Proof. exact constant_fold_ws. Qed.
Theorem C18_transform_data_well_sized : forall f, f_ok f -> forall v, well_sized v = true -> well_sized (transform_data f v) = true.
Proof. exact transform_data_ws. Qed.

(* (c) what the limited constructor guarantees: the value it returns has at most `limit` nodes -- at
   most one node when the limit is 0 -- and reports that number *)
Theorem C18_built_le_limit : forall limit fresh d, data_ok d = true ->
  node_count (erase (rsv_new (Some limit) fresh d)) <= N.max limit 1 /\
  recorded (rsv_new (Some limit) fresh d) = node_count (erase (rsv_new (Some limit) fresh d)).
Proof. exact built_le_limit_proof. Qed.

(* (d) a payload over well-sized children -- culled values among them included -- is kept when the tree
   it describes has at most `limit` nodes and replaced by a fresh one-node opaque value otherwise *)
Theorem C18_cull_only_on_growth : forall limit fresh t a args,
  arity_ok t (length args) = true -> forallb well_sized args = true ->
  let n := 1 + sum_N (map node_count (map erase args)) in
  (n <= limit /\ rsv_new (Some limit) fresh (SData t a args) = SNode t a n args) \/
  (limit < n /\ rsv_new (Some limit) fresh (SData t a args) = SNode T_Value [fresh] 1 []).
Proof. exact cull_only_on_growth_proof. Qed.

Theorem C18_not_culled_within_limit : forall limit fresh d,
  child_size d + 1 <= limit -> rsv_new (Some limit) fresh d = alloc (child_size d + 1) d.
Proof. exact not_culled_within_limit_proof. Qed.

(* consequently a unary operation applied to a value that has just been culled is kept (limit >= 2) *)
Theorem C18_derive_from_culled : forall limit f1 f2 d t a,
  2 <= limit -> limit < child_size d + 1 -> arity_ok t 1 = true ->
  let c := rsv_new (Some limit) f1 d in
  rsv_new (Some limit) f2 (SData t a [c]) = SNode t a 2 [c].
Proof. exact derive_from_culled_proof. Qed.

(* the model's sizes are unbounded naturals, the code's are `usize`: for children that each record at most L
   (e.g. built under limit L) the sum computed by child_size() and the `+ 1` stay below k * L + 1 for k
   children, so they cannot wrap for the at most 6 children of a fixed-arity constructor when L < 2^60 *)
Theorem C18_child_size_bounded : forall L t a args,
  arity_ok t (length args) = true -> Forall (fun x => recorded x <= L) args ->
  child_size (SData t a args) + 1 <= N.of_nat (length args) * L + 1.
Proof. exact child_size_bound_proof. Qed.

(* the value builder of the VM hands Some(config.value_size_limit) to RSV::new in all four building methods,
   SLOAD hands it to Storage::load_with_limit (both allocations), and the only allocations without a limit
   in src/vm and src/opcode are the StorageWrite wrappers of stores_as_values(), the Concat of
   Memory::load_slice and the zero word of fresh memory (facts read from the source on this run) *)
Theorem C18_vm_allocations_limited : builder_passes_limit = true /\ vm_sites_pass_limit = true.
Proof. exact (conj anchor_builder anchor_vm_sites). Qed.

(* the predicate the check evaluates on the implementation's printed values (SizeCases.sizes_true, with the
   arity check) is the invariant of the theorems above *)
Theorem C18_case_predicate_is_invariant : forall v, sizes_true v = true -> arities_ok v = true -> well_sized v = true.
Proof. exact sizes_true_well_sized. Qed.

(* (e) the constructor as pinned at ccf401a is refuted: the culled value records 5 for 1 node, and a
   2-node value derived from it is culled under limit 3 *)
Theorem C18_pinned_refuted :
  exists limit f1 f2 d,
    data_ok d = true /\
    let c := rsv_new_pinned (Some limit) f1 d in
    well_sized c = false /\
    recorded c <> node_count (erase c) /\
    node_count (erase (alloc 0 (SData T_Not [] [c]))) <= limit /\
    rsv_new_pinned (Some limit) f2 (SData T_Not [] [c]) = SNode T_Value [f2] 6 [].
Proof. exact pinned_refuted_proof. Qed.

(* non-vacuity: a value built with limit 6 from a culled square, folded, and transformed by a function
   that replaces every Caller node by a two-node payload; all hypotheses are met and sizes are true *)
Example C18_hyps_met :
  let fw := fun (_ : tag) (_ : list N) => 7 in
  let k := rsv_new (Some 6) 100 (SData T_KnownData [3] []) in
  let sq1 := rsv_new (Some 6) 101 (SData T_Multiply [] [k; k]) in
  let sq2 := rsv_new (Some 6) 102 (SData T_Multiply [] [sq1; sq1]) in       (* 7 nodes: culled *)
  let c := rsv_new (Some 6) 103 (SData T_Caller [] []) in
  let v := rsv_new (Some 6) 104 (SData T_Create2 [] [sq2; c; sq1]) in
  let f := fun d => match d with SData T_Caller _ _ => Some (SData T_Not [] [k]) | _ => None end in
  sq2 = SNode T_Value [102] 1 [] /\ recorded v = 6 /\
  Built fw (transform_data f (constant_fold fw v)) /\ f_ok f /\
  erase (transform_data f (constant_fold fw v)) =
    Node T_Create2 [] [Val 102; node1 T_Not (Known 3); Known 7] /\
  recorded (transform_data f (constant_fold fw v)) = 5.
Proof.
  cbv zeta. split; [reflexivity|]. split; [reflexivity|].
  assert (f_ok (fun d => match d with SData T_Caller _ _ => Some (SData T_Not [] [rsv_new (Some 6) 100 (SData T_KnownData [3] [])]) | _ => None end)) as Hf.
  { intros d d' _ H. destruct d as [t a l]. destruct t; try discriminate H. injection H as <-. reflexivity. }
  split; [|split; [exact Hf|split; reflexivity]].
  apply B_transform; [|exact Hf]. apply B_fold.
  assert (forall n w, Built (fun _ _ => 7) (rsv_new (Some 6) n (SData T_KnownData [w] []))) as Hk
    by (intros; apply B_rsv; [intros x []|reflexivity]).
  assert (Built (fun _ _ => 7) (rsv_new (Some 6) 101 (SData T_Multiply [] [rsv_new (Some 6) 100 (SData T_KnownData [3] []); rsv_new (Some 6) 100 (SData T_KnownData [3] [])]))) as H1.
  { apply B_rsv; [|reflexivity]. intros x [<-|[<-|[]]]; apply Hk. }
  apply B_rsv; [|reflexivity]. intros x [<-|[<-|[<-|[]]]].
  - apply B_rsv; [|reflexivity]. intros x [<-|[<-|[]]]; exact H1.
  - apply B_rsv; [intros x []|reflexivity].
  - exact H1.
Qed.

Print Assumptions C18_sig_agree.
Print Assumptions C18_size_true.
Print Assumptions C18_rsv_new_well_sized.
Print Assumptions C18_tcsv_new_well_sized.
Print Assumptions C18_constant_fold_well_sized.
Print Assumptions C18_transform_data_well_sized.
Print Assumptions C18_built_le_limit.
Print Assumptions C18_cull_only_on_growth.
Print Assumptions C18_not_culled_within_limit.
Print Assumptions C18_derive_from_culled.
Print Assumptions C18_child_size_bounded.
Print Assumptions C18_vm_allocations_limited.
Print Assumptions C18_case_predicate_is_invariant.
Print Assumptions C18_pinned_refuted.
