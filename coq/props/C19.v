(* C19 -- The union-find forest and its vector map match their abstract models.
   Only statements, `exact lemma`, and Print Assumptions live here.

   Models: coq/VectorMap.v (vm_*: dense vector + counter; fm_*: ordinary finite map, key-ordered association
   list), coq/DisjointSet.v (ds_*: parent vector with path compression, auto-insert, fuelled find; a_*: naive
   partition model = member->representative table + representative->data table).
   `D`, `combine`, `ident` are arbitrary in the refinement theorems (no law is needed: both sides combine
   the same values in the same order); the conservation theorem needs Combine's contract.
   `insert_guarded` selects the body of DisjointSet::insert (see DisjointSet.v); with the pinned, unguarded
   body the theorems cover the histories with `hist_ok ops = true` (no insert of a member that is not the
   representative of its set) and C19_reinsert_refuted shows that the restriction is necessary. *)
From SLX Require Import Base VectorMap DisjointSet proofs.VecMapProofs proofs.DsuProofs.
Open Scope N_scope.

(* ------------------------------------------------------------------------------------------ DisjointSet *)

(* Every history: the concrete run completes (find never runs out of the fuel it is given, nothing panics),
   every operation returns exactly what the partition model returns (find: the same representative, hence the
   same partition; get_data/sets: the same data per set; values: the same members), and the final concrete
   state is well formed (Inv) and abstracts to the model's final state (Abs). *)
Theorem C19_dsu_refines :
  forall (D : Type) (combine : D -> D -> D) (ident : D) (insert_guarded : bool) (ops : list (dop D)),
    insert_guarded = true \/ hist_ok D combine ident ops = true ->
    exists s outs,
      ds_run D combine ident insert_guarded ops = Ok (s, outs) /\
      outs = snd (a_run D combine ident ops) /\
      Inv D s /\ Abs D s (fst (a_run D combine ident ops)).
Proof. exact ds_run_refines_proof. Qed.

(* Inv and Abs spelled out: acyclic parent pointers (a rank function), parents are members, data only at
   roots, both counters accurate, members = the model's members, each member's root = the model's
   representative, data vector = the model's data table, and the bound that makes find's fuel sufficient. *)
Theorem C19_dsu_wellformed :
  forall (D : Type) (combine : D -> D -> D) (ident : D) (insert_guarded : bool) (ops : list (dop D)),
    insert_guarded = true \/ hist_ok D combine ident ops = true ->
    exists s outs,
      ds_run D combine ident insert_guarded ops = Ok (s, outs) /\
      let a := fst (a_run D combine ident ops) in
      (exists rank : N -> nat, forall v p, vm_get (reps s) v = Some p -> p <> v -> (rank p < rank v)%nat) /\
      (forall v p, vm_get (reps s) v = Some p -> vm_get (reps s) p <> None) /\
      (forall k d, vm_get (data s) k = Some d -> vm_get (reps s) k = Some k) /\
      vm_len (reps s) = N.of_nat (length (vm_iter (reps s))) /\
      vm_len (data s) = N.of_nat (length (vm_iter (data s))) /\
      vm_indices (reps s) = map fst (a_tbl a) /\
      (forall v, vm_get (reps s) v <> None -> Root (reps s) v (a_rep D a v)) /\
      vm_iter (data s) = a_data a /\
      (forall v l, Chain (reps s) v l -> (length l <= S (length (vm_data (reps s))))%nat).
Proof. exact ds_wellformed_proof. Qed.

(* What find may and may not change (path compression, auto-insert), on any well-formed state: with the fuel it
   is given it returns the root of v's tree; the data vector is untouched; nobody's root changes; the state
   stays well formed; the returned root is a member and its own parent; the members are the old ones plus v. *)
Theorem C19_find_frame :
  forall (D : Type) (s : dsu D) (v : N),
    Inv D s ->
    exists root s',
      ds_find_top D s v = Ok (root, s') /\
      data s' = data s /\
      Inv D s' /\
      Root (reps s) v root /\
      (forall u y, Root (reps s) u y <-> Root (reps s') u y) /\
      vm_get (reps s') root = Some root /\
      vm_indices (reps s') = key_ins v (vm_indices (reps s)) /\
      (forall u, vm_get (reps s) u <> None -> vm_get (reps s') u <> None) /\
      vm_get (reps s') v <> None.
Proof. exact find_top_spec. Qed.

(* The partition model's partition is the smallest equivalence containing the history's union pairs: sets
   are merged by union and by nothing else, and never split. *)
Theorem C19_partition_is_closure :
  forall (D : Type) (combine : D -> D -> D) (ident : D) (ops : list (dop D)) (x y : N),
    let a := fst (a_run D combine ident ops) in
    a_rep D a x = a_rep D a y <-> Conn (union_pairs D ops) x y.
Proof. exact partition_is_closure_proof. Qed.

(* The same, end to end, about the concrete forest. *)
Theorem C19_concrete_partition :
  forall (D : Type) (combine : D -> D -> D) (ident : D) (insert_guarded : bool) (ops : list (dop D)),
    insert_guarded = true \/ hist_ok D combine ident ops = true ->
    exists s outs,
      ds_run D combine ident insert_guarded ops = Ok (s, outs) /\
      forall x y rx ry, vm_get (reps s) x <> None -> vm_get (reps s) y <> None ->
        Root (reps s) x rx -> Root (reps s) y ry -> (rx = ry <-> Conn (union_pairs D ops) x y).
Proof. exact concrete_partition_proof. Qed.

(* Merging never loses or duplicates data: for a commutative monoid, after ANY history, the data of the set of
   a member x is the monoid sum of exactly the ledger entries of the values that end up in x's set, each counted
   once.  The ledger (DsuProofs.ledger) is the list of contributions in effect: add_data v d appends (v, d);
   set_data v d drops the entries of the members of v's set and appends (v, d); nothing else touches it -- in
   particular no union, find or enumeration.  (C19_dsu_refines carries this over to what the concrete
   get_data/sets return.) *)
Theorem C19_data_conservation :
  forall (D : Type) (combine : D -> D -> D) (ident : D),
    (forall a b, combine a b = combine b a) ->
    (forall a b c, combine a (combine b c) = combine (combine a b) c) ->
    (forall a, combine a ident = a) ->
    forall (ops : list (dop D)) (x : N),
      let a := fst (a_run D combine ident ops) in
      fm_get x (a_tbl a) <> None ->
      or_ident D ident (fm_get (a_rep D a x) (a_data a)) =
      msum D combine ident (sel D a (ledger D combine ident ops) (a_rep D a x)).
Proof. exact data_conservation_proof. Qed.

(* without set_data the ledger is simply everything that was ever added, in order *)
Theorem C19_ledger_without_set_data :
  forall (D : Type) (combine : D -> D -> D) (ident : D) (ops : list (dop D)),
    no_set_data D ops = true -> ledger D combine ident ops = adds D ops.
Proof. exact ledger_adds_proof. Qed.

(* The pinned (unguarded) insert does depart from the partition model inside the excluded class. *)
Theorem C19_reinsert_refuted :
  exists ops : list (dop N),
    hist_ok N N.add 0 ops = false /\
    match ds_run N N.add 0 false ops with
    | Ok (_, outs) => outs <> snd (a_run N N.add 0 ops)
    | _ => False
    end.
Proof. exact reinsert_refuted. Qed.

(* ------------------------------------------------------------------------------------------ VectorMap *)

(* Every sequence of inserts (new keys and overwrites), lookups, removals (present and absent keys) and
   enumerations: no panic; every observation (result, len(), is_empty()) is the finite map's; the final
   contents in iteration order ARE the finite map; lookups agree on every key; len() = number of entries. *)
Theorem C19_vecmap_refines :
  forall (V E : Type) (ops : list (vop V)),
    exists m obs,
      vm_run (E:=E) ops = Ok (m, obs) /\
      map obs_core obs = map obs_core (snd (fm_run ops)) /\
      vm_iter m = fst (fm_run ops) /\
      (forall k, vm_get m k = fm_get k (fst (fm_run ops))) /\
      vm_len m = fm_len (fst (fm_run ops)) /\
      fm_sorted (fst (fm_run ops)).
Proof. exact @vm_run_refines_proof. Qed.

(* the specification is an ordinary map: lookup after insert / remove, no key twice *)
Theorem C19_fmap_is_a_map :
  forall (V : Type) (k k' : N) (v : V) (l : fmap V),
    fm_get k' (fm_insert k v l) = (if k' =? k then Some v else fm_get k' l) /\
    fm_get k' (fm_remove k l) = (if k' =? k then None else fm_get k' l) /\
    (fm_sorted l -> fm_sorted (fm_insert k v l) /\ fm_sorted (fm_remove k l) /\ NoDup (map fst l)).
Proof.
  exact (fun V k k' v l => conj (fm_get_insert k k' v l) (conj (fm_get_remove k k' l)
          (fun H => conj (fm_insert_sorted k v l H) (conj (fm_remove_sorted k l H) (fm_sorted_nodup l H))))).
Qed.

(* outside the property, recorded: max_key_index() is not the largest key present *)
Theorem C19_max_key_index_refuted :
  exists ops : list (vop N),
    match vm_run (E:=unit) ops with
    | Ok (m, _) => vm_max_key_index m <> fm_max_key (fst (fm_run ops))
    | _ => False
    end.
Proof. exact max_key_index_refuted. Qed.

(* non-vacuity: a non-trivial history inside the covered class, with a lawful non-idempotent monoid (N, +, 0):
   data added to 2 before it is joined, a union of already-joined values, an operation on a never-inserted value *)
Example C19_hyps_met :
  let ops := [DAdd 2 5; DUnion 0 2; DUnion 1 0; DUnion 2 1; DAdd 1 7; DFind 2; DGet 2; DGet 9; DSets] in
  hist_ok N N.add 0 ops = true /\ no_set_data N ops = true /\
  (forall a b, a + b = b + a) /\ (forall a b c, a + (b + c) = a + b + c) /\ (forall a, a + 0 = a) /\
  match ds_run N N.add 0 false ops with
  | Ok (_, outs) =>
      outs = [DoUnit; DoUnit; DoUnit; DoUnit; DoUnit; DoFind 1; DoData (Some 12); DoData None; DoSets [(1, 12); (9, 0)]]
  | _ => False
  end.
Proof.
  cbv zeta. split; [reflexivity|]. split; [reflexivity|]. split; [intros; lia|]. split; [intros; lia|].
  split; [intros; lia|]. vm_compute. reflexivity.
Qed.

Print Assumptions C19_dsu_refines.
Print Assumptions C19_dsu_wellformed.
Print Assumptions C19_find_frame.
Print Assumptions C19_partition_is_closure.
Print Assumptions C19_concrete_partition.
Print Assumptions C19_data_conservation.
Print Assumptions C19_ledger_without_set_data.
Print Assumptions C19_reinsert_refuted.
Print Assumptions C19_vecmap_refines.
Print Assumptions C19_fmap_is_a_map.
Print Assumptions C19_max_key_index_refuted.
