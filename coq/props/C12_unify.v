(* C12 (the in-slot half, through unification).  Only statements, `exact lemma` and Print Assumptions live here.

   props/C12.v orders the rows; props/TcStages.v `abi_rows_in_slot` shows, for ALL class tables, that the rows reported for a
   variable lie inside the slot as soon as the variable's OWN class starts its spans inside the slot, its sized-word spans
   end inside it and a sized-word class is at most 256 bits wide.  This file carries two of those three hypotheses through
   `unify` for every iteration order and fuel: on a judgement set that lies inside the slot (`tstate_in 256`: decidable;
   every span starts below bit 256 and ends at or below it, every sized word is at most 256 bits wide, only allocated
   variables are named) unification never panics and EVERY resolved type is again inside the slot (`te_in_b 256`).  The
   proof is the one of C01's `unify_preserves_span_bound`, run for an arbitrary bound 0 < B <= usize::MAX
   (proofs/UnifyInSlot.v: merge never moves a span end beyond the furthest end of its operands; consecutive boundaries of
   the (Packed, Packed) re-partitioning are strictly increasing, so new spans start strictly below the bound).
   The third hypothesis (a span whose own class resolved to a sized word has room for that width) is NOT maintained by
   unification -- the packed-encoding rule states no width for a span's variable -- and stays a hypothesis here; the C12
   check decides it per run on the implementation's class tables (c12_class_code).  Judgement sets with mapping
   projections (struct members in later slots: span offsets >= 256 inside a mapping's value type) are outside
   `tstate_in 256`; abi_rows_in_slot needs nothing about such nested classes. *)
From SLX Require Import Base VectorMap DisjointSet gen.Constants gen.WordUseTable gen.RulesSig TypeExpr Merge Unify AbiT Layout Abi Pipeline NoPanic.
From SLX.proofs Require Import UnifyProofs AbiProofs UnifyInSlot.
Open Scope N_scope.

Theorem C12_unify_keeps_types_in_slot : forall fuel o st, orders_ok o -> tstate_in 256 st = true ->
  match unify fuel o st with
  | Ok (s, n) => ts_next st <= n /\ forall v e, Abi.type_of (env_of_forest s n) v = Ok e -> te_in_b 256 e = true
  | Err _ => True
  | Panic _ => False
  end.
Proof. exact unify_keeps_types_in_slot_lemma. Qed.

(* the same for any bound between 1 and usize::MAX, on the class data itself *)
Theorem C12_unify_preserves_bound : forall B, B <= usize_max -> 0 < B -> forall fuel o st, orders_ok o -> tstate_in B st = true ->
  match unify fuel o st with
  | Ok (s, n) => ts_next st <= n /\ exists a, fsim s a /\ ASP (Pin B n) a
  | Err _ => True
  | Panic _ => False
  end.
Proof. exact unify_preserves_bound. Qed.

(* one application of merge: the result and every judgement it emits stay inside the bound *)
Theorem C12_merge_keeps_bound : forall B, B <= usize_max -> 0 < B -> forall a b p n m,
  is_equal a = false -> te_in B n a = true -> is_equal b = false -> te_in B n b = true -> merge a b p n = Ok m ->
  n <= Merge.next m /\ te_in B (Merge.next m) (expr m) = true /\ Forall (fun j => te_in B (Merge.next m) (snd j) = true) (judg m).
Proof.
  intros B HB HB0 a b p n m Na Ha Nb Hb E. destruct (merge_closed_in B HB HB0 a b p n m (conj Na Ha) (conj Nb Hb) E) as (H1 & H2 & H3).
  split; [exact H1|]. split; [exact (proj2 H2)|]. eapply Forall_impl; [|exact H3]. intros j Hj. exact (proj2 Hj).
Qed.

(* composed with abi_rows_in_slot: rows after unification *)
Theorem C12_rows_in_slot_after_unify : forall fuel o st s n, orders_ok o -> tstate_in 256 st = true -> unify fuel o st = Ok (s, n) ->
  forall fuel' v0 index a,
  (forall ts b sp w u, Abi.type_of (env_of_forest s n) v0 = Ok (Packed ts b) -> In sp ts ->
     Abi.type_of (env_of_forest s n) (s_typ sp) = Ok (Word (Some w) u) -> s_off sp + w <= 256) ->
  abi_type_for abi_nested_add abi_nested_fit (env_of_forest s n) fuel' v0 = Ok a ->
  forall e, In e (rows_of index a) ->
    fst (fst e) = index /\ snd (fst e) < WORD_SIZE_BITS /\
    match aty_width (snd e) with Some w => snd (fst e) + w <= WORD_SIZE_BITS | None => True end.
Proof. exact rows_in_slot_after_unify_lemma. Qed.

(* non-vacuity and tightness of the decidable hypothesis: an (address, uint96) pair fills the slot exactly; one bit more, or
   an empty span AT bit 256, is outside *)
Example C12_unify_hyps_met :
  tstate_in 256 (mk_tstate [(0, [Packed [mk_span 1 0 160; mk_span 2 160 96] false]); (1, [Word (Some 160) UBytes]); (2, [])] 3) = true /\
  tstate_in 256 (mk_tstate [(0, [Packed [mk_span 1 0 160; mk_span 2 160 97] false])] 3) = false /\
  tstate_in 256 (mk_tstate [(0, [Packed [mk_span 1 256 0] false])] 3) = false.
Proof. exact tstate_in_example. Qed.

Print Assumptions C12_unify_keeps_types_in_slot.
Print Assumptions C12_unify_preserves_bound.
Print Assumptions C12_merge_keeps_bound.
Print Assumptions C12_rows_in_slot_after_unify.
