(* C17 -- strict mode surfaces every execution error; permissive mode tolerates bad jumps.
   All statements are for every program, all limits with a positive iteration limit, every constant
   folding function and every watchdog stream.  `permissive` is read at exactly one place of the model:
   where the main loop (for errors that end a thread) and JUMPI's stored error are RECORDED. *)
From SLX Require Import Base gen.Constants gen.OpcodeTable SymVal Disasm VM proofs.VmBounds proofs.VmErrors proofs.VmGasError.
Open Scope N_scope.

Section C17.
Variable fold : sv -> sv.
Variable code : list instr.
Variable L : limits.
Hypothesis Hiter : 1 <= iter_limit L.
Hypothesis Hcode : code <> [].

Definition strict : config := mk_config' L false.
Definition permissive_cfg : config := mk_config' L true.
Definition final (cfg : config) (n : nat) : vm := result_state (run fold n (init_vm code cfg)).

(* strict mode: whatever an iteration of the main loop raises -- the error that ends the thread, or
   the bad-target error JUMPI stores while the thread carries on -- is in the error list afterwards... *)
Theorem C17_strict_records : forall m m' t i c3 err serr k jt' e,
  permissive (v_cfg m) = false -> vm_step fold m = SRunning m' ->
  step_parts fold m = Some (t, i, (c3, err, serr, k, jt')) -> (err = Some e \/ serr = Some e) ->
  In (tip t, e) (v_errors m').
Proof. exact (C17_strict_records_proof fold). Qed.

(* ... and nothing is ever dropped from the list again, so the final result lists it
   (the analysis fails iff the final list is non-empty) *)
Theorem C17_errors_persist : forall n m x, In x (v_errors m) -> In x (v_errors (result_state (run fold n m))).
Proof. exact (C17_errors_persist_proof fold). Qed.

(* every listed error is located at a byte offset inside the code, in either mode *)
Theorem C17_locations_in_code : forall p n x,
  In x (v_errors (final (mk_config' L p) n)) -> fst x < N.of_nat (length code).
Proof. exact (C17_locations_in_code_proof fold code L Hiter Hcode). Qed.

(* permissive mode never records an invalid / non-existent / unresolvable / oversized jump target,
   whether it was reached by JUMP or by JUMPI *)
Theorem C17_permissive_no_jump_errors : forall n x,
  In x (v_errors (final permissive_cfg n)) -> is_jump_err (snd x) = false.
Proof. exact (C17_permissive_no_jump_errors_proof fold code L Hiter Hcode). Qed.

(* the flag changes nothing but the error list: after any number of iterations both machines have the
   same retired states, queue, fork counters, gas log, ... *)
Theorem C17_same_states : forall n,
  result_rel (run fold n (init_vm code strict)) (run fold n (init_vm code permissive_cfg)).
Proof. exact (C17_same_states_proof fold code L). Qed.

(* ... and permissive mode's errors are a subset of strict mode's: whenever strict mode succeeds,
   permissive mode succeeds too, on the same states (hence the same layout) *)
Theorem C17_permissive_subset : forall n,
  incl (v_errors (final permissive_cfg n)) (v_errors (final strict n)).
Proof. exact (C17_permissive_subset_proof fold code L). Qed.
(* running out of gas is an execution error in BOTH modes, and it is always listed: along every run, every entry (ip, gas)
   of the retirement log (what hook H3 prints) whose gas account exceeds the gas limit has a GasLimitExceeded error at that
   instruction -- also when the thread ended at the same step for another reason (end of the code, the visit limit, a kill) *)
Theorem C17_gas_exceeded_listed : forall cfg n ip g,
  In (ip, g) (v_retired (final cfg n)) -> (gas_limit (v_cfg (final cfg n)) <? g) = true ->
  In (ip, EGasLimitExceeded) (v_errors (final cfg n)).
Proof. intros cfg n ip g. exact (gas_exceeded_listed_proof fold code cfg n ip g). Qed.

End C17.

(* non-vacuity: JUMPI to a non-JUMPDEST (stored error) then JUMP out of range (thread-ending error) *)
Example C17_hyps_met :
  let code := [IPush 1 [1]; INop; IPush 1 [0]; INop; IOp control_JumpI; IPush 1 [200]; INop; IOp control_Jump] in
  let L := mk_limits 30000000 10 50 250 394 100 None in
  1 <= iter_limit L /\ code <> [] /\
  map (fun e => (fst e, err_idx (snd e))) (v_errors (final (fun v => v) code (mk_config' L false) 20)) = [(4, 6); (7, 7)] /\
  v_errors (final (fun v => v) code (mk_config' L true) 20) = [].
Proof. cbv zeta. split; [cbn; lia|]. split; [discriminate|]. split; vm_compute; reflexivity. Qed.

(* non-vacuity: PUSH1 1 PUSH1 0 SSTORE (106 gas) falls off the end of the code; with a limit of 105 the thread retires above
   the limit at instruction 4 and the error is listed there *)
Example C17_gas_hyps_met :
  let code := [IPush 1 [1]; INop; IPush 1 [0]; INop; IOp memory_SStore] in
  let m := final (fun v => v) code (mk_config' (mk_limits 105 10 50 250 394 100 None) false) 20 in
  existsb (fun p => (fst p =? 4) && (105 <? snd p)) (v_retired m) = true /\
  map (fun e => (fst e, err_idx (snd e))) (v_errors m) = [(4, 9)].
Proof. vm_compute. split; reflexivity. Qed.

Print Assumptions C17_strict_records.
Print Assumptions C17_errors_persist.
Print Assumptions C17_locations_in_code.
Print Assumptions C17_permissive_no_jump_errors.
Print Assumptions C17_same_states.
Print Assumptions C17_permissive_subset.
Print Assumptions C17_gas_exceeded_listed.
