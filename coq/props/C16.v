(* C16 -- Combining typing evidence is independent of order and grouping (up to the wording of conflict
   explanations and the choice of representative among the variables it equates).
   Only statements, `exact lemma`, Print Assumptions and non-vacuity examples live here.

   `merge a b p n` is the model of `unification::merge(a, b, parent = p, state)` with the state's
   fresh-variable counter at n; `merge2`/`merge3L`/`merge3R` collect what one call / the two groupings
   of three pieces return (expression, all emitted equalities, all emitted judgements); `≈`
   (`comb_equiv`) compares two such outcomes: the equalities generate the same identification of
   type variables, the expressions agree up to that identification and up to conflict payloads, the
   judgements agree as sets in the same sense; a panic is only equivalent to a panic.

   The pinned implementation is NOT associative (finding K1 of DESIGN.md section 4, recorded, not
   repaired): `C16_refuted`.  The recorded class is the decidable predicate `KnownNonAssoc = K1 || K2`
   (Merge.v); the law is proved outside it, and the class is tight on the property's domain. *)
From Coq Require Import Permutation.
From SLX Require Import Base gen.Constants gen.WordUseTable TypeExpr Merge
  proofs.MergeEquivProofs proofs.MergeProofs proofs.MergeGeneralProofs proofs.MergePackedProofs proofs.MergeFactsProofs.
Open Scope N_scope.

(* ------------------------------------------------------------------------------------------ *)
(* Layer (i): the property as quantified -- all ordered pairs and triples over the finite evidence
   domain named in the property, decided completely (forallb over the enumerated domain, vm_compute,
   lifted with forallb_forall). *)

(* the domain, listed: 40 pieces of evidence *)
Theorem C16_domain :
  evidence_domain =
    [Any; Bytes; Conflict [Word (Some 8) UBool; Word (Some 160) UAddress] [RInput 0];
     Word None UBytes; Word (Some 8) UBytes; Word (Some 32) UBytes; Word (Some 160) UBytes;
     Word (Some 192) UBytes; Word (Some 256) UBytes;
     Word None UNumeric; Word (Some 8) UNumeric; Word (Some 32) UNumeric; Word (Some 160) UNumeric;
     Word (Some 192) UNumeric; Word (Some 256) UNumeric;
     Word None UUnsignedNumeric; Word (Some 8) UUnsignedNumeric; Word (Some 32) UUnsignedNumeric;
     Word (Some 160) UUnsignedNumeric; Word (Some 192) UUnsignedNumeric; Word (Some 256) UUnsignedNumeric;
     Word None USignedNumeric; Word (Some 8) USignedNumeric; Word (Some 32) USignedNumeric;
     Word (Some 160) USignedNumeric; Word (Some 192) USignedNumeric; Word (Some 256) USignedNumeric;
     Word (Some 8) UBool; Word (Some 160) UAddress; Word (Some 32) USelector; Word (Some 192) UFunction;
     Mapping 0 1; Mapping 1 0; Mapping 0 0;
     DynamicArray 0; FixedArray 0 3; FixedArray 0 4; DynamicArray 1; FixedArray 1 3; FixedArray 1 4].
Proof. vm_compute. reflexivity. Qed.

Theorem C16_comm_finite : forall a b, In a evidence_domain -> In b evidence_domain ->
  forall p n, merge2 a b p n ≈ merge2 b a p n.
Proof. exact C16_comm_finite_proof. Qed.

Theorem C16_assoc_finite_outside_known : forall a b c,
  In a evidence_domain -> In b evidence_domain -> In c evidence_domain ->
  KnownNonAssoc a b c = false -> forall p n, merge3L a b c p n ≈ merge3R a b c p n.
Proof. exact C16_assoc_finite_outside_known_proof. Qed.

(* the fold of `unify` over the three pieces gives the same outcome in all six orders *)
Theorem C16_fold_order_finite_outside_known : forall a b c,
  In a evidence_domain -> In b evidence_domain -> In c evidence_domain ->
  KnownNonAssoc a b c = false -> forall p n,
  merge3L a b c p n ≈ merge3L a c b p n /\ merge3L a b c p n ≈ merge3L b a c p n /\
  merge3L a b c p n ≈ merge3L b c a p n /\ merge3L a b c p n ≈ merge3L c a b p n /\
  merge3L a b c p n ≈ merge3L c b a p n.
Proof. exact C16_fold_order_finite_outside_known_proof. Qed.

(* the known class is tight: every triple in it is order-dependent -- some arrangement of the three
   operands fails associativity, and the six left folds do not all agree *)
Theorem C16_known_class_tight : forall a b c,
  In a evidence_domain -> In b evidence_domain -> In c evidence_domain -> KnownNonAssoc a b c = true ->
  (exists a' b' c', Permutation [a; b; c] [a'; b'; c'] /\ ~ (merge3L a' b' c' 0 0 ≈ merge3R a' b' c' 0 0))
  /\ fold_order_ok a b c 0 0 = false.
Proof. exact C16_known_class_tight_proof. Qed.

(* the class describes an evidence multiset (membership does not depend on operand positions),
   and its two parts are disjoint *)
Theorem C16_known_class_multiset : forall a b c,
  In a evidence_domain -> In b evidence_domain -> In c evidence_domain ->
  K1 a b c = K1 b a c /\ K1 a b c = K1 a c b /\ K2 a b c = K2 b a c /\ K2 a b c = K2 a c b
  /\ (K1 a b c && K2 a b c = false).
Proof. exact C16_known_class_multiset_proof. Qed.

(* the property is false of the pinned implementation *)
Theorem C16_refuted :
  exists a b c, In a evidence_domain /\ In b evidence_domain /\ In c evidence_domain /\
    ~ (merge3L a b c 0 0 ≈ merge3R a b c 0 0).
Proof. exact C16_refuted_proof. Qed.

(* ------------------------------------------------------------------------------------------ *)
(* Layer (ii): the general laws: arbitrary widths, lengths, type variables, conflict payloads, Equal
   (panics on both sides). Commutativity holds for ALL type expressions, the Packed arms included
   (both orders allocate the same fresh variables); associativity is claimed for expressions without
   Packed at the top, outside the known class. *)

Theorem merge_comm : forall a b p n, merge2 a b p n ≈ merge2 b a p n.
Proof. exact merge_comm_all_proof. Qed.

Theorem merge_assoc_outside_known : forall a b c p n,
  no_packed a = true -> no_packed b = true -> no_packed c = true ->
  K1 a b c = false -> K2 a b c = false ->
  merge3L a b c p n ≈ merge3R a b c p n.
Proof. exact merge_assoc_outside_known_proof. Qed.

(* ------------------------------------------------------------------------------------------ *)
(* ≈ is an equivalence relation, and it is decided by `comb_equivb` (the function the check evaluates
   on the implementation's outputs) *)
Theorem comb_equiv_equivalence :
  (forall a, a ≈ a) /\ (forall a b, a ≈ b -> b ≈ a) /\ (forall a b c, a ≈ b -> b ≈ c -> a ≈ c).
Proof. exact (conj comb_equiv_refl (conj comb_equiv_sym comb_equiv_trans)). Qed.

Theorem comb_equivb_decides : forall a b, comb_equivb a b = true <-> a ≈ b.
Proof. exact comb_equivb_spec. Qed.

(* the identification of variables is the equivalence closure of the emitted equalities *)
Theorem canon_decides_eqv : forall q x y, eqv q x y <-> canon q x = canon q y.
Proof. exact canon_spec. Qed.

(* type expressions have decidable equality, and `te_eqb` (the model of `left == right`) decides it *)
Theorem te_eqb_decides : forall a b, te_eqb a b = true <-> a = b.
Proof. exact te_eqb_eq. Qed.

(* the model's "delegate to the flipped case" unfolding is complete: the artefact site is unreachable *)
Theorem merge_delegation_depth_one : forall a b p n, merge a b p n <> Panic site_delegation.
Proof. exact merge_never_site_delegation. Qed.

(* ------------------------------------------------------------------------------------------ *)
(* Facts about every call of merge that the unification stage builds on. *)

(* merge panics exactly on an Equal operand or when the end of a span of two non-empty packed
   encodings does not fit in usize; the other panic sites of the source are unreachable *)
Theorem merge_panic_cases : forall a b p n s, merge a b p n = Panic s ->
  (s = site_equal_left /\ is_equal a = true) \/ (s = site_equal_right /\ is_equal b = true)
  \/ (s = site_usize_overflow /\ packed_overflow a b = true).
Proof. exact merge_panic_cases_proof. Qed.

Theorem merge_total : forall a b p n, is_equal a = false -> is_equal b = false ->
  packed_overflow a b = false -> exists r, merge a b p n = Ok r.
Proof. exact merge_total_proof. Qed.

(* the type variables it allocates are exactly the next ones of the counter, in order *)
Theorem merge_fresh : forall a b p n r, merge a b p n = Ok r ->
  next r = n + N.of_nat (length (newv r))
  /\ newv r = map (fun i => n + N.of_nat i) (seq 0 (length (newv r))).
Proof. exact merge_fresh_proof. Qed.

(* ------------------------------------------------------------------------------------------ *)
(* non-vacuity *)

(* outside the class, with equalities really emitted and representatives really differing *)
Example C16_assoc_hyps_met :
  let a := Mapping 0 1 in let b := Mapping 2 3 in let c := Mapping 4 5 in
  no_packed a = true /\ K1 a b c = false /\ K2 a b c = false /\
  merge3L a b c 7 9 = Ok (mk_cres (Mapping 0 1) [(0, 2); (1, 3); (0, 4); (1, 5)] []) /\
  merge3R a b c 7 9 = Ok (mk_cres (Mapping 0 1) [(2, 4); (3, 5); (0, 2); (1, 3)] []).
Proof. vm_compute. repeat split; reflexivity. Qed.

(* commutativity with packed encodings: fresh variables 6 and 7 under both orders, the equalities and
   judgements in a different order *)
Example C16_comm_packed_example :
  let a := Packed [mk_span 1 0 8; mk_span 2 8 16] false in let b := Packed [mk_span 3 0 24] true in
  merge2 a b 0 6 = Ok (mk_cres (Packed [mk_span 6 0 8; mk_span 7 8 16] true) [(1, 6); (2, 7)]
                         [(3, Packed [mk_span 6 0 8; mk_span 7 8 16] false)]) /\
  comb_equivb (merge2 a b 0 6) (merge2 b a 0 6) = true /\
  comb_equivb (merge2 (Word (Some 16) UNumeric) a 2 6) (merge2 a (Word (Some 16) UNumeric) 2 6) = true.
Proof. vm_compute. repeat split; reflexivity. Qed.

(* both parts of the known class are inhabited, and not everything is in it *)
Example C16_known_class_inhabited :
  K1 (Word (Some 8) UBool) (Word (Some 160) UAddress) (DynamicArray 0) = true /\
  K2 (Mapping 0 1) (Mapping 1 0) Bytes = true /\
  KnownNonAssoc (Word (Some 8) UBool) (Word (Some 160) UAddress) (Mapping 0 1) = false /\
  KnownNonAssoc (DynamicArray 0) (Word (Some 8) UBool) (DynamicArray 1) = false.
Proof. vm_compute. repeat split; reflexivity. Qed.

(* ≈ really ignores only what it should: a different width is not equivalent *)
Example C16_equiv_discriminates :
  comb_equivb (Ok (mk_cres (Word (Some 8) UBool) [] [])) (Ok (mk_cres (Word (Some 16) UBool) [] [])) = false /\
  comb_equivb (Ok (mk_cres (Mapping 0 1) [(0, 1)] [])) (Ok (mk_cres (Mapping 1 0) [(1, 0)] [])) = true /\
  comb_equivb (Ok (mk_cres (Mapping 0 1) [] [])) (Ok (mk_cres (Mapping 1 0) [] [])) = false.
Proof. vm_compute. repeat split; reflexivity. Qed.

Print Assumptions C16_domain.
Print Assumptions C16_comm_finite.
Print Assumptions C16_assoc_finite_outside_known.
Print Assumptions C16_fold_order_finite_outside_known.
Print Assumptions C16_known_class_tight.
Print Assumptions C16_known_class_multiset.
Print Assumptions C16_refuted.
Print Assumptions merge_comm.
Print Assumptions merge_assoc_outside_known.
Print Assumptions comb_equiv_equivalence.
Print Assumptions comb_equivb_decides.
Print Assumptions canon_decides_eqv.
Print Assumptions te_eqb_decides.
Print Assumptions merge_delegation_depth_one.
Print Assumptions merge_panic_cases.
Print Assumptions merge_total.
Print Assumptions merge_fresh.
