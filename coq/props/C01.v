(* C01 -- analysis is total: it returns a layout or a structured error, never crashes.
   The stage-wise no-panic theorems that exist so far, gathered in one place, plus the inventory of
   panic-capable sites read from the MIR of the library on this run (gen/PanicSites.v): every site is
   classified (modelled by one of the developments / unreachable / outside the analysis path).  Whether
   the native stack suffices for the recursive descents is a runtime fact the model cannot exhibit.
   The composition over all stages is decided by the hostile-input search of tools/p_c01.py (partial). *)
From Coq Require Import String.
From SLX Require Import Base gen.Constants gen.OpcodeTable gen.PanicSites SymVal Disasm VM
                        proofs.DisasmProofs proofs.VmBounds props.C09 props.C18.
Open Scope N_scope.

(* disassembly, including the library's own re-encoding assertion, never panics on a non-empty byte string *)
Theorem C01_disassembly_no_panic : forall bs, bs <> [] -> bytes_ok bs -> N.of_nat (length bs) <= two32 ->
  forall site, try_from bs <> Panic site.
Proof. intros bs H1 H2 H3 site. rewrite (C10_total_proof bs H1 H2 H3). discriminate. Qed.

(* the gas counter of a scheduled thread never exceeds the limit, so `gas_usage += min_gas_cost` stays below
   gas_limit + the largest minimum cost in the code: no usize overflow for any limit below 2^64 - that *)
Theorem C01_gas_counter_bounded : forall fold code (cfg : config), 1 <= iter_limit cfg -> code <> [] ->
  forall n t, In t (v_queue (result_state (run fold n (init_vm code cfg)))) -> tgas t <= gas_limit cfg.
Proof. exact C03_gas_stop_proof. Qed.

(* every panic-capable site of the library's MIR is accounted for on this run *)
Theorem C01_panic_sites_classified : unclassified_sites = 0.
Proof. reflexivity. Qed.

Print Assumptions C01_disassembly_no_panic.
Print Assumptions C01_gas_counter_bounded.
Print Assumptions C01_panic_sites_classified.
