(* PASSES_SLOTS -- the six slot-related lifting passes (support for C04 / C05 / C06).
   Only statements, `exact lemma`, and Print Assumptions live here.  `keccak` and the hashed-slot `table` are
   universally quantified in every theorem (nothing is assumed about them unless stated). *)
From Coq Require Import String.
From SLX Require Import Base Word256 gen.ValueSig gen.Constants gen.PassOrder SymVal Fold PassesSlots.
From SLX.proofs Require Import PassesSlotsProofs.
Open Scope N_scope.

(* ------------------------------------------------------------------ the model *)

(* the fuel of the dynamic-array pass (depth of the tree) is sufficient: any larger fuel gives the same result *)
Theorem da_lift_fuel_sufficient : forall n v, (sv_depth v <= n)%nat -> da_lift_f n v = da_lift v.
Proof. exact da_lift_f_enough. Qed.
Print Assumptions da_lift_fuel_sufficient.

(* the six passes sit in the default order regenerated from `LiftingPasses::default()`; the other three are hooks *)
Theorem default_pipeline_shape : forall keccak table other v,
  default_pipeline keccak table other v =
  mapping_offset (storage_slots (dyn_array
    (other P_PackedEncoding (other P_MulShiftedValue (other P_SubWordValue
      (mapping_index (proxy_slots keccak (hashed_slots table v)))))))).
Proof. exact default_pipeline_unfold. Qed.
Print Assumptions default_pipeline_shape.

(* the BiMap: no hash and no index occurs twice in make_hashes(count), for any keccak *)
Theorem table_bijective : forall keccak n,
  NoDup (map fst (make_hashes keccak n)) /\ NoDup (map snd (make_hashes keccak n)).
Proof. exact make_hashes_bijective. Qed.
Print Assumptions table_bijective.

(* ------------------------------------------------------------------ C05 *)

(* without a storage access the three guarded passes do nothing at all *)
Theorem proxy_no_storage_access_identity : forall keccak v, has_storage_access v = false -> proxy_slots keccak v = v.
Proof. exact proxy_no_access_id. Qed.
Print Assumptions proxy_no_storage_access_identity.
Theorem mapping_index_no_storage_access_identity : forall v, has_storage_access v = false -> mapping_index v = v.
Proof. exact mapping_index_no_access_id. Qed.
Print Assumptions mapping_index_no_storage_access_identity.
Theorem dyn_array_no_storage_access_identity : forall v, has_storage_access v = false -> dyn_array v = v.
Proof. exact dyn_array_no_access_id. Qed.
Print Assumptions dyn_array_no_storage_access_identity.

(* StorageSlot / MappingIndex / DynamicArrayIndex nodes are introduced only at or below SLoad / StorageWrite /
   UnwrittenStorageValue nodes: positions outside every storage access stay free of them *)
Theorem C05_lifts_only_under_access : forall keccak table v,
  no_lift_outside v = true -> no_lift_outside (six_passes keccak table v) = true.
Proof. exact six_passes_nlo. Qed.
Print Assumptions C05_lifts_only_under_access.

(* no storage access anywhere => no lifted node anywhere, in particular no StorageSlot *)
Theorem C05_no_storage_no_lifted : forall keccak table v,
  has_storage_access v = false -> has_lifted v = false -> has_lifted (six_passes keccak table v) = false.
Proof. exact no_storage_no_lifted. Qed.
Print Assumptions C05_no_storage_no_lifted.
Theorem C05_no_storage_no_slot : forall keccak table v,
  has_storage_access v = false -> has_lifted v = false -> has_tag T_StorageSlot (six_passes keccak table v) = false.
Proof. exact no_storage_no_slot. Qed.
Print Assumptions C05_no_storage_no_slot.

(* the guards hand BOTH operands of an access -- key and value -- to the pattern functions (the root of K3) *)
Theorem mapping_index_applies_to_key_and_value : forall t a k x,
  is_rw_tag t = true -> mapping_index (Node t a [k; x]) = Node t a [mi_ins k; mi_ins x].
Proof. exact mapping_index_rw. Qed.
Print Assumptions mapping_index_applies_to_key_and_value.
Theorem dyn_array_applies_to_key_and_value : forall t a k x,
  is_rw_tag t = true -> dyn_array (Node t a [k; x]) = Node t a [da_lift k; da_lift x].
Proof. exact dyn_array_rw. Qed.
Print Assumptions dyn_array_applies_to_key_and_value.
(* values without lifted nodes (all VM output) satisfy the hypothesis of C05_lifts_only_under_access *)
Theorem no_lifted_input_ok : forall v, has_lifted v = false -> no_lift_outside v = true.
Proof. exact no_lifted_nlo. Qed.
Print Assumptions no_lifted_input_ok.
(* table constants are rewritten everywhere, also outside storage accesses (no slot results from that alone) *)
Theorem hashed_rewrites_outside_access : forall h i,
  hashed_slots [(h, i)] (Node T_Return [] [Known h]) = Node T_Return [] [Node T_Sha3 [] [Known i]].
Proof. exact hashed_rewrites_outside_access_proof. Qed.
Print Assumptions hashed_rewrites_outside_access.
(* mapping_offset truncates the offset constant to 64 bits *)
Theorem mapping_offset_truncates :
  mapping_offset (Node T_Add [] [Node T_MappingIndex [0] [Known 3; Val 1]; Known (2 ^ 64 + 2)]) =
  Node T_MappingIndex [1; 2] [Known 3; Val 1].
Proof. exact mapping_offset_truncates_proof. Qed.
Print Assumptions mapping_offset_truncates.

(* K3: the patterns are applied to the key AND the value operand of an access.  "Lifted nodes only in key
   sub-trees" is false: sstore(0, keccak(calldata ++ 5)) reports slot 5, which occurs in no key sub-tree *)
Theorem K3_refuted : forall keccak,
  no_lift_outside_keys k3_witness = true /\
  no_lift_outside_keys (six_passes keccak [] k3_witness) = false /\
  In 5 (slot_consts (six_passes keccak [] k3_witness)) /\ ~ In 5 (key_consts k3_witness).
Proof. exact K3_refuted_proof. Qed.
Print Assumptions K3_refuted.
(* the same through a pre-folded keccak(slot) constant in a stored value *)
Theorem K3_hashed_constant : forall keccak,
  In 3 (slot_consts (six_passes keccak [(99, 3)] k3_witness_hashed)) /\ ~ In 3 (key_consts k3_witness_hashed).
Proof. exact K3_hashed_constant_proof. Qed.
Print Assumptions K3_hashed_constant.
(* outside the class (nothing hash-shaped -- Sha3 node or table constant -- and nothing lifted outside key
   sub-trees of the input) all lifted nodes of the output lie in key sub-trees *)
Theorem C05_lifts_only_in_keys_outside_K3 : forall keccak table v,
  no_value_hash table v = true -> no_lift_outside_keys (six_passes keccak table v) = true.
Proof. exact lifts_only_in_keys_outside_K3. Qed.
Print Assumptions C05_lifts_only_in_keys_outside_K3.

(* ------------------------------------------------------------------ C06 *)

(* pass_keeps_literal_key, pass by pass: SLoad / StorageWrite {key: Known c} at the top of a value *)
Theorem pass_keeps_literal_key_hashed : forall table t a c x,
  is_rw_tag t = true -> lookup_hash table c = None ->
  hashed_slots table (Node t a [Known c; x]) = Node t a [Known c; hashed_slots table x].
Proof. exact hashed_keeps_literal_key. Qed.
Print Assumptions pass_keeps_literal_key_hashed.
Theorem pass_keeps_literal_key_proxy : forall keccak t a c x,
  is_rw_tag t = true -> proxy_slots keccak (Node t a [Known c; x]) = Node t a [Known c; proxy_slots keccak x].
Proof. exact proxy_keeps_literal_key. Qed.
Print Assumptions pass_keeps_literal_key_proxy.
Theorem pass_keeps_literal_key_mapping_index : forall t a c x,
  is_rw_tag t = true -> mapping_index (Node t a [Known c; x]) = Node t a [Known c; mi_ins x].
Proof. exact mapping_index_keeps_literal_key. Qed.
Print Assumptions pass_keeps_literal_key_mapping_index.
Theorem pass_keeps_literal_key_dyn_array : forall t a c x,
  is_rw_tag t = true -> dyn_array (Node t a [Known c; x]) = Node t a [Known c; da_lift x].
Proof. exact dyn_array_keeps_literal_key. Qed.
Print Assumptions pass_keeps_literal_key_dyn_array.
Theorem pass_keeps_literal_key_storage_slots : forall t a c x,
  is_rw_tag t = true ->
  storage_slots (Node t a [Known c; x]) = Node t a [Node T_StorageSlot [] [Known c]; storage_slots x].
Proof. exact storage_slots_wraps_literal_key. Qed.
Print Assumptions pass_keeps_literal_key_storage_slots.
Theorem pass_keeps_literal_key_mapping_offset : forall t a c x,
  is_rw_tag t = true ->
  mapping_offset (Node t a [Node T_StorageSlot [] [Known c]; x]) = Node t a [Node T_StorageSlot [] [Known c]; mapping_offset x].
Proof. exact mapping_offset_keeps_wrapped_key. Qed.
Print Assumptions pass_keeps_literal_key_mapping_offset.
(* the composition, for every 256-bit c that is not the keccak of a small slot number *)
Theorem pass_keeps_literal_key : forall keccak table t a c x,
  is_rw_tag t = true -> lookup_hash table c = None ->
  six_passes keccak table (Node t a [Known c; x]) = Node t a [Node T_StorageSlot [] [Known c]; six_inner keccak table x].
Proof. exact six_passes_literal_key. Qed.
Print Assumptions pass_keeps_literal_key.
(* a bare UnwrittenStorageValue {key: Known c} keeps its key but storage_slots.rs has no arm for it: NOT wrapped *)
Theorem unwritten_literal_key_kept_unwrapped : forall keccak table a c,
  lookup_hash table c = None ->
  six_passes keccak table (Node T_UnwrittenStorageValue a [Known c]) = Node T_UnwrittenStorageValue a [Known c].
Proof. exact six_passes_unwritten_key_not_wrapped. Qed.
Print Assumptions unwritten_literal_key_kept_unwrapped.
(* anywhere in a tree, as long as no strict ancestor is an Add, Sha3 or StorageSlot node *)
Theorem C06_exposed_literal_key : forall keccak table c v,
  exposed c v = true -> lookup_hash table c = None -> wrapped c (six_passes keccak table v) = true.
Proof. exact exposed_literal_key_wrapped. Qed.
Print Assumptions C06_exposed_literal_key.
(* below an Add it can be lost: `index: right` of the dynamic-array pass drops the left operand *)
Theorem literal_key_anywhere_refuted : forall keccak,
  In (Node T_SLoad [] [Known 7; Val 1]) (subterms lost_key_witness) /\
  wrapped 7 (six_passes keccak [] lost_key_witness) = false /\
  six_passes keccak [] lost_key_witness =
    Node T_StorageWrite [] [Node T_StorageSlot [] [Node T_DynamicArrayIndex [] [Node T_StorageSlot [] [Known 3]; Node T_Sha3 [] [Known 3]]]; Val 2].
Proof. exact literal_key_anywhere_refuted_proof. Qed.
Print Assumptions literal_key_anywhere_refuted.

(* ------------------------------------------------------------------ C04 *)

(* T_{k+1} = Sha3 (Concat [key_k; T_k]), T_0 = Known slot, as a storage key: for EVERY depth, every slot outside the
   table and arbitrary key expressions it lifts to the MappingIndex nest over StorageSlot (Known slot) *)
Theorem lift_mapping_nest : forall keccak table t a keys slot x,
  is_rw_tag t = true -> lookup_hash table slot = None ->
  unpick_proxy keccak (nest (map (hashed_slots table) keys) slot) = None ->
  six_passes keccak table (Node t a [nest keys slot; x]) =
  Node t a [lifted_nest (map (six_inner keccak table) keys) slot; six_inner keccak table x].
Proof. exact lift_mapping_nest_proof. Qed.
Print Assumptions lift_mapping_nest.
(* the side condition holds for every depth >= 2 ... *)
Theorem lift_mapping_nest_depth_ge_2 : forall keccak table t a k1 k2 ks slot x,
  is_rw_tag t = true -> lookup_hash table slot = None ->
  six_passes keccak table (Node t a [nest (k1 :: k2 :: ks) slot; x]) =
  Node t a [lifted_nest (map (six_inner keccak table) (k1 :: k2 :: ks)) slot; six_inner keccak table x].
Proof. exact lift_mapping_nest_deep. Qed.
Print Assumptions lift_mapping_nest_depth_ge_2.
(* ... and at depth 1 for every key that does not fold to a constant *)
Theorem lift_mapping_nest_depth_1 : forall keccak table t a k slot x,
  is_rw_tag t = true -> lookup_hash table slot = None -> as_word (constant_fold (hashed_slots table k)) = None ->
  six_passes keccak table (Node t a [nest [k] slot; x]) =
  Node t a [lifted_nest [six_inner keccak table k] slot; six_inner keccak table x].
Proof. exact lift_mapping_nest_1. Qed.
Print Assumptions lift_mapping_nest_depth_1.
(* a constant printable-ASCII key at slot 0 is claimed by the proxy pass instead *)
Theorem proxy_claims_constant_ascii_key : forall keccak,
  six_passes keccak [] (Node T_SLoad [] [nest [Known ascii_owner] 0; Val 2]) =
  Node T_SLoad [] [Node T_StorageSlot [] [Known (keccak (words_bytes [ascii_owner; 0]))]; Val 2].
Proof. exact proxy_claims_constant_ascii_key_proof. Qed.
Print Assumptions proxy_claims_constant_ascii_key.

(* Add (Sha3 (Concat [Known slot]) | Sha3 (Known slot), index), hash on the left *)
Theorem lift_dyn_array : forall keccak table t a concat slot index x,
  is_rw_tag t = true -> lookup_hash table slot = None -> is_likely_string [slot] = false ->
  unpick_sha3 keccak (hashed_slots table index) = None ->
  six_passes keccak table (Node t a [Node T_Add [] [slot_hash concat slot; index]; x]) =
  Node t a [Node T_StorageSlot [] [Node T_DynamicArrayIndex [] [Node T_StorageSlot [] [Known slot]; six_inner keccak table index]];
            six_inner keccak table x].
Proof. exact lift_dyn_array_proof. Qed.
Print Assumptions lift_dyn_array.
(* the pre-folded form Add (Known keccak(slot), index) *)
Theorem lift_dyn_array_hashed_const : forall keccak table t a h slot index x,
  is_rw_tag t = true -> lookup_hash table h = Some slot -> is_likely_string [slot] = false ->
  unpick_sha3 keccak (hashed_slots table index) = None ->
  six_passes keccak table (Node t a [Node T_Add [] [Known h; index]; x]) =
  Node t a [Node T_StorageSlot [] [Node T_DynamicArrayIndex [] [Node T_StorageSlot [] [Known slot]; six_inner keccak table index]];
            six_inner keccak table x].
Proof. exact lift_dyn_array_hashed_const_proof. Qed.
Print Assumptions lift_dyn_array_hashed_const.
Theorem small_slot_is_not_a_string : forall slot, slot < 2 ^ 248 -> is_likely_string [slot] = false.
Proof. exact small_slot_not_string. Qed.
Print Assumptions small_slot_is_not_a_string.
(* with the hash on the right the index expression is lost (`index: right`) *)
Theorem dyn_array_hash_on_right_index_lost : forall keccak,
  six_passes keccak [] (Node T_SLoad [] [Node T_Add [] [Val 1; Node T_Sha3 [] [Known 3]]; Val 2]) =
  Node T_SLoad [] [Node T_StorageSlot [] [Node T_DynamicArrayIndex [] [Node T_StorageSlot [] [Known 3]; Node T_Sha3 [] [Known 3]]]; Val 2].
Proof. exact dyn_array_hash_on_right_proof. Qed.
Print Assumptions dyn_array_hash_on_right_index_lost.

(* Known (keccak (be32 slot)), slot < count, becomes Sha3 (Known j) with keccak j = keccak slot (j = slot when keccak
   is injective on the first `count` indices) *)
Theorem recognise_hashed_slot : forall keccak n slot,
  (slot < n)%nat ->
  exists j, (j < n)%nat /\ keccak (be_bytes (N.of_nat j)) = keccak (be_bytes (N.of_nat slot)) /\
            hashed_slots (make_hashes keccak n) (Known (keccak (be_bytes (N.of_nat slot)))) = Node T_Sha3 [] [Known (N.of_nat j)].
Proof. exact recognise_hashed_slot_gen. Qed.
Print Assumptions recognise_hashed_slot.
Theorem recognise_hashed_slot_injective : forall keccak n slot,
  (forall i j, (i < n)%nat -> (j < n)%nat -> keccak (be_bytes (N.of_nat i)) = keccak (be_bytes (N.of_nat j)) -> i = j) ->
  (slot < n)%nat ->
  hashed_slots (make_hashes keccak n) (Known (keccak (be_bytes (N.of_nat slot)))) = Node T_Sha3 [] [Known (N.of_nat slot)].
Proof. exact recognise_hashed_slot_inj. Qed.
Print Assumptions recognise_hashed_slot_injective.

(* the hypotheses are satisfiable by non-trivial values: a depth-3 nest with a symbolic, a masked and a nested-load key *)
Example nest_example : forall keccak,
  six_passes keccak [(99, 3)]
    (Node T_StorageWrite [] [nest [Val 1; Node T_And [] [Known (2 ^ 160 - 1); node0 T_Caller];
                                   Node T_SLoad [] [Known 4; Val 2]] 7; Val 3]) =
  Node T_StorageWrite []
    [lifted_nest [Val 1; Node T_And [] [Known (2 ^ 160 - 1); node0 T_Caller];
                  Node T_SLoad [] [Node T_StorageSlot [] [Known 4]; Val 2]] 7; Val 3].
Proof. intros keccak. vm_compute. reflexivity. Qed.
