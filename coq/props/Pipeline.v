(* PIPELINE -- end-to-end theorems about the composed model of the whole analysis,
     Pipeline.analyze_model_fuel keccak table mode fuels bytes cfg     (analyze_model = mode MSorted, default fuels)
   = disassemble -> VM -> all_values -> unique -> nine lifting passes -> assign_vars -> 16 rules -> unify -> abi_type_for
     -> StorageLayout::add, every order-sensitive iteration in the order the hook `verif::order` imposes in `mode`
     (sorted, sorted-reversed, or sorted + the seeded shuffle).
   `keccak` (the hash function of the proxy-slot pass), `table` (the BiMap of StorageSlotHashes), the iteration-order
   mode, the fuels, the program and the configuration are universally quantified in every theorem.
   Only statements, `exact lemma`, and Print Assumptions live here; the proofs (proofs/PipelineProofs.v) compose the
   stage theorems: LayoutProofs.stable_sort_sorted, PassesSlotsProofs (the keeps_literal_key, no_access and nlo lemmas of each pass),
   PassesPackingProofs (sub_word_rel / mul_shifted_rel / packed_encoding_rel and their node-predicate lemmas),
   RegisterProofs.reg_unfold, TcStagesProofs.const_slot_row_lemma, VmBounds.run_p_run, FoldProofs, and a VM invariant
   proved for every micro-operation plus a fact computed from the generated opcode bodies. *)
From Coq Require Import String.
From SLX Require Import Base gen.ValueSig gen.OpcodeTable gen.RulesSig SymVal Disasm VM Fold PassesSlots PassesSlotsCases Rules AbiT Layout Pipeline PipelineCases.
From SLX Require Import gen.PipelineGlue.
From SLX Require Import PolledLoop Unify DisjointSet.
From SLX.proofs Require Import LayoutProofs PolledLoopProofs PipelinePolls PipelineProofs PipelineWatchdog.
Open Scope N_scope.

(* the glue as the source has it on this run (translator step T10) is the glue Pipeline.v composes *)
Theorem pipeline_glue_as_modelled :
  analyze_stages = ["disassemble"; "prepare_vm"; "execute"; "prepare_unifier"; "infer"]%string /\
  tc_run_stages = ["lift"; "assign_vars"; "infer"; "unify"]%string /\
  state_value_sources = ["stack"; "memory"; "storage"; "recorded"; "logged"]%string /\
  hook_points = ["memory.constant_offsets"; "memory.symbolic_offsets"; "storage.stores_as_values"; "tc.rules"; "tc.values";
                 "tc.variables"]%string.
Proof. exact glue_as_modelled. Qed.
Print Assumptions pipeline_glue_as_modelled.

(* the order the sorted hook gives the rule set (by the Debug text of the rule) is the order of InferenceRules::default() *)
Theorem pipeline_rule_order_is_default : pipeline_rules MSorted = default_rule_set.
Proof. exact sorted_rules_are_default. Qed.
Print Assumptions pipeline_rule_order_is_default.

(* (a) C12, ordering half, end to end: whenever the analysis returns a layout, its rows are sorted by
   (slot index, bit offset) -- for every program, configuration, hash function, table and fuel *)
Theorem pipeline_layout_sorted : forall keccak table mode fu bytes cfg l,
  analyze_model_fuel keccak table mode fu bytes cfg = PLayout l -> sorted_io l.
Proof. exact pipeline_layout_sorted_lemma. Qed.
Print Assumptions pipeline_layout_sorted.

(* (b) C05 end to end: if the instruction stream contains neither an SLOAD nor an SSTORE opcode, the only layout the
   analysis can return is the empty one (every other result is an error, a panic or out-of-fuel) *)
Theorem pipeline_storage_free_empty : forall keccak table mode fu bytes cfg l,
  (forall code, try_from bytes = Ok code -> ~ In (IOp memory_SLoad) code /\ ~ In (IOp memory_SStore) code) ->
  analyze_model_fuel keccak table mode fu bytes cfg = PLayout l -> l = [].
Proof. exact pipeline_storage_free_empty_lemma. Qed.
Print Assumptions pipeline_storage_free_empty.

(* the VM fact behind (b): without those two opcodes no retired state holds a value with a storage-access or slot
   constructor anywhere (stack, memory, recorded, logged), and its storage is empty -- from the micro-programs
   generated on this run (`storage_free_bodies`) *)
Theorem pipeline_storage_free_values : forall mode code cfg p m,
  ~ In (IOp memory_SLoad) code -> ~ In (IOp memory_SStore) code ->
  run_p constant_fold p (init_vm code cfg) = RDone m ->
  Forall (fun x => clean x = true) (unique (all_values mode (v_stored m))).
Proof. exact storage_free_values. Qed.
Print Assumptions pipeline_storage_free_values.

(* (c) C06 end to end: a literal storage key c of ANY retired state of the model's VM run, c not the hash of a small slot
   number (outside the table), has a row with index c in the layout -- whenever a layout is returned *)
Theorem pipeline_literal_key_row : forall keccak table mode fu bytes cfg l code m st vis c g,
  analyze_model_fuel keccak table mode fu bytes cfg = PLayout l ->
  try_from bytes = Ok code -> run_p constant_fold (f_vm fu) (init_vm code cfg) = RDone m ->
  In (st, vis) (v_stored m) -> In (Known c, g) (sto_known st) -> lookup_hash table c = None ->
  exists off ty, In (c, off, ty) l.
Proof. exact pipeline_literal_key_row_lemma. Qed.
Print Assumptions pipeline_literal_key_row.

(* the VM fact behind (c): every storage entry of every retired state has at least one generation (SLOAD of a fresh key
   records the unwritten value), so every key is handed to the type checker inside a StorageWrite *)
Theorem pipeline_storage_entries_have_generations : forall fold code cfg p m st vis k g,
  run_p fold p (init_vm code cfg) = RDone m -> In (st, vis) (v_stored m) -> In (k, g) (sto_known st ++ sto_sym st) -> g <> [].
Proof. exact stored_generations_nonempty. Qed.
Print Assumptions pipeline_storage_entries_have_generations.

(* the pass-level step of (c): the NINE passes (the packing passes included) turn a write to a literal key into a write
   to StorageSlot(key) *)
Theorem pipeline_nine_passes_keep_literal_key : forall keccak table c x v',
  lookup_hash table c = None ->
  lift_value keccak table (Node T_StorageWrite [] [Known c; x]) = Ok v' ->
  exists x', v' = Node T_StorageWrite [] [Node T_StorageSlot [] [Known c]; x'].
Proof. exact lift_value_literal_key. Qed.
Print Assumptions pipeline_nine_passes_keep_literal_key.

(* the analysis depends on the slot table only through the constants of the collected values ... *)
Theorem pipeline_table_only_through_constants : forall keccak t t' mode fu cfg det stored polls,
  (forall v w, In v (unique (all_values mode stored)) -> In w (all_consts v) -> lookup_in t w = lookup_in t' w) ->
  analyze_tc keccak t mode fu cfg det stored polls = analyze_tc keccak t' mode fu cfg det stored polls.
Proof. exact analyze_tc_table_agree. Qed.
Print Assumptions pipeline_table_only_through_constants.

(* ... so the correspondence suite, which looks those constants up through an index of the implementation's table and
   runs the model with that sub-table, evaluates exactly the model with the full table *)
Theorem pipeline_check_uses_full_table : forall table mode bytes cfg o real d,
  fst (trace_of (build_index table) (PC mode bytes cfg o real d)) = analyze_trace (oracle_keccak o) table mode check_fuels bytes cfg.
Proof. exact trace_of_uses_full_table. Qed.
Print Assumptions pipeline_check_uses_full_table.


(* ================================================================================================ the watchdog, end to end
   Every polled loop of the model is the scheme of PolledLoop.v (so C13_loop_never_stop, C13_loop_stops_at_next_poll and
   C13_loop_poll_rate apply to the loops of lift, assign_vars, infer, every round of unify and the layout loop) ... *)
Theorem pipeline_polled_loops_are_ploop : forall (A St E : Type) (body : A -> St -> St + E) k items c w s,
  forget (ploop_e body k items c w s) = ploop (forget_body body) k items c w s.
Proof. exact @ploop_e_forget. Qed.
Print Assumptions pipeline_polled_loops_are_ploop.

(* ... the polled wrapper around Unify.v's rounds is `Unify.unify` itself when the watchdog never stops ... *)
Theorem pipeline_unify_wrapper_is_unify : forall mode k fuel st w, stop_from w = None ->
  match unify_polled mode k fuel st w with
  | UDone s' n' _ _ => unify fuel (orders_of mode) st = Ok (s', n')
  | UFail e _ => ures_res (unify fuel (orders_of mode) st) = inr e
  | UStop _ => False
  end.
Proof. exact unify_polled_never_stop. Qed.
Print Assumptions pipeline_unify_wrapper_is_unify.

(* ... and the whole type checker with its watchdog returns what the unmonitored one returns, or a watchdog stop; with
   the poll accounting: up to the stop index j while not stopped, exactly j + 1 when stopped *)
Theorem pipeline_tc_plain_or_stop : forall keccak table mode fu lim polls0 det stored,
  let tr := analyze_tc keccak table mode fu lim det stored polls0 in
  let plain := analyze_plain keccak table mode fu stored in
  (t_result tr = plain \/ exists st, t_result tr = PErrStopped st) /\
  (stop_at lim = None -> t_result tr = plain) /\
  polls0 <= t_polls tr /\
  (forall j, stop_at lim = Some j -> polls0 <= j ->
     (t_result tr = plain /\ t_polls tr <= j) \/ ((exists st, t_result tr = PErrStopped st) /\ t_polls tr = j + 1)).
Proof. exact analyze_tc_spec. Qed.
Print Assumptions pipeline_tc_plain_or_stop.

(* (C13) with a watchdog that never stops the result does not depend on the polling interval (>= 1) *)
Theorem pipeline_never_stop_interval_irrelevant : forall keccak table mode fu bytes c1 c2,
  same_but_interval c1 c2 ->
  analyze_model_fuel keccak table mode fu bytes c1 = analyze_model_fuel keccak table mode fu bytes c2.
Proof. exact never_stop_interval_irrelevant. Qed.
Print Assumptions pipeline_never_stop_interval_irrelevant.

(* (C13) if the answer stream turns to stop at poll j and the run makes more than j polls, the result is the watchdog
   stop -- StoppedByWatchdog from a type-checker stage, or the VM's error container holding StoppedByWatchdog -- never a
   layout built from partial work (PFuelVm: the model's own VM fuel ran out, not a result of the Rust code) *)
Theorem pipeline_stop_is_error : forall keccak table mode fu bytes (cfg : config) j,
  stop_at cfg = Some j -> j < t_polls (analyze_trace keccak table mode fu bytes cfg) ->
  watchdog_stop (analyze_model_fuel keccak table mode fu bytes cfg) \/ analyze_model_fuel keccak table mode fu bytes cfg = PFuelVm.
Proof. exact stop_is_error. Qed.
Print Assumptions pipeline_stop_is_error.

Theorem pipeline_stop_is_not_a_layout : forall r l, watchdog_stop r -> r <> PLayout l.
Proof. exact watchdog_stop_not_layout. Qed.
Print Assumptions pipeline_stop_is_not_a_layout.

(* (C13) B = poll_every + 1: after the stream has turned to stop at poll j the whole run makes at most
   j + poll_every + 1 polls (a stop first seen by a bulk-copy loop kills that thread; the main loop goes on for at
   most poll_every - 1 iterations, each of which can start one more copy loop that polls once, and stops at its own
   next poll; every type-checker loop stops at its first poll) *)
Theorem pipeline_stops_within_bound : forall keccak table mode fu bytes (cfg : config) j,
  stop_at cfg = Some j -> t_polls (analyze_trace keccak table mode fu bytes cfg) <= j + poll_every cfg + 1.
Proof. exact stops_within_bound. Qed.
Print Assumptions pipeline_stops_within_bound.

(* (C17) strict mode returns a layout => permissive mode returns the same layout *)
Theorem pipeline_strict_success_same_as_permissive : forall keccak table mode fu bytes L l,
  analyze_model_fuel keccak table mode fu bytes (mk_config' L false) = PLayout l ->
  analyze_model_fuel keccak table mode fu bytes (mk_config' L true) = PLayout l.
Proof. exact strict_success_same_as_permissive. Qed.
Print Assumptions pipeline_strict_success_same_as_permissive.

(* (C17) the VM errors permissive mode reports are among those strict mode reports *)
Theorem pipeline_permissive_errors_subset : forall keccak table mode fu bytes L e,
  analyze_model_fuel keccak table mode fu bytes (mk_config' L true) = PErrVm e ->
  exists e', analyze_model_fuel keccak table mode fu bytes (mk_config' L false) = PErrVm e' /\ incl e e'.
Proof. exact permissive_errors_subset. Qed.
Print Assumptions pipeline_permissive_errors_subset.

(* the hypotheses are satisfiable by non-trivial values: caller -> slot 0; slot 0 & address mask -> slot 1 gives two
   address rows; a program without storage opcodes the empty layout; a read of the literal key 2^64 a row at 2^64 *)
Definition ex_cfg : config := mk_config 30000000 10 50 250 394 false 100 None.
Example pipeline_examples :
  analyze_model (fun _ => 0) []
    [51;95;85;115;255;255;255;255;255;255;255;255;255;255;255;255;255;255;255;255;255;255;255;255;95;84;22;96;1;85;0] ex_cfg
  = PLayout [(0, 0, AT "Address" [] []); (1, 0, AT "Address" [] [])]
  /\ analyze_model (fun _ => 0) [] [96;1;96;2;1;96;0;82;96;32;96;0;243] ex_cfg = PLayout []
  /\ analyze_model (fun _ => 0) [] [104;1;0;0;0;0;0;0;0;0;84;80] ex_cfg = PLayout [(18446744073709551616, 0, AT "Any" [] [])]
  /\ analyze_model_fuel (fun _ => 0) [] (MSeeded 7) default_fuels
       [51;95;85;115;255;255;255;255;255;255;255;255;255;255;255;255;255;255;255;255;255;255;255;255;95;84;22;96;1;85;0] ex_cfg
     = PLayout [(0, 0, AT "Address" [] []); (1, 0, AT "Address" [] [])].
Proof. repeat split; vm_compute; reflexivity. Qed.

(* the watchdog: the same program stopped at poll 33 of 1-spaced polls ends in assign_vars with 34 polls made; a
   bad jump is an error in strict mode only *)
Example pipeline_watchdog_examples :
  let p := [51;95;85;115;255;255;255;255;255;255;255;255;255;255;255;255;255;255;255;255;255;255;255;255;95;84;22;96;1;85;0] in
  let tr := analyze_trace (fun _ => 0) [] MSorted default_fuels p (mk_config 30000000 10 50 250 394 false 1 (Some 33)) in
  t_result tr = PErrStopped 2 /\ t_polls tr = 34 /\
  analyze_model (fun _ => 0) [] [96;9;86;0] (mk_config 30000000 10 50 250 394 false 100 None) = PErrVm [(2, ENonExistentJumpTarget)] /\
  analyze_model (fun _ => 0) [] [96;9;86;0] (mk_config 30000000 10 50 250 394 true 100 None) = PLayout [].
Proof. cbv zeta. repeat split; vm_compute; reflexivity. Qed.
