(* C15 (unification-level half) -- after unification a class of compatible evidence resolves to the join.
   Only statements, `exact lemma`, and Print Assumptions live here.  (The merge-level half -- the lattice of
   word evidence, `merge` on words IS the join -- is props/C15.v; this file carries it through union-find,
   rounds and component equalities.)

   Setting: a judgement set without packed encodings (`packed_free`: then no evidence travels between
   classes as a re-added judgement).  `class_evidence_of st s x` lists ALL the non-equality evidence of the
   judgement set that was given for ANY variable whose root in the resulting forest `s` is x's root.
   `resolves_to_join ev d` (d = what `get_data` returns for x):
     - ev has word evidence w1..wk: d = Some [Word (join w1..wk)] if the lattice join exists -- a known width and
       the most specific usage are kept, never a conflict for compatible evidence --, and d = Some [a conflict]
       if it does not (two different widths, incompatible usages);
     - ev is only Any: d = Some [Any];  ev is empty: no data (`type_of` answers Any). *)
From SLX Require Import Base VectorMap DisjointSet gen.Constants gen.WordUseTable TypeExpr Merge Unify.
From Coq Require Import String.
From SLX Require Import gen.ValueSig UnifyOrder Register AbiT Layout Abi Pipeline gen.RulesSig proofs.UnifyProofs proofs.UnifyOrderProofs proofs.UnifyCtorKept proofs.LayoutJoin.
Open Scope N_scope.

Theorem C15_unify_words_join : forall fuel o st s n x, orders_ok o -> packed_free st = true ->
  unify fuel o st = Ok (s, n) ->
  (forall e, In e (class_evidence_of st s x) -> is_word e || is_any e = true) ->
  exists s' d, ds_get_data iset s x = Ok (s', d) /\
    match words_of (class_evidence_of st s x) with
    | [] => match class_evidence_of st s x with
            | [] => d = None \/ d = Some []
            | _ => d = Some [Any]
            end
    | w :: l =>
        match wordev_join_all w l with
        | Some j => d = Some [word_of j]
        | None => exists c, d = Some [c] /\ is_conflict c = true
        end
    end.
Proof. exact unify_words_join_proof. Qed.

(* non-vacuity: Address spread over three equated variables as (unknown width, Numeric), (160, Bytes) and
   (unknown width, Address); a fourth variable holds a contradiction *)
Example C15_unify_hyps_met :
  let st := mk_tstate [(0, [Equal 1; Word None UNumeric]); (1, [Equal 0; Equal 2; Word (Some 160) UBytes]);
                       (2, [Equal 1; Word None UAddress]); (3, [Word (Some 8) UBool; Word (Some 160) UAddress])] 4 in
  packed_free st = true /\
  match unify 6 orders_sorted st with
  | Ok (s, _) =>
      (match ds_get_data iset s 0 with Ok (_, d) => d = Some [Word (Some 160) UAddress] | _ => False end) /\
      (match ds_get_data iset s 3 with Ok (_, Some [c]) => is_conflict c = true | _ => False end)
  | _ => False
  end.
Proof. split; [reflexivity|]. vm_compute. split; reflexivity. Qed.

(* Constructed types keep their structure.  On the order-free fragment (no packed encodings; the congruence closure `CC` of
   declared and component equalities is homogeneous: mappings meet mappings, arrays of one length meet each other, ...), for
   EVERY iteration order and fuel: if a piece of constructed evidence e (a mapping, a fixed or a dynamic array) was given for
   ANY variable x, every variable y of x's class resolves to exactly one type t, never a conflict, of e's constructor (and
   length), whose components lie in the classes of e's components (`ctor_match (CC st) t e`) -- "mappings and arrays keep
   their structure with unified components". *)
Theorem C15_unify_ctor_kept : forall st o fuel s n x e y, order_free st = true -> orders_ok o -> unify fuel o st = Ok (s, n) ->
  In (x, e) (ev_list st) -> is_ctor e = true -> CC st x y ->
  exists s' t, ds_get_data iset s y = Ok (s', Some [t]) /\ ctor_match (CC st) t e /\ is_conflict t = false.
Proof. exact unify_ctor_kept_proof. Qed.

(* non-vacuity: two mappings meet through an equality; the class resolves to a mapping whose key class holds 2 and 3 *)
Example C15_unify_ctor_hyps_met :
  let st := mk_tstate [(0, [Equal 1; Mapping 2 0]); (1, [Equal 0; Mapping 3 4]); (2, [Word (Some 8) UBool]);
                       (3, [Word (Some 160) UAddress]); (4, []); (5, [DynamicArray 2; DynamicArray 3])] 6 in
  order_free st = true /\ In (0, Mapping 2 0) (ev_list st) /\ is_ctor (Mapping 2 0) = true /\
  same_in (part_of (cc st)) 0 1 = true /\
  match unify 8 orders_sorted st with
  | Ok (s, _) => match ds_get_data iset s 1 with Ok (_, Some [Mapping _ _]) => True | _ => False end
  | _ => False
  end.
Proof. vm_compute. repeat split; auto. Qed.

(* Through the layout loop: what the USER sees for a constant slot whose class carries word evidence is the join.  For every
   iteration order and fuel, after unifying a packed-free judgement set the layout built for a constant-slot value x is the
   single row (slot index, bit 0, ABI type of the join of ALL word evidence of x's class) -- the known width and the most
   specific usage -- and a conflicted type when the evidence has no join; never a silent choice of one side. *)
Theorem C15_layout_reports_join : forall fuel o st s n x index w l j t afuel,
  orders_ok o -> packed_free st = true -> unify fuel o st = Ok (s, n) ->
  (forall e, In e (class_evidence_of st s (tv_of x)) -> is_word e || is_any e = true) ->
  words_of (class_evidence_of st s (tv_of x)) = w :: l -> wordev_join_all w l = Some j ->
  const_slot_key x = Some index -> tv_of x < n ->
  word_abi (word_of j) (fst j) (snd j) = Ok t ->
  build_layout abi_nested_add abi_nested_fit (env_of_forest s n) (S afuel) [x] [] = Ok [(index, 0, t)].
Proof. exact layout_reports_join_proof. Qed.

Theorem C15_layout_reports_conflict : forall fuel o st s n x index w l afuel,
  orders_ok o -> packed_free st = true -> unify fuel o st = Ok (s, n) ->
  (forall e, In e (class_evidence_of st s (tv_of x)) -> is_word e || is_any e = true) ->
  words_of (class_evidence_of st s (tv_of x)) = w :: l -> wordev_join_all w l = None ->
  const_slot_key x = Some index -> tv_of x < n ->
  build_layout abi_nested_add abi_nested_fit (env_of_forest s n) (S afuel) [x] [] = Ok [(index, 0, a_conflict)].
Proof. exact layout_reports_conflict_proof. Qed.

(* non-vacuity: slot 7 typed by variable 0 of C15_unify_hyps_met's set is reported as an address; slot 8 typed by the
   contradictory variable 3 as a conflicted type *)
Example C15_layout_hyps_met :
  let st := mk_tstate [(0, [Equal 1; Word None UNumeric]); (1, [Equal 0; Equal 2; Word (Some 160) UBytes]);
                       (2, [Equal 1; Word None UAddress]); (3, [Word (Some 8) UBool; Word (Some 160) UAddress])] 4 in
  match unify 6 orders_sorted st with
  | Ok (s, n) =>
      build_layout abi_nested_add abi_nested_fit (env_of_forest s n) 5 [TN 0 T_StorageSlot [] [TN 9 T_KnownData [7] []]] []
        = Ok [(7, 0, AT "Address" [] [])] /\
      build_layout abi_nested_add abi_nested_fit (env_of_forest s n) 5 [TN 3 T_StorageSlot [] [TN 9 T_KnownData [8] []]] []
        = Ok [(8, 0, a_conflict)]
  | _ => False
  end.
Proof. vm_compute. split; reflexivity. Qed.

Print Assumptions C15_unify_words_join.
Print Assumptions C15_unify_ctor_kept.
Print Assumptions C15_layout_reports_join.
Print Assumptions C15_layout_reports_conflict.
