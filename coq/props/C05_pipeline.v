(* C05 end to end on the composed model (attribution of every row).  Only statements, `exact lemma` and Print Assumptions.

   props/Pipeline.v `pipeline_storage_free_empty`: no SLOAD / SSTORE in the stream => the layout is empty.  This file attributes
   the rows of EVERY returned layout: for every byte string, configuration, keccak function, slot table, order mode and fuel,
   a row with slot index w exists only if one of the lifted values (the nine passes applied to the values the VM collected
   from its retired states) contains a StorageSlot node whose key is the literal w.  Registration adds one typed node per
   subterm and nothing else, the rules and `merge` only allocate synthetic Value nodes, unification and abi_type_for never
   invent an index.  Which StorageSlot nodes the passes create is the stage half: only at or below an executed storage access
   (C05_lifts_only_under_access), with literal keys taken from key constants, table preimages and constant additions outside
   the known class K3 (C05_lifts_only_in_keys_outside_K3, K3_refuted). *)
From Coq Require Import String.
From SLX Require Import Base gen.Constants SymVal Disasm VM Fold PassesSlots Register AbiT Layout Abi Pipeline TcCases.
From SLX.proofs Require Import PipelineAttribution.
Open Scope N_scope.

Theorem pipeline_rows_attributed : forall keccak table mode fu bytes cfg l,
  analyze_model_fuel keccak table mode fu bytes cfg = PLayout l ->
  exists code m lifted,
    try_from bytes = Ok code /\ run_p constant_fold (f_vm fu) (init_vm code cfg) = RDone m /\
    Forall2 (fun v v' => lift_value keccak table v = Ok v') (unique (all_values mode (v_stored m))) lifted /\
    forall e, In e l -> exists v, In v lifted /\ slot_node_of (fst (fst e)) v.
Proof. exact pipeline_rows_attributed_lemma. Qed.

(* the attribution is tight (the C06 direction at the same level): every StorageSlot node with a literal key that occurs in a
   lifted value IS reported, whatever unification made of its type -- so the set of reported slot indices is exactly the set
   of literal keys of the StorageSlot nodes of the lifted values *)
Theorem pipeline_slot_nodes_reported : forall keccak table mode fu bytes cfg l,
  analyze_model_fuel keccak table mode fu bytes cfg = PLayout l ->
  exists lifted, (exists code m, try_from bytes = Ok code /\ run_p constant_fold (f_vm fu) (init_vm code cfg) = RDone m /\
    Forall2 (fun v v' => lift_value keccak table v = Ok v') (unique (all_values mode (v_stored m))) lifted) /\
  forall c v, In v lifted -> In (slot_sv c) (subterms v) -> exists off ty, In (c, off, ty) l.
Proof. exact pipeline_slot_nodes_reported_lemma. Qed.

(* registration: every expression of the state is the typed image of a subterm of a registered value *)
Theorem register_only_subterms : forall l w x, In (w, x) (exprs (snd (assign_vars l))) ->
  exists v, In v l /\ In (erase x) (subterms v).
Proof.
  intros l w x H. unfold assign_vars in H.
  destruct (reg_list_exprs_from l empty_tcs RegisterProofs.inv_empty w x H) as [[]|G]. exact G.
Qed.

(* non-vacuity: `sstore(0, caller); sstore(1, sload(0) & (2^160 - 1))` -- the lifted values of the run contain StorageSlot nodes
   with the literal keys 0 and 1 and with no other key below 8, and the layout has exactly those two indices *)
Example pipeline_attribution_hyps_met :
  let p := [51;95;85;115;255;255;255;255;255;255;255;255;255;255;255;255;255;255;255;255;255;255;255;255;95;84;22;96;1;85;0] in
  let tr := analyze_trace (fun _ => 0) [] MSorted default_fuels p (mk_config 30000000 10 50 250 394 false 100 None) in
  t_result tr = PLayout [(0, 0, AT "Address" [] []); (1, 0, AT "Address" [] [])] /\
  match t_lifted tr with
  | Some lifted =>
      map (fun c => existsb (fun v => existsb (sv_eqb (slot_sv c)) (subterms v)) lifted) [0; 1; 2; 3; 4; 5; 6; 7]
      = [true; true; false; false; false; false; false; false]
  | None => False
  end.
Proof. vm_compute. split; reflexivity. Qed.

Print Assumptions pipeline_rows_attributed.
Print Assumptions register_only_subterms.
Print Assumptions pipeline_slot_nodes_reported.
