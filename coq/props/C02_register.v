(* C02 at the registration and inference-rule stages: the value table and the rule set are iterated in hash order
   in the real code; the layout may only depend on bytecode and configuration.

   register_order        registering a PERMUTATION of the value list gives the same state up to a bijective renaming
                         of the type variables (typed trees, expression table, variable counter; the inference sets
                         are all empty at that point);
   infer_order           that renaming, extended to the variables the mapping rule allocates, commutes with
                         `infer_all`: the judgement SETS after the 16 rules correspond variable by variable;
   infer_rule_order_independent
                         applying the 16 rules in any order (any permutation of InferenceRules::default()) gives the
                         same counter, the same expression table and the same judgement set for every variable --
                         without any renaming, because only one rule allocates.
   Statements only; proofs in proofs/RegisterOrderProofs.v, RuleOrderProofs.v, InferOrderProofs.v. *)
From Coq Require Import String Permutation.
From SLX Require Import Base Word256 gen.Constants gen.ValueSig gen.WordUseTable gen.RulesSig SymVal TypeExpr Register Rules.
From SLX Require Import proofs.RegisterProofs proofs.RulesProofs proofs.RuleOrderProofs proofs.RegisterOrderProofs proofs.InferOrderProofs.
Open Scope N_scope.

(* the statement left open in props/TcStages.v (register_order_partial): now in full *)
Theorem register_order : forall vs (sigma : list nat),
  let vs' := map (fun i => nth i vs (Node T_Value [0] [])) sigma in
  Permutation (seq 0 (length vs)) sigma ->
  exists rho : tyvar -> tyvar,
    (forall v w, v < next (snd (assign_vars vs)) -> w < next (snd (assign_vars vs)) -> rho v = rho w -> v = w) /\
    next (snd (assign_vars vs')) = next (snd (assign_vars vs)) /\
    fst (assign_vars vs') = map (fun i => rename_tsv rho (nth i (fst (assign_vars vs)) (TN 0 T_Value [0] []))) sigma.
Proof. exact register_order_lemma. Qed.

(* ... with the rest of the state: rho is a bijection of the variables in use, the identity above them, and maps
   the expression table of one run onto that of the other *)
Theorem register_order_full : forall vs sigma, Permutation (seq 0 (length vs)) sigma ->
  let vs' := map (fun i => nth i vs dsv) sigma in
  let st := snd (assign_vars vs) in let st' := snd (assign_vars vs') in
  exists rho : tyvar -> tyvar,
    next st' = next st /\
    (forall w, w < next st -> rho w < next st) /\
    (forall w1 w2, w1 < next st -> w2 < next st -> rho w1 = rho w2 -> w1 = w2) /\
    (forall w', w' < next st -> exists w, w < next st /\ rho w = w') /\
    (forall w, next st <= w -> rho w = w) /\
    fst (assign_vars vs') = map (fun i => rename_tsv rho (nth i (fst (assign_vars vs)) dtsv)) sigma /\
    (forall x, in_exprs st x -> in_exprs st' (rename_tsv rho x)) /\
    (forall x', in_exprs st' x' -> exists x, in_exprs st x /\ rename_tsv rho x = x').
Proof. exact register_order_full_lemma. Qed.

(* the inference sets are empty after assign_vars, in both runs *)
Theorem register_leaves_no_judgements : forall vs w, jset (snd (assign_vars vs)) w = [].
Proof. exact assign_vars_infs_empty. Qed.

(* the general form: two "worlds" (state + roots with the four order-independent properties of a registration)
   over the same values root by root are renamings of each other *)
Theorem registered_worlds_renaming : forall st st' prs,
  world st (map fst prs) -> world st' (map snd prs) -> (forall p, In p prs -> erase (fst p) = erase (snd p)) ->
  let rho := rho_of prs in
  next st = next st' /\
  (forall w, w < next st -> rho w < next st') /\
  (forall w1 w2, w1 < next st -> w2 < next st -> rho w1 = rho w2 -> w1 = w2) /\
  (forall w', w' < next st' -> exists w, w < next st /\ rho w = w') /\
  (forall w, next st <= w -> rho w = w) /\
  (forall p, In p prs -> rename_tsv rho (fst p) = snd p) /\
  (forall x, in_exprs st x -> in_exprs st' (rename_tsv rho x)) /\
  (forall x', in_exprs st' x' -> exists x, in_exprs st x /\ rename_tsv rho x = x').
Proof. exact worlds_renaming. Qed.

Theorem assign_vars_is_world : forall vs, world (snd (assign_vars vs)) (fst (assign_vars vs)).
Proof. exact assign_vars_world. Qed.

(* infer_order: the renaming commutes with the 16 rules.  rho is a bijection of N that maps the variables in use
   after inference onto themselves; the typed trees correspond; and e is a judgement of w in the first run exactly
   when (rename e) is a judgement of (rho w) in the second.  (rename_te leaves conflict payloads alone: rules never
   emit conflicts.) *)
Theorem infer_order : forall vs sigma, Permutation (seq 0 (length vs)) sigma ->
  let vs' := map (fun i => nth i vs dsv) sigma in
  forall s1 s2, infer_all default_rule_set (snd (assign_vars vs)) = Ok s1 -> infer_all default_rule_set (snd (assign_vars vs')) = Ok s2 ->
  exists rho : tyvar -> tyvar,
    next s2 = next s1 /\
    (forall a b, rho a = rho b -> a = b) /\
    (forall w, w < next s1 -> rho w < next s1) /\
    (forall w', w' < next s1 -> exists w, w < next s1 /\ rho w = w') /\
    (forall w, next s1 <= w -> rho w = w) /\
    fst (assign_vars vs') = map (fun i => rename_tsv rho (nth i (fst (assign_vars vs)) dtsv)) sigma /\
    forall w e, In e (jset s1 w) <-> In (rename_te rho e) (jset s2 (rho w)).
Proof. exact infer_order_lemma. Qed.

(* every rule is structural in the typed tree *)
Theorem rules_equivariant : Forall equivariant default_rule_set.
Proof. exact default_rules_equivariant. Qed.

(* all rules but the mapping rule neither allocate nor look at the fresh variable *)
Theorem rules_pure : forall name, In name default_rules -> name <> ALLOCATOR -> pure (rule_named name).
Proof. exact default_rules_pure. Qed.

(* infer_rule_order_independent: the rule set applied in any order *)
Theorem infer_rule_order_independent : forall names, Permutation names default_rules ->
  forall st xs s1 s2, winv st ->
    infer_values (map rule_named names) xs st = Ok s1 -> infer_values default_rule_set xs st = Ok s2 ->
    next s1 = next s2 /\ exprs s1 = exprs s2 /\ map fst (infs s1) = map fst (infs s2) /\
    forall w e, In e (jset s1 w) <-> In e (jset s2 w).
Proof. exact infer_rule_order_independent_lemma. Qed.

(* ... and every order returns Ok on a registered state *)
Theorem infer_rule_order_total : forall names vs, Permutation names default_rules ->
  exists s1, infer_all (map rule_named names) (snd (assign_vars vs)) = Ok s1.
Proof. exact infer_rule_order_total_lemma. Qed.

(* what `state.infer` does to the sets: the engine of both proofs *)
Theorem infer_adds_exactly : forall st v e st', st_infer st v e = Ok st' ->
  forall w x, In x (jset st' w) <-> In x (jset st w) \/ In (w, x) (eff (v, e)).
Proof. exact st_infer_char. Qed.

(* the hypotheses are met by a non-trivial instance: a mapping slot and a constant registered in both orders; the
   fresh variable of the mapping rule is 5 in one run and 6 in the other *)
Example order_instance :
  let a := Node T_StorageSlot [] [Node T_MappingIndex [0] [Node T_StorageSlot [] [Known 5]; Val 7]] in
  let b := Node T_SLoad [] [Node T_StorageSlot [] [Known 1]; Val 9] in
  Permutation (seq 0 2) [1; 0]%nat /\
  (exists s1 s2, infer_all default_rule_set (snd (assign_vars [a; b])) = Ok s1 /\
                 infer_all default_rule_set (snd (assign_vars [b; a])) = Ok s2 /\ next s1 = 10 /\ next s2 = 10 /\
                 jset s1 1 = [Mapping 2 9] /\ jset s2 5 = [Mapping 6 9]).
Proof. split; [apply perm_swap|]. vm_compute. eexists. eexists. repeat split. Qed.

Print Assumptions register_order.
Print Assumptions register_order_full.
Print Assumptions register_leaves_no_judgements.
Print Assumptions registered_worlds_renaming.
Print Assumptions assign_vars_is_world.
Print Assumptions infer_order.
Print Assumptions rules_equivariant.
Print Assumptions rules_pure.
Print Assumptions infer_rule_order_independent.
Print Assumptions infer_rule_order_total.
Print Assumptions infer_adds_exactly.
