(* C04 -- standard storage idioms are recovered with the right slot, kind and packing.
   The end-to-end statement (for every ground-truth layout the compiled code's analysis contains the
   expected entries) is decided by the ground-truth search of tools/p_c04.py with the predicate below
   evaluated inside Coq; the stage theorems for arbitrary nesting depth and slot are in the lifting-pass
   developments (props/PassesSlots.v, props/PassesPacking.v once merged).  Partial. *)
From Coq Require Import String.
From SLX Require Import Base AbiT LayoutCases.
Open Scope N_scope.

(* what the executable comparison means for a packed word: every ground-truth field has an entry at its
   bit offset whose type has exactly the field's width *)
Theorem C04_checker_packed : forall l s fs, gvar_ok l (GPacked s fs) = true ->
  forall off size, In (off, size) fs -> exists a, find_entry l s off = Some a /\ aty_width a = Some size.
Proof.
  intros l s fs H off size Hin. cbn [gvar_ok] in H. rewrite forallb_forall in H. specialize (H _ Hin). cbn [fst snd] in H.
  destruct (find_entry l s off) as [a|]; [|discriminate]. exists a. split; [reflexivity|].
  destruct (aty_width a) as [w|]; [|discriminate]. apply N.eqb_eq in H. now subst.
Qed.

(* ... and for an address-masked word: an entry at offset 0 that is 160 bits wide *)
Theorem C04_checker_address : forall l s, gvar_ok l (GAddr s) = true ->
  exists a, find_entry l s 0 = Some a /\ is_160 a = true.
Proof.
  intros l s H. cbn [gvar_ok] in H. destruct (find_entry l s 0) as [a|]; [|discriminate]. eauto.
Qed.

Print Assumptions C04_checker_packed.
Print Assumptions C04_checker_address.
