(* C06 -- see tools/p_c06.py: the property predicate is defined in LayoutCases.v and evaluated inside Coq
   on the implementation's output; stage theorems are in the VM and lifting-pass developments. *)
From Coq Require Import String.
From SLX Require Import Base gen.ValueSig gen.OpcodeTable gen.OpcodeSem SymVal Micro VM AbiT VmCases LayoutCases proofs.VmStorage.
Open Scope N_scope.

(* what passing the coverage predicate means: every literal key of every retired state that is not the
   hash of a small slot number is the index of some layout entry *)
Theorem C06_checker_meaning : forall c,
  xa_class (s_res c) = 0 -> c06_code c = 0 ->
  forall st k g w, In st (all_states (s_run c)) -> In (k, g) (sto_known st) -> as_word k = Some w ->
  (forall p, In p (s_preimages c) -> fst p <> w) ->
  exists e, In e (xa_layout (s_res c)) /\ e_index e = w.
Proof.
  intros c Hc H st k g w Hst Hk Hw Hpre. unfold c06_code in H. rewrite Hc in H.
  match type of H with (if forallb ?f ?l then _ else _) = _ => destruct (forallb f l) eqn:E; [|discriminate] end.
  rewrite forallb_forall in E.
  assert (Hin : In w (filter (fun w0 => negb (existsb (fun p => fst p =? w0) (s_preimages c)))
                (flat_map (fun st0 => flat_map (fun k0 => match as_word k0 with Some w0 => [w0] | None => [] end)
                                              (map fst (sto_known st0))) (all_states (s_run c))))).
  { apply filter_In. split.
    - apply in_flat_map. exists st. split; [exact Hst|]. apply in_flat_map. exists k. split.
      + apply in_map_iff. exists (k, g). auto.
      + rewrite Hw. now left.
    - apply negb_true_iff. apply not_true_is_false. intros Hex. apply existsb_exists in Hex.
      destruct Hex as (p & Hp & Heq). apply N.eqb_eq in Heq. exact (Hpre p Hp Heq). }
  specialize (E _ Hin). apply existsb_exists in E. destruct E as (s & Hs & Heq). apply N.eqb_eq in Heq. subst s.
  apply in_map_iff in Hs. destruct Hs as (e & He & Hine). exists e. auto.
Qed.

(* VM level, for every folding function, all limits, every key (literal or not, any 256-bit constant):
   executing SLOAD / SSTORE -- in the form the translator read from the source on this run -- leaves a
   generation for the key in the thread's storage ... *)
Theorem C06_sload_leaves_generation : forall fold cfg ie c k s lim c',
  op_sem memory_SLoad = Some [MPop 0 false; MSLoad 1 0 lim; MPush 1] ->
  stack (o_st c) = k :: s ->
  run_mops fold cfg ie [MPop 0 false; MSLoad 1 0 lim; MPush 1] c = (c', None) -> has_key (o_st c') k.
Proof. intros fold cfg ie c k s lim c' _. apply sload_program_leaves_key. Qed.

Theorem C06_sstore_leaves_generation : forall fold cfg ie c k v s c',
  op_sem memory_SStore = Some [MPop 0 false; MPop 1 false; MSStore 0 1] ->
  stack (o_st c) = k :: v :: s ->
  run_mops fold cfg ie [MPop 0 false; MPop 1 false; MSStore 0 1] c = (c', None) -> has_key (o_st c') k.
Proof. intros fold cfg ie c k v s c' _. apply sstore_program_leaves_key. discriminate. Qed.

Theorem C06_translated_bodies_have_these_shapes :
  (exists lim, op_sem memory_SLoad = Some [MPop 0 false; MSLoad 1 0 lim; MPush 1]) /\
  op_sem memory_SStore = Some [MPop 0 false; MPop 1 false; MSStore 0 1].
Proof. exact sload_sstore_shapes. Qed.

(* ... no micro-operation of any opcode body ever removes a storage key ... *)
Theorem C06_storage_keys_monotone : forall fold cfg ie ms c,
  keys_kept (o_st c) (o_st (fst (run_mops fold cfg ie ms c))).
Proof. exact run_mops_keeps. Qed.

(* ... and a thread that leaves the queue has its state appended to the stored states unchanged (killed,
   errored, out of gas or limit-retired alike: `advance` is the only way out of the queue) *)
Theorem C06_retired_state_is_stored : forall m t rest forked,
  v_stored (advance m t rest forked) = v_stored m \/
  v_stored (advance m t rest forked) = v_stored m ++ [(tstate t, tvis t)].
Proof. exact advance_stores. Qed.

Print Assumptions C06_checker_meaning.
Print Assumptions C06_sload_leaves_generation.
Print Assumptions C06_sstore_leaves_generation.
Print Assumptions C06_translated_bodies_have_these_shapes.
Print Assumptions C06_storage_keys_monotone.
Print Assumptions C06_retired_state_is_stored.
