(* C06 -- see tools/p_c06.py: the property predicate is defined in LayoutCases.v and evaluated inside Coq
   on the implementation's output; stage theorems are in the VM and lifting-pass developments. *)
From Coq Require Import String.
From SLX Require Import Base gen.ValueSig SymVal VM AbiT VmCases LayoutCases.
Open Scope N_scope.

(* what passing the coverage predicate means: every literal key of every retired state that is not the
   hash of a small slot number is the index of some layout entry *)
Theorem C06_checker_meaning : forall c,
  xa_class (s_res c) = 0 -> c06_code c = 0 ->
  forall st k g w, In st (all_states (s_run c)) -> In (k, g) (sto_known st) -> as_word k = Some w ->
  (forall p, In p (s_preimages c) -> fst p <> w) ->
  exists e, In e (xa_layout (s_res c)) /\ e_index e = w.
Proof.
  intros c Hc H st k g w Hst Hk Hw Hpre. unfold c06_code in H. rewrite Hc in H.
  match type of H with (if forallb ?f ?l then _ else _) = _ => destruct (forallb f l) eqn:E; [|discriminate] end.
  rewrite forallb_forall in E.
  assert (Hin : In w (filter (fun w0 => negb (existsb (fun p => fst p =? w0) (s_preimages c)))
                (flat_map (fun st0 => flat_map (fun k0 => match as_word k0 with Some w0 => [w0] | None => [] end)
                                              (map fst (sto_known st0))) (all_states (s_run c))))).
  { apply filter_In. split.
    - apply in_flat_map. exists st. split; [exact Hst|]. apply in_flat_map. exists k. split.
      + apply in_map_iff. exists (k, g). auto.
      + rewrite Hw. now left.
    - apply negb_true_iff. apply not_true_is_false. intros Hex. apply existsb_exists in Hex.
      destruct Hex as (p & Hp & Heq). apply N.eqb_eq in Heq. exact (Hpre p Hp Heq). }
  specialize (E _ Hin). apply existsb_exists in E. destruct E as (s & Hs & Heq). apply N.eqb_eq in Heq. subst s.
  apply in_map_iff in Hs. destruct Hs as (e & He & Hine). exists e. auto.
Qed.

Print Assumptions C06_checker_meaning.
