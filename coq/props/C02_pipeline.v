(* C02, end to end on the composed model: on a DECIDABLE fragment of judgement sets the layout does not depend on the
   hash-iteration orders of unification::unify nor on the order of the layout loop of TypeChecker::unify.

   Vocabulary: PipelineOrderDefs.v.  The composed model is split after inference (`front_plain`, then `back_run`;
   `analyze_mixed .. mf mb` = front half under mode mf, back half under mode mb; `pipeline_split`: with one mode it is
   `Pipeline.analyze_plain`).  The fragment is
       order_fragment st = order_free st && seen_safe st && wf_b st
   `order_free`  (UnifyOrder.v, props/C02_unify.v) no packed encodings, the congruence closure is homogeneous;
   `seen_safe`   two constructed types whose components lie pairwise in one class are themselves in one class -- needed
                 because abi_type_for_impl's `seen` set holds type EXPRESSIONS and is never popped, so a class whose resolved
                 type is syntactically the resolved type of another class is reported as InfiniteType, and which evidence
                 item becomes the resolved type depends on the fold order (`pipeline_order_dependent_refuted`, first part:
                 a judgement set INSIDE order_free with two different layouts);
   `wf_b`        only allocated variables are named and every allocated variable has an entry (what registration and
                 inference produce).

   What is and is not covered.  Registration numbers the type variables in the order the values are visited, so two
   modes of the FRONT half give judgement sets that differ by a renaming; invariance under that renaming is not proved.
   The theorems therefore fix the judgement set: `pipeline_back_order_independent` (any two `orders_ok` hook records, any
   two permutations of the value list), `pipeline_order_independent` (the composed model, front mode fixed, back modes
   free) and `pipeline_order_independent_modes` (two modes of the whole type checker, under the hypothesis that their
   front halves return the same state).
   Rows with equal (slot, offset) keys: the layout is a stable sort of the rows in visiting order, so two visiting orders
   give the same MULTISET of rows, both sorted by key (`results_agree`: Permutation), and the same LIST as soon as no two
   different rows share a key (`key_functional`).  With one visiting order (only the unifier's orders differ) the lists
   are equal outright and failures are of the same kind (`pipeline_unify_order_independent`, `results_same`).
   The fuel hypothesis `|vars| + 2 <= rounds` makes both unifications finish (C03's bound on the packed-free fragment).

   Only statements, `exact lemma`, Print Assumptions; proofs: proofs/PipelineOrder.v, AbiOrder.v, UnifyTotal.v. *)
From Coq Require Import String Permutation.
From SLX Require Import Base gen.Constants gen.ValueSig gen.WordUseTable gen.RulesSig SymVal TypeExpr Merge VectorMap DisjointSet
  Register Unify UnifyOrder AbiT Layout Abi NoPanic Pipeline PipelineOrderDefs.
From SLX.proofs Require Import UnifyProofs UnifyOrderProofs UnifyTotal LayoutProofs AbiOrder PipelineOrder.
Open Scope N_scope.

(* ---- the split model is the composed model ---- *)
Theorem pipeline_split : forall keccak table m fu stored,
  analyze_mixed keccak table m m fu stored = analyze_plain keccak table m fu stored.
Proof. exact analyze_mixed_same. Qed.
Print Assumptions pipeline_split.

(* ---- the end-to-end statements ---- *)
(* unification + layout loop on one judgement set: any two hook records, any two visiting orders *)
Theorem pipeline_back_order_independent : forall st' o1 o2 arr1 arr2 rounds,
  order_fragment (tstate_of st') = true -> orders_ok o1 -> orders_ok o2 ->
  (forall l, Permutation (arr1 l) l) -> (forall l, Permutation (arr2 l) l) ->
  (length (ts_vars (tstate_of st')) + 2 <= rounds)%nat ->
  results_agree (back_run o1 arr1 rounds st') (back_run o2 arr2 rounds st').
Proof. exact back_order_independent_lemma. Qed.
Print Assumptions pipeline_back_order_independent.

(* only the unifier's orders differ: the same list of rows, or the same kind of failure *)
Theorem pipeline_unify_order_independent : forall st' o1 o2 arr rounds,
  order_fragment (tstate_of st') = true -> orders_ok o1 -> orders_ok o2 ->
  (length (ts_vars (tstate_of st')) + 2 <= rounds)%nat ->
  results_same (back_run o1 arr rounds st') (back_run o2 arr rounds st').
Proof. exact back_unify_order_independent_lemma. Qed.
Print Assumptions pipeline_unify_order_independent.

(* the composed model, every program / hash function / table / fuel: front mode fixed, any two back modes *)
Theorem pipeline_order_independent : forall keccak table mf mb1 mb2 fu stored,
  (forall st', front_plain keccak table mf stored = inl st' ->
     order_fragment (tstate_of st') = true /\ (length (ts_vars (tstate_of st')) + 2 <= f_rounds fu)%nat) ->
  results_agree (analyze_mixed keccak table mf mb1 fu stored) (analyze_mixed keccak table mf mb2 fu stored).
Proof. exact pipeline_order_independent_lemma. Qed.
Print Assumptions pipeline_order_independent.

(* two modes of the whole type checker whose front halves agree *)
Theorem pipeline_order_independent_modes : forall keccak table m1 m2 fu stored,
  front_plain keccak table m1 stored = front_plain keccak table m2 stored ->
  (forall st', front_plain keccak table m1 stored = inl st' ->
     order_fragment (tstate_of st') = true /\ (length (ts_vars (tstate_of st')) + 2 <= f_rounds fu)%nat) ->
  results_agree (analyze_plain keccak table m1 fu stored) (analyze_plain keccak table m2 fu stored).
Proof. exact pipeline_order_independent_modes_lemma. Qed.
Print Assumptions pipeline_order_independent_modes.

(* ---- the two stage lemmas the composition needed ---- *)
(* (C14 addition) after a successful `unify`, every variable of the judgement set has a data entry: `type_of` answers
   Any, never UnificationFailure, for a class without evidence -- for every judgement set and every order *)
Theorem unify_data_total : forall o rounds st s n x, orders_ok o -> unify rounds o st = Ok (s, n) -> In x (ts_vars st) ->
  exists s' d, ds_get_data iset s x = Ok (s', Some d).
Proof. exact unify_total. Qed.
Print Assumptions unify_data_total.

(* abi_type_for respects class-relatedness: two class tables over one partition R whose data are related
   (`drel`: no entry / the empty set / one type each, equal up to R on the components, no Packed, no Equal), constant on
   classes, and in which equal type constructors belong to one class, give the same AbiValue for related variables (or
   errors of the same kind, or the same panic site) -- cycles are reported as InfiniteType in both *)
Theorem abi_type_for_respects_classes : forall nested_add fit env1 env2 (R : tyvar -> tyvar -> Prop),
  (forall x y, R x y -> R y x) -> (forall x y z, R x y -> R y z -> R x z) ->
  (forall x y, R x y -> has_expr env1 x = has_expr env2 y) ->
  (forall x y, R x y -> drel R (ty_data env1 x) (ty_data env2 y)) ->
  (forall x y, R x y -> ty_data env1 x = ty_data env1 y) ->
  (forall x y, R x y -> ty_data env2 x = ty_data env2 y) ->
  (forall x y e, ty_data env1 x = Some [e] -> ty_data env1 y = Some [e] -> is_type_constructor e = true -> R x y) ->
  (forall x y e, ty_data env2 x = Some [e] -> ty_data env2 y = Some [e] -> is_type_constructor e = true -> R x y) ->
  forall fuel x y, R x y ->
  out_rel eq (abi_type_for nested_add fit env1 fuel x) (abi_type_for nested_add fit env2 fuel y).
Proof. exact abi_type_for_rel. Qed.
Print Assumptions abi_type_for_respects_classes.

(* sorted layouts with the same rows and no two different rows at one key are the same list *)
Theorem layout_sorted_perm_unique : forall l1 l2,
  sorted_io l1 -> sorted_io l2 -> Permutation l1 l2 -> key_functional l1 -> l1 = l2.
Proof. exact sorted_perm_eq. Qed.
Print Assumptions layout_sorted_perm_unique.

(* ---- the hypotheses are needed ---- *)
Theorem pipeline_order_dependent_refuted :
  (order_free (tstate_of seen_witness) = true /\ wf_b (tstate_of seen_witness) = true /\
   seen_safe (tstate_of seen_witness) = false /\
   back_run orders_sorted arr_id 10 seen_witness =
     PLayout [(0, 0, AT "Mapping" [] [AT "Mapping" [] [a_any; a_any]; a_infinite])] /\
   back_run orders_sorted_rev arr_id 10 seen_witness =
     PLayout [(0, 0, AT "Mapping" [] [AT "Mapping" [] [a_any; a_any]; AT "Mapping" [] [a_any; a_any]])]) /\
  (order_free (tstate_of k1_witness) = false /\ seen_safe (tstate_of k1_witness) = true /\ wf_b (tstate_of k1_witness) = true /\
   back_run orders_sorted arr_id 10 k1_witness = PLayout [(0, 0, AT "DynArray" [] [a_any])] /\
   back_run orders_sorted_rev arr_id 10 k1_witness = PLayout [(0, 0, a_conflict)]).
Proof. exact pipeline_order_dependent_refuted_proof. Qed.
Print Assumptions pipeline_order_dependent_refuted.

(* non-vacuity: a judgement set with a self-referential mapping, mappings spread over equated variables, a dynamic array
   and contradicting words, typing three storage slots, is inside the fragment; the rounds suffice; the result is a
   layout, the same under the sorted hooks / given slot order and the reversed hooks / reversed slot order *)
Example C02_pipeline_hyps_met :
  order_fragment (tstate_of fragment_example) = true /\
  (length (ts_vars (tstate_of fragment_example)) + 2 <= 11)%nat /\
  is_layout (back_run orders_sorted arr_id 11 fragment_example) = true /\
  back_run orders_sorted arr_id 11 fragment_example = back_run orders_sorted_rev (@rev tsv) 11 fragment_example.
Proof. exact fragment_example_ok. Qed.
