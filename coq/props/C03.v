(* C03 -- analysis always halts, and execution stays within the configured bounds.
   Part 1 (this file, for now): the symbolic virtual machine.  The statements hold for EVERY program
   (list of instructions), every configuration with a positive iteration limit, every constant
   folding function and every watchdog answer stream; the bodies of the opcodes are whatever the
   translator read from the Rust source on this run. *)
From SLX Require Import Base gen.Constants gen.OpcodeTable SymVal Disasm VM proofs.VmBounds.
Open Scope N_scope.

Section C03.
Variable fold : sv -> sv.
Variable code : list instr.
Variable cfg : config.
Hypothesis Hiter : 1 <= iter_limit cfg.
Hypothesis Hcode : code <> [].

(* the machine state after any number n of main-loop iterations (or at the end, if it ended earlier) *)
Definition reached (n : nat) : vm := result_state (run fold n (init_vm code cfg)).

(* no thread -- retired or still queued -- has executed any instruction more often than the limit *)
Theorem C03_visit_bound : forall n o,
  (forall st vis, In (st, vis) (v_stored (reached n)) -> count_of o vis <= iter_limit cfg) /\
  (forall t, In t (v_queue (reached n)) -> count_of o (tvis t) <= iter_limit cfg).
Proof. exact (C03_visit_bound_proof fold code cfg Hiter Hcode). Qed.

(* no jump destination is forked to more often than the fork limit *)
Theorem C03_fork_bound : forall n t, count_of t (v_jt (reached n)) <= fork_limit cfg.
Proof. exact (C03_fork_bound_proof fold code cfg Hiter Hcode). Qed.

(* threads ever created <= 1 + fork limit * number of jump destinations *)
Theorem C03_thread_bound : forall n,
  N.of_nat (length (v_stored (reached n))) + N.of_nat (length (v_queue (reached n)))
  <= 1 + fork_limit cfg * N.of_nat (length (filter is_jumpdest code)).
Proof. exact (threads_bound fold code cfg Hiter Hcode). Qed.

(* a thread whose consumed minimum gas exceeds the gas limit is never scheduled again *)
Theorem C03_gas_stop : forall n t, In t (v_queue (reached n)) -> tgas t <= gas_limit cfg.
Proof. exact (C03_gas_stop_proof fold code cfg Hiter Hcode). Qed.

(* VM::execute stops by itself within (1 + F*len) * (I*len + 1) + 1 iterations of its main loop *)
Theorem C03_execute_terminates :
  match run fold (S (N.to_nat (step_bound code cfg))) (init_vm code cfg) with ROutOfFuel _ => False | _ => True end.
Proof. exact (execute_terminates fold code cfg Hiter Hcode). Qed.
End C03.

(* the evaluator used by the correspondence runs is the same function *)
Theorem C03_run_p_is_run : forall fold p m, run_p fold p m = run fold (Pos.to_nat p) m.
Proof. exact run_p_run. Qed.

(* non-vacuity: a loop with a conditional back edge, limits 2 / 1: the run ends, counts are 2 and 1 *)
Example C03_hyps_met :
  let code := [IOp control_JumpDest; IPush 1 [1]; INop; IPush 1 [0]; INop; IOp control_JumpI; IOp control_Stop] in
  let cfg := mk_config 30000000 2 1 250 394 false 100 None in
  1 <= iter_limit cfg /\ code <> [] /\
  match run (fun v => v) 40 (init_vm code cfg) with
  | RDone m => length (v_stored m) = 2%nat /\ v_jt m = [(0, 1)]
  | _ => False end.
Proof. cbv zeta. split; [cbn; lia|]. split; [discriminate|]. vm_compute. split; reflexivity. Qed.

Print Assumptions C03_visit_bound.
Print Assumptions C03_fork_bound.
Print Assumptions C03_thread_bound.
Print Assumptions C03_gas_stop.
Print Assumptions C03_execute_terminates.
Print Assumptions C03_run_p_is_run.
