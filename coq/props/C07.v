(* C07 -- every explored path computes what a concrete EVM computes on that path.
   Only statements, `exact lemma`, and Print Assumptions live here; the proofs are in
   proofs/VmSimBase.v (alists, instruction boundaries, erun at the end of a path, fold vs den),
   proofs/VmSimRel.v (the simulation relation and `match_state_sound`),
   proofs/VmSimOps.v (micro-program shapes and the per-opcode TABLE FACT, recomputed from gen/OpcodeSem.v),
   proofs/VmSimEvm.v (dispatch of the reference EVM), proofs/VmSimStep.v (one instruction),
   proofs/VmSim.v (one machine iteration, a whole path).

   The symbolic machine:   VM.v run with fold := Fold.constant_fold over code with try_from bytes = Ok code.
   The concrete machine:   Evm.v (estep / erun) over the raw bytes.
   Relation `R t e` (VmSimRel.R = Rst on the states + Rpc on the counters):
     - e_pc e is the next instruction boundary at or after tip t, everything in between is push-data filler
       (the symbolic thread steps THROUGH the INop entries, the EVM jumps over them: stuttering);
     - stacks: map den (stack st) = e_stack e (top first), depth <= 1024;
     - memory: for every offset the denotation of the last generation (0 if absent) = the concrete word;
     - storage: literal keys only, den (last generation) = concrete value, and the denotations of the WRITTEN
       generations of every key = the path's e_hist restricted to that key, in order;
     - all values well formed, no bare unwritten-slot placeholder outside storage.
   Guards of one step (SimGuards.v: instr_guard + limits_guard = step_guard; booleans over the state BEFORE the step):
     opcode in the fragment (classify o <> KOther: not ADDMOD/MULMOD/SIGNEXTEND/BYTE = known class K4, not an
     environment/call/copy/log instruction, not a PUSH truncated by the end of the code), enough operands,
     depth < 1024 where a word is pushed, the built value is not culled (node_count <= size_limit), MSTORE/MLOAD
     offset constant-foldable, word aligned and < 2^64, SLOAD/SSTORE key a literal, JUMP target validated, the thread
     is not retired by the iteration or gas limit at this step.
   Fragment: PUSH0..PUSH32, DUP1..16, SWAP1..16 (generic in n), POP, ADD MUL SUB DIV SDIV MOD SMOD EXP LT GT SLT SGT EQ
     ISZERO AND OR XOR NOT SHL SHR SAR, PC, CODESIZE, JUMPDEST, MSTORE, MLOAD, SLOAD, SSTORE, JUMP, JUMPI (both outcomes),
     the environment reads ADDRESS ORIGIN CALLER CALLVALUE GASPRICE COINBASE TIMESTAMP NUMBER PREVRANDAO GASLIMIT
     CHAINID SELFBALANCE BASEFEE GAS (they push a value that is no constant of the path: `den` = None = the EVM's
     unknown word), and as path ends STOP, INVALID (0xfe) and the unassigned bytes, RETURN, REVERT, SELFDESTRUCT and
     running off the end of the code. *)
From SLX Require Import Base gen.Constants gen.ValueSig gen.OpcodeTable SymVal Micro gen.OpcodeSem Disasm
                        Word256 EvmSpec KnownWord Fold Evm VM Sim SimTrace SimGuards VmCases SimCases.
From SLX Require Import proofs.DisasmProofs proofs.FoldProofs proofs.VmBounds
                        proofs.VmSimBase proofs.VmSimRel proofs.VmSimOps proofs.VmSimStep proofs.VmSim.
Open Scope N_scope.

(* constants denote themselves; a load of a never-written slot denotes zero *)
Theorem C07_den_known : forall w, den (Known w) = Some w.
Proof. reflexivity. Qed.
Theorem C07_den_unwritten_load : forall k, den (Node T_SLoad [] [k; Node T_UnwrittenStorageValue [] [k]]) = Some 0.
Proof. reflexivity. Qed.

(* a value that constant-folds to the word o denotes o (memory offsets, jump targets) *)
Theorem C07_den_fold_known : forall v o, wf v -> constant_fold v = Known o -> den v = Some o.
Proof. exact den_fold_known. Qed.

(* ---- the per-opcode table fact, re-established on the regenerated opcode bodies by computation:
   for every opcode the hand-written `classify` puts in the fragment, the generated micro-program has the shape
   of its class with THIS constructor and operand order, the generated opcode byte is the EVM's, the constructor
   denotes the Yellow-Paper function on the operands in stack order, and the reference EVM dispatches that byte to
   that function ---- *)
Theorem C07_table_fact : forall o, kind_ok o.
Proof. exact table_fact. Qed.

(* the simulation relation is sound for the executable comparison used by the check *)
Theorem C07_match_state_sound : forall st e, Rst st e -> match_state st e = 0.
Proof. exact match_state_sound. Qed.

(* ---- step_sim, instruction level: every instruction of the fragment, executed from related states at an
   instruction boundary under the guard, ends in related states (`outcome_ok`: one EVM step; two for JUMP, whose
   JUMPDEST the symbolic machine steps over; a fork at JUMPI is related to the jump-taken step; STOP, INVALID,
   RETURN, REVERT, SELFDESTRUCT kill the thread and halt the EVM normally in a related state) ---- *)
Theorem C07_step_sim_instr : forall bytes code,
  bytes_ok bytes -> N.of_nat (length bytes) <= two32 -> try_from bytes = Ok code ->
  forall (cfg : config) c e i vis jt,
  Rst (o_st c) e -> bdry bytes code (e_pc e) -> nth_error code (N.to_nat (e_pc e)) = Some i ->
  instr_guard cfg code (o_st c) (e_pc e) i = true ->
  outcome_ok bytes code c (e_pc e) e jt (exec_instr constant_fold cfg code vis jt (e_pc e) i c) (is_jumpi i)
             (next_ip (o_st c) (e_pc e) i).
Proof. exact exec_sim. Qed.

(* ---- step_sim, machine level: one iteration of VM::execute on a thread related to the concrete machine
   (`live`: the concrete machine has followed the thread's ghost path to a state R-related to it), under the
   step guard: the thread continues related (with the ghost decision appended at a JUMPI), or it is retired and
   the concrete machine halts normally in a related state; every forked thread is related to the jump-taken
   successor ---- *)
Theorem C07_step_sim : forall bytes code,
  bytes_ok bytes -> N.of_nat (length bytes) <= two32 -> try_from bytes = Ok code ->
  forall (cfg : config) m m' t rest,
  v_code m = code -> v_cfg m = cfg -> v_killed m = false -> v_queue m = t :: rest ->
  vm_step constant_fold m = SRunning m' -> live bytes code t -> step_guard code cfg t = true ->
  exists forked,
    Forall (fun f => live bytes code f /\ tpath f = tpath t ++ [true]) forked /\
    ((exists t', v_queue m' = t' :: rest ++ forked /\ v_stored m' = v_stored m /\ v_paths m' = v_paths m
                 /\ live bytes code t' /\ (tpath t' = tpath t \/ tpath t' = tpath t ++ [false]))
     \/ (exists st vis p, v_queue m' = rest ++ forked /\ v_stored m' = v_stored m ++ [(st, vis)]
                 /\ v_paths m' = v_paths m ++ [p] /\ matched bytes code st vis p
                 /\ (p = tpath t \/ p = tpath t ++ [false]))).
Proof. exact step_sim. Qed.

(* forking deep-copies the whole thread state at the branch point (any program, any step) *)
Theorem C07_fork_copies_state : forall m m' t rest,
  vm_step constant_fold m = SRunning m' -> v_queue m = t :: rest ->
  exists st' forked,
    (forall f, In f forked -> tstate f = with_fork_point st' (tip t) /\ tpath f = tpath t ++ [true]) /\
    ((exists t', v_queue m' = t' :: rest ++ forked /\ tstate t' = st')
     \/ (exists vis, v_queue m' = rest ++ forked /\ v_stored m' = v_stored m ++ [(st', vis)])).
Proof. exact fork_copies_state. Qed.

(* ---- path_sim: no bound on the length of the run or the number of branches.  A state the machine has retired
   with ghost path p, such that every iteration that worked on a thread of p's lineage (ghost path a prefix of p)
   satisfied the step guard, is R-related to the state in which the reference EVM halts normally along p; hence
   the executable comparisons `match_state` and `state_vs_path` of the check return 0.  Writes made after a branch
   therefore never show up in the sibling path and writes before it show up in both: each retired state's written
   generations are exactly ITS path's e_hist. ---- *)
Theorem C07_path_sim : forall bytes code (cfg : config),
  bytes_ok bytes -> N.of_nat (length bytes) <= two32 -> try_from bytes = Ok code ->
  forall n p, guards_along code cfg n (init_vm code cfg) p = true ->
  forall i sv, nth_error (v_stored (result_state (run constant_fold n (init_vm code cfg)))) i = Some sv ->
               nth_error (v_paths (result_state (run constant_fold n (init_vm code cfg)))) i = Some p ->
  (exists fuel e, erun bytes fuel p e_init = (EHalt e, []) /\ Rst (fst sv) e /\ match_state (fst sv) e = 0)
  /\ state_vs_path bytes (fst sv) p = 0.
Proof. exact path_sim_check. Qed.

(* the same for the binary-fuel evaluator the check runs (VmCases.model_run = run_p constant_fold (2^40)) *)
Theorem C07_path_sim_model_run : forall bytes code (cfg : config),
  bytes_ok bytes -> N.of_nat (length bytes) <= two32 -> try_from bytes = Ok code ->
  forall q p, guards_along code cfg (Pos.to_nat q) (init_vm code cfg) p = true ->
  forall i sv, nth_error (v_stored (result_vm (run_p constant_fold q (init_vm code cfg)))) i = Some sv ->
               nth_error (v_paths (result_vm (run_p constant_fold q (init_vm code cfg)))) i = Some p ->
  state_vs_path bytes (fst sv) p = 0.
Proof. exact path_sim_run_p. Qed.

(* ---- the known deviation K4 (outside the guards above), as theorems about the faithful model ---- *)
Theorem C07_addmod_refuted : exists a b n,
  den (Node T_Modulo [] [Node T_Add [] [Known a; Known b]; Known n]) <> Some (spec_addmod a b n).
Proof. exists (2 ^ 256 - 1), 1, 3. vm_compute. discriminate. Qed.

Theorem C07_mulmod_refuted : exists a b n,
  den (Node T_Modulo [] [Node T_Multiply [] [Known a; Known b]; Known n]) <> Some (spec_mulmod a b n).
Proof. exists (2 ^ 255), 2, 3. vm_compute. discriminate. Qed.

(* concrete runs of the model: the first retired state against the reference EVM along its path *)
Definition c07_cfg : config := mk_config 30000000 10 50 100000 394 false 100 None.
Definition first_mismatch (bytes : list byte) : N :=
  match try_from bytes with
  | Ok code => let m := result_state (run constant_fold 200 (init_vm code c07_cfg)) in
               match v_stored m, v_paths m with
               | st :: _, p :: _ => state_vs_path bytes (fst st) p
               | _, _ => 0 end
  | _ => 0 end.

(* PUSH1 3; PUSH1 1; PUSH32 2^256-1; ADDMOD; STOP   and   PUSH1 3; PUSH1 2; PUSH32 2^255; MULMOD; STOP *)
Theorem C07_addmod_run_refuted : first_mismatch ([96;3;96;1;127] ++ repeat 255 32 ++ [8;0]) = 41.
Proof. vm_compute. reflexivity. Qed.
Theorem C07_mulmod_run_refuted : first_mismatch ([96;3;96;2;127;128] ++ repeat 0 31 ++ [9;0]) = 41.
Proof. vm_compute. reflexivity. Qed.
(* PUSH1 0xff; PUSH1 0; SIGNEXTEND; STOP: the EVM computes signextend(0, 0xff) = 2^256-1; the model stores the operands
   swapped (SignExtend { size: 0xff, value: 0 }), which denotes signextend(0xff, 0) = 0 *)
Theorem C07_signextend_run_refuted : first_mismatch [96;255;96;0;11;0] = 41.
Proof. vm_compute. reflexivity. Qed.
Theorem C07_signextend_refuted : exists b x,
  den (Node T_SignExtend [] [Known x; Known b]) <> Some (spec_signextend b x).
Proof. exists 0, 255. vm_compute. discriminate. Qed.
(* PUSH32 2^255; PUSH32 2^253; BYTE; STOP: index >= 32 gives 0 in the EVM; the desugared 8*i wraps to 0 *)
Theorem C07_byte_run_refuted : first_mismatch ([127;128] ++ repeat 0 31 ++ [127;32] ++ repeat 0 31 ++ [26;0]) = 41.
Proof. vm_compute. reflexivity. Qed.
(* sstore(3,7); sload(1+2): storage keys are compared syntactically, the load sees an unwritten slot *)
Theorem C07_syntactic_key_refuted : first_mismatch [96;7;96;3;85;96;2;96;1;1;84;0] = 41.
Proof. vm_compute. reflexivity. Qed.

(* Non-vacuity: a program with a branch whose two paths satisfy all guards:
     sstore(3,7); if (1) goto L; sstore(3,9); stop;  L: mstore(0, sload(3)); x = mload(0); pop(x + x); stop
   60 07 60 03 55  60 01 60 10 57  60 09 60 03 55 00  5b 60 03 54 60 00 52 60 00 51 80 01 50 00
   Both retired states match the reference EVM, and the write made after the branch (9) is in the history of the
   fall-through path only, the write made before it (7) in both. *)
Definition c07_prog : list byte :=
  [96;7;96;3;85; 96;1;96;16;87; 96;9;96;3;85;0; 91;96;3;84;96;0;82;96;0;81;128;1;80;0].
Example C07_hyps_met :
  exists code, try_from c07_prog = Ok code /\
    let m := result_state (run constant_fold 100 (init_vm code c07_cfg)) in
    v_paths m = [[false]; [true]] /\
    guards_along code c07_cfg 100 (init_vm code c07_cfg) [false] = true /\
    guards_along code c07_cfg 100 (init_vm code c07_cfg) [true] = true /\
    map (fun s => sto_known (fst s)) (v_stored m) =
      [[(Known 3, [Known 7; Known 9])]; [(Known 3, [Known 7])]].
Proof. eexists. split; [vm_compute; reflexivity|]. vm_compute. repeat split; reflexivity. Qed.

Print Assumptions C07_den_fold_known.
Print Assumptions C07_table_fact.
Print Assumptions C07_match_state_sound.
Print Assumptions C07_step_sim_instr.
Print Assumptions C07_step_sim.
Print Assumptions C07_fork_copies_state.
Print Assumptions C07_path_sim.
Print Assumptions C07_path_sim_model_run.
Print Assumptions C07_addmod_refuted.
Print Assumptions C07_mulmod_refuted.
Print Assumptions C07_addmod_run_refuted.
Print Assumptions C07_mulmod_run_refuted.
Print Assumptions C07_signextend_run_refuted.
Print Assumptions C07_signextend_refuted.
Print Assumptions C07_byte_run_refuted.
Print Assumptions C07_syntactic_key_refuted.
