(* C07 -- every explored path computes what a concrete EVM computes on that path.
   What is proved so far are the building blocks the check relies on; the step-by-step simulation
   theorem (`path_sim`) is stated in DESIGN.md and not proved yet: the property is decided by the
   reference-EVM oracle evaluated inside Coq on the implementation's states (tools/p_c07.py). *)
From SLX Require Import Base gen.Constants gen.ValueSig SymVal Word256 EvmSpec Evm VM Sim.
Open Scope N_scope.

(* constants denote themselves; a load of a never-written slot denotes zero *)
Theorem C07_den_known : forall w, den (Known w) = Some w.
Proof. reflexivity. Qed.
Theorem C07_den_unwritten_load : forall k, den (Node T_SLoad [] [k; Node T_UnwrittenStorageValue [] [k]]) = Some 0.
Proof. reflexivity. Qed.

(* the known deviation K4, as theorems about the faithful model: the value ADDMOD leaves on the symbolic
   stack denotes something else than the EVM's result when the sum wraps *)
Theorem C07_addmod_refuted : exists a b n,
  den (Node T_Modulo [] [Node T_Add [] [Known a; Known b]; Known n]) <> Some (spec_addmod a b n).
Proof. exists (2 ^ 256 - 1), 1, 3. vm_compute. discriminate. Qed.

Print Assumptions C07_addmod_refuted.
