(* C02 (unification stage) -- on which judgement sets the result of unification does not depend on ANY
   hash-iteration order, and that the fragment's boundary is tight.
   Only statements, `exact lemma`, and Print Assumptions live here.

   Vocabulary (coq/UnifyOrder.v, all decidable):
     words_only st   every expression of the judgement set is an equality, a word or Any;
     order_free st   no packed encodings, and every class of the statically computed congruence closure `cc st`
                     (declared equalities + "two mappings / equal-length fixed arrays / dynamic arrays in one class
                     have their components in one class") is homogeneous: words with words (contradicting ones
                     too), mappings with mappings, fixed arrays of one length, dynamic arrays with dynamic arrays,
                     Any with anything; dynamic bytes and conflicts given as evidence are outside;
     CC st           that congruence closure as an inductive relation.
   `orders_ok o`: every iteration order is a permutation of the collection it enumerates -- all of them:
   the type-variable table, the initial inference sets, the per-class sets of every round, the per-round sets
   of new variables, equalities and judgements. *)
From SLX Require Import Base VectorMap DisjointSet gen.Constants gen.WordUseTable TypeExpr Merge Unify UnifyOrder.
From SLX Require Import proofs.DsuProofs proofs.UnifyProofs proofs.UnifyOrderProofs.
Open Scope N_scope.

(* (a) Words.  For ANY two iteration orders both runs return; x and y end in one class under either order iff
   they are connected by declared equalities; and every variable's data is the same: nothing, or the identical
   word (the lattice join of all the word evidence of the class), or a conflict under both orders. *)
Theorem C02_unify_order_independent_words : forall st o1 o2 fuel, words_only st = true -> orders_ok o1 -> orders_ok o2 ->
  (length (ts_vars st) + 2 <= fuel)%nat ->
  exists s1 s2, unify fuel o1 st = Ok (s1, ts_next st) /\ unify fuel o2 st = Ok (s2, ts_next st) /\
    (forall x y, (same_class s1 x y <-> Conn (declared_eqs st) x y) /\ (same_class s2 x y <-> Conn (declared_eqs st) x y)) /\
    (forall x, exists s1' s2' d1 d2, ds_get_data iset s1 x = Ok (s1', d1) /\ ds_get_data iset s2 x = Ok (s2', d2) /\
       match d1, d2 with
       | (None | Some []), (None | Some []) => True
       | Some [t1], Some [t2] => t1 = t2 \/ (is_conflict t1 = true /\ is_conflict t2 = true)
       | _, _ => False
       end).
Proof. exact unify_order_independent_words_proof. Qed.

(* (b) Constructed types, outside the known classes.  On `order_free` judgement sets, for ANY two orders both
   runs return, the classes are exactly the congruence closure CC st under both, and every variable's data is
   the same up to the choice of class representatives inside a type and up to what a conflict says
   (`te_rel (CC st)`: Mapping k v ~ Mapping k' v' with CC k k', CC v v'; words identical; conflict ~ conflict). *)
Theorem C02_unify_order_independent : forall st o1 o2 fuel, order_free st = true -> orders_ok o1 -> orders_ok o2 ->
  (length (ts_vars st) + 2 <= fuel)%nat ->
  exists s1 s2, unify fuel o1 st = Ok (s1, ts_next st) /\ unify fuel o2 st = Ok (s2, ts_next st) /\
    (forall x y, same_class s1 x y <-> CC st x y) /\ (forall x y, same_class s2 x y <-> CC st x y) /\
    (forall x, exists s1' s2' d1 d2, ds_get_data iset s1 x = Ok (s1', d1) /\ ds_get_data iset s2 x = Ok (s2', d2) /\
       match d1, d2 with
       | (None | Some []), (None | Some []) => True
       | Some [t1], Some [t2] => te_rel (CC st) t1 t2
       | _, _ => False
       end).
Proof. exact unify_order_independent_proof. Qed.

(* the same, as the layout builder reads it: through `type_of` (UnificationFailure = a class without a data
   entry, Any = an empty one: both mean "no evidence") *)
Theorem C02_unify_order_independent_type_of : forall st o1 o2 fuel, order_free st = true -> orders_ok o1 -> orders_ok o2 ->
  (length (ts_vars st) + 2 <= fuel)%nat ->
  exists s1 s2, unify fuel o1 st = Ok (s1, ts_next st) /\ unify fuel o2 st = Ok (s2, ts_next st) /\
    (forall x y, same_class s1 x y <-> same_class s2 x y) /\
    (forall x, exists s1' s2' t1 t2, type_of ds_forest s1 x = Ok (s1', t1) /\ type_of ds_forest s2 x = Ok (s2', t2) /\
       match t1, t2 with
       | TofType a, TofType b => te_rel (CC st) a b
       | TofFailure, TofFailure => True
       | TofFailure, TofType Any | TofType Any, TofFailure => True
       | _, _ => False
       end).
Proof. exact unify_order_independent_type_of. Qed.

(* the two fragments are related, and the computed closure is the relation *)
Theorem C02_words_in_fragment : forall st, words_only st = true -> order_free st = true.
Proof. exact words_only_frag. Qed.

Theorem C02_closure_computed : forall st x y, order_free st = true ->
  (same_in (part_of (cc st)) x y = true <-> CC st x y).
Proof. intros st x y H. apply cc_spec, frag_closed, H. Qed.

(* soundness alone needs no homogeneity: without packed encodings, whatever the orders, unify never puts two
   variables into one class that the congruence closure does not relate *)
Theorem C02_unify_classes_within_closure : forall st o fuel s n x y, orders_ok o -> packed_free st = true ->
  unify fuel o st = Ok (s, n) -> same_class s x y -> CC st x y.
Proof.
  intros st o fuel s n x y Ho Hpf E H. destruct (unify_ok_refines _ _ _ _ _ E) as (a & Ea & S).
  apply (same_class_rep s a x y S) in H. exact (a_unify_sound st o fuel a n Ho Hpf Ea x y H).
Qed.

(* (c) The boundary is tight: one judgement set per known class, each just outside `order_free`, on which the
   Sorted and the SortedReversed order give observably different results.
     K1 (array absorbs contradicting words): DynamicArray under one order, a conflict under the other;
     Packed x Word: a conflict, or the encoding with the word pushed to the span's variable;
     C16's K2 (two mappings and a word): the keys 1 and 3 end in one class under one order only;
     dynamic bytes between two dynamic arrays: the elements 1 and 2 end in one class under one order only. *)
Theorem C02_unify_order_dependent_refuted :
  (order_free wit_k1 = false /\
   data_of orders_sorted wit_k1 0 = Some (Some [DynamicArray 1]) /\
   exists cs rs, data_of orders_sorted_rev wit_k1 0 = Some (Some [Conflict cs rs])) /\
  (order_free wit_packed = false /\
   (exists cs rs, data_of orders_sorted wit_packed 0 = Some (Some [Conflict cs rs])) /\
   data_of orders_sorted_rev wit_packed 0 = Some (Some [Packed [mk_span 1 0 8] false]) /\
   data_of orders_sorted wit_packed 1 = Some (Some []) /\
   data_of orders_sorted_rev wit_packed 1 = Some (Some [Word (Some 8) UBool])) /\
  (order_free wit_k2 = false /\
   roots_in orders_sorted wit_k2 [1; 3] = [1; 1] /\ roots_in orders_sorted_rev wit_k2 [1; 3] = [1; 3]) /\
  (order_free wit_bytes = false /\
   roots_in orders_sorted wit_bytes [1; 2] = [1; 2] /\ roots_in orders_sorted_rev wit_bytes [1; 2] = [2; 2]).
Proof. exact unify_order_dependent_refuted_proof. Qed.

(* non-vacuity: a judgement set with a self-referential mapping, mappings spread over equated variables, an array
   and contradicting words is inside the fragment, and the closure relates the mapping components *)
Example C02_unify_hyps_met :
  let st := mk_tstate [(0, [Equal 1; Mapping 2 0]); (1, [Equal 0; Mapping 3 4]); (2, [Word (Some 8) UBool]);
                       (3, [Word (Some 160) UAddress]); (4, []); (5, [DynamicArray 2; DynamicArray 3])] 6 in
  order_free st = true /\ words_only st = false /\ same_in (part_of (cc st)) 2 3 = true /\ same_in (part_of (cc st)) 0 4 = true /\
  orders_ok orders_sorted /\ orders_ok orders_sorted_rev.
Proof. repeat split; try (vm_compute; reflexivity); apply sorted_orders_ok. Qed.

Print Assumptions C02_unify_order_independent_words.
Print Assumptions C02_unify_order_independent.
Print Assumptions C02_unify_order_independent_type_of.
Print Assumptions C02_words_in_fragment.
Print Assumptions C02_closure_computed.
Print Assumptions C02_unify_classes_within_closure.
Print Assumptions C02_unify_order_dependent_refuted.
