(* Correspondence + property evaluation for the lifting-pass suite (support suite of C04 / C05 / C06).
   Each case carries an input tree, the pass that was run, the keccak values the harness computed for the
   byte strings the proxy pass may hash on this input, and what the REAL pass returned
   (harness/src/cmd_lift.rs).  `check_case table ref c`:
     0       fine
     1..9    model and implementation disagree (correspondence obligation)
               1 another tree   2 the implementation failed / panicked (the model cannot)   3 wrong result form
     >= 10   a property predicate, evaluated on the implementation's OWN output, fails
               10 lifted node (StorageSlot / MappingIndex / DynamicArrayIndex) outside every storage access,
                  none such in the input                                              (C05, phantom slot)
               11 a literal storage key at an exposed position was lost              (C06)
               12 mapping nest used as a storage key not recognised                  (C04)
               13 dynamic-array access used as a storage key not recognised          (C04)
               14 keccak(small slot) constant used as a storage key not recognised   (C04)
   `table` is the implementation's own (`slxh lift table`) and instantiates the model; `ref` is the table the
   check computes with an independent keccak and is what the property predicates use (the two are the same
   list unless make_hashes is wrong, which the check reports by itself). *)
From SLX Require Import Base Word256 gen.ValueSig gen.Constants gen.PassOrder SymVal Fold PassesSlots.
Open Scope N_scope.

Inductive lmode := LP (p : pass_id) | LAll6 | LDefault.
Inductive lres := LOk (out : sv) | LOk2 (out9 out6 : sv) | LErr | LPanic.
Record lcase := mk_lcase { l_mode : lmode; l_in : sv; l_oracle : list (list byte * N); l_res : lres }.

Definition oracle_keccak (o : list (list byte * N)) (bs : list byte) : N :=
  match find (fun p => list_eqb N.eqb (fst p) bs) o with Some p => snd p | None => 0 end.

(* the model's answer *)
Definition model_run (table : list (N * N)) (o : list (list byte * N)) (m : lmode) (v : sv) : option sv :=
  let k := oracle_keccak o in
  match m with
  | LP p => match pass6 k table p with Some f => Some (f v) | None => None end
  | LAll6 | LDefault => Some (six_passes k table v)
  end.

(* ---- property predicates on (input, output) *)

Definition phantom (i o : sv) : bool := no_lift_outside i && negb (no_lift_outside o).

Definition not_in_table (table : list (N * N)) (c : N) : bool :=
  match lookup_in table c with None => true | Some _ => false end.

Definition key_lost (table : list (N * N)) (m : lmode) (i o : sv) : bool :=
  let lits := filter (not_in_table table) (exposed_keys i) in
  match m with
  | LP P_StorageSlotHashes | LP P_ProxySlots | LP P_MappingIndex | LP P_DynamicArrayIndex =>
      negb (forallb (fun c => exposed c o) lits)
  | LP P_StorageSlots | LAll6 | LDefault => negb (forallb (fun c => wrapped c o) lits)
  | LP P_MappingOffset => negb (forallb (fun c => wrapped c o) (wrapped_keys i))
  | LP _ => false
  end.

Definition rw_parts (v : sv) : option (tag * sv * sv) :=
  match v with Node t _ [k; x] => if is_rw_tag t then Some (t, k, x) else None | _ => None end.

(* mapping nest as the key of the root access; the proxy pass must be inert on it: depth >= 2, or a key that does
   not fold to a constant *)
Definition nest_missed (table : list (N * N)) (i o : sv) : bool :=
  match rw_parts i with
  | Some (t, k, _) =>
      match nest_of k with
      | Some (k1 :: ks, w) =>
          if not_in_table table w &&
             (negb (Nat.eqb (length ks) 0) || match as_word (constant_fold k1) with None => true | Some _ => false end)
          then match rw_parts o with
               | Some (t', k', _) =>
                   negb (tag_eqb t t' &&
                         match lifted_nest_of k' with
                         | Some (d, w') => Nat.eqb d (S (length ks)) && (w' =? w)
                         | None => false
                         end)
               | None => true
               end
          else false
      | _ => false
      end
  | None => false
  end.

(* Add (hash-of-slot, index) as the key of the root access, hash on the left *)
Definition dyn_base (table : list (N * N)) (h : sv) : option N :=
  match h with
  | Node T_Sha3 _ [Node T_Concat _ [Node T_KnownData [w] []]] => if not_in_table table w then Some w else None
  | Node T_Sha3 _ [Node T_KnownData [w] []] => if not_in_table table w then Some w else None
  | Node T_KnownData [hw] [] => lookup_in table hw
  | _ => None
  end.
Definition dyn_missed (table : list (N * N)) (i o : sv) : bool :=
  match rw_parts i with
  | Some (t, Node T_Add _ [h; idx], _) =>
      match dyn_base table h with
      | Some w =>
          if (w <? 2 ^ 248) && negb (tag_eqb (sv_tag idx) T_Sha3) &&
             match as_word idx with Some c => not_in_table table c | None => true end
          then match rw_parts o with
               | Some (t', Node T_StorageSlot _ [Node T_DynamicArrayIndex _ [Node T_StorageSlot _ [Node T_KnownData [w'] []]; _]], _) =>
                   negb (tag_eqb t t' && (w' =? w))
               | _ => true
               end
          else false
      | None => false
      end
  | _ => false
  end.

Definition hashed_missed (table : list (N * N)) (i o : sv) : bool :=
  match rw_parts i with
  | Some (t, Node T_KnownData [h] [], _) =>
      match lookup_in table h with
      | Some w =>
          match rw_parts o with
          | Some (t', Node T_StorageSlot _ [Node T_Sha3 _ [Node T_KnownData [w'] []]], _) => negb (tag_eqb t t' && (w' =? w))
          | _ => true
          end
      | None => false
      end
  | _ => false
  end.

Definition whole_pipeline (m : lmode) : bool := match m with LP _ => false | _ => true end.

Definition check_props (table : list (N * N)) (m : lmode) (i o : sv) : N :=
  if phantom i o then 10
  else if key_lost table m i o then 11
  else if whole_pipeline m && nest_missed table i o then 12
  else if whole_pipeline m && dyn_missed table i o then 13
  else if whole_pipeline m && hashed_missed table i o then 14
  else 0.

Definition check_case (table ref : list (N * N)) (c : lcase) : N :=
  let m := l_mode c in
  let i := l_in c in
  match l_res c with
  | LErr | LPanic => 2
  | LOk o =>
      match m with
      | LDefault => 3
      | _ =>
          let p := check_props ref m i o in
          if negb (p =? 0) then p
          else match model_run table (l_oracle c) m i with
               | Some r => if sv_eqb r o then 0 else 1
               | None => 0                        (* a pass that is not modelled here: property predicates only *)
               end
      end
  | LOk2 o9 o6 =>
      match m with
      | LDefault =>
          let p := check_props ref m i o9 in
          if negb (p =? 0) then p
          else match model_run table (l_oracle c) m i with
               | Some r => if sv_eqb r o6 then 0 else 1
               | None => 3
               end
      | _ => 3
      end
  end.
