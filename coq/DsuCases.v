(* Correspondence + property evaluation for the `dsu` and `vecmap` suites (C19).  Each case carries an
   operation sequence and what the REAL DisjointSet / VectorMap returned for every operation.

   check_case / check_vcase:
     0        the implementation's outputs equal the abstract specification's AND the concrete model's
     1..9     the implementation's outputs equal the specification's, but the concrete model says otherwise
              (the model does not describe the code: correspondence obligation)
     10..19   the implementation's outputs differ from the ABSTRACT SPECIFICATION (naive partition model /
              ordinary finite map): the property is violated by the real code on this sequence
     30..39   as 10..19, but the first difference comes at or after an `insert` of a member that is not the
              representative of its set (the known class of DisjointSet.hist_ok; only with the unguarded insert)
   The codes >= 10 never look at the concrete model. *)
From SLX Require Import Base VectorMap DisjointSet.
Open Scope N_scope.

(* small numbers as constants: the harness writes n5 for 5 (an identifier elaborates faster than a numeral) *)
Definition n0 : N := 0. Definition n1 : N := 1. Definition n2 : N := 2. Definition n3 : N := 3. Definition n4 : N := 4. Definition n5 : N := 5. Definition n6 : N := 6. Definition n7 : N := 7.
Definition n8 : N := 8. Definition n9 : N := 9. Definition n10 : N := 10. Definition n11 : N := 11. Definition n12 : N := 12. Definition n13 : N := 13. Definition n14 : N := 14. Definition n15 : N := 15.
Definition n16 : N := 16. Definition n17 : N := 17. Definition n18 : N := 18. Definition n19 : N := 19. Definition n20 : N := 20. Definition n21 : N := 21. Definition n22 : N := 22. Definition n23 : N := 23.
Definition n24 : N := 24. Definition n25 : N := 25. Definition n26 : N := 26. Definition n27 : N := 27. Definition n28 : N := 28. Definition n29 : N := 29. Definition n30 : N := 30. Definition n31 : N := 31.
Definition n32 : N := 32. Definition n33 : N := 33. Definition n34 : N := 34. Definition n35 : N := 35. Definition n36 : N := 36. Definition n37 : N := 37. Definition n38 : N := 38. Definition n39 : N := 39.
Definition n40 : N := 40. Definition n41 : N := 41. Definition n42 : N := 42. Definition n43 : N := 43. Definition n44 : N := 44. Definition n45 : N := 45. Definition n46 : N := 46. Definition n47 : N := 47.
Definition n48 : N := 48. Definition n49 : N := 49. Definition n50 : N := 50. Definition n51 : N := 51. Definition n52 : N := 52. Definition n53 : N := 53. Definition n54 : N := 54. Definition n55 : N := 55.
Definition n56 : N := 56. Definition n57 : N := 57. Definition n58 : N := 58. Definition n59 : N := 59. Definition n60 : N := 60. Definition n61 : N := 61. Definition n62 : N := 62. Definition n63 : N := 63.
Definition n64 : N := 64. Definition n65 : N := 65. Definition n66 : N := 66. Definition n67 : N := 67. Definition n68 : N := 68. Definition n69 : N := 69. Definition n70 : N := 70. Definition n71 : N := 71.
Definition n72 : N := 72. Definition n73 : N := 73. Definition n74 : N := 74. Definition n75 : N := 75. Definition n76 : N := 76. Definition n77 : N := 77. Definition n78 : N := 78. Definition n79 : N := 79.
Definition n80 : N := 80. Definition n81 : N := 81. Definition n82 : N := 82. Definition n83 : N := 83. Definition n84 : N := 84. Definition n85 : N := 85. Definition n86 : N := 86. Definition n87 : N := 87.
Definition n88 : N := 88. Definition n89 : N := 89. Definition n90 : N := 90. Definition n91 : N := 91. Definition n92 : N := 92. Definition n93 : N := 93. Definition n94 : N := 94. Definition n95 : N := 95.
Definition n96 : N := 96. Definition n97 : N := 97. Definition n98 : N := 98. Definition n99 : N := 99. Definition n100 : N := 100. Definition n101 : N := 101. Definition n102 : N := 102. Definition n103 : N := 103.
Definition n104 : N := 104. Definition n105 : N := 105. Definition n106 : N := 106. Definition n107 : N := 107. Definition n108 : N := 108. Definition n109 : N := 109. Definition n110 : N := 110. Definition n111 : N := 111.
Definition n112 : N := 112. Definition n113 : N := 113. Definition n114 : N := 114. Definition n115 : N := 115. Definition n116 : N := 116. Definition n117 : N := 117. Definition n118 : N := 118. Definition n119 : N := 119.
Definition n120 : N := 120. Definition n121 : N := 121. Definition n122 : N := 122. Definition n123 : N := 123. Definition n124 : N := 124. Definition n125 : N := 125. Definition n126 : N := 126. Definition n127 : N := 127.

(* ---------------------------------------------------------------- the two data monoids of the harness *)
Inductive monoid := MSet | MMulti.

(* both are kept as sorted lists of numbers: HashSet<u32> printed sorted (no repeats), the multiset with repeats *)
Fixpoint ins (m : monoid) (x : N) (l : list N) : list N :=
  match l with
  | [] => [x]
  | y :: t =>
      if x <? y then x :: l
      else if x =? y then (match m with MSet => l | MMulti => x :: l end)
      else y :: ins m x t
  end.
Definition comb (m : monoid) (a b : list N) : list N := fold_right (ins m) a b.
Definition norm (m : monoid) (d : list N) : list N := comb m [] d.

Definition norm_op (m : monoid) (op : dop (list N)) : dop (list N) :=
  match op with
  | DAdd v d => DAdd v (norm m d)
  | DSet v d => DSet v (norm m d)
  | o => o
  end.

(* ---------------------------------------------------------------- DisjointSet cases *)
Inductive xout :=
| XUnit | XFind (r : N) | XData (o : option (list N)) | XSets (l : list (N * list N)) | XValues (l : list N)
| XPanic
| XHuge.    (* the harness cut the run: a result with more data items than any history can have added *)

Record dcase := mk_dcase { dc_guard : bool; dc_monoid : monoid; dc_ops : list (dop (list N)); dc_outs : list xout }.

Definition nl_eqb := list_eqb N.eqb.
Definition opt_eqb (a b : option (list N)) : bool :=
  match a, b with Some x, Some y => nl_eqb x y | None, None => true | _, _ => false end.
Definition pair_eqb (a b : N * list N) : bool := (fst a =? fst b) && nl_eqb (snd a) (snd b).

(* 0 = equal; otherwise the kind of difference *)
Definition out_kind (x : xout) (d : dout (list N)) : N :=
  match x, d with
  | XPanic, _ => 5
  | XHuge, _ => 2
  | XUnit, DoUnit => 0
  | XFind a, DoFind b => if a =? b then 0 else 1
  | XData a, DoData b => if opt_eqb a b then 0 else 2
  | XSets a, DoSets b => if list_eqb pair_eqb a b then 0 else 3
  | XValues a, DoValues b => if nl_eqb a b then 0 else 6
  | _, _ => 4
  end.

(* walks the history with the abstract specification only *)
Fixpoint spec_walk (m : monoid) (a : astate (list N)) (tainted : bool) (ops : list (dop (list N))) (outs : list xout) : N :=
  match ops, outs with
  | [], [] => 0
  | op :: ops', x :: outs' =>
      let tainted' := tainted || negb (op_ok (list N) a op) in
      let '(a', o) := a_step (list N) (comb m) [] a op in
      match out_kind x o with
      | 0 => spec_walk m a' tainted' ops' outs'
      | k => (if tainted' then 30 else 10) + k
      end
  | _ :: _, [] => if tainted then 37 else 17     (* fewer outputs than operations without a panic marker *)
  | [], _ :: _ => if tainted then 37 else 17
  end.

Fixpoint outs_agree (xs : list xout) (ds : list (dout (list N))) : bool :=
  match xs, ds with
  | [], [] => true
  | x :: xs', d :: ds' => (out_kind x d =? 0) && outs_agree xs' ds'
  | _, _ => false
  end.

Definition check_case (c : dcase) : N :=
  let m := dc_monoid c in
  let ops := map (norm_op m) (dc_ops c) in
  match spec_walk m (a_new (list N)) false ops (dc_outs c) with
  | 0 =>
      match ds_run (list N) (comb m) [] (dc_guard c) ops with
      | Ok (_, outs) => if outs_agree (dc_outs c) outs then 0 else 1
      | Err _ => 2        (* the model ran out of fuel: excluded by DsuProofs.ds_run_refines *)
      | Panic _ => 3      (* the model panicked: excluded by DsuProofs.ds_run_refines *)
      end
  | k => k
  end.

(* ---------------------------------------------------------------- VectorMap cases *)
Inductive xvobs := XV (out : vout N) (len : N) (empty : bool) (maxk : option N) | XVPanic.
Record vcase := mk_vcase { vc_ops : list (vop N); vc_obs : list xvobs }.

Definition kv_eqb (a b : N * N) : bool := (fst a =? fst b) && (snd a =? snd b).
Definition optn_eqb (a b : option N) : bool :=
  match a, b with Some x, Some y => x =? y | None, None => true | _, _ => false end.
Definition vout_eqb (a b : vout N) : bool :=
  match a, b with
  | VoUnit, VoUnit => true
  | VoOpt x, VoOpt y => optn_eqb x y
  | VoIter p i v, VoIter p' i' v' => list_eqb kv_eqb p p' && nl_eqb i i' && nl_eqb v v'
  | _, _ => false
  end.

(* contents/presence, length, emptiness against the finite map; 0 = equal *)
Definition vobs_kind (x : xvobs) (o : vobs N) : N :=
  match x with
  | XVPanic => 5
  | XV out len empty _ =>
      if negb (vout_eqb out (vo_out o)) then 1
      else if negb (len =? vo_len o) then 2
      else if negb (Bool.eqb empty (vo_empty o)) then 3
      else 0
  end.

Fixpoint vspec_walk (l : fmap N) (ops : list (vop N)) (obs : list xvobs) : N :=
  match ops, obs with
  | [], [] => 0
  | op :: ops', x :: obs' =>
      let '(l', o) := fm_step l op in
      match vobs_kind x o with
      | 0 => vspec_walk l' ops' obs'
      | k => 10 + k
      end
  | _, _ => 17
  end.

Fixpoint vobs_agree (xs : list xvobs) (os : list (vobs N)) : bool :=
  match xs, os with
  | [], [] => true
  | XV out len empty maxk :: xs', o :: os' =>
      vout_eqb out (vo_out o) && (len =? vo_len o) && Bool.eqb empty (vo_empty o) && optn_eqb maxk (vo_maxk o)
      && vobs_agree xs' os'
  | _, _ => false
  end.

Definition check_vcase (c : vcase) : N :=
  match vspec_walk [] (vc_ops c) (vc_obs c) with
  | 0 =>
      match vm_run (E:=unit) (vc_ops c) with
      | Ok (_, os) => if vobs_agree (vc_obs c) os then 0 else 1
      | Err _ => 2
      | Panic _ => 3
      end
  | k => k
  end.

(* ---------------------------------------------------------------- grouped cases (exhaustive enumeration)
   A history prefix with its outputs, and alternative next operations each followed by the probe operations
   (given once, as an argument) with their outputs.  Nothing new is decided here: every alternative is
   evaluated by check_case on `prefix ++ [alt] ++ probe`; only the cases are written more compactly.
   Result: the prefix's own code if it is non-zero (< 64), otherwise 64 * sum_i code_i * 64^i. *)
Record gcase := mk_gcase { gc_guard : bool; gc_monoid : monoid; gc_prefix : list (dop (list N)); gc_pouts : list xout;
                           gc_alts : list (dop (list N) * list xout) }.

Definition check_gcase (probe : list (dop (list N))) (c : gcase) : N :=
  match check_case (mk_dcase (gc_guard c) (gc_monoid c) (gc_prefix c) (gc_pouts c)) with
  | 0 =>
      64 * fold_right (fun alt acc =>
                         check_case (mk_dcase (gc_guard c) (gc_monoid c) (gc_prefix c ++ fst alt :: probe)
                                              (gc_pouts c ++ snd alt)) + 64 * acc)
                      0 (gc_alts c)
  | k => k
  end.
