(* Type expressions of the type checker (src/tc/expression.rs): `TypeExpression`, `Span`, conflict
   construction.  `WordUse` and its three functions are generated (gen/WordUseTable.v, translator T3).
   Definitions only; proofs are in proofs/MergeProofs.v. *)
From Coq Require Import String.
From SLX Require Import Base gen.Constants gen.WordUseTable.
Open Scope N_scope.

(* src/tc/state/type_variable.rs: a type variable is a `usize` index *)
Definition tyvar := N.

(* expression.rs `struct Span { typ, offset, size }` (offset and size in bits, `usize`) *)
Record span := mk_span { s_typ : tyvar; s_off : N; s_sz : N }.

(* The explanations attached to conflicts.  The twelve texts are the ones `unification::merge` writes;
   `RInput n` stands for any other text (conflicts handed to `merge` from outside). *)
Inductive reason :=
| RConflictsAlways | RWidths | RUsages | RPackedDyn | RPackedBytes | RDynSigned | RFixedLen
| RSpanSize | RNoStartSpan | RPackedWord | RIncompatible
| RInput (n : N).

Definition reason_text (r : reason) : string :=
  match r with
  | RConflictsAlways => "Conflicts always conflict"
  | RWidths => "Disagreeing numeric widths"
  | RUsages => "Conflicting word usages"
  | RPackedDyn => "Incompatible packed encoding and dynamic array"
  | RPackedBytes => "Incompatible packed encoding and bytes"
  | RDynSigned => "Dynamic arrays cannot have signed length"
  | RFixedLen => "Fixed arrays have different lengths"
  | RSpanSize => "Span in packed encoding did not match size of word"
  | RNoStartSpan => "Packed encoding without span at start could not be merged with word"
  | RPackedWord => "Packed encoding could not be merged with word"
  | RIncompatible => "Incompatible inferences"
  | RInput _ => "input"
  end.

Definition merge_reasons : list reason :=
  [RConflictsAlways; RWidths; RUsages; RPackedDyn; RPackedBytes; RDynSigned; RFixedLen; RSpanSize;
   RNoStartSpan; RPackedWord; RIncompatible].

(* expression.rs `enum TypeExpression` *)
Inductive te :=
| Any
| Equal (id : tyvar)
| Word (width : option N) (usage : wuse)
| Bytes
| FixedArray (element : tyvar) (length : N)
| Mapping (key value : tyvar)
| DynamicArray (element : tyvar)
| Packed (types : list span) (is_struct : bool)
| Conflict (conflicts : list te) (reasons : list reason).

(* ---- structural equality (`#[derive(PartialEq)]`) ---- *)
Definition optN_eqb (a b : option N) : bool :=
  match a, b with Some x, Some y => x =? y | None, None => true | _, _ => false end.

Definition span_eqb (a b : span) : bool :=
  (s_typ a =? s_typ b) && (s_off a =? s_off b) && (s_sz a =? s_sz b).

Definition reason_eqb (a b : reason) : bool :=
  match a, b with
  | RConflictsAlways, RConflictsAlways | RWidths, RWidths | RUsages, RUsages | RPackedDyn, RPackedDyn
  | RPackedBytes, RPackedBytes | RDynSigned, RDynSigned | RFixedLen, RFixedLen | RSpanSize, RSpanSize
  | RNoStartSpan, RNoStartSpan | RPackedWord, RPackedWord | RIncompatible, RIncompatible => true
  | RInput n, RInput m => n =? m
  | _, _ => false
  end.

Fixpoint te_eqb (a b : te) : bool :=
  match a, b with
  | Any, Any => true
  | Equal i, Equal j => i =? j
  | Word w u, Word w' u' => optN_eqb w w' && wuse_eqb u u'
  | Bytes, Bytes => true
  | FixedArray e l, FixedArray e' l' => (e =? e') && (l =? l')
  | Mapping k v, Mapping k' v' => (k =? k') && (v =? v')
  | DynamicArray e, DynamicArray e' => e =? e'
  | Packed t s, Packed t' s' => list_eqb span_eqb t t' && Bool.eqb s s'
  | Conflict cs rs, Conflict cs' rs' =>
      (fix go (l l' : list te) : bool :=
         match l, l' with
         | [], [] => true
         | x :: r, y :: r' => te_eqb x y && go r r'
         | _, _ => false
         end) cs cs' && list_eqb reason_eqb rs rs'
  | _, _ => false
  end.

(* ---- constructors and observers used by `merge` ---- *)
Definition packed_of (types : list span) : te := Packed types false.

(* expression.rs `conflict_with`: flatten conflicts on either side, the new reason first *)
Definition gather (e : te) : list te * list reason :=
  match e with
  | Conflict cs rs => (cs, rs)
  | a => ([a], [])
  end.

Definition conflict_with (self other : te) (r : reason) : te :=
  Conflict (fst (gather self) ++ fst (gather other)) (r :: snd (gather self) ++ snd (gather other)).

(* `TE::conflict(left, right, reason)` *)
Definition conflict (left right : te) (r : reason) : te := conflict_with left right r.

Definition is_word (e : te) : bool := match e with Word _ _ => true | _ => false end.
Definition is_conflict (e : te) : bool := match e with Conflict _ _ => true | _ => false end.
Definition is_bytes (e : te) : bool := match e with Bytes => true | _ => false end.
Definition is_any (e : te) : bool := match e with Any => true | _ => false end.
Definition is_equal (e : te) : bool := match e with Equal _ => true | _ => false end.
Definition is_packed (e : te) : bool := match e with Packed _ _ => true | _ => false end.
Definition is_dyn (e : te) : bool := match e with DynamicArray _ => true | _ => false end.
Definition is_mapping (e : te) : bool := match e with Mapping _ _ => true | _ => false end.
Definition is_fixed (e : te) : bool := match e with FixedArray _ _ => true | _ => false end.
(* `DynamicArray` / `Bytes`: the array-like types that take a word for their length slot *)
Definition arraylike (e : te) : bool := match e with DynamicArray _ | Bytes => true | _ => false end.

(* no `Packed` at the top (the scope of the general C16 law) *)
Definition no_packed (e : te) : bool := negb (is_packed e).

(* type variables mentioned at the top level of an expression *)
Definition te_vars (e : te) : list tyvar :=
  match e with
  | Equal i => [i]
  | FixedArray x _ => [x]
  | Mapping k v => [k; v]
  | DynamicArray x => [x]
  | Packed ts _ => map s_typ ts
  | _ => []
  end.
