(* Model of src/disassembly/disassembler.rs::disassemble and InstructionStream::try_from.
   The byte table is NOT written here: it is regenerated from the Rust match arms and the
   `impl Opcode` blocks (gen/OpcodeTable.v).  The state machine below is hand-written and
   tied to the code by the `disasm` correspondence suite. *)
From SLX Require Import Base gen.Constants gen.OpcodeTable.
Open Scope N_scope.

Inductive instr :=
| IOp (o : opname)
| IPush (n : N) (data : list byte)      (* data in code order *)
| IDup (n : N)
| ISwap (n : N)
| ILog (n : N)
| INop
| IInvalid (b : byte).

Inductive dis_err :=
| EmptyBytecode
| BytecodeTooLarge
| InvalidPushSize (n : N)
| InvalidStackItem (n : N)
| InvalidTopicCount (n : N).

Definition encode (i : instr) : list byte :=
  match i with
  | IOp o => [op_byte o]
  | IPush n d => pushn_byte n :: d
  | IDup n => [dupn_byte n]
  | ISwap n => [swapn_byte n]
  | ILog n => [logn_byte n]
  | INop => []
  | IInvalid b => [b]
  end.

Definition enc_all (l : list instr) : list byte := concat (map encode l).

Definition in_range (lo hi b : N) : bool := (lo <=? b) && (b <=? hi).
Definition is_push (b : byte) : bool := in_range push_lo push_hi b.

(* u8 subtraction `byte - BASE`: panics on underflow (overflow-checks are on in every profile) *)
Definition sub_u8 (a b : N) : outcome N dis_err := if a <? b then Panic 1 else Ok (a - b).

(* what a non-push byte decodes to *)
Definition decode1 (b : byte) : outcome instr dis_err :=
  if in_range dup_lo dup_hi b then
    match sub_u8 b DUP_OPCODE_BASE_VALUE with
    | Ok n => if dupn_new_ok n then Ok (IDup n) else Err (InvalidStackItem n)
    | Err e => Err e | Panic s => Panic s end
  else if in_range swap_lo swap_hi b then
    match sub_u8 b SWAP_OPCODE_BASE_VALUE with
    | Ok n => if swapn_new_ok n then Ok (ISwap n) else Err (InvalidStackItem n)
    | Err e => Err e | Panic s => Panic s end
  else if in_range log_lo log_hi b then
    match sub_u8 b LOG_OPCODE_BASE_VALUE with
    | Ok n => if logn_new_ok n then Ok (ILog n) else Err (InvalidTopicCount n)
    | Err e => Err e | Panic s => Panic s end
  else match decode_plain b with
       | Some o => Ok (IOp o)
       | None => if existsb (N.eqb b) explicit_invalid_bytes then Ok (IInvalid invalid_default_byte)
                 else Ok (IInvalid b)
       end.

Record st := { ops : list instr;
               off : N;                    (* enumerate() index of the next byte *)
               last_push : byte; push_size : N; remaining : N; push_bytes : list byte;
               failed : option (outcome unit dis_err) }.   (* sticky early return *)

Definition init : st :=
  {| ops := []; off := 0; last_push := 0; push_size := 0; remaining := 0; push_bytes := []; failed := None |}.

Definition nops (n : N) : list instr := repeat INop (N.to_nat n).

Definition fail_with (s : st) (o : outcome unit dis_err) : st :=
  {| ops := ops s; off := off s; last_push := last_push s; push_size := push_size s;
     remaining := remaining s; push_bytes := push_bytes s; failed := Some o |}.

Definition step (s : st) (b : byte) : st :=
  match failed s with Some _ => s | None =>
  if two32 <=? off s then fail_with s (Err BytecodeTooLarge) else
  if negb (remaining s =? 0) then
    let pb := push_bytes s ++ [b] in
    let r := remaining s - 1 in
    if (r =? 0) && negb (match pb with [] => true | _ => false end) then
      if pushn_new_ok (push_size s) (N.of_nat (length pb)) then
        {| ops := ops s ++ IPush (push_size s) pb :: nops (push_size s); off := off s + 1;
           last_push := 0; push_size := 0; remaining := 0; push_bytes := []; failed := None |}
      else fail_with s (Err (InvalidPushSize (push_size s)))
    else {| ops := ops s; off := off s + 1; last_push := last_push s; push_size := push_size s;
            remaining := r; push_bytes := pb; failed := None |}
  else if is_push b then
    match sub_u8 b PUSH_OPCODE_BASE_VALUE with
    | Ok n => {| ops := ops s; off := off s + 1; last_push := b; push_size := n; remaining := n;
                 push_bytes := push_bytes s; failed := None |}
    | Err e => fail_with s (Err e) | Panic k => fail_with s (Panic k) end
  else
    match decode1 b with
    | Ok i => {| ops := ops s ++ [i]; off := off s + 1; last_push := last_push s; push_size := push_size s;
                 remaining := remaining s; push_bytes := push_bytes s; failed := None |}
    | Err e => fail_with s (Err e) | Panic k => fail_with s (Panic k) end
  end.

(* the tail handling after the loop (as repaired: a bare trailing PUSH becomes INVALID) *)
Definition finish (s : st) : outcome (list instr) dis_err :=
  match failed s with
  | Some (Err e) => Err e
  | Some (Panic k) => Panic k
  | Some (Ok _) => Panic 0
  | None =>
    if negb (match push_bytes s with [] => true | _ => false end)
       && negb (N.of_nat (length (push_bytes s)) =? push_size s) then
      Ok (ops s ++ IInvalid (last_push s) :: map IInvalid (push_bytes s))
    else if negb (push_size s =? 0) then Ok (ops s ++ [IInvalid (last_push s)])
    else Ok (ops s)
  end.

Definition disasm (bs : list byte) : outcome (list instr) dis_err :=
  match bs with [] => Err EmptyBytecode | _ => finish (fold_left step bs init) end.

(* InstructionStream::try_from: disassemble, then `assert_eq!(as_bytecode(), input)` *)
Definition try_from (bs : list byte) : outcome (list instr) dis_err :=
  match disasm bs with
  | Ok is => if list_eqb N.eqb (enc_all is) bs then Ok is else Panic 2
  | o => o
  end.

(* ---------------------------------------------------------------------------------------
   Specification: an independent, token-at-a-time reading of the byte string. *)
Fixpoint spec (fuel : nat) (bs : list byte) : list instr :=
  match fuel with O => [] | S f =>
  match bs with
  | [] => []
  | b :: rest =>
    if is_push b then
      let n := b - PUSH_OPCODE_BASE_VALUE in
      if N.of_nat (length rest) <? n then IInvalid b :: map IInvalid rest
      else IPush n (firstn (N.to_nat n) rest) :: nops n ++ spec f (skipn (N.to_nat n) rest)
    else match decode1 b with Ok i => i :: spec f rest | _ => [] end
  end end.

(* which bytes are push immediates (true), by the EVM's own rule *)
Fixpoint immediates (skip : N) (bs : list byte) : list bool :=
  match bs with
  | [] => []
  | b :: rest => if 0 <? skip then true :: immediates (skip - 1) rest
                 else false :: immediates (if is_push b then b - PUSH_OPCODE_BASE_VALUE else 0) rest
  end.

Definition is_filler (i : instr) : bool := match i with INop | IInvalid _ => true | _ => false end.
Definition assigned (b : byte) : bool :=
  is_push b || in_range dup_lo dup_hi b || in_range swap_lo swap_hi b || in_range log_lo log_hi b
  || match decode_plain b with Some _ => true | None => false end.
