(* The three PACKING lifting passes of src/tc/lift/ as total functions over the generic value tree:

     sub_word         (sub_word.rs)         value & constant-mask            ->  SubWord{value, offset, size}
     mul_shifted      (mul_shifted.rs)      sub_word * 2^k, sub_word << k    ->  Shifted{offset, value}
     packed_encoding  (packed_encoding.rs)  s_store(k, seg_1 | ... | seg_n)  ->  s_store(k, Packed{spans})

   and their composition in the default order of `LiftingPasses::default()` (sub_word, mul_shifted,
   packed_encoding are consecutive there).

   How the Rust code is read
   * `Lift::run` is `value.transform_data(closure)`.  `SymbolicValueData::transform` applies the closure top-down;
     the first `Some` is the result and is NOT revisited; on `None` the node is rebuilt (gen/ValueSig.transform_ctor)
     with every child transformed.  Each closure below recurses into exactly the children the Rust closure hands to
     `transform_data` itself.  The passes are structural fixpoints (Coq's guard checker accepts the recursive calls on
     `shift_value value`, a sub-term two levels down); no fuel is needed.
   * `usize` arithmetic is explicit.  The expressions the in-slot properties hinge on are NOT written here: they are
     re-read from the source text on every run by tools/tr_packing.py into gen/PackingAnchors.v (sw_offset, sw_fits,
     ms_shl_enabled, ms_shl_refuse, wp2_giveup, pe_valid, pe_last).  The passes are defined generically over those terms
     (`*_gen`), instantiated with the generated ones (`sub_word`, ...), and -- for the refutations -- with the terms of
     the pinned snapshot ccf401a (`*_pinned`).
   * `usize::from(KnownWord)` is `U256::as_usize`, a TRUNCATION to 64 bits (known.rs).
   * `a == b` on values ignores instruction pointer and provenance (SymVal.sv_eqb).
   * panics: `outcome`'s `Panic site`; sites in PackingArith.v. *)
From SLX Require Import Base Word256 PackingArith gen.Constants gen.ValueSig gen.PackingAnchors SymVal Fold.
Open Scope N_scope.

(* ------------------------------------------------------------------ KnownWord::bits_le and get_region *)

(* `bits.iter().skip(from).find_position(|bit| bit == b)` over the 256 little-endian bits of w, as an ABSOLUTE
   index: the first index in [from, from + count) whose bit is b *)
Fixpoint find_bit (b : bool) (w : N) (from : N) (count : nat) : option N :=
  match count with
  | O => None
  | S c => if Bool.eqb (N.testbit w from) b then Some from else find_bit b w (from + 1) c
  end.

(* SubWordValue::get_region on the folded constant *)
Definition get_region_o (w : N) : outcome (option (N * N)) unit :=
  match find_bit true w 0 256 with
  | None => Ok None                                        (* the mask is all zeroes *)
  | Some offset =>
      match find_bit false w offset (256 - N.to_nat offset) with
      | Some p => Ok (Some (offset, p - offset))           (* position relative to `skip(offset)` *)
      | None => obind (usize_sub SITE_PE_REGION_SUB WORD_SIZE_BITS offset) (fun n => Ok (Some (offset, n)))
      end
  end.

(* the same without the (impossible, proofs: get_region_o_ok) underflow *)
Definition get_region (w : N) : option (N * N) :=
  match find_bit true w 0 256 with
  | None => None
  | Some offset =>
      match find_bit false w offset (256 - N.to_nat offset) with
      | Some p => Some (offset, p - offset)
      | None => Some (offset, WORD_SIZE_BITS - offset)
      end
  end.

(* get_region(data): `data.constant_fold()` must be a KnownData *)
Definition region_of (v : sv) : outcome (option (N * N)) unit :=
  match as_word (constant_fold v) with Some w => get_region_o w | None => Ok None end.

(* ------------------------------------------------------------------ MulShiftedValue::which_power_of_2 *)

Section WP2.
  Variable giveup : N -> bool.             (* `counter > WORD_SIZE_BITS` *)
  (* while number != two { counter += 1; number = number / two; if counter > WORD_SIZE_BITS { return None; } }
     None = out of fuel (never: proofs, wp2_fuel_enough) *)
  Fixpoint wp2_loop (fuel : nat) (counter number : N) : option (option N) :=
    if number =? 2 then Some (Some counter)
    else match fuel with
         | O => None
         | S f => let counter := counter + 1 in
                  let number := number / 2 in
                  if giveup counter then Some None else wp2_loop f counter number
         end.

  Definition which_power_of_2_gen (number : N) : option N :=
    if number =? 1 then Some 0
    else if number =? 0 then None
    else if number mod 2 =? 0 then match wp2_loop 300 1 number with Some r => r | None => None end
    else None.
End WP2.
Definition which_power_of_2 : N -> option N := which_power_of_2_gen wp2_giveup.

(* ------------------------------------------------------------------ SubWordValue::get_shift *)

Definition is_known (v : sv) : bool := match v with Node T_KnownData _ _ => true | _ => false end.
Definition is_subword (v : sv) : bool := match v with Node T_SubWord [_; _] [_] => true | _ => false end.

(* the divisor forms that stand for a right shift: 2 ** k, 1 << k, a constant power of two *)
Definition div_shift (divisor : sv) : option N :=
  match divisor with
  | Node T_Exp [] [b; e] =>
      match as_word b, as_word e with
      | Some bw, Some ew => if as_usize bw =? 2 then Some (as_usize ew) else None
      | _, _ => None
      end
  | Node T_LeftShift [] [sh; base] =>
      match as_word base, as_word sh with
      | Some bw, Some sw => if as_usize bw =? 1 then Some (as_usize sw) else None
      | _, _ => None
      end
  | Node T_KnownData [w] [] => which_power_of_2 w
  | _ => None
  end.

(* get_shift(value) = (shift_value value, shift_amount value).  Note the RightShift arm: when the shift amount does
   not fold to a constant the INNER value is still returned, with shift 0 (the `value` bound by the pattern shadows
   the parameter). *)
Definition shift_value (v : sv) : sv :=
  match v with
  | Node T_RightShift [] [_; x] => x
  | Node T_Divide [] [dividend; divisor] => match div_shift divisor with Some _ => dividend | None => v end
  | _ => v
  end.
Definition shift_amount (v : sv) : N :=
  match v with
  | Node T_RightShift [] [s; _] => match as_word (constant_fold s) with Some w => as_usize w | None => 0 end
  | Node T_Divide [] [_; divisor] => match div_shift divisor with Some k => k | None => 0 end
  | _ => 0
  end.

(* ------------------------------------------------------------------ pass 1: sub_word *)

(* `RSVD::SubWord { offset: i_ofs, size: i_sz, value: i_val } if offset == *i_ofs && length == *i_sz => i_val` *)
Definition unwrap_same (o n : N) (v : sv) : sv :=
  match v with
  | Node T_SubWord [io; isz] [iv] => if (o =? io) && (n =? isz) then iv else v
  | _ => v
  end.

Section SubWord.
  Variable offset_of : N -> N -> outcome (option N) unit.        (* gen: sw_offset *)
  Variable fits : N -> N -> outcome (option bool) unit.          (* gen: sw_fits *)

  Fixpoint sub_word_gen (v : sv) : outcome sv unit :=
    match v with
    | Node t a args =>
        let dflt := obind (mapM sub_word_gen args) (fun args' => Ok (Node (transform_ctor t) a args')) in
        if negb (tag_eqb t T_And) then dflt else
        match a, args with
        | [], [l; r] =>
            obind (region_of l) (fun rl =>
            obind (match rl with Some _ => Ok None | None => region_of r end) (fun rr =>
            match (match rl with
                   | Some reg => Some (true, reg)
                   | None => match rr with Some reg => Some (false, reg) | None => None end
                   end) with
            | None => dflt
            | Some (value_is_right, (offset, length)) =>
                let value := if value_is_right : bool then r else l in
                if is_known value then dflt else
                obind (sub_word_gen (shift_value value)) (fun value' =>
                let value'' := unwrap_same offset length value' in
                obind (offset_of offset (shift_amount value)) (fun oo =>
                match oo with
                | None => dflt
                | Some off =>
                    obind (fits off length) (fun ff =>
                    match ff with
                    | Some true => Ok (Node T_SubWord [off; length] [value''])
                    | _ => dflt
                    end)
                end))
            end))
        | _, _ => dflt
        end
    end.
End SubWord.
Definition sub_word : sv -> outcome sv unit := sub_word_gen sw_offset sw_fits.

(* ------------------------------------------------------------------ pass 2: mul_shifted *)

Section MulShifted.
  Variable shl_enabled : bool.                (* gen: ms_shl_enabled *)
  Variable shl_refuse : N -> bool.            (* gen: ms_shl_refuse *)

  Fixpoint mul_shifted_gen (v : sv) : sv :=
    match v with
    | Node t a args =>
        let dflt := Node (transform_ctor t) a (map mul_shifted_gen args) in
        if tag_eqb t T_LeftShift then
          match a, args with
          | [], [sh; x] =>
              if shl_enabled then
                match as_word (constant_fold sh) with
                | Some w =>
                    if is_subword x then
                      let offset := as_usize w in
                      if shl_refuse offset then dflt else Node T_Shifted [offset] [mul_shifted_gen x]
                    else dflt
                | None => dflt
                end
              else dflt
          | _, _ => dflt
          end
        else if tag_eqb t T_Multiply then
          match a, args with
          | [], [l; r] =>
              let fl := constant_fold l in
              let fr := constant_fold r in
              let lift (c : N) (value : sv) :=
                match which_power_of_2 c with Some k => Node T_Shifted [k] [value] | None => dflt end in
              match (if is_subword fr then as_word fl else None) with
              | Some c => lift c (mul_shifted_gen r)
              | None =>
                  match (if is_subword fl then as_word fr else None) with
                  | Some c => lift c (mul_shifted_gen l)
                  | None => dflt
                  end
              end
          | _, _ => dflt
          end
        else dflt
    end.
End MulShifted.
Definition mul_shifted : sv -> sv := mul_shifted_gen ms_shl_enabled ms_shl_refuse.

(* ------------------------------------------------------------------ pass 3: packed_encoding *)

Fixpoint unpick_ors (v : sv) : list sv :=
  match v with
  | Node T_Or [] [l; r] => unpick_ors l ++ unpick_ors r
  | _ => [v]
  end.

Definition is_seg (v : sv) : bool :=
  match v with
  | Node T_SubWord [_; _] [_] => true
  | Node T_Shifted [_] [_] => true
  | _ => false
  end.

Definition span : Type := (N * N * sv)%type.         (* PackedSpan { offset, size, value } *)
Definition span_off (s : span) : N := fst (fst s).
Definition span_size (s : span) : N := snd (fst s).
Definition span_val (s : span) : sv := snd s.

Definition span_of (e : sv) : outcome span unit :=
  match e with
  | Node T_SubWord [o; n] [_] => Ok (o, n, e)
  | Node T_Shifted [o] [x] =>
      match x with
      | Node T_SubWord [_; n] [_] => Ok (o, n, x)
      | _ => Panic SITE_PE_SHIFT_NON_SUBWORD
      end
  | _ => Panic SITE_PE_UNREACHABLE
  end.

(* `.sorted_by_key(|elem| elem.offset)`: a stable sort *)
Fixpoint insert_span (x : span) (l : list span) : list span :=
  match l with
  | [] => [x]
  | y :: r => if span_off x <=? span_off y then x :: l else y :: insert_span x r
  end.
Definition sort_spans (l : list span) : list span := fold_right insert_span [] l.

(* a span is dropped when its sub-word reads the very slot that is being written *)
Definition span_used (key : sv) (s : span) : bool :=
  match span_val s with
  | Node T_SubWord [_; _] [x] =>
      match x with Node T_SLoad [] [ik; _] => negb (sv_eqb key ik) | _ => true end
  | _ => true
  end.

Definition mk_packed (spans : list span) : sv :=
  Node T_Packed (flat_map (fun s => [span_off s; span_size s]) spans) (map span_val spans).

Section Packed.
  Variable valid_step : bool -> N -> N -> N -> bool.     (* gen: pe_valid *)
  Variable last_step : N -> N -> outcome N unit.         (* gen: pe_last *)

  Fixpoint spans_valid_gen (valid : bool) (last : N) (l : list span) : outcome bool unit :=
    match l with
    | [] => Ok valid
    | s :: r =>
        let valid' := valid_step valid last (span_off s) (span_size s) in
        obind (last_step (span_off s) (span_size s)) (fun last' => spans_valid_gen valid' last' r)
    end.

  Fixpoint packed_encoding_gen (v : sv) : outcome sv unit :=
    match v with
    | Node t a args =>
        let dflt := obind (mapM packed_encoding_gen args) (fun args' => Ok (Node (transform_ctor t) a args')) in
        if negb (tag_eqb t T_StorageWrite) then dflt else
        match a, args with
        | [], [key; value] =>
            let elements := unpick_ors value in
            if negb (forallb is_seg elements) then dflt else
            obind (mapM span_of elements) (fun spans0 =>
            let spans := sort_spans spans0 in
            obind (spans_valid_gen true 0 spans) (fun valid =>
            if valid
            then Ok (Node T_StorageWrite [] [key; mk_packed (filter (span_used key) spans)])
            else dflt))
        | _, _ => dflt
        end
    end.
End Packed.
Definition spans_valid := spans_valid_gen pe_valid pe_last.
Definition packed_encoding : sv -> outcome sv unit := packed_encoding_gen pe_valid pe_last.

(* ------------------------------------------------------------------ the three passes in the default order *)

Definition packing3 (v : sv) : outcome sv unit :=
  obind (sub_word v) (fun v1 => packed_encoding (mul_shifted v1)).

Inductive pass := P_sub_word | P_mul_shifted | P_packed_encoding | P_packing3.
Definition run_pass (p : pass) (v : sv) : outcome sv unit :=
  match p with
  | P_sub_word => sub_word v
  | P_mul_shifted => Ok (mul_shifted v)
  | P_packed_encoding => packed_encoding v
  | P_packing3 => packing3 v
  end.

(* ------------------------------------------------------------------ the terms of the pinned snapshot ccf401a
   (what tools/tr_packing.py selects when a repair is reverted) *)

(* `offset: offset + shift` and no fit check *)
Definition sw_offset_pinned (offset shift : N) : outcome (option N) unit :=
  match usize_add SITE_SW_OFFSET_ADD offset shift with Ok o => Ok (Some o) | Err e => Err e | Panic s => Panic s end.
Definition sw_fits_pinned (offset length : N) : outcome (option bool) unit := Ok (Some true).
(* `spans_are_valid = spans_are_valid && last_position <= *offset; last_position = offset + size;` *)
Definition pe_valid_pinned (valid : bool) (last offset size : N) : bool := valid && (last <=? offset).
Definition pe_last_pinned (offset size : N) : outcome N unit := usize_add SITE_PE_LAST_ADD offset size.

Definition sub_word_pinned := sub_word_gen sw_offset_pinned sw_fits_pinned.
Definition mul_shifted_pinned := mul_shifted_gen false (fun _ => true).        (* no LeftShift arm *)
Definition packed_encoding_pinned := packed_encoding_gen pe_valid_pinned pe_last_pinned.
Definition packing3_pinned (v : sv) : outcome sv unit :=
  obind (sub_word_pinned v) (fun v1 => packed_encoding_pinned (mul_shifted_pinned v1)).

(* ------------------------------------------------------------------ what "inside the slot" means for the nodes
   the passes create *)

Definition subword_ok (a : list N) : bool :=
  match a with [o; n] => (0 <? n) && (o + n <=? 256) | _ => false end.
Definition shifted_ok (a : list N) : bool :=
  match a with [o] => o <? 256 | _ => false end.
(* spans [o1; n1; o2; n2; ...]: ordered, pairwise disjoint, each ends inside the word *)
Fixpoint spans_ok (last : N) (a : list N) : bool :=
  match a with
  | [] => true
  | o :: n :: r => (last <=? o) && (o + n <=? 256) && spans_ok (o + n) r
  | _ => false
  end.

(* every node of a tree satisfies a predicate on its constructor and non-child payload *)
Fixpoint nodes_ok (P : tag -> list N -> bool) (v : sv) : bool :=
  match v with Node t a args => P t a && forallb (nodes_ok P) args end.

Definition sw_node_ok (t : tag) (a : list N) : bool := if tag_eqb t T_SubWord then subword_ok a else true.
Definition sh_node_ok (t : tag) (a : list N) : bool := if tag_eqb t T_Shifted then shifted_ok a else true.
Definition pk_node_ok (t : tag) (a : list N) : bool := if tag_eqb t T_Packed then spans_ok 0 a else true.
(* every SubWord / Shifted / Packed node of the tree describes bits that exist *)
Definition subwords_in_slot : sv -> bool := nodes_ok sw_node_ok.
Definition shifteds_in_slot : sv -> bool := nodes_ok sh_node_ok.
Definition packeds_in_slot : sv -> bool := nodes_ok pk_node_ok.
Definition lifted_in_slot (v : sv) : bool := subwords_in_slot v && shifteds_in_slot v && packeds_in_slot v.

Definition is_lifted (t : tag) : bool := tag_eqb t T_SubWord || tag_eqb t T_Shifted || tag_eqb t T_Packed.
(* trees without SubWord / Shifted / Packed nodes: everything the VM produces *)
Definition no_lifted : sv -> bool := nodes_ok (fun t _ => negb (is_lifted t)).

(* every Shifted node wraps a SubWord: what mul_shifted establishes and packed_encoding relies on
   (`panic!("Shift of non-sub-word")`) *)
Fixpoint shifted_wf (v : sv) : bool :=
  match v with
  | Node t a args =>
      (if tag_eqb t T_Shifted then match a, args with [_], [c] => is_subword c | _, _ => false end else true)
      && forallb shifted_wf args
  end.
