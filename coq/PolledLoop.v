(* C13: the polling scheme shared by the loops of the type-checker stages (lift, assign_vars, infer, unify's two loops,
   layout building) and the bulk-copy loops:

       for item in items {
           if counter % interval == 0 && watchdog.should_stop() { return Err(StoppedByWatchdog) }
           counter += 1;              // on EVERY iteration (tools/tr_polls.py checks that no `continue` precedes it)
           body(item)                 // may fail with another error, may `continue`
       }

   The translator (T7-polled-loops) checks on every run that each of the eleven polled loops has exactly this
   shape: the guard text, the interval bound from poll_every(), the stop branch, and the unconditional bump.
   Definitions only; proofs in proofs/PolledLoopProofs.v. *)
From Coq Require Import List NArith Bool.
Import ListNotations.
Open Scope N_scope.

(* the watchdog: polls made so far; it answers `stop` from poll number `stop_from` on (None: never) *)
Record wdog := mk_wdog { polls : N; stop_from : option N }.
Definition should_stop (w : wdog) : bool * wdog :=
  (match stop_from w with Some k => k <=? polls w | None => false end, mk_wdog (polls w + 1) (stop_from w)).

Inductive lres (St : Type) := LDone (s : St) (c : N) (w : wdog) | LStopped (w : wdog) | LFailed (w : wdog).
Arguments LDone {St}. Arguments LStopped {St}. Arguments LFailed {St}.

Section Loop.
  Context {A St : Type}.
  Variable body : A -> St -> option St.     (* None: the body failed with some other error *)
  Variable interval : N.

  Fixpoint ploop (items : list A) (c : N) (w : wdog) (s : St) : lres St :=
    match items with
    | [] => LDone s c w
    | x :: r =>
        let '(stop, w1) := if c mod interval =? 0 then should_stop w else (false, w) in
        if stop then LStopped w1
        else match body x s with
             | Some s1 => ploop r (c + 1) w1 s1
             | None => LFailed w1
             end
    end.
End Loop.

(* the number of i < n with (c + i) mod k = 0 *)
Fixpoint poll_points (k : N) (n : nat) (c : N) : N :=
  match n with
  | O => 0
  | S m => (if c mod k =? 0 then 1 else 0) + poll_points k m (c + 1)
  end.
