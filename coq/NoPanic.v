(* Decidable vocabulary of the end-to-end panic-freedom theorem (property C01, props/C01_pipeline.v): the
   invariants that cross the stage boundaries of `Pipeline.analyze_model`.

     VM -> lift          `no_lifted` (PassesPacking.v): no SubWord / Shifted / Packed node in a value the VM hands over
     lift -> assign_vars `spans_small`: every SubWord and Packed node of a lifted value describes bits 0..256
     assign_vars/infer   `tnode_ok`: the same, for one registered node (a rule reads the payload of the node it is given)
     infer -> unify      `tstate_ok`: every type expression of the judgement set is `te_bounded` (span ends and word
                         widths fit in `usize`, so `span.offset + span.size` of the (Packed, Packed) arm of `merge`
                         cannot overflow) and `te_closed` under the fresh-variable counter (it only names variables
                         that have been allocated)
     unify -> abi        the same two, for the data of every class of the forest, under the counter `unify` returns

   Definitions only; proofs are in proofs/NoPanic*.v and proofs/PipelineNoPanic.v. *)
From SLX Require Import Base gen.Constants gen.ValueSig SymVal PassesPacking TypeExpr Merge Register Unify.
Open Scope N_scope.

(* ---- type expressions ---- *)
(* `span.offset + span.size` does not overflow `usize` (the negation of Merge.span_overflows) *)
Definition span_fits (s : TypeExpr.span) : bool := s_off s + s_sz s <=? usize_max.

Definition te_bounded (e : te) : bool :=
  match e with
  | Packed ts _ => forallb span_fits ts
  | Word (Some w) _ => w <=? usize_max
  | _ => true
  end.

(* every type variable mentioned at the top of the expression was allocated before the counter reached n *)
Definition te_closed (n : N) (e : te) : bool := forallb (fun v => v <? n) (te_vars e).

Definition te_ok (n : N) (e : te) : bool := te_bounded e && te_closed n e.

(* a judgement set as `unify` receives it *)
Definition tstate_ok (st : tstate) : bool :=
  forallb (fun p : tyvar * iset => forallb (te_ok (ts_next st)) (snd p)) (ts_inf st).

(* ---- values ---- *)
(* every SubWord node has size > 0 and offset + size <= 256; every Packed node has ordered, disjoint spans ending
   inside the word (PassesPacking.v `sw_node_ok`, `pk_node_ok`) *)
Definition spans_small (v : sv) : bool := subwords_in_slot v && packeds_in_slot v.

(* the same for the payload of ONE registered node *)
Definition tnode_ok (x : tsv) : bool := sw_node_ok (ttag x) (tattrs x) && pk_node_ok (ttag x) (tattrs x).

(* the type variables below n, as the `dom` of Abi's closedness hypothesis *)
Definition vars_below (n : N) : list tyvar := map N.of_nat (seq 0 (N.to_nat n)).
