(* `unification::merge` (src/tc/unification.rs:153-547), arm by arm in source order, with everything it
   returns: the resulting expression, the emitted equalities and judgements, the fresh type variables
   it allocated and the state of the fresh-variable counter afterwards.  Panics are `Panic site`.
   Also here: the comparison "up to the wording of conflict explanations and the choice of
   representative among the variables it equates", the two groupings/orders of a three-way
   combination, and the decidable known class K1/K2 (finding K1 of DESIGN.md section 4).
   Definitions only; proofs are in proofs/MergeProofs.v. *)
From SLX Require Import Base gen.Constants gen.WordUseTable TypeExpr.
Open Scope N_scope.

(* ------------------------------------------------------------------------------------------ *)
(* The result type `Merge` plus the fresh-variable counter (`TypeVariableSource`) after the call. *)
Record mres := mk_mres {
  expr : te;
  eqs  : list (tyvar * tyvar);     (* `Equality { left, right }` *)
  judg : list (tyvar * te);        (* `Judgement { tv, expr }` *)
  newv : list tyvar;               (* `ty_vars` *)
  next : N                         (* next fresh type variable *)
}.
Definition mresult := outcome mres unit.

(* panic sites *)
Definition site_equal_left : N := 1.       (* "Equalities should not exist when unifying" (left) *)
Definition site_equal_right : N := 2.      (* the same, right operand *)
Definition site_usize_overflow : N := 3.   (* `span.offset + span.size` (overflow-checks = true) *)
Definition site_no_first : N := 4.         (* `.expect("Non-empty vector had no first")` *)
Definition site_index : N := 5.            (* `types[i]` out of bounds after sorting *)
Definition site_delegation : N := 99.      (* model artefact: a delegated call delegating again *)

Definition usize_max : N := two64 - 1.

Definition m_expression (e : te) (nxt : N) : mresult :=
  Ok {| expr := e; eqs := []; judg := []; newv := []; next := nxt |}.
Definition m_equalities (e : te) (q : list (tyvar * tyvar)) (nxt : N) : mresult :=
  Ok {| expr := e; eqs := q; judg := []; newv := []; next := nxt |}.
Definition m_judgements (e : te) (j : list (tyvar * te)) (nxt : N) : mresult :=
  Ok {| expr := e; eqs := []; judg := j; newv := []; next := nxt |}.

(* ------------------------------------------------------------------------------------------ *)
(* helpers of the Packed arms *)

(* stable insertion sorts (itertools `sorted`, `sorted_by_key` are stable merge sorts) *)
Fixpoint insN (x : N) (l : list N) : list N :=
  match l with [] => [x] | y :: r => if x <=? y then x :: l else y :: insN x r end.
Definition sortN (l : list N) : list N := fold_right insN [] l.

(* itertools `unique`: keeps first occurrences *)
Fixpoint uniq_from (seen l : list N) : list N :=
  match l with
  | [] => []
  | x :: r => if existsb (N.eqb x) seen then uniq_from seen r else x :: uniq_from (x :: seen) r
  end.
Definition uniq (l : list N) : list N := uniq_from [] l.

Fixpoint ins_by (le : span -> span -> bool) (x : span) (l : list span) : list span :=
  match l with [] => [x] | y :: r => if le x y then x :: l else y :: ins_by le x r end.
Definition sort_by (le : span -> span -> bool) (l : list span) : list span := fold_right (ins_by le) [] l.
(* `sorted_by_key(|s| s.offset)` *)
Definition le_offset (a b : span) : bool := s_off a <=? s_off b.
(* `sorted_by_key(|s| (s.offset, s.size))` *)
Definition le_offset_size (a b : span) : bool :=
  (s_off a <? s_off b) || ((s_off a =? s_off b) && (s_sz a <=? s_sz b)).

Definition span_is (s : span) (o z : N) : bool := (s_off s =? o) && (s_sz s =? z).

(* (TE::Packed { types, .. }, TE::DynamicArray { .. } | TE::Bytes) => match types.len() *)
Definition merge_packed_array (left right : te) (types : list span) (nxt : N) : mresult :=
  match types with
  | [] => m_expression Bytes nxt
  | [t] =>
      if span_is t 0 1 || span_is t 1 7 || span_is t 8 248
      then m_expression Bytes nxt
      else m_expression (conflict left right RPackedDyn) nxt
  | [_; _] =>
      match sort_by le_offset types with
      | fst_ :: snd_ :: _ =>
          if (span_is fst_ 0 1 && span_is snd_ 1 7)
             || (span_is fst_ 0 1 && span_is snd_ 8 248)
             || (span_is fst_ 1 7 && span_is snd_ 8 248)
          then m_expression Bytes nxt
          else m_expression (conflict left right RPackedBytes) nxt
      | _ => Panic site_index
      end
  | [_; _; _] =>
      match sort_by le_offset types with
      | fst_ :: snd_ :: thd_ :: _ =>
          if span_is fst_ 0 1 && span_is snd_ 1 7 && span_is thd_ 8 248
          then m_expression Bytes nxt
          else m_expression (conflict left right RPackedDyn) nxt
      | _ => Panic site_index
      end
  | _ => m_expression (conflict left right RPackedDyn) nxt
  end.

(* the `spans: Vec<(TypeVariable, usize, usize)>` loop: one fresh variable per adjacent pair of
   boundaries, allocated in increasing order of position *)
Fixpoint mk_spans (bs : list N) (start : N) (nxt : N) : list (tyvar * N * N) * N :=
  match bs with
  | [] => ([], nxt)
  | e :: r => let '(rest, n') := mk_spans r e (nxt + 1) in ((nxt, start, e) :: rest, n')
  end.

Fixpoint skip_while {A} (p : A -> bool) (l : list A) : list A :=
  match l with [] => [] | x :: r => if p x then skip_while p r else l end.
Fixpoint take_while {A} (p : A -> bool) (l : list A) : list A :=
  match l with [] => [] | x :: r => if p x then x :: take_while p r else [] end.

(* the `process_spans` closure: equalities and judgements it pushes for one input span list *)
Definition process_spans (spans : list (tyvar * N * N)) (input : list span)
  : list (tyvar * tyvar) * list (tyvar * te) :=
  fold_left
    (fun acc s =>
       let corr := take_while (fun '(_, _, e) => e <=? s_off s + s_sz s)
                     (skip_while (fun '(_, st, _) => st <? s_off s) spans) in
       match corr with
       | [(t, _, _)] => (fst acc ++ [(s_typ s, t)], snd acc)
       | _ => (fst acc,
               snd acc ++ [(s_typ s,
                            packed_of (map (fun '(t, st, e) => mk_span t (st - s_off s) (e - st)) corr))])
       end)
    (sort_by le_offset_size input) ([], []).

Definition boundaries_of (ts : list span) : list N := flat_map (fun s => [s_off s; s_off s + s_sz s]) ts.
Definition span_overflows (s : span) : bool := usize_max <? s_off s + s_sz s.

(* (TE::Packed, TE::Packed) *)
Definition merge_packed_packed (tl : list span) (sl : bool) (tr : list span) (sr : bool) (nxt : N) : mresult :=
  let is_struct := sr || sl in
  match tl, tr with
  | [], _ => m_expression (Packed tr is_struct) nxt
  | _, [] => m_expression (Packed tl is_struct) nxt
  | _, _ =>
      if existsb span_overflows (tl ++ tr) then Panic site_usize_overflow else
      match sortN (uniq (boundaries_of tl ++ boundaries_of tr)) with
      | [] => Panic site_no_first
      | b0 :: rest =>
          let '(spans, n') := mk_spans rest b0 nxt in
          let '(e1, j1) := process_spans spans tl in
          let '(e2, j2) := process_spans spans tr in
          Ok {| expr := Packed (map (fun '(t, st, e) => mk_span t st (e - st)) spans) is_struct;
                eqs := e1 ++ e2; judg := j1 ++ j2;
                newv := map (fun '(t, _, _) => t) spans; next := n' |}
      end
  end.

(* (TE::Packed { types, .. }, TE::Word { width, usage }) *)
Definition merge_packed_word (left right : te) (types : list span) (width : option N) (usage : wuse)
  (parent : tyvar) (nxt : N) : mresult :=
  match types with
  | [] => m_expression right nxt
  | first_span :: _ =>
      match usage with
      | UUnsignedNumeric | UNumeric | UBytes =>
          match width with
          | None => m_expression left nxt
          | Some w =>
              if w =? WORD_SIZE_BITS then m_expression left nxt
              else Ok {| expr := left; eqs := [];
                         judg := [(parent, packed_of [mk_span nxt 0 w])];
                         newv := [nxt]; next := nxt + 1 |}
          end
      | _ =>
          match width with
          | Some w =>
              if s_off first_span =? 0 then
                if s_sz first_span =? w
                then m_judgements left [(s_typ first_span, right)] nxt
                else m_expression (conflict left right RSpanSize) nxt
              else m_expression (conflict left right RNoStartSpan) nxt
          | None => m_expression (conflict left right RPackedWord) nxt
          end
      end
  end.

(* the width computation of the (Word, Word) arm: `None` = "Disagreeing numeric widths" *)
Definition width_merge (wl wr : option N) : option (option N) :=
  match wl, wr with
  | Some l, Some r => if l =? r then Some (Some l) else None
  | Some l, None => Some (Some l)
  | None, Some r => Some (Some r)
  | None, None => Some None
  end.

(* ------------------------------------------------------------------------------------------ *)
(* The body of `merge`; `rec` is the function itself, used by the "delegate to the flipped case" arms. *)
Definition merge_body (rec : te -> te -> mresult) (left right : te) (parent : tyvar) (nxt : N) : mresult :=
  if te_eqb left right then m_expression left nxt else
  match left, right with
  | Equal _, _ => Panic site_equal_left
  | _, Equal _ => Panic site_equal_right

  | Conflict _ _, _ => m_expression (conflict_with left right RConflictsAlways) nxt
  | _, Conflict _ _ => m_expression (conflict_with right left RConflictsAlways) nxt

  | Word wl ul, Word wr ur =>
      match width_merge wl wr with
      | None => m_expression (conflict left right RWidths) nxt
      | Some width =>
          match wuse_merge ul ur with
          | None => m_expression (conflict left right RUsages) nxt
          | Some usage => m_expression (Word width usage) nxt
          end
      end

  | Word _ _, Bytes => rec right left

  | Bytes, Word _ usage =>
      if negb (is_definitely_signed usage) then m_expression Bytes nxt
      else (* guard failed: no later arm matches (Bytes, Word) except the final one *)
        m_expression (conflict left right RIncompatible) nxt

  | DynamicArray _, Bytes | Bytes, DynamicArray _ => m_expression Bytes nxt

  | DynamicArray _, Packed _ _ | Bytes, Packed _ _ => rec right left

  | Packed types _, DynamicArray _ | Packed types _, Bytes => merge_packed_array left right types nxt

  | Word _ _, DynamicArray _ => rec right left

  | DynamicArray _, Word _ usage =>
      m_expression (if is_definitely_signed usage then conflict left right RDynSigned else left) nxt

  | DynamicArray el, DynamicArray er => m_equalities left [(el, er)] nxt

  | FixedArray el ll, FixedArray er lr =>
      if ll =? lr then m_equalities left [(el, er)] nxt
      else m_expression (conflict left right RFixedLen) nxt

  | Mapping kl vl, Mapping kr vr => m_equalities left [(kl, kr); (vl, vr)] nxt

  | Packed tl sl, Packed tr sr => merge_packed_packed tl sl tr sr nxt

  | Word _ _, Packed _ _ => rec right left
  | Packed types _, Word width usage => merge_packed_word left right types width usage parent nxt

  | _, Any => m_expression left nxt
  | Any, _ => m_expression right nxt

  | _, _ => m_expression (conflict left right RIncompatible) nxt
  end.

(* Delegating arms call `merge(right, left, ..)`; the flipped pair never delegates again, so one
   level of unfolding is the whole recursion (`merge_never_site_delegation` in the proofs). *)
Definition merge (left right : te) (parent : tyvar) (nxt : N) : mresult :=
  merge_body (fun l r => merge_body (fun _ _ => Panic site_delegation) l r parent nxt) left right parent nxt.

(* ------------------------------------------------------------------------------------------ *)
(* Comparison of outcomes of combining evidence. *)

(* what a combination of several pieces of evidence produced in total *)
Record cres := mk_cres { c_expr : te; c_eqs : list (tyvar * tyvar); c_judg : list (tyvar * te) }.
Definition comb := outcome cres unit.

(* the equivalence on type variables generated by a list of equalities *)
Inductive eqv (q : list (tyvar * tyvar)) : tyvar -> tyvar -> Prop :=
| eqv_in a b : In (a, b) q -> eqv q a b
| eqv_refl a : eqv q a a
| eqv_sym a b : eqv q a b -> eqv q b a
| eqv_trans a b c : eqv q a b -> eqv q b c -> eqv q a c.

Definition same_eqs (q1 q2 : list (tyvar * tyvar)) : Prop := forall x y, eqv q1 x y <-> eqv q2 x y.

Definition span_rel (R : tyvar -> tyvar -> Prop) (a b : span) : Prop :=
  R (s_typ a) (s_typ b) /\ s_off a = s_off b /\ s_sz a = s_sz b.

(* equal up to conflict payloads and up to R on type variables *)
Inductive te_rel (R : tyvar -> tyvar -> Prop) : te -> te -> Prop :=
| rel_any : te_rel R Any Any
| rel_equal i j : R i j -> te_rel R (Equal i) (Equal j)
| rel_word w u : te_rel R (Word w u) (Word w u)
| rel_bytes : te_rel R Bytes Bytes
| rel_fixed e e' l : R e e' -> te_rel R (FixedArray e l) (FixedArray e' l)
| rel_mapping k k' v v' : R k k' -> R v v' -> te_rel R (Mapping k v) (Mapping k' v')
| rel_dyn e e' : R e e' -> te_rel R (DynamicArray e) (DynamicArray e')
| rel_packed t t' s : Forall2 (span_rel R) t t' -> te_rel R (Packed t s) (Packed t' s)
| rel_conflict cs rs cs' rs' : te_rel R (Conflict cs rs) (Conflict cs' rs').

Definition judg_rel (R : tyvar -> tyvar -> Prop) (a b : tyvar * te) : Prop :=
  R (fst a) (fst b) /\ te_rel R (snd a) (snd b).
Definition judg_incl (R : tyvar -> tyvar -> Prop) (j1 j2 : list (tyvar * te)) : Prop :=
  forall a, In a j1 -> exists b, In b j2 /\ judg_rel R a b.

(* THE equivalence of C16: the emitted equalities generate the same identification of variables,
   the expressions agree up to that identification and up to what a conflict says, and the
   emitted judgements agree as sets in the same sense. *)
Definition cres_equiv (a b : cres) : Prop :=
  same_eqs (c_eqs a) (c_eqs b)
  /\ te_rel (eqv (c_eqs a)) (c_expr a) (c_expr b)
  /\ judg_incl (eqv (c_eqs a)) (c_judg a) (c_judg b)
  /\ judg_incl (eqv (c_eqs a)) (c_judg b) (c_judg a).

Definition comb_equiv (a b : comb) : Prop :=
  match a, b with
  | Ok x, Ok y => cres_equiv x y
  | Panic _, Panic _ => True
  | Err _, Err _ => True
  | _, _ => False
  end.

(* ---- the same, computably ---- *)
(* canonical representative after identifying variables along q *)
Fixpoint canon (q : list (tyvar * tyvar)) (x : tyvar) : tyvar :=
  match q with
  | [] => x
  | (a, b) :: r =>
      let cx := canon r x in
      if cx =? canon r a then canon r b else cx
  end.

Definition eqs_incl_b (q1 q2 : list (tyvar * tyvar)) : bool :=
  forallb (fun p => canon q2 (fst p) =? canon q2 (snd p)) q1.
Definition same_eqs_b (q1 q2 : list (tyvar * tyvar)) : bool := eqs_incl_b q1 q2 && eqs_incl_b q2 q1.

Definition span_sim (c : tyvar -> tyvar) (a b : span) : bool :=
  (c (s_typ a) =? c (s_typ b)) && (s_off a =? s_off b) && (s_sz a =? s_sz b).

Definition te_sim (c : tyvar -> tyvar) (a b : te) : bool :=
  match a, b with
  | Any, Any => true
  | Equal i, Equal j => c i =? c j
  | Word w u, Word w' u' => optN_eqb w w' && wuse_eqb u u'
  | Bytes, Bytes => true
  | FixedArray e l, FixedArray e' l' => (c e =? c e') && (l =? l')
  | Mapping k v, Mapping k' v' => (c k =? c k') && (c v =? c v')
  | DynamicArray e, DynamicArray e' => c e =? c e'
  | Packed t s, Packed t' s' => list_eqb (span_sim c) t t' && Bool.eqb s s'
  | Conflict _ _, Conflict _ _ => true
  | _, _ => false
  end.

Definition judg_sim (c : tyvar -> tyvar) (a b : tyvar * te) : bool :=
  (c (fst a) =? c (fst b)) && te_sim c (snd a) (snd b).
Definition judg_incl_b (c : tyvar -> tyvar) (j1 j2 : list (tyvar * te)) : bool :=
  forallb (fun a => existsb (judg_sim c a) j2) j1.

Definition cres_equivb (a b : cres) : bool :=
  let c := canon (c_eqs a) in
  same_eqs_b (c_eqs a) (c_eqs b) && te_sim c (c_expr a) (c_expr b)
  && judg_incl_b c (c_judg a) (c_judg b) && judg_incl_b c (c_judg b) (c_judg a).

Definition comb_equivb (a b : comb) : bool :=
  match a, b with
  | Ok x, Ok y => cres_equivb x y
  | Panic _, Panic _ => true
  | Err _, Err _ => true
  | _, _ => false
  end.

Notation "a ≈ b" := (comb_equiv a b) (at level 70, no associativity).

(* ------------------------------------------------------------------------------------------ *)
(* Combining two and three pieces of evidence about the variable `parent`. *)
Definition to_comb (r : mresult) : comb :=
  match r with
  | Ok m => Ok (mk_cres (expr m) (eqs m) (judg m))
  | Err e => Err e
  | Panic s => Panic s
  end.

Definition merge2 (a b : te) (p : tyvar) (n : N) : comb := to_comb (merge a b p n).

(* what the fold of `unify` does with [a; b; c]: merge(merge(a, b), c) *)
Definition merge3L (a b c : te) (p : tyvar) (n : N) : comb :=
  match merge a b p n with
  | Ok r1 =>
      match merge (expr r1) c p (next r1) with
      | Ok r2 => Ok (mk_cres (expr r2) (eqs r1 ++ eqs r2) (judg r1 ++ judg r2))
      | Err e => Err e
      | Panic s => Panic s
      end
  | Err e => Err e
  | Panic s => Panic s
  end.

(* the other grouping: merge(a, merge(b, c)) *)
Definition merge3R (a b c : te) (p : tyvar) (n : N) : comb :=
  match merge b c p n with
  | Ok r1 =>
      match merge a (expr r1) p (next r1) with
      | Ok r2 => Ok (mk_cres (expr r2) (eqs r1 ++ eqs r2) (judg r1 ++ judg r2))
      | Err e => Err e
      | Panic s => Panic s
      end
  | Err e => Err e
  | Panic s => Panic s
  end.

Definition comm_ok (a b : te) (p : tyvar) (n : N) : bool := comb_equivb (merge2 a b p n) (merge2 b a p n).
Definition assoc_ok (a b c : te) (p : tyvar) (n : N) : bool := comb_equivb (merge3L a b c p n) (merge3R a b c p n).

(* order independence of the left fold over the three pieces (what set iteration order can do) *)
Definition fold_order_ok (a b c : te) (p : tyvar) (n : N) : bool :=
  let r := merge3L a b c p n in
  comb_equivb r (merge3L a c b p n) && comb_equivb r (merge3L b a c p n) && comb_equivb r (merge3L b c a p n)
  && comb_equivb r (merge3L c a b p n) && comb_equivb r (merge3L c b a p n).

(* ------------------------------------------------------------------------------------------ *)
(* The known class (DESIGN.md section 4, finding K1; keys "C16:K1", "C16:K2").  It describes an evidence
   multiset, so it is closed under permuting the three operands.  Only the expression part of a merge
   is consulted, and `Packed` operands are outside it. *)
Definition mexpr (a b : te) : option te :=
  match merge a b 0 0 with Ok r => Some (expr r) | _ => None end.
Definition meqs (a b : te) : list (tyvar * tyvar) :=
  match merge a b 0 0 with Ok r => eqs r | _ => [] end.

Definition merges_to (a b : te) (p : te -> bool) : bool :=
  match mexpr a b with Some e => p e | None => false end.

(* K1: an array-like operand (DynamicArray / Bytes) that absorbs each of two words whose own merge is a
   conflict: the outcome is the array under one order and a conflict under another. *)
Definition K1_at (x y z : te) : bool :=
  arraylike x && is_word y && is_word z
  && merges_to y z is_conflict && merges_to x y (te_eqb x) && merges_to x z (te_eqb x).
Definition K1 (a b c : te) : bool := K1_at a b c || K1_at b a c || K1_at c a b.

(* K2: two operands whose merge emits a component equality that says something (Mapping x Mapping,
   DynamicArray x DynamicArray, equal-length FixedArrays over different variables) and a third operand
   that turns one of them into a Conflict or into Bytes: the expression agrees, the equality is emitted
   under one order only. *)
Definition emits (x y : te) : bool :=
  negb (is_packed x) && negb (is_packed y) && existsb (fun p => negb (fst p =? snd p)) (meqs x y).
Definition kills (x z : te) : bool := merges_to x z (fun r => is_conflict r || is_bytes r).
Definition K2_at (x y z : te) : bool := emits x y && negb (is_packed z) && (kills x z || kills y z).
Definition K2 (a b c : te) : bool := K2_at a b c || K2_at b c a || K2_at a c b.

Definition KnownNonAssoc (a b c : te) : bool := K1 a b c || K2 a b c.

(* ------------------------------------------------------------------------------------------ *)
(* The finite evidence domain named in property C16: Any, dynamic bytes, every word usage x widths
   {unknown, 8, 32, 160, 192, 256} (fixed-width usages at their width), mappings, dynamic and fixed
   arrays over two variables, and a conflict. *)
Definition domain_widths : list (option N) := [None; Some 8; Some 32; Some 160; Some 192; Some 256].
Definition domain_words : list te :=
  flat_map (fun u => match wuse_size u with
                     | Some w => [Word (Some w) u]
                     | None => map (fun w => Word w u) domain_widths
                     end) all_wuse.
Definition domain_conflict : te := Conflict [Word (Some 8) UBool; Word (Some 160) UAddress] [RInput 0].
Definition evidence_domain : list te :=
  [Any; Bytes; domain_conflict] ++ domain_words ++
  [Mapping 0 1; Mapping 1 0; Mapping 0 0;
   DynamicArray 0; FixedArray 0 3; FixedArray 0 4; DynamicArray 1; FixedArray 1 3; FixedArray 1 4].

(* ------------------------------------------------------------------------------------------ *)
(* C15, merge level: the lattice of word evidence and the plainly contradictory constructor pairs. *)
Definition wordev := (option N * wuse)%type.
Definition word_of (x : wordev) : te := Word (fst x) (snd x).

(* binary join of word evidence; `None` is the top element (contradiction) *)
Definition wordev_join (a b : wordev) : option wordev :=
  match width_merge (fst a) (fst b), wuse_merge (snd a) (snd b) with
  | Some w, Some u => Some (w, u)
  | _, _ => None
  end.
Definition wordev_join_top (a : option wordev) (b : wordev) : option wordev :=
  match a with Some x => wordev_join x b | None => None end.
(* the join of a non-empty family of word evidence *)
Definition wordev_join_all (x : wordev) (l : list wordev) : option wordev :=
  fold_left wordev_join_top l (Some x).

(* the information order on word evidence: unknown width below every width, usages as generated *)
Definition width_le (a b : option N) : bool :=
  match a, b with None, _ => true | Some x, Some y => x =? y | Some _, None => false end.
Definition wuse_le (a b : wuse) : bool :=
  match wuse_merge a b with Some c => wuse_eqb c b | None => false end.
Definition wordev_le (a b : wordev) : bool := width_le (fst a) (fst b) && wuse_le (snd a) (snd b).

(* ---- the SPECIFICATION of compatible usages: written by hand, NOT generated from WordUse::merge ----
   The information order on usages that C15 speaks about: `bytes` says nothing; `numeric` (used in arithmetic, sign unknown) is
   refined by `unsigned`, `signed` and `address` (an address takes part in unsigned arithmetic, so `unsigned` is below
   `address` too); a boolean, a selector and a function pointer are never numbers.  Two usages are compatible iff they are
   comparable, and the join is the larger one; everything else is "incompatible usages" and must conflict.  The predicates the
   searches evaluate on the implementation's output use THIS join (wordev_join_all_s), and props/C15.v proves that the table
   generated from the source coincides with it (C15_usage_table_is_spec): a table that joins what the specification calls
   contradictory -- or refuses what it calls compatible -- breaks that theorem and is found by the searches. *)
Definition wuse_below_spec (a b : wuse) : bool :=
  match a, b with
  | UBytes, _ => true
  | UNumeric, (UNumeric | UUnsignedNumeric | USignedNumeric | UAddress) => true
  | UUnsignedNumeric, (UUnsignedNumeric | UAddress) => true
  | _, _ => wuse_eqb a b
  end.
Definition wuse_join_spec (a b : wuse) : option wuse :=
  if wuse_below_spec a b then Some b else if wuse_below_spec b a then Some a else None.
Definition wordev_join_s (a b : wordev) : option wordev :=
  match width_merge (fst a) (fst b), wuse_join_spec (snd a) (snd b) with
  | Some w, Some u => Some (w, u)
  | _, _ => None
  end.
Definition wordev_join_all_s (x : wordev) (l : list wordev) : option wordev :=
  fold_left (fun a b => match a with Some y => wordev_join_s y b | None => None end) l (Some x).

(* folding `merge` over a list of evidence the way `unify` does (left fold); None = a panic *)
Fixpoint merge_fold (acc : te) (l : list te) (p : tyvar) (n : N) : option te :=
  match l with
  | [] => Some acc
  | x :: r => match merge acc x p n with
              | Ok m => merge_fold (expr m) r p (next m)
              | _ => None
              end
  end.

Definition ctor_class (e : te) : N :=
  match e with
  | Mapping _ _ => 1 | FixedArray _ _ => 2 | DynamicArray _ => 3 | Bytes => 4
  | Word (Some _) _ => 5 | _ => 0
  end.
(* plainly contradictory pairs: a mapping against an array, dynamic bytes or a sized word; a fixed
   array against a dynamic one, dynamic bytes or a sized word *)
Definition ctor_mismatch (a b : te) : bool :=
  let x := ctor_class a in let y := ctor_class b in
  negb (x =? 0) && negb (y =? 0) && negb (x =? y)
  && ((x =? 1) || (y =? 1) || (x =? 2) || (y =? 2)).

(* the pair contradicts: its own merge is a conflict *)
Definition contradicts (a b : te) : bool := merges_to a b is_conflict.
