(* C07: what a symbolic value denotes, and the comparison of a retired symbolic state with the state the
   reference EVM reaches along the same path. *)
From SLX Require Import Base gen.Constants gen.ValueSig SymVal Word256 EvmSpec Evm VM.
Open Scope N_scope.

(* the value a tree of constants denotes; None for anything that is not determined by constants *)
Fixpoint den (v : sv) : option N :=
  match v with
  | Node T_KnownData [w] [] => Some w
  | Node T_Add [] [a; b] => lift2 spec_add (den a) (den b)
  | Node T_Multiply [] [a; b] => lift2 spec_mul (den a) (den b)
  | Node T_Subtract [] [a; b] => lift2 spec_sub (den a) (den b)
  | Node T_Divide [] [a; b] => lift2 spec_div (den a) (den b)
  | Node T_SignedDivide [] [a; b] => lift2 spec_sdiv (den a) (den b)
  | Node T_Modulo [] [a; b] => lift2 spec_mod (den a) (den b)
  | Node T_SignedModulo [] [a; b] => lift2 spec_smod (den a) (den b)
  | Node T_Exp [] [a; b] => lift2 xspec_exp (den a) (den b)
  | Node T_SignExtend [] [size; value] => lift2 spec_signextend (den size) (den value)
  | Node T_LessThan [] [a; b] => lift2 spec_lt (den a) (den b)
  | Node T_GreaterThan [] [a; b] => lift2 spec_gt (den a) (den b)
  | Node T_SignedLessThan [] [a; b] => lift2 spec_slt (den a) (den b)
  | Node T_SignedGreaterThan [] [a; b] => lift2 spec_sgt (den a) (den b)
  | Node T_Equals [] [a; b] => lift2 spec_eq (den a) (den b)
  | Node T_IsZero [] [a] => lift1 spec_iszero (den a)
  | Node T_And [] [a; b] => lift2 spec_and (den a) (den b)
  | Node T_Or [] [a; b] => lift2 spec_or (den a) (den b)
  | Node T_Xor [] [a; b] => lift2 spec_xor (den a) (den b)
  | Node T_Not [] [a] => lift1 spec_not (den a)
  | Node T_LeftShift [] [s; x] => lift2 xspec_shl (den s) (den x)
  | Node T_RightShift [] [s; x] => lift2 xspec_shr (den s) (den x)
  | Node T_ArithmeticRightShift [] [s; x] => lift2 xspec_sar (den s) (den x)
  | Node T_SLoad [] [key; value] => den value           (* the value that was loaded *)
  | Node T_UnwrittenStorageValue [] [key] => Some 0     (* a slot the path never wrote *)
  | _ => None
  end.

Definition word_eqb (a b : option N) : bool :=
  match a, b with Some x, Some y => x =? y | None, None => true | _, _ => false end.

(* the writes to a slot, in order: the generations minus the placeholder a read of a fresh slot creates *)
Definition written (gens : list sv) : list sv :=
  filter (fun g => match g with Node T_UnwrittenStorageValue _ _ => false | _ => true end) gens.

Definition hist_of (k : N) (h : list (N * word)) : list word := map snd (filter (fun p => fst p =? k) h).

(* 0 = the symbolic state matches the concrete one; otherwise which component differs *)
Definition match_state (st : vstate) (e : estate) : N :=
  if negb (list_eqb word_eqb (map den (stack st)) (e_stack e)) then 41
  else if negb (forallb (fun kv => match alookup N.eqb (fst kv) (mem_const st) with
                                   | Some g => word_eqb (den (last_data g)) (snd kv)
                                   | None => false end) (e_mem e)) then 42
  else if negb (forallb (fun kg => match alist_get (fst kg) (e_mem e) with
                                   | Some w => true        (* compared above *)
                                   | None => word_eqb (den (last_data (snd kg))) (Some 0) end) (mem_const st)) then 42
  else if negb (forallb (fun kv => match alookup sv_eqb (Known (fst kv)) (sto_known st) with
                                   | Some g => word_eqb (den (last g (Known 0))) (snd kv)
                                   | None => false end) (e_sto e)) then 43
  else if negb (forallb (fun kg => match as_word (fst kg) with
                                   | Some k => list_eqb word_eqb (map den (written (snd kg))) (hist_of k (e_hist e))
                                   | None => false end) (sto_known st)) then 44
  else if negb (match sto_sym st with [] => true | _ => false end) then 45
  else 0.

(* the opcode bytes a path executes (to classify known deviations) *)
Fixpoint executed (code : list byte) (fuel : nat) (path : list bool) (s : estate) : list byte :=
  match fuel with
  | O => []
  | S f =>
      match byte_at code (e_pc s) with
      | None => []
      | Some b =>
          let '(br, path') := if b =? 87 then match path with x :: r => (x, r) | [] => (false, []) end else (false, path) in
          b :: match estep code br s with ENext s' => executed code f path' s' | _ => [] end
      end
  end.
