(* The 16 inference rules of `InferenceRules::default()` (src/tc/rule/*.rs) and `TypeChecker::infer`.

   A rule looks at ONE registered value (its constructor, its direct children, for two rules also grand
   children) and emits typing judgements `(type variable, type expression)` through `state.infer`; the
   mapping rule also allocates one fresh type variable.  Rules never fail (`Result<()>` is always `Ok`).

   Nine rules are a single `match value.data()` with straight-line arms: their arms are translated from the
   source on every run into tables (gen/RulesSig.v) and interpreted by `table_rule`; the one computed arm
   (SignExtend) and the seven rules with `let .. else` chains are written by hand below and selected through
   the recognised source text (gen/RulesSig.v `selected_rules`).  The `usize` products of the call-data and
   mapping rules are generated terms (`calldata_bits`, `mapping_span_offset`): checked (`Panic` on overflow) for
   the pinned text `x * C`, saturating for the repaired text `x.saturating_mul(C)`. *)
From Coq Require Import String.
From SLX Require Import Base Word256 gen.Constants gen.ValueSig gen.WordUseTable gen.RulesSig SymVal TypeExpr Fold Register.
Open Scope N_scope.

Definition judgement := (tyvar * te)%type.

Record rule_out := mk_ro { ro_alloc : bool; ro_js : list judgement }.
Definition no_out : rule_out := mk_ro false [].
Definition js_out (js : list judgement) : rule_out := mk_ro false js.

(* a rule: the value, the variable `allocate_ty_var` would return -> judgements *)
Definition rule := tsv -> tyvar -> outcome rule_out unit.

(* ---- table rules ---- *)
Definition field_arg (t : tag) (f : string) (args : list tsv) : option tsv :=
  if existsb (String.eqb f) (declared_children t) then nth_error args (index_of f (declared_children t)) else None.

Fixpoint find_row (tbl : rule_table) (t : tag) : option (list (string * te)) :=
  match tbl with
  | [] => None
  | (t', row) :: r => if tag_eqb t' t then Some row else find_row r t
  end.

Definition row_judgements (x : tsv) (row : list (string * te)) : list judgement :=
  flat_map (fun fe : string * te =>
              if String.eqb (fst fe) "self" then [(tv_of x, snd fe)]
              else match field_arg (ttag x) (fst fe) (targs x) with
                   | Some y => [(tv_of y, snd fe)]
                   | None => []
                   end) row.

(* arithmetic_operations.rs, the SignExtend arm:
     infer_for(extend_val, signed(None)); infer_for(size, unsigned(None));
     width = if size is KnownData { let w: usize = value.into(); if w <= WORD_SIZE_BITS {Some(w)} else {None} } else None;
     infer_for(value, signed(width)) *)
Definition sign_extend_arm (x : tsv) : list judgement :=
  match x with
  | TN v T_SignExtend [] [size; value] =>
      let width := match size with
                   | TN _ T_KnownData [w] [] => if as_usize w <=? WORD_SIZE_BITS then Some (as_usize w) else None
                   | _ => None
                   end in
      [(tv_of value, Word None USignedNumeric); (tv_of size, Word None UUnsignedNumeric); (v, Word width USignedNumeric)]
  | _ => []
  end.

Definition SITE_UNRECOGNISED : N := 9999.

Definition special_arm (name : string) (x : tsv) : outcome rule_out unit :=
  if String.eqb name "sign_extend_arm" then Ok (js_out (sign_extend_arm x)) else Panic SITE_UNRECOGNISED.

Fixpoint find_special (l : list (tag * string)) (t : tag) : option string :=
  match l with
  | [] => None
  | (t', n) :: r => if tag_eqb t' t then Some n else find_special r t
  end.

Definition table_rule (tbl : rule_table) (sp : list (tag * string)) : rule := fun x _ =>
  match find_special sp (ttag x) with
  | Some n => special_arm n x
  | None => match find_row tbl (ttag x) with
            | Some row => Ok (js_out (row_judgements x row))
            | None => Ok no_out
            end
  end.

(* ---- hand-written rules ---- *)

(* call_data.rs *)
Definition call_data_rule : rule := fun x _ =>
  match x with
  | TN v T_CallData [_] [_; size] =>
      match as_word (constant_fold (erase size)) with
      | Some w => match calldata_bits (as_usize w) with
                  | Ok bits => Ok (js_out [(v, Word (Some bits) UBytes)])
                  | Err e => Err e
                  | Panic s => Panic s
                  end
      | None => Ok no_out
      end
  | _ => Ok no_out
  end.

(* dynamic_array_write.rs *)
Definition dynamic_array_write_rule : rule := fun x _ =>
  match x with
  | TN _ T_StorageWrite [] [TN b_tv T_StorageSlot [] [TN _ T_DynamicArrayIndex [] [TN d_tv T_StorageSlot _ _; f]]; g] =>
      Ok (js_out [(b_tv, Equal (tv_of g)); (tv_of f, Word None UUnsignedNumeric); (d_tv, DynamicArray b_tv)])
  | _ => Ok no_out
  end.

(* mapping_access.rs: allocates `val_ty`; the struct span of the projection is inferred when
   `mapping_span_offset` yields an offset (generated: pinned `p * 256` panics on overflow, the first repair
   saturates, commit 66cf5b5 omits the span when offset or offset + 256 does not fit in usize) *)
Definition mapping_access_rule : rule := fun x fresh =>
  match x with
  | TN v T_StorageSlot [] [TN _ T_MappingIndex proj [slot; key]] =>
      let p := match proj with [1; p] => p | _ => 0 end in
      match mapping_span_offset p with
      | Ok (Some off) => Ok (mk_ro true [(fresh, packed_of [mk_span v off WORD_SIZE_BITS]);
                                         (tv_of slot, Mapping (tv_of key) fresh)])
      | Ok None => Ok (mk_ro true [(tv_of slot, Mapping (tv_of key) fresh)])
      | Err e => Err e
      | Panic s => Panic s
      end
  | _ => Ok no_out
  end.

(* masked_word.rs *)
Definition masked_word_rule : rule := fun x _ =>
  match x with
  | TN a_tv T_SubWord [offset; size] [sub_value] =>
      Ok (js_out [(a_tv, Word (Some size) UBytes); (tv_of sub_value, packed_of [mk_span a_tv offset size])])
  | _ => Ok no_out
  end.

(* packed_encoding.rs: attrs = offset, size per span; args = the span values *)
Fixpoint packed_spans (attrs : list N) (args : list tsv) : list span :=
  match attrs, args with
  | off :: sz :: attrs', y :: args' => mk_span (tv_of y) off sz :: packed_spans attrs' args'
  | _, _ => []
  end.

Definition packed_encoding_rule : rule := fun x _ =>
  match x with
  | TN v T_Packed attrs args => Ok (js_out [(v, packed_of (packed_spans attrs args))])
  | _ => Ok no_out
  end.

(* s_load_is_inner_types.rs *)
Definition s_load_rule : rule := fun x _ =>
  match x with
  | TN v T_SLoad [] [key; value] => Ok (js_out [(v, Equal (tv_of value)); (v, Equal (tv_of key))])
  | _ => Ok no_out
  end.

(* storage_key.rs *)
Definition storage_key_rule : rule := fun x _ =>
  match x with
  | TN _ T_StorageSlot [] [key] => Ok (js_out [(tv_of key, Word None UUnsignedNumeric)])
  | _ => Ok no_out
  end.

(* storage_write.rs *)
Definition storage_write_rule : rule := fun x _ =>
  match x with
  | TN _ T_StorageWrite [] [key; value] =>
      Ok (js_out [(tv_of key, Equal (tv_of value)); (tv_of value, Equal (tv_of key))])
  | _ => Ok no_out
  end.

Definition unrecognised_rule : rule := fun _ _ => Panic SITE_UNRECOGNISED.

Definition hand_rule (fn : string) : rule :=
  if String.eqb fn "call_data_rule" then call_data_rule
  else if String.eqb fn "dynamic_array_write_rule" then dynamic_array_write_rule
  else if String.eqb fn "mapping_access_rule" then mapping_access_rule
  else if String.eqb fn "masked_word_rule" then masked_word_rule
  else if String.eqb fn "packed_encoding_rule" then packed_encoding_rule
  else if String.eqb fn "s_load_rule" then s_load_rule
  else if String.eqb fn "storage_key_rule" then storage_key_rule
  else if String.eqb fn "storage_write_rule" then storage_write_rule
  else unrecognised_rule.

Fixpoint assoc_str (l : list (string * string)) (k : string) : option string :=
  match l with
  | [] => None
  | (k', v) :: r => if String.eqb k' k then Some v else assoc_str r k
  end.

(* the rule behind a struct name of rule/mod.rs *)
Definition rule_named (name : string) : rule :=
  if String.eqb name "ArithmeticOperationRule" then table_rule table_ArithmeticOperationRule special_ArithmeticOperationRule
  else if String.eqb name "BitShiftRule" then table_rule table_BitShiftRule special_BitShiftRule
  else if String.eqb name "BooleanOpsRule" then table_rule table_BooleanOpsRule special_BooleanOpsRule
  else if String.eqb name "CreateContractRule" then table_rule table_CreateContractRule special_CreateContractRule
  else if String.eqb name "EnvironmentCodesRule" then table_rule table_EnvironmentCodesRule special_EnvironmentCodesRule
  else if String.eqb name "ExternalCallRule" then table_rule table_ExternalCallRule special_ExternalCallRule
  else if String.eqb name "HashRule" then table_rule table_HashRule special_HashRule
  else if String.eqb name "OffsetSizeRule" then table_rule table_OffsetSizeRule special_OffsetSizeRule
  else if String.eqb name "ExtCodeRule" then table_rule table_ExtCodeRule special_ExtCodeRule
  else match assoc_str selected_rules name with
       | Some fn => hand_rule fn
       | None => unrecognised_rule
       end.

Definition default_rule_set : list rule := map rule_named default_rules.

(* ---- applying rules to the state ---- *)
Fixpoint apply_js (js : list judgement) (st : tcs) : outcome tcs unit :=
  match js with
  | [] => Ok st
  | (v, e) :: r => match st_infer st v e with
                   | Ok st' => apply_js r st'
                   | Err x => Err x
                   | Panic s => Panic s
                   end
  end.

Definition apply_rule (r : rule) (x : tsv) (st : tcs) : outcome tcs unit :=
  match r x (next st) with
  | Ok ro => apply_js (ro_js ro) (if ro_alloc ro then snd (allocate st) else st)
  | Err e => Err e
  | Panic s => Panic s
  end.

(* InferenceRules::infer: every rule on one value *)
Fixpoint infer_value (rs : list rule) (x : tsv) (st : tcs) : outcome tcs unit :=
  match rs with
  | [] => Ok st
  | r :: rs' => match apply_rule r x st with
                | Ok st' => infer_value rs' x st'
                | Err e => Err e
                | Panic s => Panic s
                end
  end.

(* TypeChecker::infer: the values are cloned first, so values allocated by rules are not visited *)
Fixpoint infer_values (rs : list rule) (xs : list tsv) (st : tcs) : outcome tcs unit :=
  match xs with
  | [] => Ok st
  | x :: xs' => match infer_value rs x st with
                | Ok st' => infer_values rs xs' st'
                | Err e => Err e
                | Panic s => Panic s
                end
  end.

Definition infer_all (rs : list rule) (st : tcs) : outcome tcs unit := infer_values rs (values st) st.
