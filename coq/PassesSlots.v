(* The six slot-related lifting passes of src/tc/lift as total functions over the generic value tree:

     StorageSlotHashes (recognise_hashed_slots.rs)   hashed_slots
     ProxySlots        (proxy_slots.rs)              proxy_slots
     MappingIndex      (mapping_index.rs)            mapping_index   (guard)  /  mi_ins   (below a storage access)
     DynamicArrayIndex (dynamic_array_access.rs)     dyn_array       (guard)  /  da_lift  (below a storage access)
     StorageSlots      (storage_slots.rs)            storage_slots
     MappingOffset     (mapping_offset.rs)           mapping_offset

   Every Rust pass is `value.transform_data(f)`: `f` is tried top-down, the first `Some` is the result and is
   NOT revisited unless `f` itself recursed into the operands; on `None` the constructor is rebuilt from the
   transformed children (`transform_ctor`, regenerated from `SymbolicValueData::transform`).  Because Coq's
   guard checker rejects a pass that hands itself to the generic `SymVal.transform`, each pass is one
   structural fixpoint whose last arm is that generic step; proofs/PassesSlotsProofs.v proves for each of them
   the unfolding equation against a non-recursive "view" of the node (`*_eq`).

   Representation reminders (SymVal.v): `Node tag attrs args`, args in declaration order:
     MappingIndex {slot, key, projection}   = Node T_MappingIndex  (None -> [0] | Some p -> [1; p]) [slot; key]
     DynamicArrayIndex {slot, index}        = Node T_DynamicArrayIndex [] [slot; index]
     SLoad/StorageWrite {key, value}        = Node _ [] [key; value]
     UnwrittenStorageValue/StorageSlot {key}= Node _ [] [key]
   Constructors without payload carry `attrs = []`; the patterns below do not look at the attrs of such nodes.

   None of the six passes can panic or fail: they perform no `usize` arithmetic (the only numeric conversions
   are `KnownWord::from(usize)` of a length / table index and `as_usize()` truncation of the offset constant),
   no indexing out of a checked length, and `constant_fold` is total (C09).  They are therefore `sv -> sv`. *)
From Coq Require Import String.
From SLX Require Import Base Word256 gen.ValueSig gen.Constants gen.PassOrder SymVal Fold.
Open Scope N_scope.

(* ------------------------------------------------------------------------------------------ bytes *)

(* U256::to_be_bytes: 32 bytes, most significant first *)
Definition be_byte (w : N) (i : nat) : byte := N.land (N.shiftr w (8 * N.of_nat (31 - i))) 255.
Definition be_bytes (w : N) : list byte := map (be_byte w) (seq 0 32).
Definition words_bytes (ws : list N) : list byte := flat_map be_bytes ws.

Fixpoint drop_while {A} (p : A -> bool) (l : list A) : list A :=
  match l with [] => [] | x :: r => if p x then drop_while p r else l end.

(* ProxySlots::strip_trailing_nuls *)
Definition strip_trailing_nuls (ws : list N) : list byte :=
  rev (drop_while (N.eqb 0) (rev (words_bytes ws))).

Definition printable (b : byte) : bool := (proxy_ascii_lo <? b) && (b <? proxy_ascii_hi).

(* ProxySlots::is_likely_string *)
Definition is_likely_string (ws : list N) : bool :=
  match ws with
  | [] => false
  | w :: _ => forallb printable (strip_trailing_nuls ws) && negb (be_byte w 0 =? 0)
  end.

(* ProxySlots::has_correct_number_of_bytes *)
Definition has_correct_number_of_bytes (ws : list N) (expected : N) : bool :=
  N.of_nat (length (strip_trailing_nuls ws)) =? expected.

(* ------------------------------------------------------------------------------------------ table *)

(* BiMap<U256, usize>::insert(l, r): pairs sharing the left or the right value are evicted first *)
Definition bimap_insert (t : list (N * N)) (h i : N) : list (N * N) :=
  (h, i) :: filter (fun p => negb (fst p =? h) && negb (snd p =? i)) t.

Definition lookup_in (t : list (N * N)) (h : N) : option N :=
  match find (fun p => fst p =? h) t with Some p => Some (snd p) | None => None end.

Section Passes.
  (* keccak256 over a byte string, as a 256-bit big-endian number *)
  Variable keccak : list byte -> N.
  (* the BiMap of StorageSlotHashes: hash -> slot index *)
  Variable table : list (N * N).

  (* StorageSlotHashes::make_hashes(count) *)
  Definition make_hashes (count : nat) : list (N * N) :=
    fold_left (fun t i => bimap_insert t (keccak (be_bytes (N.of_nat i))) (N.of_nat i)) (seq 0 count) [].

  Definition lookup_hash (h : N) : option N := lookup_in table h.

  (* ProxySlots::sha3_known_words *)
  Definition sha3_words (ws : list N) : N := keccak (words_bytes ws).

  (* ---------------------------------------------------------------------------------- 1. hashed *)
  Fixpoint hashed_slots (v : sv) : sv :=
    match v with
    | Node t a args =>
        let dflt := Node (transform_ctor t) a (map hashed_slots args) in
        match t, a, args with
        | T_KnownData, [w], [] =>
            match lookup_hash w with
            | Some i => Node T_Sha3 [] [Known i]
            | None => dflt
            end
        | _, _, _ => dflt
        end
    end.

  (* ---------------------------------------------------------------------------------- 2. proxy *)
  (* unpick_sha3_data *)
  Definition proxy_concat_key (values : list sv) : option sv :=
    match all_words (map constant_fold values) with
    | None => None
    | Some words =>
        if (Nat.leb proxy_abi_min_words (length words)) && (nth proxy_abi_pointer_ix words 0 =? SOLIDITY_STRING_POINTER)
        then
          let len := nth proxy_abi_length_ix words 0 in
          let sd := skipn proxy_abi_data_ix words in
          if negb (has_correct_number_of_bytes sd len) || negb (is_likely_string sd) then None
          else Some (Known (sha3_words words))
        else if negb (is_likely_string words) then None
        else Some (Known (sha3_words words))
    end.

  Definition unpick_sha3 (v : sv) : option sv :=
    match v with
    | Node T_Sha3 _ [Node T_KnownData [w] []] =>
        if is_likely_string [w] then Some (Known (sha3_words [w])) else None
    | Node T_Sha3 _ [Node T_Concat _ values] => proxy_concat_key values
    | _ => None
    end.

  (* unpick_proxy_slots *)
  Definition unpick_proxy (v : sv) : option sv :=
    match v with
    | Node T_Add _ [l; r] =>
        let pair := match unpick_sha3 l with
                    | Some l' => Some (l', r)
                    | None => match unpick_sha3 r with Some r' => Some (l, r') | None => None end
                    end in
        match pair with
        | None => None
        | Some (l2, r2) =>
            let f := constant_fold (Node T_Add [] [l2; r2]) in
            match as_word f with Some _ => Some f | None => None end
        end
    | _ => unpick_sha3 v
    end.

  (* recognise_proxy_slots *)
  Fixpoint proxy_slots (v : sv) : sv :=
    match v with
    | Node t a args =>
        let dflt := Node (transform_ctor t) a (map proxy_slots args) in
        match t, args with
        | T_SLoad, [k; x] =>
            Node T_SLoad a [match unpick_proxy k with Some k' => k' | None => proxy_slots k end; proxy_slots x]
        | T_StorageWrite, [k; x] =>
            Node T_StorageWrite a [match unpick_proxy k with Some k' => k' | None => proxy_slots k end; proxy_slots x]
        | _, _ => dflt
        end
    end.

  (* ---------------------------------------------------------------------------------- 3. mapping index *)
  (* insert_mapping_accesses: below a storage access *)
  Fixpoint mi_ins (v : sv) : sv :=
    match v with
    | Node t a args =>
        let dflt := Node (transform_ctor t) a (map mi_ins args) in
        match t, args with
        | T_Sha3, [Node T_Concat _ [key; slot]] => Node T_MappingIndex [0] [mi_ins slot; mi_ins key]
        | _, _ => dflt
        end
    end.

  (* guard_mapping_accesses *)
  Fixpoint mapping_index (v : sv) : sv :=
    match v with
    | Node t a args =>
        let dflt := Node (transform_ctor t) a (map mapping_index args) in
        match t, args with
        | T_StorageWrite, [k; x] => Node T_StorageWrite a [mi_ins k; mi_ins x]
        | T_SLoad, [k; x] => Node T_SLoad a [mi_ins k; mi_ins x]
        | T_UnwrittenStorageValue, [k] => Node T_UnwrittenStorageValue a [mi_ins k]
        | _, _ => dflt
        end
    end.

  (* ---------------------------------------------------------------------------------- 4. dynamic array *)
  Definition sha3_data (v : sv) : option sv :=
    match v with Node T_Sha3 _ [d] => Some d | _ => None end.

  (* what lift_dyn_array_accesses decides at one node: None = no match (recurse generically),
     Some (slot_source, fold_it, index_source) *)
  Definition da_view (v : sv) : option (sv * bool * sv) :=
    match v with
    | Node T_Add _ [l; r] =>
        match (match sha3_data l with Some d => Some d | None => sha3_data r end) with
        | None => None
        | Some d =>
            match d with
            | Node T_Concat _ [x] => Some (x, true, r)          (* values.len() == 1 => values[0].constant_fold() *)
            | Node T_Concat _ _ => None                          (* RSVD::Concat { .. } => return None *)
            | _ => Some (d, false, r)
            end
        end
    | _ => None
    end.

  (* lift_dyn_array_accesses.  The Rust closure recurses into `values[0].constant_fold()`, which is not a
     sub-term: fuel = depth of the tree (sufficient: proofs `da_lift_f_stable`, `depth_fold_le`).  Out of fuel
     the value is returned unchanged; `da_lift_f_stable` shows that this branch is never reached from `da_lift`. *)
  Fixpoint da_lift_f (n : nat) (v : sv) : sv :=
    match n with
    | O => v
    | S n' =>
        match da_view v with
        | Some (s, fold_it, i) =>
            Node T_DynamicArrayIndex [] [da_lift_f n' (if fold_it then constant_fold s else s); da_lift_f n' i]
        | None => match v with Node t a args => Node (transform_ctor t) a (map (da_lift_f n') args) end
        end
    end.
  Definition da_lift (v : sv) : sv := da_lift_f (sv_depth v) v.

  (* guard_dyn_array_accesses *)
  Fixpoint dyn_array (v : sv) : sv :=
    match v with
    | Node t a args =>
        let dflt := Node (transform_ctor t) a (map dyn_array args) in
        match t, args with
        | T_StorageWrite, [k; x] => Node T_StorageWrite a [da_lift k; da_lift x]
        | T_SLoad, [k; x] => Node T_SLoad a [da_lift k; da_lift x]
        | T_UnwrittenStorageValue, [k] => Node T_UnwrittenStorageValue a [da_lift k]
        | _, _ => dflt
        end
    end.

  (* ---------------------------------------------------------------------------------- 5. storage slots *)
  Definition is_slot (v : sv) : bool := match v with Node T_StorageSlot _ _ => true | _ => false end.

  (* insert_storage_accesses.  A key / base that already is a StorageSlot is cloned as it is (not transformed). *)
  Fixpoint storage_slots (v : sv) : sv :=
    match v with
    | Node t a args =>
        let dflt := Node (transform_ctor t) a (map storage_slots args) in
        match t, args with
        | T_MappingIndex, [s; k] =>
            Node T_MappingIndex a [if is_slot s then s else Node T_StorageSlot [] [storage_slots s]; storage_slots k]
        | T_StorageWrite, [k; x] =>
            Node T_StorageWrite a [if is_slot k then k else Node T_StorageSlot [] [storage_slots k]; storage_slots x]
        | T_DynamicArrayIndex, [s; i] =>
            Node T_DynamicArrayIndex a [if is_slot s then s else Node T_StorageSlot [] [storage_slots s]; storage_slots i]
        | T_SLoad, [k; x] =>
            Node T_SLoad a [if is_slot k then k else Node T_StorageSlot [] [storage_slots k]; storage_slots x]
        | _, _ => dflt
        end
    end.

  (* ---------------------------------------------------------------------------------- 6. mapping offset *)
  (* insert_mapping_offset; `value.into()` is `as_usize()` (truncation to 64 bits) *)
  Fixpoint mapping_offset (v : sv) : sv :=
    match v with
    | Node t a args =>
        let dflt := Node (transform_ctor t) a (map mapping_offset args) in
        match t, args with
        | T_Add, [Node T_MappingIndex _ [s; k]; Node T_KnownData [w] []] =>
            Node T_MappingIndex [1; as_usize w] [mapping_offset s; mapping_offset k]
        | T_Add, [Node T_KnownData [w] []; Node T_MappingIndex _ [s; k]] =>
            Node T_MappingIndex [1; as_usize w] [mapping_offset s; mapping_offset k]
        | _, _ => dflt
        end
    end.

  (* ---------------------------------------------------------------------------------- composition *)
  (* the six modelled passes; the other three are supplied by the caller *)
  Definition pass6 (p : pass_id) : option (sv -> sv) :=
    match p with
    | P_StorageSlotHashes => Some hashed_slots
    | P_ProxySlots => Some proxy_slots
    | P_MappingIndex => Some mapping_index
    | P_DynamicArrayIndex => Some dyn_array
    | P_StorageSlots => Some storage_slots
    | P_MappingOffset => Some mapping_offset
    | _ => None
    end.

  (* LiftingPasses::run over an arbitrary pass list; `other` implements the passes that are not modelled here *)
  Definition run_passes (other : pass_id -> sv -> sv) (order : list pass_id) (v : sv) : sv :=
    fold_left (fun x p => match pass6 p with Some f => f x | None => other p x end) order v.

  (* the default order, the three foreign passes supplied / skipped *)
  Definition default_pipeline (other : pass_id -> sv -> sv) : sv -> sv := run_passes other default_pass_order.
  Definition six_passes : sv -> sv := default_pipeline (fun _ x => x).

  (* what the six passes do to a sub-tree that lies below a storage access (key or value) *)
  Definition six_inner (v : sv) : sv :=
    mapping_offset (storage_slots (da_lift (mi_ins (proxy_slots (hashed_slots v))))).
End Passes.

(* ==========================================================================================
   Vocabulary of the properties C04 / C05 / C06 (used by the theorems in props/PassesSlots.v and, evaluated
   on the implementation's own output, by PassesSlotsCases.check_case). *)

Definition is_access_tag (t : tag) : bool :=
  match t with T_SLoad | T_StorageWrite | T_UnwrittenStorageValue => true | _ => false end.
Definition is_rw_tag (t : tag) : bool :=
  match t with T_SLoad | T_StorageWrite => true | _ => false end.
Definition is_lifted_tag (t : tag) : bool :=
  match t with T_StorageSlot | T_MappingIndex | T_DynamicArrayIndex => true | _ => false end.

(* v contains an SLoad / StorageWrite / UnwrittenStorageValue node *)
Fixpoint has_storage_access (v : sv) : bool :=
  match v with Node t _ args => is_access_tag t || existsb has_storage_access args end.

Fixpoint has_tag (t0 : tag) (v : sv) : bool :=
  match v with Node t _ args => tag_eqb t t0 || existsb (has_tag t0) args end.

(* v contains a StorageSlot / MappingIndex / DynamicArrayIndex node *)
Fixpoint has_lifted (v : sv) : bool :=
  match v with Node t _ args => is_lifted_tag t || existsb has_lifted args end.

(* no lifted node at a position that is NOT below (or at) a storage-access node *)
Fixpoint no_lift_outside (v : sv) : bool :=
  match v with
  | Node t _ args => if is_access_tag t then true else negb (is_lifted_tag t) && forallb no_lift_outside args
  end.

(* "outside key sub-trees": the walk below does not enter the key operand of a storage access.
   quiet_keys hashy v: outside key sub-trees there is no lifted node and no node satisfying `hashy` *)
Section Quiet.
  Variable hashy : sv -> bool.
  Fixpoint quiet (v : sv) : bool :=
    match v with
    | Node t a args =>
        negb (is_lifted_tag t) && negb (hashy v) &&
        match t, args with
        | T_SLoad, [k; x] => quiet x
        | T_StorageWrite, [k; x] => quiet x
        | T_UnwrittenStorageValue, [k] => true
        | _, _ => forallb quiet args
        end
    end.
End Quiet.
(* no lifted node outside key sub-trees *)
Definition no_lift_outside_keys : sv -> bool := quiet (fun _ => false).
(* hash-shaped nodes: a Sha3 node, or a constant that the table turns into one *)
Definition hashy_in (table : list (N * N)) (v : sv) : bool :=
  match v with
  | Node T_Sha3 _ _ => true
  | Node T_KnownData [w] [] => match lookup_in table w with Some _ => true | None => false end
  | _ => false
  end.
(* the class of finding K3 is the complement of this: outside key sub-trees there is neither a lifted node nor
   anything hash-shaped (in particular no stored / loaded VALUE contains a hash) *)
Definition no_value_hash (table : list (N * N)) : sv -> bool := quiet (hashy_in table).

(* constants wrapped as slots, and constants occurring in key sub-trees of storage accesses *)
Fixpoint slot_consts (v : sv) : list N :=
  match v with
  | Node t _ args =>
      (match t, args with T_StorageSlot, [Node T_KnownData [w] []] => [w] | _, _ => [] end)
      ++ flat_map slot_consts args
  end.
Fixpoint all_consts (v : sv) : list N :=
  match v with
  | Node t a args => (match t, a, args with T_KnownData, [w], [] => [w] | _, _, _ => [] end) ++ flat_map all_consts args
  end.
Fixpoint key_consts (v : sv) : list N :=
  match v with
  | Node t _ args =>
      (match args with k :: _ => if is_access_tag t then all_consts k else [] | [] => [] end)
      ++ flat_map key_consts args
  end.

(* ---- C06: literal keys *)
Definition blocks (t : tag) : bool := match t with T_Add | T_Sha3 | T_StorageSlot => true | _ => false end.
(* v is an SLoad / StorageWrite whose key is the literal c *)
Definition lit_key_node (c : N) (v : sv) : bool :=
  match v with
  | Node t _ [Node T_KnownData [w] []; _] => is_rw_tag t && (w =? c)
  | _ => false
  end.
(* such a node occurs at a position whose strict ancestors are neither Add, Sha3 nor StorageSlot nodes *)
Fixpoint exposed (c : N) (v : sv) : bool :=
  lit_key_node c v || match v with Node t _ args => negb (blocks t) && existsb (exposed c) args end.
(* v is an SLoad / StorageWrite whose key is StorageSlot (Known c) *)
Definition wrapped_node (c : N) (v : sv) : bool :=
  match v with
  | Node t _ [Node T_StorageSlot _ [Node T_KnownData [w] []]; _] => is_rw_tag t && (w =? c)
  | _ => false
  end.
Fixpoint wrapped (c : N) (v : sv) : bool :=
  wrapped_node c v || match v with Node _ _ args => existsb (wrapped c) args end.
Fixpoint exposed_keys (v : sv) : list N :=
  match v with
  | Node t _ args =>
      (match args with
       | [Node T_KnownData [w] []; _] => if is_rw_tag t then [w] else []
       | _ => []
       end) ++ (if blocks t then [] else flat_map exposed_keys args)
  end.
Fixpoint wrapped_keys (v : sv) : list N :=
  match v with
  | Node t _ args =>
      (match args with
       | [Node T_StorageSlot _ [Node T_KnownData [w] []]; _] => if is_rw_tag t then [w] else []
       | _ => []
       end) ++ flat_map wrapped_keys args
  end.

(* ---- C04: idioms *)
(* T_0 = Known slot, T_{k+1} = Sha3 (Concat [key_k; T_k]); keys outermost first *)
Fixpoint nest (keys : list sv) (slot : N) : sv :=
  match keys with
  | [] => Known slot
  | k :: ks => Node T_Sha3 [] [Node T_Concat [] [k; nest ks slot]]
  end.
(* R_0 = StorageSlot (Known slot), R_{k+1} = StorageSlot (MappingIndex {slot: R_k, key: key_k, projection: None}) *)
Fixpoint lifted_nest (keys : list sv) (slot : N) : sv :=
  match keys with
  | [] => Node T_StorageSlot [] [Known slot]
  | k :: ks => Node T_StorageSlot [] [Node T_MappingIndex [0] [lifted_nest ks slot; k]]
  end.
Fixpoint nest_of (v : sv) : option (list sv * N) :=
  match v with
  | Node T_KnownData [w] [] => Some ([], w)
  | Node T_Sha3 _ [Node T_Concat _ [k; s]] =>
      match nest_of s with Some (ks, w) => Some (k :: ks, w) | None => None end
  | _ => None
  end.
Fixpoint lifted_nest_of (v : sv) : option (nat * N) :=
  match v with
  | Node T_StorageSlot _ [Node T_KnownData [w] []] => Some (O, w)
  | Node T_StorageSlot _ [Node T_MappingIndex _ [s; k]] =>
      match lifted_nest_of s with Some (d, w) => Some (S d, w) | None => None end
  | _ => None
  end.
