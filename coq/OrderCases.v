(* C02: classification of an observed order dependence.  From the typing judgements that reach unification
   (harness `judgements`) compute the classes the declared equalities (and the component equalities that
   merging constructors emit) induce, and ask whether some class carries three pieces of evidence in the
   known non-associativity class of `merge` (Merge.KnownNonAssoc, finding K1/K2). *)
From Coq Require Import String.
From SLX Require Import Base gen.Constants gen.WordUseTable TypeExpr Merge MergeCases.
Open Scope N_scope.

Definition judgements := list (tyvar * list te).
(* as printed by the harness (MergeCases.xte) *)
Definition xjudgements := list (N * list xte).
Definition conv_j (x : xjudgements) : judgements := map (fun p => (fst p, map conv (snd p))) x.

Definition mem (x : N) (l : list N) : bool := existsb (N.eqb x) l.

(* merge the classes that contain a and b *)
Definition join (a b : N) (cls : list (list N)) : list (list N) :=
  let has x c := mem x c in
  let ca := filter (has a) cls in
  let cb := filter (has b) cls in
  match ca, cb with
  | c1 :: _, c2 :: _ =>
      if existsb (N.eqb b) c1 then cls
      else (c1 ++ c2) :: filter (fun c => negb (has a c) && negb (has b c)) cls
  | _, _ => cls
  end.

Definition declared_eqs (j : judgements) : list (N * N) :=
  flat_map (fun p => flat_map (fun e => match e with Equal i => [(fst p, i)] | _ => [] end) (snd p)) j.

Definition evidence_of (j : judgements) (c : list N) : list te :=
  flat_map (fun p => if mem (fst p) c then filter (fun e => negb (is_equal e)) (snd p) else []) j.

(* component equalities two constructors of one class force *)
Definition component_eqs (ev : list te) : list (N * N) :=
  flat_map (fun a => flat_map (fun b =>
    match a, b with
    | Mapping k v, Mapping k' v' => [(k, k'); (v, v')]
    | DynamicArray x, DynamicArray y => [(x, y)]
    | FixedArray x l, FixedArray y l' => if l =? l' then [(x, y)] else []
    | _, _ => []
    end) ev) ev.

Fixpoint close (fuel : nat) (j : judgements) (cls : list (list N)) : list (list N) :=
  match fuel with
  | O => cls
  | S f =>
      let eqs := flat_map (fun c => component_eqs (evidence_of j c)) cls in
      close f j (fold_left (fun acc e => join (fst e) (snd e) acc) eqs cls)
  end.

Definition vars_of (j : judgements) : list N :=
  nodup N.eq_dec (map fst j ++ flat_map (fun p => flat_map te_vars (snd p)) j).

Definition classes (j : judgements) : list (list N) :=
  let init := map (fun v => [v]) (vars_of j) in
  close 4 j (fold_left (fun acc e => join (fst e) (snd e) acc) (declared_eqs j) init).

Fixpoint triples {A} (l : list A) : list (A * A * A) :=
  match l with
  | [] => []
  | a :: r => flat_map (fun b_rest => match b_rest with
                                      | (b, rest) => map (fun c => (a, b, c)) rest end)
                       ((fix tails (m : list A) : list (A * list A) :=
                           match m with [] => [] | x :: t => (x, t) :: tails t end) r)
              ++ triples r
  end.

Definition dedup_te (l : list te) : list te :=
  fold_right (fun e acc => if existsb (te_eqb e) acc then acc else e :: acc) [] l.

Definition evidence_known_nonassoc (ev : list te) : bool :=
  existsb (fun t => match t with (a, b, c) => KnownNonAssoc a b c end) (triples (dedup_te ev)).

(* the second known class: three pieces of evidence, at least one of them a packed encoding, on which the six
   fold orders of the MODEL of merge disagree (merge is not associative around Packed x Word / Packed x
   Packed: the span re-partitioning, the judgements pushed to span variables and the fresh variables
   depend on the grouping) *)
Definition packed_order_dependent (ev : list te) : bool :=
  existsb (fun t => match t with (a, b, c) =>
                      (is_packed a || is_packed b || is_packed c) && negb (fold_order_ok a b c 0 100000) end)
          (triples (dedup_te ev)).

(* 1 = some class carries evidence in the known class K1/K2; 2 = in the packed class; 0 = neither *)
Definition order_class_code (j : judgements) : N :=
  if existsb (fun c => evidence_known_nonassoc (evidence_of j c)) (classes j) then 1
  else if existsb (fun c => packed_order_dependent (evidence_of j c)) (classes j) then 2 else 0.

Definition order_class_code_x (x : xjudgements) : N := order_class_code (conv_j x).
