(* The inference rules (coq/Rules.v): every rule returns Ok on every value (rules_total), emits judgements only
   about variables of the value's own sub-terms or the variable it allocated, hence `state.infer` never hits its
   `unwrap` on a registered value (rules_no_panic), and the expression table only grows (rule_keeps_slot). *)
From Coq Require Import String.
From SLX Require Import Base Word256 gen.Constants gen.ValueSig gen.WordUseTable gen.RulesSig SymVal TypeExpr Fold Register Rules.
From SLX Require Import proofs.RegisterProofs.
Open Scope N_scope.
Set Default Timeout 300.

(* ------------------------------------------------------------------ the part of the invariant rules rely on *)
Record winv (st : tcs) : Prop := {
  w_keys : map fst (exprs st) = map fst (infs st);
  w_lt : forall v, In v (map fst (exprs st)) <-> v < next st;
  w_closed : forall v x y, In (v, x) (exprs st) -> In y (targs x) -> In (tv_of y, y) (exprs st)
}.

Lemma inv_winv st : inv st -> winv st.
Proof. intros I. constructor; [exact (i_keys st I) | exact (i_lt st I) | exact (i_closed st I)]. Qed.

Definition vars (x : tsv) : list tyvar := map tv_of (tsubterms x).

Lemma vars_self x : In (tv_of x) (vars x).
Proof. unfold vars. apply in_map, tsubterms_self. Qed.

Lemma vars_arg x y : In y (targs x) -> incl (vars y) (vars x).
Proof.
  destruct x as [v t a args]. cbn [targs]. intros Hy w Hw. unfold vars in *. cbn [tsubterms map]. right.
  apply in_map_iff in Hw as (z & <- & Hz). apply in_map. apply in_flat_map. eauto.
Qed.

Lemma winv_vars st x : winv st -> In (tv_of x, x) (exprs st) -> forall w, In w (vars x) -> In w (map fst (infs st)).
Proof.
  intros W. induction x as [v t a args IH] using tsv_ind'. intros Hx w Hw. unfold vars in Hw. cbn [tsubterms map] in Hw.
  destruct Hw as [<-|Hw].
  - rewrite <- (w_keys st W). apply in_map_iff. exists (tv_of (TN v t a args), TN v t a args). auto.
  - apply in_map_iff in Hw as (z & <- & Hz). apply in_flat_map in Hz as (y & Hy & Hz). rewrite Forall_forall in IH.
    apply (IH y Hy); [exact (w_closed st W _ _ y Hx Hy)|]. unfold vars. apply in_map. exact Hz.
Qed.

(* ------------------------------------------------------------------ state.infer *)
Lemma add_inf_keys l v e l' : add_inf l v e = Some l' -> map fst l' = map fst l.
Proof.
  revert l'. induction l as [|[w s] l IH]; cbn [add_inf]; [discriminate|]. intros l'. destruct (w =? v).
  - intros [= <-]. reflexivity.
  - destruct (add_inf l v e) as [r|] eqn:E; [|discriminate]. cbn [option_map]. intros [= <-]. cbn [map fst]. f_equal. apply IH. reflexivity.
Qed.

Lemma add_inf_some l v e : In v (map fst l) -> exists l', add_inf l v e = Some l'.
Proof.
  induction l as [|[w s] l IH]; cbn [add_inf map fst In]; [tauto|]. intros H. destruct (w =? v) eqn:E; [eauto|].
  destruct H as [->|H]; [rewrite N.eqb_refl in E; discriminate|]. destruct (IH H) as (l' & ->). cbn. eauto.
Qed.

Definition same_but_infs (st st' : tcs) : Prop :=
  next st' = next st /\ exprs st' = exprs st /\ stable st' = stable st /\ map fst (infs st') = map fst (infs st).

Lemma same_but_infs_winv st st' : same_but_infs st st' -> winv st -> winv st'.
Proof.
  intros (A & B & _ & D) W. constructor; rewrite ?A, ?B, ?D.
  - exact (w_keys st W).
  - exact (w_lt st W).
  - exact (w_closed st W).
Qed.

Lemma st_infer_ok st v e :
  In v (map fst (infs st)) -> (forall id, e = Equal id -> In id (map fst (infs st))) ->
  exists st', st_infer st v e = Ok st' /\ same_but_infs st st'.
Proof.
  intros Hv Hid. unfold st_infer.
  assert (G : forall e', exists st', match add_inf (infs st) v e' with Some i => Ok (set_infs st i) | None => Panic SITE_INFER_VAR end
                          = (Ok st' : outcome tcs unit) /\ same_but_infs st st').
  { intros e'. destruct (add_inf_some (infs st) v e' Hv) as (i & E). rewrite E. eexists. split; [reflexivity|].
    unfold same_but_infs, set_infs. cbn. repeat split. exact (add_inf_keys _ _ _ _ E). }
  destruct e; try apply G.
  destruct (id =? v); [exists st; split; [reflexivity|unfold same_but_infs; auto]|].
  destruct (add_inf_some (infs st) id (Equal v) (Hid id eq_refl)) as (i1 & E1). rewrite E1.
  assert (Hv1 : In v (map fst i1)) by (rewrite (add_inf_keys _ _ _ _ E1); exact Hv).
  destruct (add_inf_some i1 v (Equal id) Hv1) as (i2 & E2). rewrite E2. eexists. split; [reflexivity|].
  unfold same_but_infs, set_infs. cbn. repeat split. rewrite (add_inf_keys _ _ _ _ E2). exact (add_inf_keys _ _ _ _ E1).
Qed.

Definition js_ok (keys : list tyvar) (js : list judgement) : Prop :=
  forall v e, In (v, e) js -> In v keys /\ (forall id, e = Equal id -> In id keys).

Lemma apply_js_ok js : forall st, js_ok (map fst (infs st)) js -> exists st', apply_js js st = Ok st' /\ same_but_infs st st'.
Proof.
  induction js as [|[v e] js IH]; intros st H; cbn [apply_js].
  - exists st. split; [reflexivity|unfold same_but_infs; auto].
  - destruct (H v e (or_introl eq_refl)) as (Hv & Hid). destruct (st_infer_ok st v e Hv Hid) as (st1 & -> & S1).
    destruct (IH st1) as (st2 & E2 & S2).
    { destruct S1 as (_ & _ & _ & K). rewrite K. intros v' e' Hin. apply H. right. exact Hin. }
    exists st2. split; [exact E2|]. destruct S1 as (A1 & B1 & C1 & D1), S2 as (A2 & B2 & C2 & D2). unfold same_but_infs. repeat split; congruence.
Qed.

(* ------------------------------------------------------------------ what a rule may talk about *)
Definition allowed (x : tsv) (fresh : tyvar) (alloc : bool) (w : tyvar) : Prop :=
  (alloc = true /\ w = fresh) \/ In w (vars x).

Definition rule_good (r : rule) : Prop :=
  forall x fresh, exists ro, r x fresh = Ok ro /\
    forall v e, In (v, e) (ro_js ro) -> allowed x fresh (ro_alloc ro) v /\ (forall id, e = Equal id -> allowed x fresh (ro_alloc ro) id).

Lemma allocate_winv st : winv st -> winv (snd (allocate st)).
Proof.
  intros W. unfold allocate. cbn [snd]. constructor; cbn [exprs infs next map fst].
  - f_equal. exact (w_keys st W).
  - intros v. split.
    + intros [<-|H]; [lia|]. apply (w_lt st W) in H. lia.
    + intros H. destruct (N.eq_dec v (next st)) as [->|Hne]; [left; reflexivity|]. right. apply (w_lt st W). lia.
  - intros v x y [[= <- <-]|H] Hy; [destruct Hy|]. right. exact (w_closed st W _ _ _ H Hy).
Qed.

(* applying a good rule to a registered value: no panic, no error; the expression table only grows *)
Lemma apply_rule_ok r x st : rule_good r -> winv st -> In (tv_of x, x) (exprs st) ->
  exists st', apply_rule r x st = Ok st' /\ winv st' /\ next st <= next st' /\
              (forall p, In p (exprs st) -> In p (exprs st')).
Proof.
  intros G W Hx. unfold apply_rule. destruct (G x (next st)) as (ro & -> & Hjs).
  set (st1 := if ro_alloc ro then snd (allocate st) else st).
  assert (W1 : winv st1) by (subst st1; destruct (ro_alloc ro); [apply allocate_winv|]; exact W).
  assert (K1 : forall w, allowed x (next st) (ro_alloc ro) w -> In w (map fst (infs st1))).
  { intros w [[A ->]|Hw]; subst st1.
    - rewrite A. cbn. left. reflexivity.
    - pose proof (winv_vars st x W Hx w Hw). destruct (ro_alloc ro); [cbn; right|]; assumption. }
  assert (JO : js_ok (map fst (infs st1)) (ro_js ro)).
  { intros v e Hin. destruct (Hjs v e Hin) as (Hv & Hid). split; [exact (K1 v Hv)|]. intros id Eid. exact (K1 id (Hid id Eid)). }
  destruct (apply_js_ok (ro_js ro) st1 JO) as (st2 & E & S12). pose proof S12 as (A & B & _ & D).
  exists st2. split; [exact E|]. split; [exact (same_but_infs_winv st1 st2 S12 W1)|].
  split.
  - rewrite A. subst st1. destruct (ro_alloc ro); cbn; lia.
  - intros p Hp. rewrite B. subst st1. destruct (ro_alloc ro); [cbn; right|]; exact Hp.
Qed.

(* ------------------------------------------------------------------ table rules *)
Definition tbl_no_equal (tbl : rule_table) : bool :=
  forallb (fun row => forallb (fun fe : string * te => negb (is_equal (snd fe))) (snd row)) tbl.
Definition sp_known (sp : list (tag * string)) : bool :=
  forallb (fun p => String.eqb (snd p) "sign_extend_arm") sp.

Lemma find_row_in tbl t row : find_row tbl t = Some row -> exists t', In (t', row) tbl.
Proof.
  induction tbl as [|[t' r] tbl IH]; cbn [find_row]; [discriminate|]. destruct (tag_eqb t' t).
  - intros [= ->]. exists t'. left. reflexivity.
  - intros H. destruct (IH H) as (t'' & Hin). exists t''. right. exact Hin.
Qed.

Lemma find_special_in sp t n : find_special sp t = Some n -> exists t', In (t', n) sp.
Proof.
  induction sp as [|[t' m] sp IH]; cbn [find_special]; [discriminate|]. destruct (tag_eqb t' t).
  - intros [= ->]. exists t'. left. reflexivity.
  - intros H. destruct (IH H) as (t'' & Hin). exists t''. right. exact Hin.
Qed.

Lemma field_arg_in t f args y : field_arg t f args = Some y -> In y args.
Proof. unfold field_arg. destruct (existsb _ _); [|discriminate]. apply nth_error_In. Qed.

Lemma arg_var_in x y : In y (targs x) -> In (tv_of y) (vars x).
Proof. intros H. apply (vars_arg x y H). apply vars_self. Qed.

Lemma sign_extend_arm_vars x v e : In (v, e) (sign_extend_arm x) -> In v (vars x) /\ forall id, e = Equal id -> In id (vars x).
Proof.
  destruct x as [w t a args]. unfold sign_extend_arm. intros H.
  destruct t; try (cbn in H; contradiction). destruct a; [|cbn in H; contradiction].
  destruct args as [|size [|value [|]]]; try (cbn in H; contradiction).
  cbn [In] in H. destruct H as [Hq|[Hq|[Hq|[]]]]; inversion Hq; subst; (split; [|intros id; discriminate]).
  - apply arg_var_in. cbn. auto.
  - apply arg_var_in. cbn. auto.
  - apply (vars_self (TN v T_SignExtend [] [size; value])).
Qed.

Lemma table_rule_good tbl sp : tbl_no_equal tbl = true -> sp_known sp = true -> rule_good (table_rule tbl sp).
Proof.
  intros HT HS x fresh. unfold table_rule. destruct (find_special sp (ttag x)) as [n|] eqn:Fs.
  - destruct (find_special_in _ _ _ Fs) as (t' & Hin). unfold sp_known in HS. rewrite forallb_forall in HS.
    specialize (HS _ Hin). cbn [snd] in HS. unfold special_arm. rewrite HS. eexists. split; [reflexivity|].
    cbn [ro_js js_out ro_alloc]. intros v e Hve. destruct (sign_extend_arm_vars x v e Hve) as (A & B).
    split; [right; exact A|]. intros id E. right. exact (B id E).
  - destruct (find_row tbl (ttag x)) as [row|] eqn:Fr.
    + eexists. split; [reflexivity|]. cbn [ro_js js_out ro_alloc]. intros v e Hve.
      destruct (find_row_in _ _ _ Fr) as (t' & Hin). unfold tbl_no_equal in HT. rewrite forallb_forall in HT.
      specialize (HT _ Hin). cbn [snd] in HT. rewrite forallb_forall in HT.
      unfold row_judgements in Hve. apply in_flat_map in Hve as (fe & Hfe & Hve). specialize (HT fe Hfe).
      assert (Ne : forall id, e = Equal id -> False).
      { intros id ->. destruct (String.eqb (fst fe) "self").
        - destruct Hve as [Hve|[]]. inversion Hve as [[Hv He]]. rewrite He in HT. discriminate.
        - destruct (field_arg (ttag x) (fst fe) (targs x)); [|destruct Hve]. destruct Hve as [Hve|[]]. inversion Hve as [[Hv He]]. rewrite He in HT. discriminate. }
      split; [|intros id E; destruct (Ne id E)]. right.
      destruct (String.eqb (fst fe) "self").
      * destruct Hve as [Hve|[]]. inversion Hve. apply vars_self.
      * destruct (field_arg (ttag x) (fst fe) (targs x)) as [y|] eqn:Fa; [|destruct Hve]. destruct Hve as [Hve|[]]. inversion Hve; subst.
        apply arg_var_in. exact (field_arg_in _ _ _ _ Fa).
    + eexists. split; [reflexivity|]. intros v e [].
Qed.

(* ------------------------------------------------------------------ hand-written rules *)
Fixpoint sub_at (x : tsv) (path : list nat) : option tsv :=
  match path with
  | [] => Some x
  | i :: p => match nth_error (targs x) i with Some y => sub_at y p | None => None end
  end.

Lemma sub_at_vars x p : forall y w, sub_at x p = Some y -> tv_of y = w -> In w (vars x).
Proof.
  revert x. induction p as [|i p IH]; intros x y w; cbn [sub_at].
  - intros [= <-] <-. apply vars_self.
  - destruct (nth_error (targs x) i) as [z|] eqn:E; [|discriminate]. intros H Hw.
    apply (vars_arg x z (nth_error_In _ _ E)). exact (IH z y w H Hw).
Qed.

Ltac at_path p := right; eapply (sub_at_vars _ p); [cbn [sub_at nth_error targs]; reflexivity | reflexivity].
Ltac allowed_var :=
  first [ left; split; reflexivity
        | at_path (@nil nat) | at_path [0%nat] | at_path [1%nat] | at_path [2%nat] | at_path [3%nat] | at_path [4%nat] | at_path [5%nat]
        | at_path [0%nat; 0%nat] | at_path [0%nat; 1%nat] | at_path [0%nat; 0%nat; 0%nat] | at_path [0%nat; 0%nat; 1%nat] ].

Ltac js_allowed :=
  cbn [ro_js js_out ro_alloc no_out In]; intros ? ? Hin_;
  repeat (destruct Hin_ as [Hin_|Hin_]; [inversion Hin_; subst; split; [allowed_var | intros id_ Eid_; first [discriminate | inversion Eid_; subst; allowed_var]]|]);
  try destruct Hin_.

Ltac break_match :=
  match goal with
  | |- context [match ?e with _ => _ end] =>
      destruct e
  end.

Ltac good_rule := repeat break_match; try (eexists; split; [reflexivity|js_allowed]).

Lemma call_data_rule_good : rule_good call_data_rule.
Proof. intros x fresh. unfold call_data_rule, calldata_bits. good_rule. Qed.

Lemma mapping_access_rule_good : rule_good mapping_access_rule.
Proof. intros x fresh. unfold mapping_access_rule, mapping_span_offset. good_rule. Qed.

Lemma dynamic_array_write_rule_good : rule_good dynamic_array_write_rule.
Proof. intros x fresh. unfold dynamic_array_write_rule. good_rule. Qed.

Lemma masked_word_rule_good : rule_good masked_word_rule.
Proof. intros x fresh. unfold masked_word_rule. good_rule. Qed.

Lemma s_load_rule_good : rule_good s_load_rule.
Proof. intros x fresh. unfold s_load_rule. good_rule. Qed.

Lemma storage_key_rule_good : rule_good storage_key_rule.
Proof. intros x fresh. unfold storage_key_rule. good_rule. Qed.

Lemma storage_write_rule_good : rule_good storage_write_rule.
Proof. intros x fresh. unfold storage_write_rule. good_rule. Qed.

Lemma packed_encoding_rule_good : rule_good packed_encoding_rule.
Proof.
  intros x fresh. unfold packed_encoding_rule. destruct x as [v t a args].
  destruct t; eexists; (split; [reflexivity|js_allowed]).
Qed.

(* ------------------------------------------------------------------ the rules of InferenceRules::default() *)
Lemma tables_ok :
  forallb (fun p : rule_table * list (tag * string) => tbl_no_equal (fst p) && sp_known (snd p))
    [(table_ArithmeticOperationRule, special_ArithmeticOperationRule); (table_BitShiftRule, special_BitShiftRule);
     (table_BooleanOpsRule, special_BooleanOpsRule); (table_CreateContractRule, special_CreateContractRule);
     (table_EnvironmentCodesRule, special_EnvironmentCodesRule); (table_ExternalCallRule, special_ExternalCallRule);
     (table_HashRule, special_HashRule); (table_OffsetSizeRule, special_OffsetSizeRule);
     (table_ExtCodeRule, special_ExtCodeRule)] = true.
Proof. vm_compute. reflexivity. Qed.

Ltac table_good :=
  apply table_rule_good;
  [ pose proof tables_ok as H_; cbn [forallb] in H_; rewrite !andb_true_iff in H_; tauto
  | pose proof tables_ok as H_; cbn [forallb] in H_; rewrite !andb_true_iff in H_; tauto ].

Lemma good_ArithmeticOperationRule : rule_good (rule_named "ArithmeticOperationRule").
Proof. change (rule_named "ArithmeticOperationRule") with (table_rule table_ArithmeticOperationRule special_ArithmeticOperationRule). table_good. Qed.
Lemma good_BitShiftRule : rule_good (rule_named "BitShiftRule").
Proof. change (rule_named "BitShiftRule") with (table_rule table_BitShiftRule special_BitShiftRule). table_good. Qed.
Lemma good_BooleanOpsRule : rule_good (rule_named "BooleanOpsRule").
Proof. change (rule_named "BooleanOpsRule") with (table_rule table_BooleanOpsRule special_BooleanOpsRule). table_good. Qed.
Lemma good_CreateContractRule : rule_good (rule_named "CreateContractRule").
Proof. change (rule_named "CreateContractRule") with (table_rule table_CreateContractRule special_CreateContractRule). table_good. Qed.
Lemma good_EnvironmentCodesRule : rule_good (rule_named "EnvironmentCodesRule").
Proof. change (rule_named "EnvironmentCodesRule") with (table_rule table_EnvironmentCodesRule special_EnvironmentCodesRule). table_good. Qed.
Lemma good_ExternalCallRule : rule_good (rule_named "ExternalCallRule").
Proof. change (rule_named "ExternalCallRule") with (table_rule table_ExternalCallRule special_ExternalCallRule). table_good. Qed.
Lemma good_HashRule : rule_good (rule_named "HashRule").
Proof. change (rule_named "HashRule") with (table_rule table_HashRule special_HashRule). table_good. Qed.
Lemma good_OffsetSizeRule : rule_good (rule_named "OffsetSizeRule").
Proof. change (rule_named "OffsetSizeRule") with (table_rule table_OffsetSizeRule special_OffsetSizeRule). table_good. Qed.
Lemma good_ExtCodeRule : rule_good (rule_named "ExtCodeRule").
Proof. change (rule_named "ExtCodeRule") with (table_rule table_ExtCodeRule special_ExtCodeRule). table_good. Qed.
(* the hand-written ones: `change` succeeds only if the translator recognised the body text of the rule *)
Lemma good_CallDataRule : rule_good (rule_named "CallDataRule").
Proof. change (rule_named "CallDataRule") with call_data_rule. exact call_data_rule_good. Qed.
Lemma good_DynamicArrayWriteRule : rule_good (rule_named "DynamicArrayWriteRule").
Proof. change (rule_named "DynamicArrayWriteRule") with dynamic_array_write_rule. exact dynamic_array_write_rule_good. Qed.
Lemma good_MappingAccessRule : rule_good (rule_named "MappingAccessRule").
Proof. change (rule_named "MappingAccessRule") with mapping_access_rule. exact mapping_access_rule_good. Qed.
Lemma good_MaskedWordRule : rule_good (rule_named "MaskedWordRule").
Proof. change (rule_named "MaskedWordRule") with masked_word_rule. exact masked_word_rule_good. Qed.
Lemma good_PackedEncodingRule : rule_good (rule_named "PackedEncodingRule").
Proof. change (rule_named "PackedEncodingRule") with packed_encoding_rule. exact packed_encoding_rule_good. Qed.
Lemma good_SLoadIsInnerTypesRule : rule_good (rule_named "SLoadIsInnerTypesRule").
Proof. change (rule_named "SLoadIsInnerTypesRule") with s_load_rule. exact s_load_rule_good. Qed.
Lemma good_StorageKeyRule : rule_good (rule_named "StorageKeyRule").
Proof. change (rule_named "StorageKeyRule") with storage_key_rule. exact storage_key_rule_good. Qed.
Lemma good_StorageWriteRule : rule_good (rule_named "StorageWriteRule").
Proof. change (rule_named "StorageWriteRule") with storage_write_rule. exact storage_write_rule_good. Qed.

(* the sixteen rules of the default set, by the names read from rule/mod.rs *)
Definition expected_rules : list string :=
  ["ArithmeticOperationRule"; "BitShiftRule"; "BooleanOpsRule"; "CallDataRule"; "CreateContractRule"; "DynamicArrayWriteRule";
   "EnvironmentCodesRule"; "ExternalCallRule"; "HashRule"; "MappingAccessRule"; "MaskedWordRule"; "OffsetSizeRule";
   "PackedEncodingRule"; "SLoadIsInnerTypesRule"; "StorageKeyRule"; "StorageWriteRule"]%string.

Lemma default_rules_are_expected : default_rules = expected_rules.
Proof. reflexivity. Qed.

Lemma default_rules_good : Forall rule_good default_rule_set.
Proof.
  unfold default_rule_set. rewrite default_rules_are_expected. unfold expected_rules. cbn [map].
  repeat constructor;
    [ exact good_ArithmeticOperationRule | exact good_BitShiftRule | exact good_BooleanOpsRule | exact good_CallDataRule
    | exact good_CreateContractRule | exact good_DynamicArrayWriteRule | exact good_EnvironmentCodesRule
    | exact good_ExternalCallRule | exact good_HashRule | exact good_MappingAccessRule | exact good_MaskedWordRule
    | exact good_OffsetSizeRule | exact good_PackedEncodingRule | exact good_SLoadIsInnerTypesRule
    | exact good_StorageKeyRule | exact good_StorageWriteRule ].
Qed.

(* rules_total: a rule itself never fails, whatever the value and the fresh variable *)
Theorem rules_total_lemma : forall r, In r default_rule_set -> forall x fresh, exists ro, r x fresh = Ok ro.
Proof.
  intros r Hr x fresh. pose proof default_rules_good as G. rewrite Forall_forall in G.
  destruct (G r Hr x fresh) as (ro & E & _). eauto.
Qed.

(* ------------------------------------------------------------------ all rules on all values *)
Lemma infer_value_ok rs : Forall rule_good rs -> forall x st, winv st -> In (tv_of x, x) (exprs st) ->
  exists st', infer_value rs x st = Ok st' /\ winv st' /\ next st <= next st' /\ (forall p, In p (exprs st) -> In p (exprs st')).
Proof.
  induction rs as [|r rs IH]; intros HF x st W Hx; cbn [infer_value].
  - exists st. split; [reflexivity|]. split; [exact W|]. split; [lia|auto].
  - inversion HF as [|? ? Hr Hrs]; subst. destruct (apply_rule_ok r x st Hr W Hx) as (st1 & -> & W1 & N1 & K1).
    destruct (IH Hrs x st1 W1 (K1 _ Hx)) as (st2 & E2 & W2 & N2 & K2). exists st2. split; [exact E2|]. split; [exact W2|]. split; [lia|auto].
Qed.

Lemma infer_values_ok rs : Forall rule_good rs -> forall xs st, winv st -> (forall x, In x xs -> In (tv_of x, x) (exprs st)) ->
  exists st', infer_values rs xs st = Ok st' /\ winv st' /\ next st <= next st' /\ (forall p, In p (exprs st) -> In p (exprs st')).
Proof.
  intros HF. induction xs as [|x xs IH]; intros st W Hxs; cbn [infer_values].
  - exists st. split; [reflexivity|]. split; [exact W|]. split; [lia|auto].
  - destruct (infer_value_ok rs HF x st W (Hxs x (or_introl eq_refl))) as (st1 & -> & W1 & N1 & K1).
    destruct (IH st1 W1) as (st2 & E2 & W2 & N2 & K2); [intros y Hy; apply K1, Hxs; right; exact Hy|].
    exists st2. split; [exact E2|]. split; [exact W2|]. split; [lia|auto].
Qed.

Lemma values_in_exprs st x : winv st -> (forall v y, In (v, y) (exprs st) -> tv_of y = v) -> In x (values st) -> In (tv_of x, x) (exprs st).
Proof.
  intros W Hv Hx. unfold values in Hx. apply in_rev in Hx. apply in_map_iff in Hx as ([v y] & <- & Hin). cbn [snd].
  rewrite (Hv v y Hin). exact Hin.
Qed.

(* TypeChecker::infer on the state left by assign_vars: never a panic, never an error; nothing is removed *)
Theorem infer_no_panic_lemma vs :
  exists st', infer_all default_rule_set (snd (assign_vars vs)) = Ok st' /\
              (forall p, In p (exprs (snd (assign_vars vs))) -> In p (exprs st')) /\
              (forall x, In x (values (snd (assign_vars vs))) -> In x (values st')).
Proof.
  pose proof (register_covers_subterms_lemma vs) as C. destruct (assign_vars vs) as [ts st]. destruct C as (I & _). cbn [snd].
  unfold infer_all.
  destruct (infer_values_ok default_rule_set default_rules_good (values st) st (inv_winv st I)) as (st' & E & _ & _ & K).
  { intros x Hx. exact (values_in_exprs st x (inv_winv st I) (i_var st I) Hx). }
  exists st'. split; [exact E|]. split; [exact K|].
  intros x Hx. unfold values in *. apply in_rev in Hx. apply in_map_iff in Hx as (p & <- & Hp). rewrite <- in_rev. apply in_map. exact (K p Hp).
Qed.
