(* C15, constructed types through unification: on the order-free fragment a class with constructed evidence keeps its
   structure -- it resolves to exactly one type, of the same constructor (and length) as EVERY piece of constructed evidence
   given for any variable of the class, with components in the classes of that evidence's components; never a conflict. *)
From Coq Require Import String Permutation.
From SLX Require Import Base VectorMap DisjointSet gen.Constants gen.WordUseTable TypeExpr Merge Unify UnifyOrder.
From SLX.proofs Require Import VecMapProofs DsuProofs UnifyProofs UnifyOrderProofs.
Open Scope N_scope.

Lemma ctor_not_wordlike e : is_ctor e = true -> ~ wordlike e.
Proof. intros Hc [H|H]; destruct e; discriminate. Qed.

Theorem unify_ctor_kept_proof st o fuel s n x e y : order_free st = true -> orders_ok o -> unify fuel o st = Ok (s, n) ->
  In (x, e) (ev_list st) -> is_ctor e = true -> CC st x y ->
  exists s' t, ds_get_data iset s y = Ok (s', Some [t]) /\ ctor_match (CC st) t e /\ is_conflict t = false.
Proof.
  intros Hf Ho U Hin Hc Hxy.
  destruct (unify_ok_refines _ _ _ _ _ U) as (a & Ea & S).
  assert (Hev : In e (cc_evidence st y)).
  { unfold cc_evidence. apply in_flat_map. exists (x, e). split; [exact Hin|]. cbn [fst snd].
    apply (cc_spec st x y (frag_closed st Hf)) in Hxy. rewrite Hxy. left. reflexivity. }
  destruct (frag_nonword st Hf o fuel a n Ho Ea y e Hev (ctor_not_wordlike e Hc)) as (_ & t & D & M).
  destruct (get_data_refines s a y S) as (s' & G & _).
  exists s', t. split; [|split; [exact M|]].
  - rewrite G. f_equal. f_equal. exact D.
  - destruct e; try discriminate Hc; cbn [ctor_match] in M.
    + destruct M as (x' & -> & _). reflexivity.
    + destruct M as (k' & v' & -> & _). reflexivity.
    + destruct M as (x' & -> & _). reflexivity.
Qed.
