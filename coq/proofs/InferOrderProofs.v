(* The renaming of register_order commutes with `infer_all` (C02): the rules are structural in the typed tree, so
   the judgement sets after the 16 rules on two registrations of permuted value lists are equal up to the renaming,
   extended to the variables the mapping rule allocates (they are numbered in the order the values are visited,
   which differs between the runs). *)
From Coq Require Import String Permutation.
From SLX Require Import Base Word256 gen.Constants gen.ValueSig gen.WordUseTable gen.RulesSig SymVal TypeExpr Fold Register Rules.
From SLX Require Import proofs.MergeEquivProofs proofs.RegisterProofs proofs.RulesProofs proofs.RuleOrderProofs proofs.RegisterOrderProofs.
Open Scope N_scope.
Set Default Timeout 300.

(* ------------------------------------------------------------------ renaming type expressions and judgements *)
(* conflicts are never emitted by rules; their payload is left alone *)
Definition rename_span (rho : tyvar -> tyvar) (s : span) : span := mk_span (rho (s_typ s)) (s_off s) (s_sz s).
Definition rename_te (rho : tyvar -> tyvar) (e : te) : te :=
  match e with
  | Equal id => Equal (rho id)
  | FixedArray x l => FixedArray (rho x) l
  | Mapping k v => Mapping (rho k) (rho v)
  | DynamicArray x => DynamicArray (rho x)
  | Packed ts b => Packed (map (rename_span rho) ts) b
  | e => e
  end.
Definition rename_j (rho : tyvar -> tyvar) (j : judgement) : judgement := (rho (fst j), rename_te rho (snd j)).

Lemma map_inj {A B} (f : A -> B) : (forall a b, f a = f b -> a = b) -> forall l l', map f l = map f l' -> l = l'.
Proof.
  intros Hf. induction l as [|x l IH]; intros [|y l'] H; cbn [map] in H; try discriminate; [reflexivity|].
  injection H as Hx Hl. rewrite (Hf _ _ Hx), (IH _ Hl). reflexivity.
Qed.

Section Inj.
  Variable rho : tyvar -> tyvar.
  Hypothesis rho_inj : forall a b, rho a = rho b -> a = b.

  Lemma rename_span_inj s s' : rename_span rho s = rename_span rho s' -> s = s'.
  Proof. destruct s, s'. unfold rename_span. cbn. intros [= H -> ->]. apply rho_inj in H. congruence. Qed.

  Lemma rename_te_inj e e' : rename_te rho e = rename_te rho e' -> e = e'.
  Proof.
    destruct e, e'; cbn [rename_te]; try discriminate; try congruence.
    - intros [= H]. apply rho_inj in H. congruence.
    - intros [= H ->]. apply rho_inj in H. congruence.
    - intros [= H1 H2]. apply rho_inj in H1, H2. congruence.
    - intros [= H]. apply rho_inj in H. congruence.
    - intros [= H ->]. f_equal. exact (map_inj _ rename_span_inj _ _ H).
  Qed.

  Lemma eff_rename j : flat_map eff [rename_j rho j] = map (rename_j rho) (eff j).
  Proof.
    destruct j as [v e]. cbn [flat_map]. rewrite app_nil_r. unfold eff, rename_j. cbn [fst snd].
    destruct e; cbn [rename_te map fst snd]; try reflexivity.
    destruct (id =? v) eqn:E.
    - apply N.eqb_eq in E. subst id. rewrite N.eqb_refl. reflexivity.
    - assert (rho id =? rho v = false) as ->; [|reflexivity]. apply N.eqb_neq. intros H. apply rho_inj in H. apply N.eqb_neq in E. contradiction.
  Qed.

  Lemma eff_rename_list js : flat_map eff (map (rename_j rho) js) = map (rename_j rho) (flat_map eff js).
  Proof.
    induction js as [|j js IH]; [reflexivity|]. cbn [map flat_map]. rewrite map_app, IH. f_equal.
    pose proof (eff_rename j) as H. cbn [flat_map] in H. rewrite app_nil_r in H. exact H.
  Qed.

  Lemma rename_j_inj j j' : rename_j rho j = rename_j rho j' -> j = j'.
  Proof. destruct j, j'. unfold rename_j. cbn. intros [= H1 H2]. apply rho_inj in H1. apply rename_te_inj in H2. congruence. Qed.
End Inj.

(* ------------------------------------------------------------------ rules are equivariant *)
Definition map_out (rho : tyvar -> tyvar) (o : outcome rule_out unit) : outcome rule_out unit :=
  match o with Ok ro => Ok (mk_ro (ro_alloc ro) (map (rename_j rho) (ro_js ro))) | Err e => Err e | Panic s => Panic s end.

Definition equivariant (r : rule) : Prop := forall rho x f, r (rename_tsv rho x) (rho f) = map_out rho (r x f).

Lemma equivariant_js r rho x f : equivariant r -> js_of r (rename_tsv rho x) (rho f) = map (rename_j rho) (js_of r x f).
Proof. intros H. unfold js_of. rewrite H. destruct (r x f); reflexivity. Qed.

Lemma equivariant_alloc r rho x f : equivariant r -> alloc_of r (rename_tsv rho x) (rho f) = alloc_of r x f.
Proof. intros H. unfold alloc_of. rewrite H. destruct (r x f); reflexivity. Qed.

Definition te_closed (e : te) : bool := match e with Any | Word _ _ | Bytes => true | _ => false end.
Definition tbl_closed (tbl : rule_table) : bool := forallb (fun row => forallb (fun fe : string * te => te_closed (snd fe)) (snd row)) tbl.

Lemma te_closed_rename rho e : te_closed e = true -> rename_te rho e = e.
Proof. destruct e; cbn; try discriminate; reflexivity. Qed.

Lemma ttag_rename rho x : ttag (rename_tsv rho x) = ttag x. Proof. destruct x; reflexivity. Qed.
Lemma targs_rename rho x : targs (rename_tsv rho x) = map (rename_tsv rho) (targs x). Proof. destruct x; reflexivity. Qed.

Lemma field_arg_rename rho t f args : field_arg t f (map (rename_tsv rho) args) = option_map (rename_tsv rho) (field_arg t f args).
Proof. unfold field_arg. destruct (existsb _ _); [|reflexivity]. rewrite nth_error_map. reflexivity. Qed.

Lemma sign_extend_arm_rename rho x : sign_extend_arm (rename_tsv rho x) = map (rename_j rho) (sign_extend_arm x).
Proof.
  destruct x as [v t a args]. cbn [rename_tsv]. unfold sign_extend_arm. destruct t; try reflexivity. destruct a; [|reflexivity].
  destruct args as [|size [|value [|]]]; try reflexivity. cbn [map]. destruct size as [sv st sa sargs]. cbn [rename_tsv].
  destruct value as [vv vt va vargs]. cbn [rename_tsv tv_of]. unfold rename_j. cbn [fst snd rename_te map].
  destruct st; try reflexivity. destruct sa as [|w [|]]; try reflexivity. destruct sargs; reflexivity.
Qed.

Lemma table_rule_equivariant tbl sp : tbl_closed tbl = true -> sp_known sp = true -> equivariant (table_rule tbl sp).
Proof.
  intros HT HS rho x f. unfold table_rule. rewrite ttag_rename. destruct (find_special sp (ttag x)) as [n|] eqn:Fs.
  - destruct (find_special_in _ _ _ Fs) as (t' & Hin). unfold sp_known in HS. rewrite forallb_forall in HS.
    specialize (HS _ Hin). cbn [snd] in HS. unfold special_arm. rewrite HS. cbn [map_out ro_alloc ro_js js_out]. rewrite sign_extend_arm_rename. reflexivity.
  - destruct (find_row tbl (ttag x)) as [row|] eqn:Fr; [|reflexivity]. cbn [map_out ro_alloc ro_js js_out]. unfold js_out. f_equal. f_equal.
    destruct (find_row_in _ _ _ Fr) as (t' & Hin). unfold tbl_closed in HT. rewrite forallb_forall in HT. specialize (HT _ Hin). cbn [snd] in HT.
    rewrite forallb_forall in HT. unfold row_judgements. rewrite ttag_rename, targs_rename. clear Fr Hin.
    induction row as [|fe row IH]; [reflexivity|]. cbn [flat_map map]. rewrite map_app. f_equal.
    + pose proof (HT fe (or_introl eq_refl)) as Hc. destruct (String.eqb (fst fe) "self").
      * cbn [map]. unfold rename_j. cbn [fst snd]. rewrite tv_rename, (te_closed_rename rho _ Hc). reflexivity.
      * rewrite field_arg_rename. destruct (field_arg (ttag x) (fst fe) (targs x)); cbn [option_map map]; [|reflexivity].
        unfold rename_j. cbn [fst snd]. rewrite tv_rename, (te_closed_rename rho _ Hc). reflexivity.
    + apply IH. intros fe' Hfe'. apply HT. right. exact Hfe'.
Qed.

(* hand-written rules: expose the tree as far as the rule looks, then both sides compute *)
Ltac expose :=
  repeat (cbn [rename_tsv map tv_of];
          match goal with
          | |- context [match ?e with _ => _ end] => is_var e; destruct e
          end).

Ltac equiv_hand R := intros rho x f; unfold R; expose; unfold js_out, no_out, rename_j, packed_of, rename_span; cbn [rename_tsv map tv_of map_out ro_alloc ro_js rename_te fst snd s_typ s_off s_sz]; rewrite ?tv_rename; reflexivity.

Lemma dynamic_array_write_rule_equivariant : equivariant dynamic_array_write_rule. Proof. equiv_hand dynamic_array_write_rule. Qed.
Lemma masked_word_rule_equivariant : equivariant masked_word_rule. Proof. equiv_hand masked_word_rule. Qed.
Lemma s_load_rule_equivariant : equivariant s_load_rule. Proof. equiv_hand s_load_rule. Qed.
Lemma storage_key_rule_equivariant : equivariant storage_key_rule. Proof. equiv_hand storage_key_rule. Qed.
Lemma storage_write_rule_equivariant : equivariant storage_write_rule. Proof. equiv_hand storage_write_rule. Qed.

Lemma packed_spans_rename rho : forall args attrs,
  packed_spans attrs (map (rename_tsv rho) args) = map (rename_span rho) (packed_spans attrs args).
Proof.
  induction args as [|y args IH]; intros attrs.
  - destruct attrs as [|o [|z attrs']]; reflexivity.
  - destruct attrs as [|o [|z attrs']]; try reflexivity. cbn [map packed_spans]. rewrite IH. unfold rename_span at 2. cbn [s_typ s_off s_sz].
    rewrite tv_rename. reflexivity.
Qed.

Lemma packed_encoding_rule_equivariant : equivariant packed_encoding_rule.
Proof.
  intros rho x f. destruct x as [v t a args]. cbn [rename_tsv]. unfold packed_encoding_rule. destruct t; try reflexivity.
  cbn [map_out ro_alloc ro_js js_out]. unfold js_out, rename_j, packed_of. cbn [map fst snd rename_te]. rewrite packed_spans_rename. reflexivity.
Qed.

Lemma call_data_rule_equivariant : equivariant call_data_rule.
Proof.
  intros rho x f. destruct x as [v t a args]. cbn [rename_tsv]. unfold call_data_rule, calldata_bits. destruct t; try reflexivity.
  destruct a as [|a0 [|]]; try reflexivity. destruct args as [|o [|sz [|]]]; try reflexivity. cbn [map]. rewrite erase_rename.
  destruct (as_word (constant_fold (erase sz))); reflexivity.
Qed.

Lemma mapping_access_rule_equivariant : equivariant mapping_access_rule.
Proof.
  intros rho x f. unfold mapping_access_rule, mapping_span_offset.
  destruct x as [v t a args]. cbn [rename_tsv]. destruct t; try reflexivity. destruct a; try reflexivity.
  destruct args as [|k [|k2 args']]; cbn [map]; try reflexivity.
  - destruct k as [kv kt ka kargs]. cbn [rename_tsv]. destruct kt; try reflexivity.
    destruct kargs as [|slot [|key [|]]]; cbn [map]; try reflexivity.
    match goal with |- context [if ?c then _ else _] => destruct c end;
      unfold rename_j, packed_of, rename_span; cbn [map_out ro_alloc ro_js map fst snd rename_te s_typ s_off s_sz]; rewrite ?tv_rename; reflexivity.
  - destruct k as [kv kt ka kargs]. cbn [rename_tsv]. destruct kt; try reflexivity.
    destruct kargs as [|slot [|key [|]]]; cbn [map]; reflexivity.
Qed.

(* every rule of the default set is equivariant *)
Lemma tables_closed :
  forallb tbl_closed
    [table_ArithmeticOperationRule; table_BitShiftRule; table_BooleanOpsRule; table_CreateContractRule; table_EnvironmentCodesRule;
     table_ExternalCallRule; table_HashRule; table_OffsetSizeRule; table_ExtCodeRule] = true.
Proof. vm_compute. reflexivity. Qed.

Lemma default_rules_equivariant : Forall equivariant default_rule_set.
Proof.
  unfold default_rule_set. rewrite default_rules_are_expected. unfold expected_rules. cbn [map].
  pose proof tables_ok as T. cbn [forallb fst snd] in T. rewrite !andb_true_iff in T.
  pose proof tables_closed as C. cbn [forallb] in C. rewrite !andb_true_iff in C.
  repeat constructor;
    first [ apply table_rule_equivariant; tauto
          | exact call_data_rule_equivariant | exact dynamic_array_write_rule_equivariant | exact mapping_access_rule_equivariant
          | exact masked_word_rule_equivariant | exact packed_encoding_rule_equivariant | exact s_load_rule_equivariant
          | exact storage_key_rule_equivariant | exact storage_write_rule_equivariant ].
Qed.

(* whether a rule allocates, and what it emits when it does not, do not depend on the fresh variable offered *)
Definition fresh_blind (r : rule) : Prop :=
  forall x f f', alloc_of r x f = alloc_of r x f' /\ (alloc_of r x f = false -> js_of r x f = js_of r x f').

Lemma pure_fresh_blind r : pure r -> fresh_blind r.
Proof. intros H x f f'. destruct (pure_js r x f f' H) as (A & B). destruct (pure_js r x f' f H) as (_ & B'). split; [congruence|intros _; exact A]. Qed.

Lemma mapping_fresh_blind : fresh_blind mapping_access_rule.
Proof.
  intros x f f'. unfold alloc_of, js_of, mapping_access_rule, mapping_span_offset.
  destruct x as [v t a args]. destruct t; try (split; reflexivity). destruct a; try (split; reflexivity).
  destruct args as [|k [|]]; try (split; reflexivity). destruct k as [kv kt ka kargs]. destruct kt; try (split; reflexivity).
  destruct kargs as [|slot [|key [|]]]; try (split; reflexivity).
  match goal with |- context [if ?c then _ else _] => destruct c end; cbn [ro_alloc]; (split; [reflexivity|discriminate]).
Qed.

Lemma default_rules_fresh_blind : Forall fresh_blind default_rule_set.
Proof.
  unfold default_rule_set. apply Forall_forall. intros r Hr. apply in_map_iff in Hr as (n & <- & Hn).
  destruct (string_dec n ALLOCATOR) as [->|Hne].
  - change (rule_named ALLOCATOR) with mapping_access_rule. exact mapping_fresh_blind.
  - apply pure_fresh_blind. exact (default_rules_pure n Hn Hne).
Qed.

Lemma existsb_ext_in {A} (p q : A -> bool) l : (forall a, In a l -> p a = q a) -> existsb p l = existsb q l.
Proof. induction l as [|a l IH]; intros H; [reflexivity|]. cbn [existsb]. rewrite (H a (or_introl eq_refl)), IH; [reflexivity|]. intros b Hb. apply H. right. exact Hb. Qed.

(* ------------------------------------------------------------------ all rules on all values: who gets which fresh variable *)
Section Values.
  Variable rs : list rule.
  Hypothesis OA : one_alloc rs.
  Hypothesis FB : Forall fresh_blind rs.

  Definition allocs (x : tsv) : bool := existsb (fun r => alloc_of r x 0) rs.

  Lemma allocs_any x f : existsb (fun r => alloc_of r x f) rs = allocs x.
  Proof.
    unfold allocs. apply existsb_ext_in. intros r Hr. pose proof FB as FB'. rewrite Forall_forall in FB'. exact (proj1 (FB' r Hr x f 0)).
  Qed.

  Lemma from_rules_blind x f f' w e : allocs x = false -> from_rules rs x f w e -> from_rules rs x f' w e.
  Proof.
    intros Ha (r & Hr & H). exists r. split; [exact Hr|]. pose proof FB as FB'. rewrite Forall_forall in FB'.
    assert (alloc_of r x f = false).
    { rewrite <- (allocs_any x f) in Ha. destruct (alloc_of r x f) eqn:E; [|reflexivity]. exfalso.
      assert (existsb (fun r0 => alloc_of r0 x f) rs = true) by (apply existsb_exists; exists r; auto). congruence. }
    rewrite <- (proj2 (FB' r Hr x f f') H0). exact H.
  Qed.

  (* the variable `allocate_ty_var` hands out while the rules visit x, when the values xs are visited in order from
     a state whose counter is n (meaningful for the values on which a rule allocates) *)
  Fixpoint fresh_fn (xs : list tsv) (n : tyvar) (v : tyvar) : tyvar :=
    match xs with
    | [] => v
    | x :: r => if v =? tv_of x then n else fresh_fn r (if allocs x then n + 1 else n) v
    end.
  Definition nalloc (xs : list tsv) : N := N.of_nat (length (filter allocs xs)).

  Lemma nalloc_cons x xs : nalloc (x :: xs) = (if allocs x then 1 else 0) + nalloc xs.
  Proof. unfold nalloc. cbn [filter]. destruct (allocs x); cbn [length]; lia. Qed.

  Lemma infer_values_char : forall xs st s, winv st -> NoDup (map tv_of xs) -> infer_values rs xs st = Ok s ->
    next s = next st + nalloc xs /\
    (forall p, In p (exprs s) <-> In p (exprs st) \/ exists f, next st <= f < next s /\ p = synth f) /\
    map fst (infs s) = map fst (exprs s) /\
    forall w e, In e (jset s w) <-> In e (jset st w) \/ exists x, In x xs /\ from_rules rs x (fresh_fn xs (next st) (tv_of x)) w e.
  Proof.
    induction xs as [|x xs IH]; intros st s W ND; cbn [infer_values].
    - intros [= <-]. unfold nalloc. cbn. split; [lia|]. split; [intros p; split; [auto|intros [H|(f & Hf & _)]; [exact H|lia]]|].
      split; [symmetry; exact (w_keys st W)|]. intros w e. split; [auto|]. intros [H|(x & [] & _)]. exact H.
    - destruct (infer_value rs x st) as [s1|?|?] eqn:E1; try discriminate. intros E2.
      destruct (infer_value_char rs x OA st s1 W E1) as (A & B & C & D). cbv zeta in *. rewrite allocs_any in *.
      inversion ND as [|? ? Hx ND']; subst.
      destruct (IH s1 s (infer_value_winv _ _ _ _ W E1) ND' E2) as (A2 & B2 & C2 & D2).
      rewrite nalloc_cons. split; [rewrite A2, A; destruct (allocs x); lia|]. split; [|split; [exact C2|]].
      + intros p. rewrite (B2 p), B, in_app_iff. rewrite A2, A. split.
        * intros [[H|H]|(f & Hf & ->)].
          -- right. destruct (allocs x); [|destruct H]. destruct H as [<-|[]]. exists (next st). split; [lia|reflexivity].
          -- left. exact H.
          -- right. exists f. split; [destruct (allocs x); lia|reflexivity].
        * intros [H|(f & Hf & ->)]; [left; right; exact H|].
          destruct (allocs x) eqn:Ea.
          -- destruct (N.eq_dec f (next st)) as [->|Hne]; [left; left; left; reflexivity|right; exists f; split; [lia|reflexivity]].
          -- right. exists f. split; [lia|reflexivity].
      + intros w e. rewrite (D2 w e), (D w e). cbn [fresh_fn]. split.
        * intros [[H|H]|(y & Hy & H)].
          -- left. exact H.
          -- right. exists x. split; [left; reflexivity|]. rewrite N.eqb_refl. exact H.
          -- right. exists y. split; [right; exact Hy|]. destruct (tv_of y =? tv_of x) eqn:Ey.
             ++ exfalso. apply N.eqb_eq in Ey. apply Hx. rewrite <- Ey. apply in_map. exact Hy.
             ++ rewrite A in H. exact H.
        * intros [H|(y & [<-|Hy] & H)].
          -- left. left. exact H.
          -- rewrite N.eqb_refl in H. left. right. exact H.
          -- destruct (tv_of y =? tv_of x) eqn:Ey.
             ++ exfalso. apply N.eqb_eq in Ey. apply Hx. rewrite <- Ey. apply in_map. exact Hy.
             ++ right. exists y. split; [exact Hy|]. rewrite A. exact H.
  Qed.

  (* the fresh variables of the allocating values of a duplicate-free list are exactly [n, n + nalloc) *)
  Lemma fresh_fn_range : forall xs n x, NoDup (map tv_of xs) -> In x xs -> allocs x = true ->
    n <= fresh_fn xs n (tv_of x) < n + nalloc xs.
  Proof.
    induction xs as [|y xs IH]; intros n x ND Hx Ha; [destruct Hx|]. inversion ND as [|? ? Hy ND']; subst.
    cbn [fresh_fn]. rewrite nalloc_cons. destruct Hx as [->|Hx].
    - rewrite N.eqb_refl, Ha. lia.
    - destruct (tv_of x =? tv_of y) eqn:E.
      + exfalso. apply N.eqb_eq in E. apply Hy. rewrite <- E. apply in_map. exact Hx.
      + pose proof (IH (if allocs y then n + 1 else n) x ND' Hx Ha). destruct (allocs y); lia.
  Qed.

  Lemma fresh_fn_inj : forall xs n x y, NoDup (map tv_of xs) -> In x xs -> In y xs -> allocs x = true -> allocs y = true ->
    fresh_fn xs n (tv_of x) = fresh_fn xs n (tv_of y) -> tv_of x = tv_of y.
  Proof.
    induction xs as [|z xs IH]; intros n x y ND Hx Hy Ax Ay; [destruct Hx|]. inversion ND as [|? ? Hz ND']; subst. cbn [fresh_fn].
    destruct (tv_of x =? tv_of z) eqn:Ex, (tv_of y =? tv_of z) eqn:Ey.
    - apply N.eqb_eq in Ex, Ey. congruence.
    - intros E. exfalso. destruct Hy as [->|Hy]; [rewrite N.eqb_refl in Ey; discriminate|].
      assert (allocs z = true). { destruct Hx as [->|Hx]; [exact Ax|]. apply N.eqb_eq in Ex. exfalso. apply Hz. rewrite <- Ex. apply in_map. exact Hx. }
      rewrite H in E. pose proof (fresh_fn_range xs (n + 1) y ND' Hy Ay). lia.
    - intros E. exfalso. destruct Hx as [->|Hx]; [rewrite N.eqb_refl in Ex; discriminate|].
      assert (allocs z = true). { destruct Hy as [->|Hy]; [exact Ay|]. apply N.eqb_eq in Ey. exfalso. apply Hz. rewrite <- Ey. apply in_map. exact Hy. }
      rewrite H in E. pose proof (fresh_fn_range xs (n + 1) x ND' Hx Ax). lia.
    - destruct Hx as [->|Hx]; [rewrite N.eqb_refl in Ex; discriminate|]. destruct Hy as [->|Hy]; [rewrite N.eqb_refl in Ey; discriminate|].
      apply IH; assumption.
  Qed.

  Lemma fresh_fn_onto : forall xs n f, NoDup (map tv_of xs) -> n <= f < n + nalloc xs ->
    exists x, In x xs /\ allocs x = true /\ fresh_fn xs n (tv_of x) = f.
  Proof.
    induction xs as [|z xs IH]; intros n f ND Hf; [unfold nalloc in Hf; cbn in Hf; lia|]. rewrite nalloc_cons in Hf. cbn [fresh_fn].
    inversion ND as [|? ? Hz ND']; subst.
    assert (Ne : forall x, In x xs -> (tv_of x =? tv_of z) = false).
    { intros x Hx. apply N.eqb_neq. intros E. apply Hz. rewrite <- E. apply in_map. exact Hx. }
    destruct (allocs z) eqn:Az.
    - destruct (N.eq_dec f n) as [->|Hne].
      + exists z. split; [left; reflexivity|]. split; [exact Az|]. rewrite N.eqb_refl. reflexivity.
      + destruct (IH (n + 1) f ND' ltac:(lia)) as (x & Hx & Ax & E). exists x. split; [right; exact Hx|]. split; [exact Ax|]. rewrite (Ne x Hx). exact E.
    - destruct (IH n f ND' ltac:(lia)) as (x & Hx & Ax & E). exists x. split; [right; exact Hx|]. split; [exact Ax|]. rewrite (Ne x Hx). exact E.
  Qed.
End Values.

(* ------------------------------------------------------------------ small facts *)
Lemma rename_ext f g x : (forall y, In y (tsubterms x) -> f (tv_of y) = g (tv_of y)) -> rename_tsv f x = rename_tsv g x.
Proof.
  induction x as [v t a args IH] using tsv_ind'. intros H. cbn [rename_tsv]. f_equal.
  - exact (H _ (tsubterms_self _)).
  - apply map_ext_in. intros y Hy. rewrite Forall_forall in IH. apply (IH y Hy). intros z Hz. apply H. cbn [tsubterms]. right. apply in_flat_map. eauto.
Qed.

Lemma values_iff st x : inv st -> (In x (values st) <-> in_exprs st x).
Proof.
  intros I. unfold values, in_exprs. rewrite <- in_rev. split.
  - intros H. apply in_map_iff in H as ([v y] & <- & Hin). cbn [snd]. rewrite (i_var st I _ _ Hin). exact Hin.
  - intros H. apply in_map_iff. exists (tv_of x, x). auto.
Qed.

Lemma values_nodup st : inv st -> NoDup (map tv_of (values st)).
Proof.
  intros I. unfold values. rewrite map_rev. apply NoDup_rev. rewrite map_map.
  assert (E : map (fun p : tyvar * tsv => tv_of (snd p)) (exprs st) = map fst (exprs st)).
  { apply map_ext_in. intros [v y] Hin. cbn [fst snd]. exact (i_var st I _ _ Hin). }
  rewrite E. exact (i_nodup st I).
Qed.

Lemma filter_length_perm {A} (p : A -> bool) l l' : Permutation l l' -> length (filter p l) = length (filter p l').
Proof.
  induction 1 as [|x l l' _ IH|x y l|l l' l'' _ IH1 _ IH2]; cbn [filter]; [reflexivity| | |congruence].
  - destruct (p x); cbn [length]; congruence.
  - destruct (p x), (p y); reflexivity.
Qed.

Lemma filter_map_length {A B} (f : A -> B) (p : B -> bool) (q : A -> bool) l : (forall a, In a l -> p (f a) = q a) ->
  length (filter p (map f l)) = length (filter q l).
Proof.
  induction l as [|a l IH]; intros H; [reflexivity|]. cbn [map filter]. rewrite (H a (or_introl eq_refl)).
  destruct (q a); cbn [length]; rewrite IH; auto; intros b Hb; apply H; right; exact Hb.
Qed.

(* ------------------------------------------------------------------ the renaming commutes with infer_all *)
Section Commute.
  Variables (st st' : tcs) (prs : list (tsv * tsv)).
  Hypothesis W : world st (map fst prs).
  Hypothesis W' : world st' (map snd prs).
  Hypothesis Hpr : forall p, In p prs -> erase (fst p) = erase (snd p).
  Variable rs : list rule.
  Hypothesis OA : one_alloc rs.
  Hypothesis FB : Forall fresh_blind rs.
  Hypothesis EQ : Forall equivariant rs.
  Hypothesis J0 : forall w, jset st w = [].
  Hypothesis J0' : forall w, jset st' w = [].
  Variables s1 s2 : tcs.
  Hypothesis H1 : infer_all rs st = Ok s1.
  Hypothesis H2 : infer_all rs st' = Ok s2.

  Let n := next st.
  Let rho := rho_of prs.
  Let xs := values st.
  Let xs' := values st'.
  Let I := w_inv _ _ W.
  Let I' := w_inv _ _ W'.

  Lemma WR : next st = next st' /\
    (forall w, w < n -> rho w < n) /\ (forall w1 w2, w1 < n -> w2 < n -> rho w1 = rho w2 -> w1 = w2) /\
    (forall w', w' < n -> exists w, w < n /\ rho w = w') /\ (forall w, n <= w -> rho w = w) /\
    (forall x, in_exprs st x -> in_exprs st' (rename_tsv rho x)) /\
    (forall x', in_exprs st' x' -> exists x, in_exprs st x /\ rename_tsv rho x = x').
  Proof.
    destruct (worlds_renaming st st' prs W W' Hpr) as (En & Into & Inj & Onto & Out & _ & Hex & Hex'). unfold n, rho. rewrite <- En in Into, Onto. repeat split; auto.
  Qed.

  Lemma rho_inj a b : rho a = rho b -> a = b.
  Proof.
    destruct WR as (_ & Into & Inj & _ & Out & _). intros E. destruct (N.lt_ge_cases a n) as [Ha|Ha], (N.lt_ge_cases b n) as [Hb|Hb].
    - exact (Inj a b Ha Hb E).
    - pose proof (Into a Ha). rewrite (Out b Hb) in E. lia.
    - pose proof (Into b Hb). rewrite (Out a Ha) in E. lia.
    - rewrite (Out a Ha), (Out b Hb) in E. exact E.
  Qed.

  Lemma xs_partner x : In x xs -> In (rename_tsv rho x) xs'.
  Proof. destruct WR as (_ & _ & _ & _ & _ & Hex & _). intros H. apply (values_iff st' _ I'). apply Hex. apply (values_iff st x I). exact H. Qed.

  Lemma xs'_partner x' : In x' xs' -> exists x, In x xs /\ rename_tsv rho x = x'.
  Proof.
    destruct WR as (_ & _ & _ & _ & _ & _ & Hex'). intros H. apply (values_iff st' _ I') in H. destruct (Hex' x' H) as (x & Hx & E).
    exists x. split; [apply (values_iff st x I); exact Hx|exact E].
  Qed.

  Lemma allocs_rename x : allocs rs (rename_tsv rho x) = allocs rs x.
  Proof.
    unfold allocs. apply existsb_ext_in. intros r Hr. pose proof EQ as EQ'. pose proof FB as FB'. rewrite Forall_forall in EQ', FB'.
    rewrite (proj1 (FB' r Hr (rename_tsv rho x) 0 (rho 0))). exact (equivariant_alloc r rho x 0 (EQ' r Hr)).
  Qed.

  Lemma xs_nodup : NoDup xs.
  Proof. exact (NoDup_map_inv tv_of xs (values_nodup st I)). Qed.

  Lemma xs_var_inj x y : In x xs -> In y xs -> tv_of x = tv_of y -> x = y.
  Proof. intros Hx Hy E. apply (in_exprs_functional st x y I); [apply (values_iff st x I); exact Hx|apply (values_iff st y I); exact Hy|exact E]. Qed.

  Lemma xs_perm : Permutation (map (rename_tsv rho) xs) xs'.
  Proof.
    apply NoDup_Permutation.
    - apply NoDup_map_inj_in; [|exact xs_nodup]. intros a b Ha Hb E. apply xs_var_inj; [exact Ha|exact Hb|].
      apply (f_equal tv_of) in E. rewrite !tv_rename in E. exact (rho_inj _ _ E).
    - exact (NoDup_map_inv tv_of xs' (values_nodup st' I')).
    - intros x'. split.
      + intros H. apply in_map_iff in H as (x & <- & Hx). exact (xs_partner x Hx).
      + intros H. destruct (xs'_partner x' H) as (x & Hx & <-). apply in_map. exact Hx.
  Qed.

  Lemma nalloc_eq : nalloc rs xs = nalloc rs xs'.
  Proof.
    unfold nalloc. f_equal. rewrite <- (filter_length_perm (allocs rs) _ _ xs_perm).
    symmetry. apply filter_map_length. intros a _. apply allocs_rename.
  Qed.

  Let C1 := infer_values_char rs OA FB xs st s1 (inv_winv st I) (values_nodup st I) H1.
  Let C2 := infer_values_char rs OA FB xs' st' s2 (inv_winv st' I') (values_nodup st' I') H2.
  Let m := next s1.

  Lemma next_eq : next s2 = m /\ m = n + nalloc rs xs.
  Proof.
    destruct C1 as (A1 & _). destruct C2 as (A2 & _). destruct WR as (En & _). unfold m, n. rewrite A1, A2, <- nalloc_eq, En. auto.
  Qed.

  (* the renaming extended to the variables allocated by the rules: the fresh variable of a value goes to the
     fresh variable of its partner *)
  Definition rho_plus (w : tyvar) : tyvar :=
    if w <? n then rho w
    else match find (fun x => allocs rs x && (fresh_fn rs xs n (tv_of x) =? w)) xs with
         | Some x => fresh_fn rs xs' n (rho (tv_of x))
         | None => w
         end.

  Lemma rho_plus_low w : w < n -> rho_plus w = rho w.
  Proof. intros H. unfold rho_plus. apply N.ltb_lt in H. rewrite H. reflexivity. Qed.

  Lemma rho_plus_fresh x : In x xs -> allocs rs x = true -> rho_plus (fresh_fn rs xs n (tv_of x)) = fresh_fn rs xs' n (rho (tv_of x)).
  Proof.
    intros Hx Ax. pose proof (fresh_fn_range rs xs n x (values_nodup st I) Hx Ax) as R. unfold rho_plus.
    assert (fresh_fn rs xs n (tv_of x) <? n = false) as -> by (apply N.ltb_ge; lia).
    destruct (find _ xs) as [y|] eqn:F.
    - apply find_some in F as (Hy & Hc). apply andb_true_iff in Hc as (Ay & Ey). apply N.eqb_eq in Ey.
      rewrite (fresh_fn_inj rs xs n y x (values_nodup st I) Hy Hx Ay Ax Ey). reflexivity.
    - exfalso. pose proof (find_none _ _ F x Hx) as Hn. cbn beta in Hn. rewrite Ax, N.eqb_refl in Hn. discriminate.
  Qed.

  Lemma rho_plus_high w : m <= w -> rho_plus w = w.
  Proof.
    intros H. destruct next_eq as (_ & Em). unfold rho_plus. assert (w <? n = false) as -> by (apply N.ltb_ge; lia).
    destruct (find _ xs) as [y|] eqn:F; [|reflexivity]. apply find_some in F as (Hy & Hc). apply andb_true_iff in Hc as (Ay & Ey). apply N.eqb_eq in Ey.
    pose proof (fresh_fn_range rs xs n y (values_nodup st I) Hy Ay). lia.
  Qed.

  (* every variable in [n, m) is the fresh variable of one allocating value *)
  Lemma mid_witness w : n <= w < m -> exists x, In x xs /\ allocs rs x = true /\ fresh_fn rs xs n (tv_of x) = w.
  Proof. intros H. destruct next_eq as (_ & Em). apply (fresh_fn_onto rs xs n w (values_nodup st I)). lia. Qed.

  Lemma rho_plus_mid w : n <= w < m -> n <= rho_plus w < m.
  Proof.
    intros H. destruct (mid_witness w H) as (x & Hx & Ax & <-). rewrite (rho_plus_fresh x Hx Ax).
    pose proof (xs_partner x Hx) as Hx'. pose proof (allocs_rename x) as Ax'. rewrite Ax in Ax'.
    pose proof (fresh_fn_range rs xs' n _ (values_nodup st' I') Hx' Ax') as R. rewrite tv_rename in R.
    destruct next_eq as (_ & Em). rewrite Em, nalloc_eq. exact R.
  Qed.

  Lemma rho_plus_inj a b : rho_plus a = rho_plus b -> a = b.
  Proof.
    destruct WR as (_ & Into & _).
    assert (Cls : forall w, (w < n /\ rho_plus w < n) \/ (n <= w < m /\ n <= rho_plus w < m) \/ (m <= w /\ rho_plus w = w)).
    { intros w. destruct (N.lt_ge_cases w n) as [Hw|Hw]; [left; split; [exact Hw|rewrite (rho_plus_low w Hw); exact (Into w Hw)]|].
      destruct (N.lt_ge_cases w m) as [Hm|Hm]; [right; left; split; [lia|apply rho_plus_mid; lia]|right; right; split; [exact Hm|exact (rho_plus_high w Hm)]]. }
    intros E. destruct (Cls a) as [(Ha & Ra)|[(Ha & Ra)|(Ha & Ra)]], (Cls b) as [(Hb & Rb)|[(Hb & Rb)|(Hb & Rb)]]; try lia.
    - rewrite (rho_plus_low a Ha), (rho_plus_low b Hb) in E. exact (rho_inj a b E).
    - destruct (mid_witness a Ha) as (x & Hx & Ax & <-). destruct (mid_witness b Hb) as (y & Hy & Ay & <-).
      rewrite (rho_plus_fresh x Hx Ax), (rho_plus_fresh y Hy Ay) in E.
      pose proof (xs_partner x Hx) as Hx'. pose proof (xs_partner y Hy) as Hy'.
      pose proof (allocs_rename x) as Ax'. rewrite Ax in Ax'. pose proof (allocs_rename y) as Ay'. rewrite Ay in Ay'.
      rewrite <- (tv_rename rho x), <- (tv_rename rho y) in E. pose proof (fresh_fn_inj rs xs' n _ _ (values_nodup st' I') Hx' Hy' Ax' Ay' E) as Ev.
      rewrite !tv_rename in Ev. apply rho_inj in Ev. rewrite (xs_var_inj x y Hx Hy Ev). reflexivity.
  Qed.

  Lemma rho_plus_onto w' : w' < m -> exists w, w < m /\ rho_plus w = w'.
  Proof.
    destruct WR as (_ & _ & _ & Onto & _). destruct next_eq as (E2 & Em). intros H. destruct (N.lt_ge_cases w' n) as [Hw|Hw].
    - destruct (Onto w' Hw) as (w & Hw0 & E). exists w. split; [lia|]. rewrite (rho_plus_low w Hw0). exact E.
    - destruct (fresh_fn_onto rs xs' n w' (values_nodup st' I')) as (x' & Hx' & Ax' & E); [rewrite <- nalloc_eq; lia|].
      destruct (xs'_partner x' Hx') as (x & Hx & <-). rewrite allocs_rename in Ax'. rewrite tv_rename in E.
      exists (fresh_fn rs xs n (tv_of x)). split; [pose proof (fresh_fn_range rs xs n x (values_nodup st I) Hx Ax'); lia|].
      rewrite (rho_plus_fresh x Hx Ax'). exact E.
  Qed.

  Lemma rename_plus x : In x xs -> rename_tsv rho_plus x = rename_tsv rho x.
  Proof.
    intros Hx. apply rename_ext. intros y Hy. apply rho_plus_low. apply (values_iff st x I) in Hx.
    exact (var_lt' _ _ y W (closed_subterms st x I Hx y Hy)).
  Qed.

  (* the emitted judgements of a value and of its partner correspond *)
  Lemma from_rules_rename x w e : In x xs ->
    from_rules rs x (fresh_fn rs xs n (tv_of x)) w e ->
    from_rules rs (rename_tsv rho x) (fresh_fn rs xs' n (tv_of (rename_tsv rho x))) (rho_plus w) (rename_te rho_plus e).
  Proof.
    intros Hx (r & Hr & H). pose proof EQ as EQ'. rewrite Forall_forall in EQ'.
    assert (G : from_rules rs (rename_tsv rho_plus x) (rho_plus (fresh_fn rs xs n (tv_of x))) (rho_plus w) (rename_te rho_plus e)).
    { exists r. split; [exact Hr|]. rewrite (equivariant_js r rho_plus x _ (EQ' r Hr)), (eff_rename_list rho_plus rho_plus_inj).
      change (rho_plus w, rename_te rho_plus e) with (rename_j rho_plus (w, e)). apply in_map. exact H. }
    rewrite (rename_plus x Hx) in G. rewrite tv_rename. destruct (allocs rs x) eqn:Ax.
    - rewrite (rho_plus_fresh x Hx Ax) in G. exact G.
    - apply (from_rules_blind rs FB _ _ _ _ _ (eq_trans (allocs_rename x) Ax) G).
  Qed.

  Lemma from_rules_unrename x w e : In x xs ->
    from_rules rs (rename_tsv rho x) (fresh_fn rs xs' n (tv_of (rename_tsv rho x))) (rho_plus w) (rename_te rho_plus e) ->
    from_rules rs x (fresh_fn rs xs n (tv_of x)) w e.
  Proof.
    intros Hx G0. pose proof EQ as EQ'. rewrite Forall_forall in EQ'.
    assert (G : from_rules rs (rename_tsv rho_plus x) (rho_plus (fresh_fn rs xs n (tv_of x))) (rho_plus w) (rename_te rho_plus e)).
    { rewrite (rename_plus x Hx). rewrite tv_rename in G0. destruct (allocs rs x) eqn:Ax.
      - rewrite (rho_plus_fresh x Hx Ax). exact G0.
      - apply (from_rules_blind rs FB _ _ _ _ _ (eq_trans (allocs_rename x) Ax) G0). }
    destruct G as (r & Hr & H). exists r. split; [exact Hr|].
    rewrite (equivariant_js r rho_plus x _ (EQ' r Hr)), (eff_rename_list rho_plus rho_plus_inj) in H.
    apply in_map_iff in H as (j & Ej & Hj). change (rho_plus w, rename_te rho_plus e) with (rename_j rho_plus (w, e)) in Ej.
    apply (rename_j_inj rho_plus rho_plus_inj) in Ej. subst j. exact Hj.
  Qed.

  (* infer_all commutes with the renaming *)
  Theorem infer_commutes :
    next s2 = next s1 /\
    (forall w, w < next st -> rho_plus w = rho w) /\
    (forall a b, rho_plus a = rho_plus b -> a = b) /\
    (forall w, w < next s1 -> rho_plus w < next s1) /\
    (forall w', w' < next s1 -> exists w, w < next s1 /\ rho_plus w = w') /\
    (forall w, next s1 <= w -> rho_plus w = w) /\
    forall w e, In e (jset s1 w) <-> In (rename_te rho_plus e) (jset s2 (rho_plus w)).
  Proof.
    destruct next_eq as (E2 & Em). destruct WR as (_ & Into & _).
    split; [exact E2|]. split; [exact rho_plus_low|]. split; [exact rho_plus_inj|]. split; [|split; [exact rho_plus_onto|split; [exact rho_plus_high|]]].
    - intros w Hw. fold m in Hw |- *. destruct (N.lt_ge_cases w n) as [Hl|Hl].
      + rewrite (rho_plus_low w Hl). pose proof (Into w Hl). lia.
      + apply rho_plus_mid. lia.
    - intros w e. destruct C1 as (_ & _ & _ & D1). destruct C2 as (_ & _ & _ & D2).
      rewrite (D1 w e), (D2 (rho_plus w) (rename_te rho_plus e)), J0, J0'. cbn [In]. split.
      + intros [[]|(x & Hx & H)]. right. exists (rename_tsv rho x). split; [exact (xs_partner x Hx)|].
        destruct WR as (En & _). rewrite <- En. exact (from_rules_rename x w e Hx H).
      + intros [[]|(x' & Hx' & H)]. right. destruct (xs'_partner x' Hx') as (x & Hx & <-). exists x. split; [exact Hx|].
        destruct WR as (En & _). rewrite <- En in H. exact (from_rules_unrename x w e Hx H).
  Qed.
End Commute.

(* ------------------------------------------------------------------ after assign_vars every inference set is empty *)
Definition infs_empty (st : tcs) : Prop := Forall (fun p : tyvar * list te => snd p = []) (infs st).

Lemma reg_infs_empty v : forall st, infs_empty st -> infs_empty (snd (reg v st)).
Proof.
  induction v as [t a args IH] using sv_ind'. intros st E. rewrite reg_unfold. cbv zeta.
  destruct (if is_stable (Node t a args) then lookup_stable (Node t a args) (stable st) else None); [exact E|].
  assert (G : forall l s, infs_empty s -> Forall (fun v => forall st, infs_empty st -> infs_empty (snd (reg v st))) l -> infs_empty (snd (reg_args l s))).
  { induction l as [|x r IHr]; intros s Es HF; cbn [reg_args]; [exact Es|]. inversion HF as [|? ? Hx Hr]; subst.
    specialize (Hx s Es). destruct (reg x s) as [tx s1]. cbn [snd] in Hx. specialize (IHr s1 Hx Hr). destruct (reg_args r s1). exact IHr. }
  specialize (G args st E IH). destruct (reg_args args st) as [tas st1]. cbn [snd] in *. unfold infs_empty. cbn [infs]. constructor; [reflexivity|exact G].
Qed.

Lemma assign_vars_infs_empty vs : forall w, jset (snd (assign_vars vs)) w = [].
Proof.
  assert (G : forall l st, infs_empty st -> infs_empty (snd (reg_list l st))).
  { induction l as [|x r IH]; intros st E; cbn [reg_list]; [exact E|]. pose proof (reg_infs_empty x st E) as Hx.
    destruct (reg x st) as [tx s1]. cbn [snd] in Hx. specialize (IH s1 Hx). destruct (reg_list r s1). exact IH. }
  intros w. unfold assign_vars. specialize (G vs empty_tcs (Forall_nil _)). unfold jset, aset.
  destruct (find (fun p => fst p =? w) (infs (snd (reg_list vs empty_tcs)))) as [p|] eqn:F; [|reflexivity].
  apply find_some in F as (Hin & _). unfold infs_empty in G. rewrite Forall_forall in G. exact (G p Hin).
Qed.

(* ------------------------------------------------------------------ the statement C02 uses *)
Theorem infer_order_lemma vs sigma : Permutation (seq 0 (length vs)) sigma ->
  let vs' := map (fun i => nth i vs dsv) sigma in
  forall s1 s2, infer_all default_rule_set (snd (assign_vars vs)) = Ok s1 -> infer_all default_rule_set (snd (assign_vars vs')) = Ok s2 ->
  exists rho : tyvar -> tyvar,
    next s2 = next s1 /\
    (forall a b, rho a = rho b -> a = b) /\
    (forall w, w < next s1 -> rho w < next s1) /\
    (forall w', w' < next s1 -> exists w, w < next s1 /\ rho w = w') /\
    (forall w, next s1 <= w -> rho w = w) /\
    fst (assign_vars vs') = map (fun i => rename_tsv rho (nth i (fst (assign_vars vs)) dtsv)) sigma /\
    forall w e, In e (jset s1 w) <-> In (rename_te rho e) (jset s2 (rho w)).
Proof.
  intros P vs' s1 s2 H1 H2. subst vs'. destruct (worlds_of_perm vs sigma P) as (W & W' & Hpr & F & S). cbv zeta in *.
  set (vs' := map (fun i => nth i vs dsv) sigma) in *.
  set (prs := root_pairs (fst (assign_vars vs)) (fst (assign_vars vs')) sigma) in *.
  pose proof (perm_names_one_alloc default_rules (Permutation_refl _)) as OA. fold default_rule_set in OA.
  destruct (infer_commutes _ _ prs W W' Hpr default_rule_set OA default_rules_fresh_blind default_rules_equivariant
              (assign_vars_infs_empty vs) (assign_vars_infs_empty vs') s1 s2 H1 H2) as (En & Low & Inj & Into & Onto & High & J).
  exists (rho_plus (snd (assign_vars vs)) (snd (assign_vars vs')) prs default_rule_set).
  split; [exact En|]. split; [exact Inj|]. split; [exact Into|]. split; [exact Onto|]. split; [exact High|]. split; [|exact J].
  destruct (worlds_renaming _ _ prs W W' Hpr) as (_ & _ & _ & _ & _ & Hren & _).
  rewrite <- S. rewrite <- (map_map (fun i => nth i (fst (assign_vars vs)) dtsv) (rename_tsv _)). rewrite <- F. rewrite map_map.
  apply map_ext_in. intros q Hq. rewrite <- (Hren q Hq). symmetry. apply rename_ext. intros y Hy. apply Low.
  assert (Hr : In (fst q) (map fst prs)) by (apply in_map; exact Hq).
  destruct (w_uniq _ _ W) as [HP _]. rewrite Forall_forall in HP.
  exact (var_lt' _ _ y W (closed_subterms _ (fst q) (w_inv _ _ W) (HP _ Hr) y Hy)).
Qed.
